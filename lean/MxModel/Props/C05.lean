import MxModel.Proofs.ExecSound
import MxModel.Proofs.ExecFrame
import MxModel.Proofs.ExecKeep
import MxModel.Props.C01
import MxModel.Proofs.ExecCertExamples
/-!
# C05 – a failed evaluation leaves a consistent, retryable state

Failure points are every `Prog.raise` of every formula behaviour, `None` returned where it is
not allowed (`_store_value`), and the depth limit (`CallStack.append`); all theorems are for
every environment, every element, every reachable state.

Three groups of statements about "the state stays correct":
* `_partial` (hypothesis `LimitNotCaughtInThisCall`, see C01): any formula behaviour, including
  handlers that catch anything; the evaluation at hand does not hit the depth limit.  Nothing is
  assumed about EARLIER evaluations (the limit flag is a ghost, `C01.limit_flag_is_ghost`).
* `_deep_propagates` (hypothesis `DeepPropagatesEnv`: handlers let `DeepReferenceError` through) and
  `_nocatch` (hypothesis `NoCatchEnv`: no handler returns a value, the regime of C02): EVERY failure
  kind, the depth limit included, hit anywhere – no hypothesis about the limit at all.  An uncaught
  depth error rolls the whole chain back like any other failure.
* what is left out is exactly the known finding C01-caught-deep: a formula that catches the depth
  error stores a value that depends on the limit (`C01.full_statement_fails`).
-/
namespace MxModel.C05
open MxModel.Exec

variable (env : Env) (inp : Node → Option Val)

/-- **No formula is left marked as executing**: after any top-level call – returned or
failed at any depth with any kind of error, the depth limit included – the call stack, the index
stack, the reference stack and the roll-back list are empty again. -/
theorem failure_quiescent (n : Node) (s : St) (hq : Quiescent s) :
    Quiescent (evalTop env n s).2 :=
  evalTop_quiescent env n s hq

/-- **The top-level call raises an error carrying the original exception, and the state
stays correct**: the `FormulaError` carries exactly the error that pure evaluation of the
element ends in, and afterwards every held value is still the spec's
(partial: `LimitNotCaughtInThisCall`, see C01 – about THIS call only). -/
theorem failure_consistent_partial (n : Node) (s : St) (e : Err) (tb : List Node)
    (hg : Good env inp s) (hlim : LimitNotCaughtInThisCall env n s)
    (hfail : (evalTop env n s).1 = .formulaError e tb) :
    Den env inp n (.err e) ∧ Good env inp (evalTop env n s).2 :=
  ⟨(C01.eval_value_is_denotation_partial env inp n s hg hlim).2.1 e tb hfail,
   (C01.eval_value_is_denotation_partial env inp n s hg hlim).2.2⟩

/-- **Every later evaluation returns the same values as if the failure had not happened**:
the state after the failed call `m` answers any query `n` with the spec's value – which
does not mention the failure or the order of earlier calls. -/
theorem retry_unaffected_partial (m n : Node) (s : St) (v : Val)
    (hg : Good env inp s)
    (h1 : LimitNotCaughtInThisCall env m s)
    (h2 : LimitNotCaughtInThisCall env n (evalTop env m s).2)
    (hv : (evalTop env n (evalTop env m s).2).1 = .ok v) :
    Den env inp n (.ok v) :=
  (C01.eval_value_is_denotation_partial env inp n _
    (C01.eval_value_is_denotation_partial env inp m s hg h1).2.2 h2).1 v hv

/-- **ANY failure – the depth limit included – leaves a correct state, for formulas that handle no
failure** (`NoCatchEnv`; no hypothesis about the limit, in this call or before): whether the call
returned, failed with any error at any depth, or was stopped by the limit anywhere in the chain,
every value held afterwards is the spec's, a returned value is the spec's, and the user's inputs
are untouched. -/
theorem failure_consistent_nocatch (hnc : NoCatchEnv env) (n : Node) (s : St) (hg : Good env inp s) :
    Good env inp (evalTop env n s).2 ∧ (evalTop env n s).2.inputs = s.inputs ∧
    (∀ v, (evalTop env n s).1 = .ok v → Den env inp n (.ok v)) :=
  ⟨(C01.eval_value_is_denotation_nocatch_partial env inp hnc n s hg).2, (evalTop_keeps env n s).2,
   (C01.eval_value_is_denotation_nocatch_partial env inp hnc n s hg).1⟩

/-- …**and for formulas whose handlers let `DeepReferenceError` through** (`DeepPropagatesEnv`):
additionally the error carried is the depth error or the spec's. -/
theorem failure_consistent_deep_propagates (hdp : DeepPropagatesEnv env) (n : Node) (s : St)
    (hg : Good env inp s) :
    Good env inp (evalTop env n s).2 ∧ (evalTop env n s).2.inputs = s.inputs ∧
    (∀ v, (evalTop env n s).1 = .ok v → Den env inp n (.ok v)) ∧
    (∀ e tb, (evalTop env n s).1 = .formulaError e tb → e = .deep ∨ Den env inp n (.err e)) :=
  have h := C01.eval_value_is_denotation_deep_propagates_partial env inp hdp n s hg
  ⟨h.2.2, (evalTop_keeps env n s).2, h.1, h.2.1⟩

/-- **Retry after ANY failure** (`NoCatchEnv`): whatever the call of `m` did – returned, failed,
hit the limit – a later call of `n` that returns a value returns the spec's, with no hypothesis
about the limit in either call. -/
theorem retry_unaffected_nocatch (hnc : NoCatchEnv env) (m n : Node) (s : St) (v : Val)
    (hg : Good env inp s) (hv : (evalTop env n (evalTop env m s).2).1 = .ok v) :
    Den env inp n (.ok v) :=
  (failure_consistent_nocatch env inp hnc n _ (failure_consistent_nocatch env inp hnc m s hg).1).2.2 v hv

theorem retry_unaffected_deep_propagates (hdp : DeepPropagatesEnv env) (m n : Node) (s : St) (v : Val)
    (hg : Good env inp s) (hv : (evalTop env n (evalTop env m s).2).1 = .ok v) :
    Den env inp n (.ok v) :=
  (failure_consistent_deep_propagates env inp hdp n _
    (failure_consistent_deep_propagates env inp hdp m s hg).1).2.2.1 v hv

/-- **Sequences of successive failures and repairs**: after ANY history of the thirteen-operation
edit language of C02 – top-level calls that return, fail with any error or are stopped by the
limit, in any number and order, interleaved with the repairs (reference, formula, flag and value
edits, cells created and deleted, limit changes) – every held value is the spec's under the CURRENT
definitions and inputs, the executor is idle, and every later call that returns a value returns
the spec's: the values of a model that never failed.  (Regime `C02.WF`: terminating, `NoCatch`,
statically scoped; `Admissible`: the edits stay in the regime.  No hypothesis about the limit.) -/
theorem successive_failures_consistent (lt : Node → Node → Prop) (ho : StrictOrder lt) (env0 : Env)
    (hw0 : C02.WF env0 lt) (ops : List C02.Op) (hadm : C02.Admissible lt (env0, {}) ops) :
    Good (C02.run (env0, {}) ops).1 (inpOf (C02.run (env0, {}) ops).2) (C02.run (env0, {}) ops).2 ∧
    Quiet (C02.run (env0, {}) ops).2 ∧
    ∀ n v, (evalTop (C02.run (env0, {}) ops).1 n (C02.run (env0, {}) ops).2).1 = .ok v →
      Den (C02.run (env0, {}) ops).1 (inpOf (C02.run (env0, {}) ops).2) n (.ok v) :=
  have h := C02.run_ci lt ho ops (env0, {}) hw0 (CI.empty env0 lt) hadm
  ⟨h.1.good, h.1.quiet, fun n => (C01.eval_after_any_history_partial lt ho env0 hw0 ops hadm n).1⟩

/-- **No element on the failing chain acquires a value**: in a correct state no element
whose evaluation ends in an error holds a value – so after the failed call neither the
element called nor any element whose failure propagated holds one. -/
theorem failing_elements_hold_no_value (s : St) (hg : Good env inp s) (m : Node) (e : Err)
    (hc : env.cached m.1 = true) (hden : Den env inp m (.err e)) : lookup s.data m = none := by
  cases hl : lookup s.data m with
  | none => rfl
  | some v =>
    have := Den_det env inp m _ _ (hg.sound m v hc hl) hden
    cases this

/-- **Elements completed before the failure keep correct values**: an evaluation, failed or
not, never removes a held value nor changes it, and leaves the user inputs alone. -/
theorem held_values_kept_partial (n m : Node) (s : St) (v : Val)
    (hg : Good env inp s) (hlim : LimitNotCaughtInThisCall env n s)
    (hc : env.cached m.1 = true) (hl : lookup s.data m = some v) :
    lookup (evalTop env n s).2.data m = some v ∧ (evalTop env n s).2.inputs = s.inputs := by
  have hk := evalTop_keeps env n s
  refine ⟨?_, hk.2⟩
  have hsome := hk.1 m (by rw [hl]; rfl)
  cases hl' : lookup (evalTop env n s).2.data m with
  | none => rw [hl'] at hsome; cases hsome
  | some w =>
    have hg' := (C01.eval_value_is_denotation_partial env inp n s hg hlim).2.2
    have := Den_det env inp m _ _ (hg'.sound m w hc hl') (hg.sound m v hc hl)
    cases this; rfl

/-- …the same for ANY failure, the limit included, when formulas handle no failure. -/
theorem held_values_kept_nocatch (hnc : NoCatchEnv env) (n m : Node) (s : St) (v : Val)
    (hg : Good env inp s) (hc : env.cached m.1 = true) (hl : lookup s.data m = some v) :
    lookup (evalTop env n s).2.data m = some v ∧ (evalTop env n s).2.inputs = s.inputs := by
  have hk := evalTop_keeps env n s
  refine ⟨?_, hk.2⟩
  have hsome := hk.1 m (by rw [hl]; rfl)
  cases hl' : lookup (evalTop env n s).2.data m with
  | none => rw [hl'] at hsome; cases hsome
  | some w =>
    have hg' := (failure_consistent_nocatch env inp hnc n s hg).1
    have := Den_det env inp m _ _ (hg'.sound m w hc hl') (hg.sound m v hc hl)
    cases this; rfl

/-- **Chains shorter than the configured limit never hit it**, whatever is cached and whatever
earlier calls did: in particular the call does not fail with the depth error. -/
theorem below_limit_no_deep (n : Node) (s : St) (r : Res)
    (hg : Good env inp s)
    (hd : denoteN env inp (env.maxdepth + 1) n = (r, false)) :
    LimitNotCaughtInThisCall env n s ∧
    (∀ v, r = .ok v → (evalTop env n s).1 = .ok v) ∧
    (∀ e, r = .err e → ∃ tb, (evalTop env n s).1 = .formulaError e tb) :=
  C01.eval_returns_denotation env inp n s r hg hd

/-! ### Where `None` is "not allowed": the `allow_none` look-up chain

`CellsImpl._store_value` fails with `NoneReturnedError` when the formula returned `None` and
`get_property("allow_none")` is false.  The setting is looked up cells → space → model and the
nearest one that is set decides – in particular an explicit `False` on a cells is not
overridden by a `True` further up, and nothing set below the model means the model's. -/

theorem allow_none_own_setting_decides (b : Bool) (space : Option Bool) (model : Bool) :
    resolveAllowNone (some b) space model = b := rfl

theorem allow_none_space_decides_when_cells_unset (b : Bool) (model : Bool) :
    resolveAllowNone none (some b) model = b := rfl

theorem allow_none_model_decides_when_unset_below (model : Bool) :
    resolveAllowNone none none model = model := rfl

/-- the look-up never answers "allowed" unless some level says so -/
theorem allow_none_only_if_some_level_allows (cell space : Option Bool) (model : Bool)
    (h : resolveAllowNone cell space model = true) : cell = some true ∨ space = some true ∨ model = true := by
  cases cell with
  | some b => left; simpa [resolveAllowNone] using h
  | none =>
    cases space with
    | some b => right; left; simpa [resolveAllowNone] using h
    | none => right; right; simpa [resolveAllowNone] using h

example : resolveAllowNone (some false) (some true) true = false := by decide
example : resolveAllowNone none (some false) true = false := by decide

/-! Non-vacuity: a concrete failure three frames deep (the element called, a callee that
catches nothing, a raise) from the empty state: quiescent afterwards, nothing held, the
error is the original `ValueError`, and a later call of the healthy element works. -/
def fCells : CellId → Option Expr
  | 0 => some (.add (.call 1 []) (.lit 1))
  | 1 => some (.add (.call 3 []) (.call 2 []))
  | 2 => some (.raise kValue)
  | 3 => some (.lit 7)
  | _ => none

def fEnv : Env where
  formula := fun n => match fCells n.1 with
    | some e => formulaOf (fun c => (fCells c).map (fun _ => 0)) e n.2
    | none => .raise (.user kName)
  cached := fun _ => true
  allowNone := fun _ => false
  refs := fun _ => .none
  maxdepth := 10

example : (evalTop fEnv (0, []) {}).1 = .formulaError (.user kValue) [(0, []), (1, []), (2, [])] ∧
    ((evalTop fEnv (0, []) {}).2.data.map (·.1)) = [(3, [])] ∧
    (evalTop fEnv (0, []) {}).2.stack = [] ∧
    (evalTop fEnv (3, []) (evalTop fEnv (0, []) {}).2).1 = .ok (.int 7) := by decide

/-! ### The limit is part of the definitions: histories change it, administrative calls do nothing

`mx.set_recursion(k)` writes `CallStack.maxdepth` and nothing else (`Env.maxdepth`; no value is
cleared).  The administrative calls of `Exec.Admin` – starting / stopping / reading / clearing a
stack-trace session (which replaces the call stack object by one of the other class *with the
same limit*), `get_recursion`, `get_error`, `get_traceback`, `set_recursion` to the value the
limit has – are the identity on the state and on the definitions.  So every theorem above,
being stated for an arbitrary `env`, holds for the limit in force at each evaluation of a
history that raises and lowers the limit between evaluations; what has to be shown is that the
state such a history leaves is one the theorems apply to.

`Env.maxdepth = 0`: in the model and after `mx.set_recursion(0)` alike the limit 0 admits ONE frame
(`CallStack.append` tests `len(self) > maxdepth`; `evalTop` gives `runN` the fuel `maxdepth + 1`).  But
for that one value the administrative calls are NOT the identity in modelx: `start_stacktrace` /
`stop_stacktrace` rebuild the call stack with `maxdepth=self.callstack.maxdepth`, and
`CallStack.__init__` tests `if maxdepth:` – zero is falsy, the limit silently becomes the default
(100000).  That was the code before 51dce2e (repaired: `if maxdepth is not None:`; witness
`notes/EXECP-repro_limit0_trace_session.py`); the harness configures limits ≥ 1 only. -/

def withMaxdepth (env : Env) (k : Nat) : Env := { env with maxdepth := k }

theorem denoteBody_limit_free (k : Nat) (f : Node → Res × Bool) :
    ∀ p : Prog, denoteBody (withMaxdepth env k) f p = denoteBody env f p := by
  intro p
  induction p with
  | ret v => rfl
  | raise e => rfl
  | reraise e => rfl
  | read a r kk ih => simp only [denoteBody]; exact ih _
  | call n kk ih =>
    simp only [denoteBody]
    have : calleeAt (withMaxdepth env k) f n = calleeAt env f n := rfl
    rw [this, ih]

theorem denoteN_limit_free (k : Nat) :
    ∀ d n, denoteN (withMaxdepth env k) inp d n = denoteN env inp d n := by
  intro d
  induction d with
  | zero => intro n; rfl
  | succ d ih =>
    intro n
    have hf : denoteN (withMaxdepth env k) inp d = denoteN env inp d := funext ih
    simp only [denoteN]
    rw [hf, denoteBody_limit_free]
    rfl

/-- **The specification does not mention the limit**: the uncached value of an element is the
same under every recursion limit. -/
theorem spec_ignores_limit (k : Nat) (n : Node) (r : Res) :
    Den (withMaxdepth env k) inp n r ↔ Den env inp n r := by
  constructor
  · rintro ⟨d, h⟩; exact ⟨d, by rw [← denoteN_limit_free]; exact h⟩
  · rintro ⟨d, h⟩; exact ⟨d, by rw [denoteN_limit_free]; exact h⟩

/-- **Changing the limit needs no clearing**: values held under one limit are correct under any
other. -/
theorem held_values_valid_under_any_limit (k : Nat) (s : St) (hg : Good env inp s) :
    Good (withMaxdepth env k) inp s :=
  ⟨fun n v hc hl => (spec_ignores_limit env inp k n _).mpr (hg.sound n v hc hl),
   fun n v hc hi => hg.inputsHeld n v hc hi⟩

/-- operations of a history that also configures the limit and makes administrative calls -/
inductive LOp
  | eval (n : Node)
  | setLimit (k : Nat)
  | admin (a : Admin)

def lstep : Env × St → LOp → Env × St
  | (env, s), .eval n => (env, (evalTop env n s).2)
  | (env, s), .setLimit k => (withMaxdepth env k, s)
  | (env, s), .admin a => (env, s.admin a)

def lrun (st : Env × St) (ops : List LOp) : Env × St := ops.foldl lstep st

/-- **Administrative calls are semantic no-ops**: definitions (the limit included) and state
are literally unchanged, so whatever is evaluated next behaves as if the call had not been made. -/
theorem admin_changes_nothing (st : Env × St) (a : Admin) : lstep st (.admin a) = st := rfl

/-- the limit in force is the one configured last -/
def lastLimit (k0 : Nat) : List LOp → Nat
  | [] => k0
  | .setLimit k :: ops => lastLimit k ops
  | _ :: ops => lastLimit k0 ops

theorem limit_is_last_configured (st : Env × St) (ops : List LOp) :
    (lrun st ops).1.maxdepth = lastLimit st.1.maxdepth ops := by
  induction ops generalizing st with
  | nil => rfl
  | cons op rest ih =>
    obtain ⟨env, s⟩ := st
    cases op with
    | eval n => exact ih _
    | setLimit k => exact ih _
    | admin a => exact ih _

/-- the ghost flag is never lowered (it is a ghost: `C01.limit_flag_is_ghost`) -/
theorem evalTop_hit_sticky (n : Node) (s : St) (h : s.hit = true) : (evalTop env n s).2.hit = true := by
  rw [evalTop_hit, h]; rfl

/-- every evaluation of the history stays within the limit in force when it is made – in its own
call; nothing links the calls -/
def LimitFree : Env × St → List LOp → Prop
  | _, [] => True
  | st, op :: ops =>
    (match op with
      | .eval n => LimitNotCaughtInThisCall st.1 n st.2
      | _ => True) ∧ LimitFree (lstep st op) ops

/-- **A history that raises and lowers the limit between evaluations and makes administrative
calls leaves a consistent, retryable state** (partial: `LimitFree` – no evaluation of the history
hits the limit in force at that moment, `LimitNotCaughtInThisCall` for each): every held value
is the spec's under the limit now in force, and the executor is idle. -/
theorem limit_history_consistent_partial (ops : List LOp) (st : Env × St)
    (hg : Good st.1 inp st.2) (hq : Quiescent st.2) (hfree : LimitFree st ops) :
    Good (lrun st ops).1 inp (lrun st ops).2 ∧ Quiescent (lrun st ops).2 := by
  induction ops generalizing st with
  | nil => exact ⟨hg, hq⟩
  | cons op rest ih =>
    refine ih (lstep st op) ?_ ?_ hfree.2
    · obtain ⟨env, s⟩ := st
      cases op with
      | eval n => exact (C01.eval_value_is_denotation_partial env inp n s hg hfree.1).2.2
      | setLimit k => exact held_values_valid_under_any_limit env inp k s hg
      | admin a => exact hg
    · obtain ⟨env, s⟩ := st
      cases op with
      | eval n => exact evalTop_quiescent env n s hq
      | setLimit k => exact hq
      | admin a => exact hq

/-- **…with evaluations that DO exceed the limit, for formulas that do not catch the depth error**:
generic form – `P` is a property of the definitions that limit changes keep and under which a
top-level call keeps the state correct. -/
theorem limit_history_consistent_of (P : Env → Prop) (hP : ∀ env k, P env → P (withMaxdepth env k))
    (hstep : ∀ env n s, P env → Good env inp s → Good env inp (evalTop env n s).2) :
    ∀ (ops : List LOp) (st : Env × St), P st.1 → Good st.1 inp st.2 → Quiescent st.2 →
      Good (lrun st ops).1 inp (lrun st ops).2 ∧ Quiescent (lrun st ops).2 ∧ P (lrun st ops).1 := by
  intro ops
  induction ops with
  | nil => intro st hp hg hq; exact ⟨hg, hq, hp⟩
  | cons op rest ih =>
    intro st hp hg hq
    obtain ⟨env, s⟩ := st
    cases op with
    | eval n => exact ih (env, (evalTop env n s).2) hp (hstep env n s hp hg) (evalTop_quiescent env n s hq)
    | setLimit k => exact ih (withMaxdepth env k, s) (hP env k hp) (held_values_valid_under_any_limit env inp k s hg) hq
    | admin a => exact ih (env, s) hp hg hq

/-- **Any history of evaluations – returned, failed, stopped by the limit in force –, limit changes
and administrative calls leaves a consistent, retryable state when formulas let
`DeepReferenceError` propagate** (no hypothesis about the limit). -/
theorem limit_history_consistent_deep_propagates (ops : List LOp) (st : Env × St)
    (hdp : DeepPropagatesEnv st.1) (hg : Good st.1 inp st.2) (hq : Quiescent st.2) :
    Good (lrun st ops).1 inp (lrun st ops).2 ∧ Quiescent (lrun st ops).2 :=
  have h := limit_history_consistent_of inp DeepPropagatesEnv (fun _ _ h => h)
    (fun env n s hp hg => (failure_consistent_deep_propagates env inp hp n s hg).1) ops st hdp hg hq
  ⟨h.1, h.2.1⟩

/-- …**or handle no failure** (`NoCatchEnv`). -/
theorem limit_history_consistent_nocatch (ops : List LOp) (st : Env × St)
    (hnc : NoCatchEnv st.1) (hg : Good st.1 inp st.2) (hq : Quiescent st.2) :
    Good (lrun st ops).1 inp (lrun st ops).2 ∧ Quiescent (lrun st ops).2 :=
  have h := limit_history_consistent_of inp NoCatchEnv (fun _ _ h => h)
    (fun env n s hp hg => (failure_consistent_nocatch env inp hp n s hg).1) ops st hnc hg hq
  ⟨h.1, h.2.1⟩

/-- …hence **after any such history a chain that stays within the limit configured last
evaluates, and returns the spec's value** – whatever limits were in force before and whatever
administrative calls were made. -/
theorem within_last_limit_evaluates_partial (ops : List LOp) (st : Env × St)
    (hg : Good st.1 inp st.2) (hq : Quiescent st.2) (hfree : LimitFree st ops) (n : Node) (r : Res)
    (hd : denoteN (lrun st ops).1 inp (lastLimit st.1.maxdepth ops + 1) n = (r, false)) :
    LimitNotCaughtInThisCall (lrun st ops).1 n (lrun st ops).2 ∧
    (∀ v, r = .ok v → (evalTop (lrun st ops).1 n (lrun st ops).2).1 = .ok v) := by
  obtain ⟨hg', _⟩ := limit_history_consistent_partial inp ops st hg hq hfree
  rw [← limit_is_last_configured] at hd
  have := C01.eval_returns_denotation (lrun st ops).1 inp n (lrun st ops).2 r hg' hd
  exact ⟨this.1, this.2.1⟩

/-- the same after a history in which evaluations DID exceed the limits in force (formulas let the
depth error propagate): raising the limit afterwards is enough -/
theorem within_last_limit_evaluates_deep_propagates (ops : List LOp) (st : Env × St)
    (hdp : DeepPropagatesEnv st.1) (hg : Good st.1 inp st.2) (hq : Quiescent st.2) (n : Node) (r : Res)
    (hd : denoteN (lrun st ops).1 inp (lastLimit st.1.maxdepth ops + 1) n = (r, false)) :
    LimitNotCaughtInThisCall (lrun st ops).1 n (lrun st ops).2 ∧
    (∀ v, r = .ok v → (evalTop (lrun st ops).1 n (lrun st ops).2).1 = .ok v) := by
  obtain ⟨hg', _⟩ := limit_history_consistent_deep_propagates inp ops st hdp hg hq
  rw [← limit_is_last_configured] at hd
  have := C01.eval_returns_denotation (lrun st ops).1 inp n (lrun st ops).2 r hg' hd
  exact ⟨this.1, this.2.1⟩

/-! Non-vacuity: `chain(x) = chain(x-1) + 1`, limit 3, a stack-trace session, then `chain(5)`:
`DeepReferenceError` as before the session; nothing held; after raising the limit it evaluates. -/
def lCells : CellId → Option Expr
  | 0 => some (.ite (.lt (.lit 0) (.param 0)) (.add (.call 0 [.sub (.param 0) (.lit 1)]) (.lit 1)) (.lit 0))
  | _ => none

def lEnv : Env where
  formula := fun n => match lCells n.1 with
    | some e => formulaOf (fun c => (lCells c).map (fun _ => 1)) e n.2
    | none => .raise (.user kName)
  cached := fun _ => true
  allowNone := fun _ => false
  refs := fun _ => .none
  maxdepth := 100

def lOps : List LOp := [.setLimit 3, .admin .startTrace, .admin .getTrace, .admin .stopTrace]

example : (lrun (lEnv, {}) lOps).1.maxdepth = 3 := by decide
example : (evalTop (lrun (lEnv, {}) lOps).1 (0, [.int 5]) (lrun (lEnv, {}) lOps).2).1 =
    .formulaError .deep [(0, [.int 5]), (0, [.int 4]), (0, [.int 3]), (0, [.int 2])] := by decide
example : (evalTop (lrun (lEnv, {}) lOps).1 (0, [.int 5]) (lrun (lEnv, {}) lOps).2).2.data = [] := by decide
example : (evalTop (lrun (lEnv, {}) (lOps ++ [.eval (0, [.int 5]), .setLimit 9])).1 (0, [.int 5])
    (lrun (lEnv, {}) (lOps ++ [.eval (0, [.int 5]), .setLimit 9])).2).1 = .ok (.int 5) := by decide

/-! The same program handles no failure, so the history in which `chain(5)` EXCEEDS the limit of 3 –
the flag `hit` is up from then on – is covered by `limit_history_consistent_nocatch`: the state it
leaves is correct, and (`within_last_limit_evaluates…`) after raising the limit `chain(5)` evaluates. -/
theorem lEnv_nocatch : NoCatchEnv lEnv := by
  intro n
  show NoCatch (match lCells n.1 with
    | some e => formulaOf (fun c => (lCells c).map (fun _ => 1)) e n.2
    | none => .raise (.user kName))
  cases h : lCells n.1 with
  | none => trivial
  | some e =>
    refine (formulaOf_pw (fun _ => True) (fun _ => true) (fun _ _ => trivial) _ e n.2 ?_ ?_).1
    · match n.1, h with
      | 0, h => cases h; rfl
    · match n.1, h with
      | 0, h => cases h; rfl

def lOps2 : List LOp := lOps ++ [.eval (0, [.int 5]), .setLimit 9]

example : (lrun (lEnv, {}) lOps2).2.hit = true := by decide

example : Good (lrun (lEnv, {}) lOps2).1 (fun _ => none) (lrun (lEnv, {}) lOps2).2 :=
  (limit_history_consistent_nocatch (fun _ => none) lOps2 (lEnv, {}) lEnv_nocatch
    ⟨by intro n v _ hl; simp at hl, by intro n v _ hi; cases hi⟩ ⟨rfl, rfl, rfl, rfl⟩).1

/-! Successive failures and repairs in the edit language of C02 (program `C02.xEnv`): `c3()` is
stopped by a limit of one frame, the limit is raised, `c3()` is 36; reference `r1` is deleted – `c3()`
fails in `c1` –, then set again: `c3()` is 22.  The history is admissible; the theorem gives a
correct idle state at its end and the spec's value for every later call. -/
def sOps : List C02.Op :=
  [.maxdepth 1, .eval (3, []), .maxdepth 50, .eval (3, []), .delRef 1, .eval (3, []), .setRef 1 (.int 1)]

theorem sOps_admissible : C02.Admissible idLt (C02.xEnv, {}) sOps :=
  C02.xOps_admissible sOps _ C02.xEnv_wf (by
    intro op h; simp [sOps] at h; rcases h with rfl | rfl | rfl | rfl | rfl | rfl | rfl <;> trivial)

example : (evalTop (C02.run (C02.xEnv, {}) (sOps.take 1)).1 (3, []) (C02.run (C02.xEnv, {}) (sOps.take 1)).2).1 =
      .formulaError .deep [(3, []), (2, [.int 1])] ∧
    (C02.run (C02.xEnv, {}) sOps).2.hit = true ∧
    (evalTop (C02.run (C02.xEnv, {}) (sOps.take 5)).1 (3, []) (C02.run (C02.xEnv, {}) (sOps.take 5)).2).1 =
      .formulaError (.user kAttr) [(3, []), (2, [.int 1]), (1, [.int 1])] ∧
    (evalTop (C02.run (C02.xEnv, {}) sOps).1 (3, []) (C02.run (C02.xEnv, {}) sOps).2).1 = .ok (.int 22) := by
  decide

example : Good (C02.run (C02.xEnv, {}) sOps).1 (inpOf (C02.run (C02.xEnv, {}) sOps).2)
    (C02.run (C02.xEnv, {}) sOps).2 :=
  (successive_failures_consistent idLt idLt_strict C02.xEnv C02.xEnv_wf sOps sOps_admissible).1

end MxModel.C05
