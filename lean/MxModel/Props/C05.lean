import MxModel.Proofs.ExecSound
import MxModel.Proofs.ExecFrame
import MxModel.Proofs.ExecKeep
import MxModel.Props.C01
/-!
# C05 – a failed evaluation leaves a consistent, retryable state

Failure points are every `Prog.raise` of every formula behaviour, `None` returned where it is
not allowed (`_store_value`), and the depth limit (`CallStack.append`); all theorems are for
every environment, every element, every reachable state.
-/
namespace MxModel.C05
open MxModel.Exec

variable (env : Env) (inp : Node → Option Val)

/-- **No formula is left marked as executing**: after any top-level call – returned or
failed at any depth with any kind of error – the call stack, the index stack, the
reference stack and the roll-back list are empty again. -/
theorem failure_quiescent (n : Node) (s : St) (hq : Quiescent s) :
    Quiescent (evalTop env n s).2 :=
  evalTop_quiescent env n s hq

/-- **The top-level call raises an error carrying the original exception, and the state
stays correct**: the `FormulaError` carries exactly the error that pure evaluation of the
element ends in, and afterwards every held value is still the spec's
(partial: `LimitNeverCaught`, see C01). -/
theorem failure_consistent_partial (n : Node) (s : St) (e : Err) (tb : List Node)
    (hg : Good env inp s) (h0 : s.hit = false) (hend : (evalTop env n s).2.hit = false)
    (hfail : (evalTop env n s).1 = .formulaError e tb) :
    Den env inp n (.err e) ∧ Good env inp (evalTop env n s).2 :=
  ⟨(C01.eval_value_is_denotation_partial env inp n s hg h0 hend).2.1 e tb hfail,
   (C01.eval_value_is_denotation_partial env inp n s hg h0 hend).2.2⟩

/-- **Every later evaluation returns the same values as if the failure had not happened**:
the state after the failed call `m` answers any query `n` with the spec's value – which
does not mention the failure or the order of earlier calls. -/
theorem retry_unaffected_partial (m n : Node) (s : St) (v : Val)
    (hg : Good env inp s) (h0 : s.hit = false)
    (h1 : (evalTop env m s).2.hit = false)
    (h2 : (evalTop env n (evalTop env m s).2).2.hit = false)
    (hv : (evalTop env n (evalTop env m s).2).1 = .ok v) :
    Den env inp n (.ok v) :=
  (C01.eval_value_is_denotation_partial env inp n _
    (C01.eval_value_is_denotation_partial env inp m s hg h0 h1).2.2 h1 h2).1 v hv

/-- **No element on the failing chain acquires a value**: in a correct state no element
whose evaluation ends in an error holds a value – so after the failed call neither the
element called nor any element whose failure propagated holds one. -/
theorem failing_elements_hold_no_value (s : St) (hg : Good env inp s) (m : Node) (e : Err)
    (hc : env.cached m.1 = true) (hden : Den env inp m (.err e)) : lookup s.data m = none := by
  cases hl : lookup s.data m with
  | none => rfl
  | some v =>
    have := Den_det env inp m _ _ (hg.sound m v hc hl) hden
    cases this

/-- **Elements completed before the failure keep correct values**: an evaluation, failed or
not, never removes a held value nor changes it, and leaves the user inputs alone. -/
theorem held_values_kept_partial (n m : Node) (s : St) (v : Val)
    (hg : Good env inp s) (h0 : s.hit = false) (hend : (evalTop env n s).2.hit = false)
    (hc : env.cached m.1 = true) (hl : lookup s.data m = some v) :
    lookup (evalTop env n s).2.data m = some v ∧ (evalTop env n s).2.inputs = s.inputs := by
  have hk := evalTop_keeps env n s
  refine ⟨?_, hk.2⟩
  have hsome := hk.1 m (by rw [hl]; rfl)
  cases hl' : lookup (evalTop env n s).2.data m with
  | none => rw [hl'] at hsome; cases hsome
  | some w =>
    have hg' := (C01.eval_value_is_denotation_partial env inp n s hg h0 hend).2.2
    have := Den_det env inp m _ _ (hg'.sound m w hc hl') (hg.sound m v hc hl)
    cases this; rfl

/-- **Chains shorter than the configured limit never hit it**, whatever is cached. -/
theorem below_limit_no_deep (n : Node) (s : St) (r : Res)
    (hg : Good env inp s) (h0 : s.hit = false)
    (hd : denoteN env inp (env.maxdepth + 1) n = (r, false)) :
    (evalTop env n s).2.hit = false :=
  (C01.eval_returns_denotation env inp n s r hg h0 hd).1

/-! ### Where `None` is "not allowed": the `allow_none` look-up chain

`CellsImpl._store_value` fails with `NoneReturnedError` when the formula returned `None` and
`get_property("allow_none")` is false.  The setting is looked up cells → space → model and the
nearest one that is set decides – in particular an explicit `False` on a cells is not
overridden by a `True` further up, and nothing set below the model means the model's. -/

theorem allow_none_own_setting_decides (b : Bool) (space : Option Bool) (model : Bool) :
    resolveAllowNone (some b) space model = b := rfl

theorem allow_none_space_decides_when_cells_unset (b : Bool) (model : Bool) :
    resolveAllowNone none (some b) model = b := rfl

theorem allow_none_model_decides_when_unset_below (model : Bool) :
    resolveAllowNone none none model = model := rfl

/-- the look-up never answers "allowed" unless some level says so -/
theorem allow_none_only_if_some_level_allows (cell space : Option Bool) (model : Bool)
    (h : resolveAllowNone cell space model = true) : cell = some true ∨ space = some true ∨ model = true := by
  cases cell with
  | some b => left; simpa [resolveAllowNone] using h
  | none =>
    cases space with
    | some b => right; left; simpa [resolveAllowNone] using h
    | none => right; right; simpa [resolveAllowNone] using h

example : resolveAllowNone (some false) (some true) true = false := by decide
example : resolveAllowNone none (some false) true = false := by decide

/-! Non-vacuity: a concrete failure three frames deep (the element called, a callee that
catches nothing, a raise) from the empty state: quiescent afterwards, nothing held, the
error is the original `ValueError`, and a later call of the healthy element works. -/
def fCells : CellId → Option Expr
  | 0 => some (.add (.call 1 []) (.lit 1))
  | 1 => some (.add (.call 3 []) (.call 2 []))
  | 2 => some (.raise kValue)
  | 3 => some (.lit 7)
  | _ => none

def fEnv : Env where
  formula := fun n => match fCells n.1 with
    | some e => formulaOf (fun c => (fCells c).map (fun _ => 0)) e n.2
    | none => .raise (.user kName)
  cached := fun _ => true
  allowNone := fun _ => false
  refs := fun _ => .none
  maxdepth := 10

example : (evalTop fEnv (0, []) {}).1 = .formulaError (.user kValue) [(0, []), (1, []), (2, [])] ∧
    ((evalTop fEnv (0, []) {}).2.data.map (·.1)) = [(3, [])] ∧
    (evalTop fEnv (0, []) {}).2.stack = [] ∧
    (evalTop fEnv (3, []) (evalTop fEnv (0, []) {}).2).1 = .ok (.int 7) := by decide

/-! ### The limit is part of the definitions: histories change it, administrative calls do nothing

`mx.set_recursion(k)` writes `CallStack.maxdepth` and nothing else (`Env.maxdepth`; no value is
cleared).  The administrative calls of `Exec.Admin` – starting / stopping / reading / clearing a
stack-trace session (which replaces the call stack object by one of the other class *with the
same limit*), `get_recursion`, `get_error`, `get_traceback`, `set_recursion` to the value the
limit has – are the identity on the state and on the definitions.  So every theorem above,
being stated for an arbitrary `env`, holds for the limit in force at each evaluation of a
history that raises and lowers the limit between evaluations; what has to be shown is that the
state such a history leaves is one the theorems apply to. -/

def withMaxdepth (env : Env) (k : Nat) : Env := { env with maxdepth := k }

theorem denoteBody_limit_free (k : Nat) (f : Node → Res × Bool) :
    ∀ p : Prog, denoteBody (withMaxdepth env k) f p = denoteBody env f p := by
  intro p
  induction p with
  | ret v => rfl
  | raise e => rfl
  | reraise e => rfl
  | read a r kk ih => simp only [denoteBody]; exact ih _
  | call n kk ih =>
    simp only [denoteBody]
    have : calleeAt (withMaxdepth env k) f n = calleeAt env f n := rfl
    rw [this, ih]

theorem denoteN_limit_free (k : Nat) :
    ∀ d n, denoteN (withMaxdepth env k) inp d n = denoteN env inp d n := by
  intro d
  induction d with
  | zero => intro n; rfl
  | succ d ih =>
    intro n
    have hf : denoteN (withMaxdepth env k) inp d = denoteN env inp d := funext ih
    simp only [denoteN]
    rw [hf, denoteBody_limit_free]
    rfl

/-- **The specification does not mention the limit**: the uncached value of an element is the
same under every recursion limit. -/
theorem spec_ignores_limit (k : Nat) (n : Node) (r : Res) :
    Den (withMaxdepth env k) inp n r ↔ Den env inp n r := by
  constructor
  · rintro ⟨d, h⟩; exact ⟨d, by rw [← denoteN_limit_free]; exact h⟩
  · rintro ⟨d, h⟩; exact ⟨d, by rw [denoteN_limit_free]; exact h⟩

/-- **Changing the limit needs no clearing**: values held under one limit are correct under any
other. -/
theorem held_values_valid_under_any_limit (k : Nat) (s : St) (hg : Good env inp s) :
    Good (withMaxdepth env k) inp s :=
  ⟨fun n v hc hl => (spec_ignores_limit env inp k n _).mpr (hg.sound n v hc hl),
   fun n v hc hi => hg.inputsHeld n v hc hi⟩

/-- operations of a history that also configures the limit and makes administrative calls -/
inductive LOp
  | eval (n : Node)
  | setLimit (k : Nat)
  | admin (a : Admin)

def lstep : Env × St → LOp → Env × St
  | (env, s), .eval n => (env, (evalTop env n s).2)
  | (env, s), .setLimit k => (withMaxdepth env k, s)
  | (env, s), .admin a => (env, s.admin a)

def lrun (st : Env × St) (ops : List LOp) : Env × St := ops.foldl lstep st

/-- **Administrative calls are semantic no-ops**: definitions (the limit included) and state
are literally unchanged, so whatever is evaluated next behaves as if the call had not been made. -/
theorem admin_changes_nothing (st : Env × St) (a : Admin) : lstep st (.admin a) = st := rfl

/-- the limit in force is the one configured last -/
def lastLimit (k0 : Nat) : List LOp → Nat
  | [] => k0
  | .setLimit k :: ops => lastLimit k ops
  | _ :: ops => lastLimit k0 ops

theorem limit_is_last_configured (st : Env × St) (ops : List LOp) :
    (lrun st ops).1.maxdepth = lastLimit st.1.maxdepth ops := by
  induction ops generalizing st with
  | nil => rfl
  | cons op rest ih =>
    obtain ⟨env, s⟩ := st
    cases op with
    | eval n => exact ih _
    | setLimit k => exact ih _
    | admin a => exact ih _

theorem evalTop_hit_sticky (n : Node) (s : St) (h : s.hit = true) : (evalTop env n s).2.hit = true := by
  unfold evalTop
  split
  · exact h
  · have hok := runN_ok env (fun _ => none) (env.maxdepth + 1) n s
      (fun h0 => by rw [h] at h0; cases h0) (fun h0 => by rw [h] at h0; cases h0)
    have := hok.1 h
    generalize runN env (env.maxdepth + 1) n s = p at this
    obtain ⟨r, s1⟩ := p
    cases r <;> exact this

theorem lstep_hit_sticky (st : Env × St) (op : LOp) (h : st.2.hit = true) : (lstep st op).2.hit = true := by
  obtain ⟨env, s⟩ := st
  cases op with
  | eval n => exact evalTop_hit_sticky env n s h
  | setLimit k => exact h
  | admin a => exact h

theorem lrun_hit_sticky (ops : List LOp) (st : Env × St) (h : st.2.hit = true) : (lrun st ops).2.hit = true := by
  induction ops generalizing st with
  | nil => exact h
  | cons op rest ih => exact ih _ (lstep_hit_sticky st op h)

/-- **A history that raises and lowers the limit between evaluations and makes administrative
calls leaves a consistent, retryable state** (partial: `LimitNeverCaught` – the sticky flag is
still down at the end, so no evaluation of the history handled a depth error): every held value
is the spec's under the limit now in force, and the executor is idle. -/
theorem limit_history_consistent_partial (ops : List LOp) (st : Env × St)
    (hg : Good st.1 inp st.2) (hq : Quiescent st.2) (h0 : st.2.hit = false)
    (hend : (lrun st ops).2.hit = false) :
    Good (lrun st ops).1 inp (lrun st ops).2 ∧ Quiescent (lrun st ops).2 := by
  induction ops generalizing st with
  | nil => exact ⟨hg, hq⟩
  | cons op rest ih =>
    have hmid : (lstep st op).2.hit = false := by
      cases h : (lstep st op).2.hit with
      | false => rfl
      | true =>
        have := lrun_hit_sticky rest (lstep st op) h
        simp only [lrun, List.foldl] at hend this
        rw [this] at hend; cases hend
    refine ih (lstep st op) ?_ ?_ hmid hend
    · obtain ⟨env, s⟩ := st
      cases op with
      | eval n => exact (C01.eval_value_is_denotation_partial env inp n s hg h0 hmid).2.2
      | setLimit k => exact held_values_valid_under_any_limit env inp k s hg
      | admin a => exact hg
    · obtain ⟨env, s⟩ := st
      cases op with
      | eval n => exact evalTop_quiescent env n s hq
      | setLimit k => exact hq
      | admin a => exact hq

/-- …hence **after any such history a chain that stays within the limit configured last
evaluates, and returns the spec's value** – whatever limits were in force before and whatever
administrative calls were made. -/
theorem within_last_limit_evaluates_partial (ops : List LOp) (st : Env × St)
    (hg : Good st.1 inp st.2) (hq : Quiescent st.2) (h0 : st.2.hit = false)
    (hend : (lrun st ops).2.hit = false) (n : Node) (r : Res)
    (hd : denoteN (lrun st ops).1 inp (lastLimit st.1.maxdepth ops + 1) n = (r, false)) :
    (evalTop (lrun st ops).1 n (lrun st ops).2).2.hit = false ∧
    (∀ v, r = .ok v → (evalTop (lrun st ops).1 n (lrun st ops).2).1 = .ok v) := by
  obtain ⟨hg', _⟩ := limit_history_consistent_partial inp ops st hg hq h0 hend
  rw [← limit_is_last_configured] at hd
  have := C01.eval_returns_denotation (lrun st ops).1 inp n (lrun st ops).2 r hg' hend hd
  refine ⟨this.1, ?_⟩
  intro v hv
  subst hv
  exact this.2.1 v rfl

/-! Non-vacuity: `chain(x) = chain(x-1) + 1`, limit 3, a stack-trace session, then `chain(5)`:
`DeepReferenceError` as before the session; nothing held; after raising the limit it evaluates. -/
def lCells : CellId → Option Expr
  | 0 => some (.ite (.lt (.lit 0) (.param 0)) (.add (.call 0 [.sub (.param 0) (.lit 1)]) (.lit 1)) (.lit 0))
  | _ => none

def lEnv : Env where
  formula := fun n => match lCells n.1 with
    | some e => formulaOf (fun c => (lCells c).map (fun _ => 1)) e n.2
    | none => .raise (.user kName)
  cached := fun _ => true
  allowNone := fun _ => false
  refs := fun _ => .none
  maxdepth := 100

def lOps : List LOp := [.setLimit 3, .admin .startTrace, .admin .getTrace, .admin .stopTrace]

example : (lrun (lEnv, {}) lOps).1.maxdepth = 3 := by decide
example : (evalTop (lrun (lEnv, {}) lOps).1 (0, [.int 5]) (lrun (lEnv, {}) lOps).2).1 =
    .formulaError .deep [(0, [.int 5]), (0, [.int 4]), (0, [.int 3]), (0, [.int 2])] := by decide
example : (evalTop (lrun (lEnv, {}) lOps).1 (0, [.int 5]) (lrun (lEnv, {}) lOps).2).2.data = [] := by decide
example : (evalTop (lrun (lEnv, {}) (lOps ++ [.eval (0, [.int 5]), .setLimit 9])).1 (0, [.int 5])
    (lrun (lEnv, {}) (lOps ++ [.eval (0, [.int 5]), .setLimit 9])).2).1 = .ok (.int 5) := by decide

end MxModel.C05
