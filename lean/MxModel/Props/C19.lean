import MxModel.Proofs.Registry
/-!
# C19 – Model registry: unique names, no model dropped

Property theorems only (helper lemmas are in `Proofs/Registry.lean`).  The model is
`Kernels/Registry.lean`; `kw` is Python's keyword table (regenerated from the running
interpreter, but the theorems hold for every table).
-/
namespace MxModel.C19
open MxModel.Registry MxModel.Names

/-- Every operation – `new_model` (named or auto-named), `read_model` (succeeding or failing
after the parse-time rename), `rename` with and without `rename_old`, `close`, on any
model identity, with any name, valid or not, accepted or rejected – preserves:
each key maps to the model whose own name is that key; keys are unique; every model is
registered once. -/
theorem registry_inv_step (kw : List String) (r : Reg) (op : Op) (h : RegInv r) :
    RegInv (step kw r op) := by
  cases op with
  | new n => exact newModel_inv kw h n
  | rename i n ro => exact rename_inv kw h i n ro
  | close i => exact close_inv h i
  | read n f => exact readModel_inv kw h n f

/-- …hence after every finite operation sequence from the empty session. -/
theorem registry_inv_run (kw : List String) (ops : List Op) : RegInv (run kw {} ops) := by
  have h0 : RegInv ({} : Reg) := ⟨by simp, by simp [mkeys], by simp [ids], by simp⟩
  suffices ∀ r, RegInv r → RegInv (run kw r ops) from this _ h0
  induction ops with
  | nil => intro r h; exact h
  | cons op rest ih => intro r h; exact ih _ (registry_inv_step kw r op h)

/-- the registry maps each name to the model that carries that name, and names are unique -/
theorem registry_maps_names (r : Reg) (h : RegInv r) (k : String) (m : Model)
    (hk : lookupName r.models k = some m) : m.name = k ∧ (keys r).Nodup :=
  ⟨h.nameKey _ (lookupName_some hk), h.keysNodup⟩

/-- No operation other than its own `close` drops a model: creating, reading (also a read
that fails and closes the model it created) or renaming under a name already in use keeps
every open model registered. -/
theorem never_dropped (kw : List String) (r : Reg) (h : RegInv r) (op : Op) (i : Nat)
    (hop : ∀ j, op = .close j → j ≠ i) (hi : i ∈ ids r.models) :
    i ∈ ids (step kw r op).models := by
  cases op with
  | new n => exact newModel_ids kw h n i hi
  | rename j n ro => exact rename_ids kw h j n ro i hi
  | close j => exact (close_ids h j i).mpr ⟨hi, fun hc => hop j rfl hc.symm⟩
  | read n f => exact readModel_ids kw h n f i hi

/-- closing removes exactly that model -/
theorem close_removes_exactly (kw : List String) (r : Reg) (h : RegInv r) (i j : Nat) :
    j ∈ ids (step kw r (.close i)).models ↔ j ∈ ids r.models ∧ j ≠ i :=
  close_ids h i j

/-- a name that is in use is never overwritten: the model created under it is a new
identity and the previous holder is still registered (under a backup name) -/
theorem new_model_keeps_old (kw : List String) (r : Reg) (h : RegInv r) (n : String) (m : Model)
    (hk : lookupName r.models n = some m) :
    m.id ∈ ids (step kw r (.new (some n))).models :=
  never_dropped kw r h _ _ (by intro j hj; cases hj) (by
    simp only [ids, List.mem_map]; exact ⟨(n, m), lookupName_some hk, rfl⟩)

/-! Non-vacuity: a concrete non-trivial session (collision with an already-suffixed name)
meets the invariant, and the collision really produces the second backup name. -/
def demoOps : List Op :=
  [.new (some "A"), .new (some "A_BAK1"), .new (some "A"), .rename 1 "A" true, .read "A" true,
   .close 0, .new none]

example : (keys (run [] {} demoOps)) = ["A_BAK3", "A_BAK4", "Model2"] := by
  decide +kernel

example : RegInv (run [] {} demoOps) := registry_inv_run [] demoOps

end MxModel.C19
