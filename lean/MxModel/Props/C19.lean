import MxModel.Proofs.RegistryExact
import MxModel.Proofs.IOSessionInv
/-!
# C19 – Model registry: unique names, no model dropped

Property theorems only (helper lemmas are in `Proofs/Registry.lean`).  The model is
`Kernels/Registry.lean`; `kw` is Python's keyword table (regenerated from the running
interpreter, but the theorems hold for every table).
-/
namespace MxModel.C19
open MxModel.Registry MxModel.Names

/-- Every operation – `new_model` (named or auto-named), `read_model` (succeeding or failing
after the parse-time rename), `rename` with and without `rename_old`, `close`, on any
model identity, with any name, valid or not, accepted or rejected – preserves:
each key maps to the model whose own name is that key; keys are unique; every model is
registered once. -/
theorem registry_inv_step (kw : List String) (r : Reg) (op : Op) (h : RegInv r) :
    RegInv (step kw r op) := by
  cases op with
  | new n => exact newModel_inv kw h n
  | rename i n ro => exact rename_inv kw h i n ro
  | close i => exact close_inv h i
  | read n f => exact readModel_inv kw h n f

/-- …hence after every finite operation sequence from the empty session. -/
theorem registry_inv_run (kw : List String) (ops : List Op) : RegInv (run kw {} ops) := by
  have h0 : RegInv ({} : Reg) := ⟨by simp, by simp [mkeys], by simp [ids], by simp⟩
  suffices ∀ r, RegInv r → RegInv (run kw r ops) from this _ h0
  induction ops with
  | nil => intro r h; exact h
  | cons op rest ih => intro r h; exact ih _ (registry_inv_step kw r op h)

/-- **After every history** the registry maps each name to the model that carries that name, names
are unique, and no model is registered under two names. -/
theorem registry_maps_names (kw : List String) (ops : List Op) :
    (∀ k m, lookupName (run kw {} ops).models k = some m → m.name = k) ∧
    (keys (run kw {} ops)).Nodup ∧ (ids (run kw {} ops).models).Nodup :=
  ⟨fun _ _ hk => (registry_inv_run kw ops).nameKey _ (lookupName_some hk),
   (registry_inv_run kw ops).keysNodup, (registry_inv_run kw ops).idsNodup⟩

/-- **One operation, exactly** (`never_dropped` and its converse).  After any operation a model is
registered iff it was registered before and the operation is not its own `close`, or it is the
model the operation handed to the caller (`new_model` that was accepted, `read_model` that
succeeded).  So nothing but its own `close` drops a model – not a creation, a read (also one that
fails and closes the model it had created) or a rename under a name in use – and nothing is
registered that was not handed out. -/
theorem registered_step_iff (kw : List String) (r : Reg) (h : RegInv r) (op : Op) (j : Nat) :
    j ∈ ids (step kw r op).models ↔
      (j ∈ ids r.models ∧ closes op j = false) ∨ handed kw r op = some j :=
  step_ids_iff kw h op j

/-- **Every history**: the registered models are exactly the models the caller was handed and has
not closed since (`openHandles` is computed from what the caller sees alone: the identities
returned by `new_model`/`read_model` and its own `close` calls). -/
theorem registered_iff_open_handle (kw : List String) (ops : List Op) (j : Nat) :
    j ∈ ids (run kw {} ops).models ↔ j ∈ openHandles kw {} ops [] :=
  run_ids_iff kw ops {} [] ⟨by simp, by simp [mkeys], by simp [ids], by simp⟩ (by simp [ids]) j

/-- No operation other than its own `close` drops a model: creating, reading (also a read
that fails and closes the model it created) or renaming under a name already in use keeps
every open model registered. -/
theorem never_dropped (kw : List String) (r : Reg) (h : RegInv r) (op : Op) (i : Nat)
    (hop : ∀ j, op = .close j → j ≠ i) (hi : i ∈ ids r.models) :
    i ∈ ids (step kw r op).models := by
  cases op with
  | new n => exact newModel_ids kw h n i hi
  | rename j n ro => exact rename_ids kw h j n ro i hi
  | close j => exact (close_ids h j i).mpr ⟨hi, fun hc => hop j rfl hc.symm⟩
  | read n f => exact readModel_ids kw h n f i hi

/-- closing removes exactly that model -/
theorem close_removes_exactly (kw : List String) (r : Reg) (h : RegInv r) (i j : Nat) :
    j ∈ ids (step kw r (.close i)).models ↔ j ∈ ids r.models ∧ j ≠ i :=
  close_ids h i j

/-- a name that is in use is never overwritten: the model created under it is a new
identity and the previous holder is still registered (under a backup name) -/
theorem new_model_keeps_old (kw : List String) (r : Reg) (h : RegInv r) (n : String) (m : Model)
    (hk : lookupName r.models n = some m) :
    m.id ∈ ids (step kw r (.new (some n))).models :=
  never_dropped kw r h _ _ (by intro j hj; cases hj) (by
    simp only [ids, List.mem_map]; exact ⟨(n, m), lookupName_some hk, rfl⟩)

/-- "… it is renamed with a backup suffix": after `new_model(n)` for a name `n` in use, the previous
holder is registered under `n_BAK<k>` for some number `k`, and that is its own name now (by
`registry_inv_step` this is its only registration) -/
theorem displaced_model_gets_backup_name (kw : List String) (r : Reg) (n : String) (m : Model)
    (hk : lookupName r.models n = some m) :
    ∃ k : Nat, (n ++ "_BAK" ++ toString k, { id := m.id, name := n ++ "_BAK" ++ toString k }) ∈
      (step kw r (.new (some n))).models :=
  newModel_displaced kw r n m hk

/-! Non-vacuity: a concrete non-trivial session (collision with an already-suffixed name)
meets the invariant, and the collision really produces the second backup name. -/
def demoOps : List Op :=
  [.new (some "A"), .new (some "A_BAK1"), .new (some "A"), .rename 1 "A" true, .read "A" true,
   .close 0, .new none]

example : (keys (run [] {} demoOps)) = ["A_BAK3", "A_BAK4", "Model2"] := by
  decide +kernel

example : RegInv (run [] {} demoOps) := registry_inv_run [] demoOps

/-- the hypothesis of `displaced_model_gets_backup_name` is met after `new_model("A")`; the backup
name is `A_BAK1` -/
example : lookupName (run [] {} [.new (some "A")]).models "A" = some ⟨0, "A"⟩ ∧
    (run [] {} [.new (some "A"), .new (some "A")]).models = [("A_BAK1", ⟨0, "A_BAK1"⟩), ("A", ⟨1, "A"⟩)] := by
  decide +kernel

/-- the caller's side of `demoOps`: handed 0 1 2, (3 by the failing read: not handed), closed 0,
handed 4 -/
example : openHandles [] {} demoOps [] = [1, 2, 4] ∧ ids (run [] {} demoOps).models = [2, 1, 4] := by
  decide +kernel
/-- a `close` BEFORE the identity exists does not count, closing twice neither -/
example : openHandles [] {} [.close 0, .new (some "A"), .close 1, .new none, .close 1] [] = [0] ∧
    ids (run [] {} [.close 0, .new (some "A"), .close 1, .new none, .close 1]).models = [0] := by
  decide +kernel

/-! ## Isolation of the models in the session-wide IOManager (`Kernels/IOSession.lean`)

Several models share ONE `IOManager`; files under an absolute path are filed under the session-wide group `None`.
The statements are about EVERY state the session reaches (`run {} ops`, any operation list): the invariant
`IOSession.Inv` is proved for the empty session and preserved by every operation (`Proofs/IOSessionInv.lean`). -/

/-- **Closing a model leaves the others alone** (relative AND absolute paths): for every other model `m'`,
`Model.iospecs` (with the keys of the files), every file object of its group, every session-wide file object it
uses (identity, key, all specs) and every reference are what they were.
Partial: `AbsPrivate st m m'` - no session-wide file object serves both models (the recorded finding
C18-absolute-io-shared: files under an absolute path are shared by the models of a session). -/
theorem close_leaves_other_models_specs_partial (ops : List IOSession.Op) (m m' : Nat) (hne : m ≠ m')
    (hpriv : IOSession.AbsPrivate (IOSession.run {} ops) m m') :
    let st := IOSession.run {} ops
    IOSession.specsOf (IOSession.closeModel st m) m' = IOSession.specsOf st m' ∧
    (IOSession.closeModel st m).ios.filter (IOSession.inGroup (some m')) =
      st.ios.filter (IOSession.inGroup (some m')) ∧
    (∀ io ∈ st.ios, io.group = none → (∃ s ∈ io.specs, IOSession.boundIn st.refs m' s.val = true) →
      io ∈ (IOSession.closeModel st m).ios) ∧
    (IOSession.closeModel st m).refs = st.refs :=
  IOSession.closeModel_frame _ m m' hne (IOSession.reachable_inv ops).det hpriv

/-- the session invariant (`IOSession.Inv`: identities handed out by counters, one identity - one value - one
group, no file object without a spec, references of created models only, group `None` = absolute path) holds after
every history: `Inv {}` and `Inv st → Inv (step st op)` for every operation, by induction over the operation list -/
theorem session_inv_reachable (ops : List IOSession.Op) : IOSession.Inv (IOSession.run {} ops) :=
  IOSession.reachable_inv ops

example : IOSession.SidDet IOSession.demo ∧ IOSession.AbsPrivate IOSession.demo 1 0 ∧
    IOSession.specsOf IOSession.demo 0 ≠ [] := by decide +kernel

/-- the hypothesis is needed, twice: one external workbook with a sheet of each model - closing one model changes
the file object the other one writes; one object referenced from two models - closing the one that merely
references it deletes the other's spec -/
example : ¬ IOSession.AbsPrivate IOSession.sharedPath 1 0 ∧
    ¬ (∀ io ∈ IOSession.sharedPath.ios, io.group = none →
        (∃ s ∈ io.specs, IOSession.boundIn IOSession.sharedPath.refs 0 s.val = true) →
        io ∈ (IOSession.closeModel IOSession.sharedPath 1).ios) := by decide +kernel
example : ¬ IOSession.AbsPrivate IOSession.sharedValue 1 0 ∧
    IOSession.specsOf IOSession.sharedValue 0 ≠ [] ∧
    IOSession.specsOf (IOSession.closeModel IOSession.sharedValue 1) 0 = [] := by decide +kernel

/-- **C19-mutG is not the code**: `del_all_spec` over `get_ios(model)` and `get_ios(None)` deletes the external
spec of the OTHER model -/
example : IOSession.specsOf (IOSession.closeModelMutG IOSession.demo 1) 0 ≠ IOSession.specsOf IOSession.demo 0 ∧
    IOSession.specsOf (IOSession.closeModel IOSession.demo 1) 0 = IOSession.specsOf IOSession.demo 0 := by
  decide +kernel

/-- **Closing a model releases what is its own**: no file object of its group remains, and no spec of a
session-wide file is referenced by it any more.
Partial: one spec per value in the model's view (`new_pandas` twice for one object leaves a second spec: trigger
of C18), every spec filed under the model is referenced by it. -/
theorem close_releases_own_partial (ops : List IOSession.Op) (m : Nat)
    (hopen : (IOSession.run {} ops).opened.contains m = true)
    (hone : IOSession.OneSpecPerValue (IOSession.run {} ops) m)
    (href : IOSession.GroupReferenced (IOSession.run {} ops) m) :
    let st := IOSession.run {} ops
    ∀ io ∈ (IOSession.closeModel st m).ios, io.group ≠ some m ∧
      (io.group = none → ∀ s ∈ io.specs, IOSession.boundIn (IOSession.closeModel st m).refs m s.val = false) :=
  IOSession.closeModel_releases _ m hopen hone href (IOSession.reachable_inv ops).nonempty

example : IOSession.demo.opened.contains 1 = true ∧ IOSession.OneSpecPerValue IOSession.demo 1 ∧
    IOSession.GroupReferenced IOSession.demo 1 ∧ IOSession.NoEmptyIo IOSession.demo ∧
    (IOSession.closeModel IOSession.demo 1).ios.length = 2 := by decide +kernel

/-- without "one spec per value" the second spec of the object stays behind under the closed model -/
example :
    let st := IOSession.run {} [.newModel, .newSpec 0 "S.a" ⟨false, "a.csv"⟩ false none 1,
      .newSpec 0 "S.b" ⟨false, "b.csv"⟩ false none 1]
    ¬ IOSession.OneSpecPerValue st 0 ∧ (IOSession.closeModel st 0).ios.any (fun io => io.group == some 0) = true := by
  decide +kernel

/-- the same for a whole session: when no session-wide file object serves two models (`AbsPrivateAll`, a decidable
predicate on the state reached), closing ANY model leaves `iospecs` of EVERY other model as they were -/
theorem close_leaves_other_models_specs_private_session (ops : List IOSession.Op)
    (hall : IOSession.AbsPrivateAll (IOSession.run {} ops)) (m m' : Nat) (hne : m ≠ m') :
    IOSession.specsOf (IOSession.closeModel (IOSession.run {} ops) m) m' =
      IOSession.specsOf (IOSession.run {} ops) m' :=
  (IOSession.closeModel_frame _ m m' hne (IOSession.reachable_inv ops).det
    (IOSession.absPrivate_of_all (IOSession.reachable_inv ops) hall m m' hne)).1

example : IOSession.AbsPrivateAll IOSession.demo ∧ ¬ IOSession.AbsPrivateAll IOSession.sharedValue ∧
    ¬ IOSession.AbsPrivateAll IOSession.sharedPath := by decide +kernel

end MxModel.C19
