import MxModel.Proofs.ExecTrace
import MxModel.Proofs.ExprProper
import MxModel.Proofs.ExecFrame
import MxModel.Exec.Expr
/-!
# C17 – the error traceback is exactly the chain that was executing

Model: `CallStack.rollback` (records the node with the identity of the propagating
exception), `_start_exec` / `ErrorStack` (keeps the entries of the escaping exception,
outermost first, and empties the list) as repaired by the `fix:` commit recorded in
known_findings.json.  The ghost field `excStack` is the call stack at the moment the most
recent exception object was created.

Identities: `excCount` numbers the exception objects; `curExc` is the one that propagates.  A call
that returns leaves the caller's `curExc` as it was (`keepExc` in `eval_node`), which is what makes
the blocks `except …: audit(x); raise` and `finally: audit(x)` right: the exception that goes on
after the block is the one that was caught, whatever `audit` raised and handled inside.
-/
namespace MxModel.C17
open MxModel.Exec

/-- **`get_traceback()` lists exactly the elements whose formulas were executing when the
exception that escaped was raised, outermost first, and `get_error()` is that exception** –
for every environment of proper formula behaviours (including any handling of earlier
failures inside the evaluation), every element, every quiescent state. -/
theorem traceback_is_chain (env : Env) (hp : ProperEnv env) (n : Node) (s : St)
    (hq : Quiescent s) (e : Err) (tb : List Node)
    (hfail : (evalTop env n s).1 = .formulaError e tb) :
    tb = (evalTop env n s).2.excStack ∧
    (evalTop env n s).2.lastTb = tb ∧ (evalTop env n s).2.lastErr = some e := by
  unfold evalTop at hfail ⊢
  split at hfail
  · cases hfail
  · rename_i hl
    simp only [hl]
    have ht := runN_tr env hp (env.maxdepth + 1) n s
    generalize runN env (env.maxdepth + 1) n s = p at ht hfail
    obtain ⟨r, s1⟩ := p
    cases r with
    | ok v => cases hfail
    | err e' =>
      simp only [isErr] at ht hfail ⊢
      obtain ⟨suf, hsuf, _, herr⟩ := ht.suffix
      obtain ⟨_, _, _, hchain⟩ := herr rfl
      simp only [hq.stack, List.length_nil, List.drop_zero] at hchain
      rw [hq.rolledback, List.nil_append] at hsuf
      injection hfail with he htb
      subst he
      have : tb = s1.excStack := by
        rw [← htb, hsuf]
        have := congrArg List.reverse hchain
        simpa [chainOf] using this
      exact ⟨this, htb, rfl⟩

/-- the last node rolled back by a failing `_eval_formula` is the node itself … -/
theorem runN_err_last (env : Env) (d : Nat) (n : Node) (s : St) (e : Err)
    (h : (runN env (d + 1) n s).1 = .err e) :
    (runN env (d + 1) n s).2.rolledback.getLast? =
      some (n, (runN env (d + 1) n s).2.curExc) := by
  simp only [runN] at h ⊢
  generalize runBody env (evalNode env (runN env d)) (env.formula n) (s.push env n) = p at h ⊢
  obtain ⟨r, s1⟩ := p
  cases r with
  | err e' => simp [St.rollback, St.removeNode, St.dropFrame]
  | ok v =>
    simp only [] at h ⊢
    split
    · split
      · simp [St.rollback, St.removeNode, St.dropFrame, St.newExc]
      · rename_i h1 h2; simp [h1, h2] at h
    · rename_i h1; simp [h1] at h

/-- … hence **the traceback starts with the element that was called** (outermost first). -/
theorem traceback_outermost_first (env : Env) (n : Node) (s : St) (e : Err) (tb : List Node)
    (hfail : (evalTop env n s).1 = .formulaError e tb) : tb.head? = some n := by
  unfold evalTop at hfail
  split at hfail
  · cases hfail
  · have hlast := runN_err_last env env.maxdepth n s
    generalize runN env (env.maxdepth + 1) n s = p at hlast hfail
    obtain ⟨r, s1⟩ := p
    cases r with
    | ok v => cases hfail
    | err e' =>
      simp only [] at hlast hfail
      injection hfail with _ htb
      have h := hlast e' rfl
      rw [← htb]
      -- the last entry carries the current identity, so it is the last of the filtered list
      rcases List.eq_nil_or_concat s1.rolledback with hnil | ⟨init, x, hx⟩
      · rw [hnil] at h; cases h
      · rw [hx] at h ⊢
        simp only [List.concat_eq_append, List.getLast?_append, List.getLast?_singleton,
          Option.some_or, Option.some.injEq] at h
        subst h
        simp [List.filter_append]

/-- **Between top-level calls nothing is left of earlier failures**: the roll-back list is
empty whenever the executor is idle, so a traceback can only consist of nodes rolled back
during the most recent call. -/
theorem quiescent_between_calls (env : Env) (n : Node) (s : St) (hq : Quiescent s) :
    (evalTop env n s).2.rolledback = [] :=
  (evalTop_quiescent env n s hq).rolledback

/-! Non-vacuity (the scenario of the repaired defect): `c0` catches the failure of `c1`
(which failed through `c3`), then calls `c2`, which fails: the traceback is `[c0, c2]`. -/
def tCells : CellId → Option Expr
  | 0 => some (.add (.try_ (.call 1 []) .all (.lit 0)) (.call 2 []))
  | 1 => some (.call 3 [])
  | 2 => some (.raise kKey)
  | 3 => some (.raise kValue)
  | _ => none

def tEnv : Env where
  formula := fun n => match tCells n.1 with
    | some e => formulaOf (fun c => (tCells c).map (fun _ => 0)) e n.2
    | none => .raise (.user kName)
  cached := fun _ => true
  allowNone := fun _ => false
  refs := fun _ => .none
  maxdepth := 10

example : (evalTop tEnv (0, []) {}).1 = .formulaError (.user kKey) [(0, []), (2, [])] := by decide

/-! The same kind three times: `c0` handles a `ValueError` of `c3`, handles another one that came through
`c4 → c3`, and then fails with a third `ValueError` through `c4 → c3`.  The kinds cannot tell the three
failures apart, and the handled ones unwound the very elements the escaping one unwinds; the identity of
the exception kept with every rolled-back element does: the traceback is `[c0, c4, c3]`, once. -/
def uCells : CellId → Option Expr
  | 0 => some (.add (.try_ (.call 3 []) .all (.lit 0))
            (.add (.try_ (.call 4 []) (.user kValue) (.lit 0)) (.call 4 [])))
  | 3 => some (.raise kValue)
  | 4 => some (.call 3 [])
  | _ => none

def uEnv : Env where
  formula := fun n => match uCells n.1 with
    | some e => formulaOf (fun c => (uCells c).map (fun _ => 0)) e n.2
    | none => .raise (.user kName)
  cached := fun c => c != 4
  allowNone := fun _ => false
  refs := fun _ => .none
  maxdepth := 10

example : (evalTop uEnv (0, []) {}).1 = .formulaError (.user kValue) [(0, []), (4, []), (3, [])] := by decide
example : ((runN uEnv 11 (0, []) {}).2.rolledback.map (·.1)) =
    [(3, []), (3, []), (4, []), (3, []), (4, []), (0, [])] := by decide
/-- `ProperEnv` is not a restriction on the formulas of the grammar: every compiled formula is
proper (`formulaOf_proper`), so the theorem applies to every program the driver runs. -/
theorem grammar_env_is_proper (cells : CellId → Option Expr) (ar : CellId → Option Nat)
    (env : Env) (hf : ∀ n, env.formula n = match cells n.1 with
      | some e => formulaOf ar e n.2
      | none => .raise (.user kName)) : ProperEnv env := by
  intro n
  rw [hf n]
  split
  · exact formulaOf_proper ar _ _
  · simp [Proper, ProperL]

example : ProperEnv tEnv := grammar_env_is_proper tCells _ tEnv (fun _ => rfl)
example : ProperEnv uEnv := grammar_env_is_proper uCells _ uEnv (fun _ => rfl)

/-! ### Limitation: a deferred re-raise of an EARLIER exception is outside the model

`Prog.reraise` continues the exception that is current (`St.curExc`): the one just received from a
failed call or – after calls that RETURNED (`keepExc`) – the one that was being handled.  What it cannot
express is Python's `except E as e: <a call that FAILS and is handled inside the block>; raise e`: the
handled failure of the block leaves ITS exception current in the model, while Python re-raises the
object `e`.  `rrEnv` below is such a program and it is `ProperEnv` (the theorems apply to it and are
true OF THE MODEL: the traceback is the chain of the model's current exception, `[c0, c2]`) – but
modelx answers `[c0, c1, c3]` (`notes/EXECP-repro_deferred_reraise.py`; `CallStack.rollback` tags with
`sys.exc_info()[1]`, which is `e`).  So the class in which the model describes Python is smaller than
`ProperEnv`: on the grammar it is `blocksSimple` (`Exec/Expr.lean`: the block of `tryRe` / `tryFin`
contains no `try` of its own) – the driver refuses programs outside it, and `Expr` has no construct
that binds an exception to a name, so no generated program is affected; a formula written by hand as
above is not covered by C17's theorems in any meaningful way.  Removing the limitation needs the
identity of the propagating exception in `Res.err` / `reraise`.

(The note on `Env.maxdepth = 0` is in `Props/C05.lean`.) -/

def rrEnv : Env where
  formula := fun n => match n.1 with
    | 0 => .call (1, []) (fun r1 => match r1 with
        | .ok v => .ret v
        | .err e1 => .call (2, []) (fun _ => .reraise e1))
    | 1 => .call (3, []) (fun r => match r with | .ok v => .ret v | .err e => .reraise e)
    | 2 => .raise (.user kKey)
    | _ => .raise (.user kValue)
  cached := fun _ => true
  allowNone := fun _ => false
  refs := fun _ => none
  maxdepth := 10

/-- **the model's answer for a deferred re-raise**: the error carried is the `ValueError` of `c3`, the
traceback is the chain of the `KeyError` of `c2` – where modelx reports `[c0, c1, c3]`.  The program is
`ProperEnv`: the hypothesis of `traceback_is_chain` does not exclude it; what excludes it from the
claim is the correspondence (class `blocksSimple`). -/
theorem deferred_reraise_outside_model :
    ProperEnv rrEnv ∧
    (evalTop rrEnv (0, []) {}).1 = .formulaError (.user kValue) [(0, []), (2, [])] := by
  refine ⟨?_, by decide⟩
  intro n
  show ProperL false (match n.1 with
    | 0 => Prog.call (1, []) (fun r1 => match r1 with
        | .ok v => .ret v
        | .err e1 => .call (2, []) (fun _ => .reraise e1))
    | 1 => .call (3, []) (fun r => match r with | .ok v => .ret v | .err e => .reraise e)
    | 2 => .raise (.user kKey)
    | _ => .raise (.user kValue))
  split
  · exact ⟨fun _ => trivial, fun _ => ⟨fun _ => rfl, fun _ => rfl⟩⟩
  · exact ⟨fun _ => trivial, fun _ => rfl⟩
  · trivial
  · trivial

/-! ### A cells evaluated while an exception passes through: `except …: audit(x); raise`, `finally:`

`vCells`: `c0 = c1() + 1`; `c1 = try: c3() except ValueError: c2(); raise`; `c2` (the audit) handles a
`KeyError` of `c4` itself and returns; `c3` raises `ValueError`; `c5 = try: c6() finally: c2()` with
`c6` returning `None` where that is not allowed.  The exception that leaves `c1` after the block is
the `ValueError` of `c3` – not the `KeyError` that was raised and handled inside `c2` in between –
so the traceback is `[c0, c1, c3]`; and `[c5, c6]` for the `finally` block. -/
def vCells : CellId → Option Expr
  | 0 => some (.add (.call 1 []) (.lit 1))
  | 1 => some (.tryRe (.call 3 []) (.user kValue) (.call 2 []))
  | 2 => some (.try_ (.call 4 []) .all (.lit 0))
  | 3 => some (.raise kValue)
  | 4 => some (.raise kKey)
  | 5 => some (.tryFin (.call 6 []) (.call 2 []))
  | 6 => some .none
  | 7 => some (.tryRe (.call 3 []) .all (.call 4 []))
  | _ => none

def vEnv : Env where
  formula := fun n => match vCells n.1 with
    | some e => formulaOf (fun c => (vCells c).map (fun _ => 0)) e n.2
    | none => .raise (.user kName)
  cached := fun _ => true
  allowNone := fun _ => false
  refs := fun _ => .none
  maxdepth := 10

example : ProperEnv vEnv := grammar_env_is_proper vCells _ vEnv (fun _ => rfl)
example : (evalTop vEnv (0, []) {}).1 = .formulaError (.user kValue) [(0, []), (1, []), (3, [])] := by decide
-- the audit completed: its value is kept, and its own handled failure left four roll-back entries
-- in all (c3; c4 for the handled KeyError; c1; c0)
example : (evalTop vEnv (0, []) {}).2.data = [((2, []), .int 0)] := by decide
example : ((runN vEnv 11 (0, []) {}).2.rolledback) =
    [((3, []), 1), ((4, []), 2), ((1, []), 1), ((0, []), 1)] := by decide
example : (evalTop vEnv (5, []) {}).1 = .formulaError .noneRet [(5, []), (6, [])] := by decide
-- the block itself fails: the new exception is the one that escapes, from where it was raised
example : (evalTop vEnv (7, []) {}).1 = .formulaError (.user kKey) [(7, []), (4, [])] := by decide

/-- **A call that returns does not change which exception the caller re-raises**: after
`eval_node` returned a value, the identity of the caller's exception and the stack recorded for it
are what they were before the call – whatever was raised and handled inside. -/
theorem returned_call_keeps_callers_exception (env : Env) (ef : Node → St → Res × St) (n : Node) (s : St)
    (v : Val) (h : (evalNode env ef n s).1 = .ok v) :
    (evalNode env ef n s).2.curExc = s.curExc ∧ (evalNode env ef n s).2.excStack = s.excStack := by
  unfold evalNode at h ⊢
  have key : ∀ p : Res × St, (keepExc s p).1 = .ok v →
      (keepExc s p).2.curExc = s.curExc ∧ (keepExc s p).2.excStack = s.excStack := by
    intro p hp
    rw [keepExc_fst] at hp
    rw [keepExc_ok s p v hp]
    exact ⟨rfl, rfl⟩
  by_cases ha : env.alive n.1 = true
  case neg =>
    -- a cells that does not exist returns nothing
    have ha' : env.alive n.1 = false := by simpa using ha
    simp only [ha', Bool.false_eq_true, if_false] at h
    cases h
  simp only [ha, if_true] at h ⊢
  by_cases hc : env.cached n.1 = true
  · simp only [hc, if_true] at h ⊢
    cases hl : lookup s.data n with
    | some w => exact ⟨(sameExc_hitEdge s n).curExc, (sameExc_hitEdge s n).excStack⟩
    | none => simp only [hl] at h ⊢; exact key _ h
  · have hc' : env.cached n.1 = false := by simpa using hc
    simp only [hc', Bool.false_eq_true, if_false] at h ⊢
    exact key _ h

end MxModel.C17
