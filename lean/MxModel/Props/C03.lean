import MxModel.Proofs.C3
import MxModel.Proofs.StructMechHistory
import MxModel.Proofs.StructMechRenameSpace
import MxModel.Proofs.ExecResolveDerived
import MxModel.Props.C02
/-!
# C03 – derived members equal re-derivation from defined members along the C3 order

`MxModel.C3.mro` is `SpaceGraph.get_mro` (the merge loop, the candidate rule, the failure
case) and `MxModel.Struct.derive` is the derivation from scratch the property names.  The
theorems characterise them for all inheritance graphs and all member tables; the check ties
modelx's *incrementally maintained* state to them after every operation (see
harness/mxh/props/c03.py): the derived members modelx holds must be exactly `derive` of its
own defined members, and `bases` must be `mro` of its own direct-base lists.
The incremental maintenance itself (`SpaceManager` / `SpaceUpdater` / `on_inherit`) is modelled
operation by operation in `Struct/Mech.lean` (`MxModel.SM`, tied to the code by the `smech`
correspondence: accept/refuse and the whole structural state after every edit).  For that mechanism
`mech_refines_derivation` proves, for every operation sequence without bound, that the member table
of every space of every reachable state *is* the derivation from scratch
(`Proofs/StructMech*.lean`: invariant `SM.Inv`, preserved by each of the twelve operations).
Last section: **a derived cells evaluates with names resolved in the sub space** – the structural state
as a source of Exec definitions (`SM.structEnv`, `Proofs/ExecResolveDerived.lean`: the resolution layer
`Exec/Resolve.lean` with sources, homes and reference values read off the member tables).
-/
namespace MxModel.C03
open MxModel.C3 MxModel.Struct

variable {α : Type} [DecidableEq α]

/-- **Exactly the inherited, not locally defined names are derived**: `x` has a derived copy in
a space iff the space does not define `x` and some space of the tail of its linearisation does. -/
theorem derived_iff (tail : List α) (defs : α → List String) (own : List String) (x : String) :
    x ∈ (derive tail defs own).map (·.1) ↔ x ∉ own ∧ ∃ b ∈ tail, x ∈ defs b := by
  unfold derive
  simp only [List.mem_map, List.mem_filterMap]
  constructor
  · rintro ⟨⟨n, b⟩, ⟨y, hy, hyb⟩, rfl⟩
    cases hf : firstDefiner tail defs y with
    | none => rw [hf] at hyb; cases hyb
    | some b' =>
      rw [hf] at hyb
      simp only [Option.map_some, Option.some.injEq, Prod.mk.injEq] at hyb
      obtain ⟨rfl, rfl⟩ := hyb
      exact (mem_derivedNames tail defs own y).mp hy
  · intro h
    obtain ⟨b, hb⟩ := firstDefiner_some tail defs x h.2
    exact ⟨(x, b), ⟨x, (mem_derivedNames tail defs own x).mpr h, by rw [hb]; rfl⟩, rfl⟩

/-- **It carries the formula (or value) of the first space in the linearisation that defines
the name**: the definer recorded for a derived name defines it, and no earlier space of the
linearisation does. -/
theorem derived_from_first_definer (tail : List α) (defs : α → List String) (own : List String)
    (x : String) (b : α) (h : (x, b) ∈ derive tail defs own) :
    x ∈ defs b ∧ ∃ pre post, tail = pre ++ b :: post ∧ ∀ b' ∈ pre, x ∉ defs b' := by
  unfold derive at h
  simp only [List.mem_filterMap] at h
  obtain ⟨y, _, hyb⟩ := h
  cases hf : firstDefiner tail defs y with
  | none => rw [hf] at hyb; cases hyb
  | some b' =>
    rw [hf] at hyb
    simp only [Option.map_some, Option.some.injEq, Prod.mk.injEq] at hyb
    obtain ⟨rfl, rfl⟩ := hyb
    unfold firstDefiner at hf
    have h1 := List.find?_some hf
    obtain ⟨pre, post, h2, h3⟩ := List.find?_eq_some_iff_append.mp hf |>.2
    refine ⟨by simpa using h1, pre, post, h2, ?_⟩
    intro b'' hb''
    have := h3 b'' hb''
    simpa using this

/-- **Exactly one derived copy** of each name. -/
theorem derived_unique (tail : List α) (defs : α → List String) (own : List String) :
    ((derive tail defs own).map (·.1)).Nodup := by
  unfold derive
  have hnd : (derivedNames tail defs own).Nodup := by
    unfold derivedNames
    exact List.Nodup.sublist List.filter_sublist (nodup_eraseDups _)
  generalize derivedNames tail defs own = l at hnd
  induction l with
  | nil => simp
  | cons y l ih =>
    simp only [List.filterMap_cons]
    have hl := (List.nodup_cons.mp hnd)
    cases hf : firstDefiner tail defs y with
    | none => simpa using ih hl.2
    | some b =>
      simp only [Option.map_some, List.map_cons, List.nodup_cons]
      refine ⟨?_, ih hl.2⟩
      simp only [List.mem_map, List.mem_filterMap, not_exists, not_and]
      rintro ⟨n, b'⟩ ⟨z, hz, hzb⟩ hny
      cases hf' : firstDefiner tail defs z with
      | none => rw [hf'] at hzb; cases hzb
      | some b'' =>
        rw [hf'] at hzb
        simp only [Option.map_some, Option.some.injEq, Prod.mk.injEq] at hzb
        simp only [] at hny
        exact hl.1 (by rw [← hny, ← hzb.1]; exact hz)

/-- **`bases` reports the linearisation**: it starts with the space itself … -/
theorem linearisation_starts_with_space (bases : α → List α) (d : Nat) (s : α) (l : List α)
    (h : mro bases d s = some l) : ∃ r, l = s :: r ∧ basesOf bases d s = some r := by
  obtain ⟨r, hr⟩ := mro_head bases d s l h
  exact ⟨r, hr, by simp [basesOf, h, hr]⟩

/-- … **keeps the declared order of the direct bases, and every direct base's own
linearisation is a subsequence of it** (local precedence and monotonicity, the defining
properties of C3) – for every inheritance graph for which modelx accepts the edit. -/
theorem linearisation_is_c3 (bases : α → List α) (d : Nat) (s : α) (r : List α)
    (h : mro bases (d + 1) s = some (s :: r)) :
    (bases s).Sublist r ∧ ∀ b ∈ bases s, ∃ lb, mro bases d b = some lb ∧ lb.Sublist r :=
  mro_sublist bases d s r h

/-- … and contains nothing but the space, its direct bases and members of their linearisations. -/
theorem linearisation_only_ancestors (bases : α → List α) (d : Nat) (s : α) (r : List α)
    (h : mro bases (d + 1) s = some (s :: r)) (x : α) (hx : x ∈ r) :
    x ∈ bases s ∨ ∃ b ∈ bases s, ∃ lb, mro bases d b = some lb ∧ x ∈ lb := by
  simp only [mro] at h
  cases hmm : (bases s).mapM (mro bases d) with
  | none => rw [hmm] at h; cases h
  | some ms =>
    rw [hmm] at h
    simp only [] at h
    cases hm : merge (totalLen (ms ++ [bases s])) (ms ++ [bases s]) with
    | none => rw [hm] at h; cases h
    | some r' =>
      rw [hm] at h
      simp only [Option.map_some, Option.some.injEq, List.cons.injEq, true_and] at h
      subst h
      obtain ⟨sq, hsq, hxs⟩ := merge_mem (α := α) _ _ _ hm x hx
      simp only [List.mem_append, List.mem_singleton] at hsq
      rcases hsq with hsq | rfl
      · right
        -- sq is the linearisation of one of the direct bases
        have : ∀ (l : List α) (ms : List (List α)), l.mapM (mro bases d) = some ms →
            ∀ sq ∈ ms, ∃ b ∈ l, mro bases d b = some sq := by
          intro l
          induction l with
          | nil => intro ms hms sq hsq; simp at hms; subst hms; cases hsq
          | cons a l ih =>
            intro ms hms sq hsq
            simp only [List.mapM_cons, Option.bind_eq_bind, Option.pure_def] at hms
            cases ha : mro bases d a with
            | none => rw [ha] at hms; cases hms
            | some la =>
              rw [ha] at hms
              simp only [Option.bind_some] at hms
              cases hl : l.mapM (mro bases d) with
              | none => rw [hl] at hms; cases hms
              | some ml =>
                rw [hl] at hms
                simp only [Option.bind_some, Option.some.injEq] at hms
                subst hms
                simp only [List.mem_cons] at hsq
                rcases hsq with rfl | hsq
                · exact ⟨a, by simp, ha⟩
                · obtain ⟨b, hb, hbm⟩ := ih ml hl sq hsq
                  exact ⟨b, by simp [hb], hbm⟩
        obtain ⟨b, hb, hbm⟩ := this _ _ hmm sq hsq
        exact ⟨b, hb, sq, hbm, hxs⟩
      · exact Or.inl hxs

/-! Non-vacuity: the diamond `D(B, C), B(A), C(A)` with `f` defined in `A` and `C`, `g` in `B`;
an inconsistent hierarchy is rejected. -/
def dBases : String → List String
  | "D" => ["B", "C"] | "B" => ["A"] | "C" => ["A"] | "E" => ["A", "B"] | _ => []
def dCells : String → List String
  | "A" => ["f", "y"] | "B" => ["g"] | "C" => ["f"] | _ => []

example : mro dBases 5 "D" = some ["D", "B", "C", "A"] := by decide
example : derive ["B", "C", "A"] dCells [] = [("g", "B"), ("f", "C"), ("y", "A")] := by decide
example : mro dBases 5 "E" = none := by decide

/-! ## The incremental mechanism refines derivation from scratch -/

section mechanism
open MxModel.SM

/-- **Incremental maintenance always equals derivation from scratch.**  After any sequence of
operations of the mechanism model (creating and deleting spaces, cells and references, redefining,
renaming, adding and removing bases, model-level references; refused operations change nothing),
for every space `q`, kind `a` (cells / references) and name `n`: the space holds its own
definition of `n` if it has one; otherwise one derived copy carrying the payload (formula / value)
of the **first** space along the tail of `q`'s C3 linearisation that defines `n`; otherwise
nothing. -/
theorem mech_refines_derivation (kw : List String) (ops : List Op) (a : Attr) (q : Path) (n : String) :
    (St.run kw {} ops).mem a q n =
      match (St.run kw {} ops).defd a q n with
      | some v => some { derived := false, payload := v }
      | none => ((St.run kw {} ops).firstDef a ((St.run kw {} ops).tail q) n).map
          (fun d => { derived := true, payload := d.2 }) :=
  (run_inv kw ops).mem_eq_derivation a q n

/-- the two directions the property statement names: a derived member has a first definer in the
linearisation and carries its payload; a name the space does not have is defined nowhere along
its linearisation -/
theorem mech_derived_from_first_definer (kw : List String) (ops : List Op) (a : Attr) (q : Path)
    (n : String) :
    (∀ m, (St.run kw {} ops).mem a q n = some m → m.derived = true →
      ∃ b, (St.run kw {} ops).firstDef a ((St.run kw {} ops).tail q) n = some (b, m.payload)) ∧
    ((St.run kw {} ops).mem a q n = none →
      (St.run kw {} ops).firstDef a ((St.run kw {} ops).tail q) n = none) := by
  have hg := (run_inv kw ops).good a q n
  unfold Good1 at hg
  constructor
  · intro m hm hd
    rw [hm] at hg
    exact hg hd
  · intro hm
    rw [hm] at hg
    exact hg

/-- … and conversely **exactly one derived copy of every inherited, not locally defined name**:
the names under which a reachable space holds a derived member are the names `derive` (the
specification above) computes from the linearisation and the *defined* names. -/
theorem mech_derived_names_eq_derive (kw : List String) (ops : List Op) (a : Attr) (q : Path) (n : String) :
    n ∈ (derive ((St.run kw {} ops).tail q) ((St.run kw {} ops).definedNames a)
        ((St.run kw {} ops).definedNames a q)).map (·.1) ↔
      ∃ m, (St.run kw {} ops).mem a q n = some m ∧ m.derived = true := by
  have hinv := run_inv kw ops
  generalize St.run kw {} ops = st at hinv
  rw [derived_iff, mem_definedNames_iff hinv.wf.keys]
  have hm := hinv.mem_eq_derivation a q n
  constructor
  · rintro ⟨hown, b, hb, hnb⟩
    rw [mem_definedNames_iff hinv.wf.keys] at hnb
    have hd : st.defd a q n = none := by
      cases hx : st.defd a q n with
      | none => rfl
      | some _ => rw [hx] at hown; simp at hown
    rw [hd] at hm
    obtain ⟨d, hd'⟩ := firstDef_isSome_of st a _ n b hb hnb
    rw [hd'] at hm
    exact ⟨_, hm, rfl⟩
  · rintro ⟨m, hmm, hder⟩
    cases hd : st.defd a q n with
    | some v =>
      rw [hd, hmm] at hm
      simp only [Option.some.injEq] at hm
      rw [hm] at hder; cases hder
    | none =>
      refine ⟨by simp, ?_⟩
      rw [hd, hmm] at hm
      cases hf : st.firstDef a (st.tail q) n with
      | none => rw [hf] at hm; cases hm
      | some d =>
        obtain ⟨h1, h2⟩ := firstDef_some st a _ n d.1 d.2 hf
        exact ⟨d.1, h1, (mem_definedNames_iff hinv.wf.keys a d.1 n).mpr (by rw [h2]; rfl)⟩

/-- **`bases` reports the linearisation** for the mechanism too: in every reachable state every
space has a C3 linearisation (`St.mro` is the kernel `C3.mro` on the direct-base lists, depth bound
= number of spaces + 1), and it starts with the space. -/
theorem mech_linearisation_exists (kw : List String) (ops : List Op) (q : Path) :
    (St.run kw {} ops).mro q = some (q :: (St.run kw {} ops).tail q) :=
  (run_inv kw ops).wf.mro_all q

/-! ### what the accepted operations do (functional correctness)

`mech_refines_derivation` says that the member table is a function of the *definitions* and the direct
bases; a mechanism that refuses everything, or accepts and does nothing, satisfies it.  The following
theorems say which operations are accepted and what an accepted one does to the definitions, the spaces
and the bases - and so, with `mech_refines_derivation`, to the whole state. -/

/-- **when an operation is accepted**: the explicit criterion `SM.St.accepts` (one per operation,
`Proofs/StructMechEffect.lean`), for every state -/
theorem mech_accepted_iff (kw : List String) (st : St) (op : Op) :
    (st.apply kw op).isSome = st.accepts kw op := apply_isSome kw st op

/-- **what an accepted operation does**, in every reachable state (`SM.Effect`): `newCells` / `setFormula` /
`setRef` define exactly that name in exactly that space (`newCells` under the name the cells gets) and change
no other definition; `delCells` / `delRef` remove exactly that definition; `addBases` / `removeBases`
change the direct bases of exactly that space exactly so and no definition; `newSpace` adds exactly that
space with these bases, defining the references handed to it and nothing else; `delSpace` removes
exactly the spaces at and below the path, the definitions of the others stay; `renameCells` changes no
definition under another name; `setGlobal` / `delGlobal` do not touch the spaces. -/
theorem mech_accepted_effect (kw : List String) (ops : List Op) (op : Op) (st' : St)
    (hop : (St.run kw {} ops).apply kw op = some st') : Effect kw (St.run kw {} ops) st' op :=
  apply_spec kw _ st' (run_inv kw ops).wf.keys op hop

/-- … hence the whole member table after an accepted `newCells` (as an instance): every space holds under
every name its own definition - the new one in `p` under the name the cells got, the old ones elsewhere -
or the derived copy of the first definition along its (unchanged) linearisation -/
theorem mech_state_after_newCells (kw : List String) (ops : List Op) (p : Path) (name fname : String) (v : Nat)
    (st' : St) (hop : (St.run kw {} ops).apply kw (.newCells p name fname v) = some st')
    (a : Attr) (q : Path) (n : String) :
    let st := St.run kw {} ops
    let d : Attr → Path → String → Option Nat := fun a' q' n' =>
      if q' = p ∧ a' = .cells ∧ n' = st.cellsName kw p name fname then some v else st.defd a' q' n'
    st'.mem a q n =
      match d a q n with
      | some w => some { derived := false, payload := w }
      | none => ((st.tail q).findSome? (fun b => (d a b n).map (fun w => (b, w)))).map
          (fun e => { derived := true, payload := e.2 }) := by
  intro st d
  have hi' : Inv st' := inv_apply kw st st' _ (run_inv kw ops) hop
  obtain ⟨hs, hd⟩ := mech_accepted_effect kw ops _ st' hop
  rw [hi'.mem_eq_derivation a q n, hs.tail]
  have hdd : ∀ a' q' n', st'.defd a' q' n' = d a' q' n' := hd
  rw [hdd]
  unfold St.firstDef
  have : (fun b => (st'.defd a b n).map (fun w => (b, w))) = (fun b => (d a b n).map (fun w => (b, w))) := by
    funext b; rw [hdd]
  rw [this]
  rfl

/-- **the definitions of a reachable state are exactly those the accepted operations of the history made
and no later accepted operation removed** - for every history of the twelve operations (`SM.specDefs`: a
fold over the history that consults the mechanism's state for accept/refuse, for the name an unnamed cells
gets, and - for `renameCells` only - for which spaces hold a copy of the renamed cells).  With
`mech_refines_derivation` and the base lists (`mech_accepted_effect`) the whole reachable state is a
function of the history. -/
theorem mech_definitions_from_history (kw : List String) (ops : List Op) (a : Attr) (q : Path) (n : String) :
    (St.run kw {} ops).defd a q n = specDefs kw {} (fun _ _ _ => none) ops a q n :=
  defd_run kw ops a q n

/-- **what an accepted `renameCells` does to the definitions**, completely (`SM.renameCells_full`) -/
theorem mech_rename_effect (kw : List String) (ops : List Op) (p : Path) (old new : String) (st' : St)
    (hop : (St.run kw {} ops).renameCells kw p old new = some st') (a : Attr) (q : Path) (n : String) :
    st'.defd a q n =
      if a = .cells ∧ q ∈ (St.run kw {} ops).renameTargets p old then renamedDef (St.run kw {} ops) old new q n
      else (St.run kw {} ops).defd a q n :=
  (renameCells_full kw _ st' (run_inv kw ops) p old new hop).2 a q n

/-- **liveness of the plain case**: in every reachable state a cells under a valid name that is used for
nothing can be created in every existing space, and is then defined there -/
theorem mech_fresh_cells_accepted (kw : List String) (ops : List Op) (p : Path) (n : String) (v : Nat)
    (hp : p ∈ (St.run kw {} ops).ids) (hv : Names.isValidName kw n = true) (hu : Unused (St.run kw {} ops) n) :
    ∃ st', (St.run kw {} ops).apply kw (.newCells p n n v) = some st' ∧ st'.defd .cells p n = some v := by
  obtain ⟨st', h1, h2⟩ := newCells_accepted_of_unused kw (St.run kw {} ops) p n v hp hv hu
  refine ⟨st', ?_, h2⟩
  simp only [St.apply, St.newCellsNamed, hv, if_true]
  exact h1

/-- … and a space without bases under a fresh valid name, at top level or inside an existing space -/
theorem mech_fresh_space_accepted (kw : List String) (ops : List Op) (parent : Path) (n : String)
    (hp : parent = [] ∨ parent ∈ (St.run kw {} ops).ids) (hv : Names.isValidName kw n = true)
    (hu : Unused (St.run kw {} ops) n) :
    ∃ st', (St.run kw {} ops).apply kw (.newSpace parent n [] []) = some st' := by
  obtain ⟨st', h1⟩ := newSpace_accepted_of_unused kw (St.run kw {} ops) parent n hp hv hu
  exact ⟨st', by simp [St.apply, St.newSpaceRefs, h1, St.setRefs]⟩

/-! Non-vacuity: the diamond `D(B, C)`, `B(A)`, `C(A)`, `f` defined in `A` and redefined in `C`:
`D.f` is the derived copy of `C.f`; after `C.f` is deleted it is the copy of `A.f`; after the base
`A` is removed from `B` and `C` … -/
def diamondOps : List Op := [
  .newSpace [] "A" [] [], .newCells ["A"] "f" "f" 1, .newSpace [] "B" [["A"]] [], .newSpace [] "C" [["A"]] [],
  .setFormula ["C"] "f" 2, .newSpace [] "D" [["B"], ["C"]] []]

example : (St.run [] {} diamondOps).mem .cells ["D"] "f" = some { derived := true, payload := 2 } := by decide
example : (St.run [] {} diamondOps).tail ["D"] = [["B"], ["C"], ["A"]] := by decide
example : (St.run [] {} (diamondOps ++ [.delCells ["C"] "f"])).mem .cells ["D"] "f"
    = some { derived := true, payload := 1 } := by decide
example : (St.run [] {} (diamondOps ++ [.delCells ["A"] "f"])).mem .cells ["B"] "f" = none := by decide
example : (St.run [] {} (diamondOps ++ [.delCells ["A"] "f"])).mem .cells ["D"] "f"
    = some { derived := true, payload := 2 } := by decide
example : Unused (St.run [] {} diamondOps) "g" ∧ ((St.run [] {} diamondOps).accepts [] (.newCells ["B"] "g" "g" 3)) = true := by
  refine ⟨⟨?_, ?_, ?_⟩, by decide⟩
  · intro a q
    by_cases hq : q ∈ (St.run [] {} diamondOps).ids
    · have hids : (St.run [] {} diamondOps).ids = [["A"], ["B"], ["C"], ["D"]] := by decide
      have : q ∈ [["A"], ["B"], ["C"], ["D"]] := by rw [← hids]; exact hq
      simp only [List.mem_cons, List.not_mem_nil, or_false] at this
      rcases this with rfl | rfl | rfl | rfl <;> cases a <;> decide
    · exact St.mem_of_not_mem _ a q "g" hq
  · intro q hn
    rw [mem_childNames] at hn
    have hids : (St.run [] {} diamondOps).ids = [["A"], ["B"], ["C"], ["D"]] := by decide
    have : q ++ ["g"] ∈ [["A"], ["B"], ["C"], ["D"]] := by rw [← hids]; exact hn
    simp only [List.mem_cons, List.not_mem_nil, or_false] at this
    rcases this with h | h | h | h <;>
      · have := congrArg List.getLast? h
        simp at this
  · decide
example : specDefs [] {} (fun _ _ _ => none) (diamondOps ++ [.delCells ["A"] "f", .delCells ["D"] "f"]) .cells ["C"] "f"
    = some 2 := by decide
example : specDefs [] {} (fun _ _ _ => none) (diamondOps ++ [.delCells ["A"] "f", .delCells ["D"] "f"]) .cells ["A"] "f"
    = none := by decide
-- renaming `A.f` to `g`: the derived copy in `B` follows, `C` keeps its own definition under the new name too
-- (`D` derives `f` from `C`, not from `A`: it is not renamed but re-derived)
example : (St.run [] {} diamondOps).renameTargets ["A"] "f" = [["A"], ["B"], ["C"]] := by decide
example : (St.run [] {} (diamondOps ++ [.renameCells ["A"] "f" "g"])).mem .cells ["D"] "g"
    = some { derived := true, payload := 2 } := by decide
example : specDefs [] {} (fun _ _ _ => none) (diamondOps ++ [.renameCells ["A"] "f" "g"]) .cells ["C"] "g" = some 2 := by decide
example : specDefs [] {} (fun _ _ _ => none) (diamondOps ++ [.renameCells ["A"] "f" "g"]) .cells ["A"] "f" = none := by decide
-- an operation that is refused (`E(A, B)` has no linearisation)
example : ((St.run [] {} diamondOps).step [] (.newSpace [] "E" [["A"], ["B"]] [])).2 = false := by decide

/-! ### `rename_space`

`SM.St.renameSpace` (Struct/MechRename.lean, line `renamespace` of the `smech` correspondence) is one
relabelling `ρ = SM.relabel p new` of every path the state holds.  Histories: `SM.OpR` = the twelve
operations and renames, `SM.St.runR`. -/

/-- **incremental maintenance equals derivation from scratch, renames included**: after every history of
the twelve operations and renames of spaces the member table of every space is the derivation from
scratch, and every space has a linearisation -/
theorem mech_with_renames_refines_derivation (kw : List String) (ops : List OpR) (a : Attr) (q : Path) (n : String) :
    (St.runR kw {} ops).mem a q n =
      (match (St.runR kw {} ops).defd a q n with
      | some v => some { derived := false, payload := v }
      | none => ((St.runR kw {} ops).firstDef a ((St.runR kw {} ops).tail q) n).map
          (fun d => { derived := true, payload := d.2 })) ∧
    (St.runR kw {} ops).mro q = some (q :: (St.runR kw {} ops).tail q) :=
  ⟨(runR_inv kw ops).mem_eq_derivation a q n, (runR_inv kw ops).wf.mro_all q⟩

/-- **`rename_space` commutes with derivation**: an accepted rename in a reachable state is the relabelling
`ρ` of the whole structural state - the spaces of the new state are the images of the spaces; for every
space `q` the direct bases, the C3 linearisation and its tail of `ρ q` are the images of those of `q`
(linearisation commutes with the relabelling), the member table and the definitions of `ρ q` are those of
`q` (nothing is re-derived, nothing needs to be) - and the new state is again the derivation from scratch
from its own definitions along its own linearisations. -/
theorem rename_space_commutes_with_derivation (kw : List String) (ops : List OpR) (p : Path) (new : String)
    (st' : St) (hop : (St.runR kw {} ops).renameSpace kw p new = .ok st') :
    st'.ids = (St.runR kw {} ops).ids.map (relabel p new) ∧
    (∀ q ∈ (St.runR kw {} ops).ids,
      st'.basesOf (relabel p new q) = ((St.runR kw {} ops).basesOf q).map (relabel p new) ∧
      st'.mro (relabel p new q) = ((St.runR kw {} ops).mro q).map (List.map (relabel p new)) ∧
      st'.tail (relabel p new q) = ((St.runR kw {} ops).tail q).map (relabel p new) ∧
      ∀ a n, st'.mem a (relabel p new q) n = (St.runR kw {} ops).mem a q n ∧
        st'.defd a (relabel p new q) n = (St.runR kw {} ops).defd a q n) ∧
    (∀ a q n, st'.mem a q n =
      match st'.defd a q n with
      | some v => some { derived := false, payload := v }
      | none => (st'.firstDef a (st'.tail q) n).map (fun d => { derived := true, payload := d.2 })) := by
  have hi := runR_inv kw ops
  obtain ⟨h1, _, h3⟩ := renameSpace_commutes kw _ st' hi p new hop
  exact ⟨h1, h3, fun a q n => (inv_renameSpace kw _ st' hi p new hop).mem_eq_derivation a q n⟩

/-- the transport lemma behind it, for every state and every injective relabelling `ρ` of paths:
linearisations, member tables, definitions and first definers commute with `ρ` -/
theorem derivation_commutes_with_injective_relabelling (ρ : Path → Path) (hρ : ∀ x y, ρ x = ρ y → x = y)
    (st : St) (a : Attr) (q : Path) (n : String) :
    (st.mapPaths ρ).mro (ρ q) = (st.mro q).map (List.map ρ) ∧
    (st.mapPaths ρ).mem a (ρ q) n = st.mem a q n ∧
    (st.mapPaths ρ).defd a (ρ q) n = st.defd a q n ∧
    (st.mapPaths ρ).firstDef a ((st.mapPaths ρ).tail (ρ q)) n =
      (st.firstDef a (st.tail q) n).map (fun d => (ρ d.1, d.2)) :=
  ⟨mro_mapPaths ρ st hρ q, mem_mapPaths ρ st hρ a q n, defd_mapPaths ρ st hρ a q n,
    by rw [tail_mapPaths ρ st hρ, firstDef_mapPaths ρ st hρ]⟩

/-! Non-vacuity: `A.A` (bearing its parent's name) defines `f` and is the base of `T`; `D` derives from `T`;
after `A.A` is renamed to `B`, `T` and `D` still derive `f` - now along the linearisation `[A.B]` / `[T, A.B]`. -/

def renOps : List OpR := [
  .op (.newSpace [] "A" [] []), .op (.newSpace ["A"] "A" [] []), .op (.newCells ["A", "A"] "f" "f" 1),
  .op (.newSpace [] "T" [["A", "A"]] []), .op (.newSpace [] "D" [["T"]] []),
  .renameSpace ["A", "A"] "B", .op (.setFormula ["A", "B"] "f" 5), .renameSpace ["A"] "T"]

example : (St.runR [] {} (renOps.take 5)).tail ["D"] = [["T"], ["A", "A"]] := by decide
example : (St.runR [] {} (renOps.take 6)).tail ["D"] = [["T"], ["A", "B"]] := by decide
example : (St.runR [] {} (renOps.take 6)).mem .cells ["D"] "f" = some { derived := true, payload := 1 } := by decide
example : (St.runR [] {} (renOps.take 7)).mem .cells ["D"] "f" = some { derived := true, payload := 5 } := by decide
example : (St.runR [] {} (renOps.take 7)).firstDef .cells ((St.runR [] {} (renOps.take 7)).tail ["D"]) "f"
    = some (["A", "B"], 5) := by decide
-- the last rename is refused (`T` is a top-level space): nothing changes
example : (St.runR [] {} renOps).ids = (St.runR [] {} (renOps.take 7)).ids := by decide
example : ∃ st', (St.runR [] {} (renOps.take 5)).renameSpace [] ["A", "A"] "B" = .ok st' ∧
    st'.ids = (St.runR [] {} (renOps.take 5)).ids.map (relabel ["A", "A"] "B") :=
  ⟨(St.runR [] {} (renOps.take 5)).mapPaths (relabel ["A", "A"] "B"), by rfl,
    (rename_space_commutes_with_derivation [] (renOps.take 5) ["A", "A"] "B" _ (by rfl)).1⟩
example := mech_with_renames_refines_derivation [] renOps .cells ["D"] "f"

end mechanism

/-! ## A derived cells evaluates with names resolved in the sub space

`SM.execEnv se ids D srcOf valOf st` is the Exec environment of the structural state `st`: every cells
member `(q, x)` – own or derived – is a cells `ids.cid q x` of its own whose formula is the SOURCE its
entry carries (`srcOf payload`; for a derived entry the payload of the first definer) resolved in the
namespace of `q` (`SM.nsOf ids st q`: `q`'s cells, own and derived, then its references, own and derived,
then the model-level references).  The resolution layer is pure Lean (not tied to the code by a
correspondence of its own; the C01 oracle "names resolved in sub space" and the C03 oracle "values of
derived cells vs a model rebuilt from definitions" observe the same thing on modelx). -/
section derived_evaluation
open MxModel.SM MxModel.Exec

variable (se : SEnv) (ids : Ids) (D : Dec) (srcOf : Nat → Key → SProg) (valOf : Nat → Val)

theorem defd_mem {st : SM.St} {a : Attr} {b : Path} {n : String} {v : Nat} (h : st.defd a b n = some v) :
    st.mem a b n = some { derived := false, payload := v } := by
  unfold St.defd at h
  cases hm : st.mem a b n with
  | none => rw [hm] at h; cases h
  | some m =>
    rw [hm] at h
    obtain ⟨d, p⟩ := m
    cases d with
    | true => simp at h
    | false => simp at h; subst h; rfl

/-- **The formula of a derived cells is its first definer's SOURCE resolved in the SUB space's namespace.**
In every reachable structural state, for a space `q` that holds a derived cells `n`: there is the first
space `b` along the tail of `q`'s linearisation that defines `n` (`mech_derived_from_first_definer`); the
derived entry carries `b`'s payload; the formula the executor sees for the derived cells `(q, n)` is
`resolve (nsOf … q) (source of b's n)` – resolved in `q`'s namespace – while the definer's own cells
`(b, n)` has the SAME source resolved in `b`'s namespace. -/
theorem derived_cells_formula_is_definers_source_in_sub_space (kw : List String) (ops : List Op) (q : Path)
    (n : String) (m : Member)
    (hm : (St.run kw {} ops).mem .cells q n = some m) (hd : m.derived = true)
    (hdec : D.cellOf (ids.cid q n) = (q, n)) (hnum : D.pathOf (D.num q) = q) :
    ∃ b, (St.run kw {} ops).firstDef .cells ((St.run kw {} ops).tail q) n = some (b, m.payload) ∧
      b ∈ (St.run kw {} ops).tail q ∧
      (St.run kw {} ops).mem .cells b n = some { derived := false, payload := m.payload } ∧
      (∀ key, (execEnv se ids D srcOf valOf (St.run kw {} ops)).formula (ids.cid q n, key) =
        resolve (nsOf ids (St.run kw {} ops) q) (srcOf m.payload key)) ∧
      (D.cellOf (ids.cid b n) = (b, n) → D.pathOf (D.num b) = b → ∀ key,
        (execEnv se ids D srcOf valOf (St.run kw {} ops)).formula (ids.cid b n, key) =
          resolve (nsOf ids (St.run kw {} ops) b) (srcOf m.payload key)) := by
  obtain ⟨b, hb⟩ := (mech_derived_from_first_definer kw ops .cells q n).1 m hm hd
  obtain ⟨h1, h2⟩ := firstDef_some _ _ _ _ _ _ hb
  have hmb := defd_mem h2
  refine ⟨b, hb, h1, hmb, fun key => ?_, fun hdb hnb key => ?_⟩
  · exact structEnv_formula se ids D srcOf valOf _ q n key m hdec hnum hm
  · exact structEnv_formula se ids D srcOf valOf _ b n key { derived := false, payload := m.payload } hdb hnb hmb

/-- **(i) A name that the sub space overrides is read from the sub space.**  Where the definer's source
looks a global name `x` up, the derived cells of `q` continues with what `q`'s namespace binds `x` to:
`q`'s OWN cells of that name when `q` has one – defined in `q`, or derived into `q` (from whichever base
comes first in `q`'s linearisation) –, else `q`'s own reference of that name (defined or derived) – never
the definer's member (`ids.cid q x`, `ids.rid q x`: members have identities per space). -/
theorem derived_cells_reads_sub_space_names (st : SM.St) (q : Path) (n : String) (m : Member) (key : Key)
    (hm : st.mem .cells q n = some m)
    (hdec : D.cellOf (ids.cid q n) = (q, n)) (hnum : D.pathOf (D.num q) = q)
    (x : String) (k : Option Binding → SProg) (hsrc : srcOf m.payload key = .name x k) :
    (execEnv se ids D srcOf valOf st).formula (ids.cid q n, key) =
      resolve (nsOf ids st q) (k (nsOf ids st q x)) ∧
    ((st.mem .cells q x).isSome = true → nsOf ids st q x = some (.cell (ids.cid q x))) ∧
    (st.mem .cells q x = none → (st.childNames q).contains x = false → (st.mem .refs q x).isSome = true →
      nsOf ids st q x = some (.ref (ids.rid q x))) := by
  refine ⟨?_, nsOf_cells ids st q x, nsOf_refs ids st q x⟩
  rw [structEnv_formula se ids D srcOf valOf st q n key m hdec hnum hm, hsrc]
  rfl

/-- … for a source that READS the global `x` (`y * 2`): the derived cells of `q` reads `q`'s reference
`x`, with the value `q`'s entry carries – `q`'s own definition (an override) or the copy derived into `q` -/
theorem derived_cells_reads_sub_space_reference (st : SM.St) (q : Path) (n : String) (m : Member) (key : Key)
    (hm : st.mem .cells q n = some m)
    (hdec : D.cellOf (ids.cid q n) = (q, n)) (hnum : D.pathOf (D.num q) = q)
    (x : String) (k : Option Val → SProg) (onCell onNone : SProg)
    (hsrc : srcOf m.payload key = SProg.readN x k onCell onNone)
    (hc : st.mem .cells q x = none) (hch : (st.childNames q).contains x = false)
    (mr : Member) (hr : st.mem .refs q x = some mr) (hdr : D.refOf (ids.rid q x) = (q, x)) :
    (execEnv se ids D srcOf valOf st).formula (ids.cid q n, key) =
      .read false (ids.rid q x) (fun o => resolve (nsOf ids st q) (k o)) ∧
    (execEnv se ids D srcOf valOf st).refs (ids.rid q x) = some (valOf mr.payload) := by
  refine ⟨?_, structEnv_refs se ids D srcOf valOf st q x mr hdr hr⟩
  rw [structEnv_formula se ids D srcOf valOf st q n key m hdec hnum hm, hsrc]
  exact resolve_readN_ref ids st q x k onCell onNone hc hch (by rw [hr]; rfl)

/-- … for a source that CALLS the global `x`: the derived cells of `q` calls `q`'s cells `x` -/
theorem derived_cells_calls_sub_space_cells (st : SM.St) (q : Path) (n : String) (m : Member) (key : Key)
    (hm : st.mem .cells q n = some m)
    (hdec : D.cellOf (ids.cid q n) = (q, n)) (hnum : D.pathOf (D.num q) = q)
    (x : String) (key' : Key) (k : Res → SProg) (onRef : Option Val → SProg) (onNone : SProg)
    (hsrc : srcOf m.payload key = SProg.callN x key' k onRef onNone)
    (hx : (st.mem .cells q x).isSome = true) :
    (execEnv se ids D srcOf valOf st).formula (ids.cid q n, key) =
      .call (ids.cid q x, key') (fun r => resolve (nsOf ids st q) (k r)) := by
  rw [structEnv_formula se ids D srcOf valOf st q n key m hdec hnum hm, hsrc]
  exact resolve_callN_cell ids st q x key' k onRef onNone hx

/-- **(iii) The formula of the derived cells depends only on the sub space's namespace – on the names the
source mentions – and on the definer's source**: two structural states (before / after ANY edit), in both
of which `q` has a cells `n` with the same source, and whose namespaces of `q` agree on the names that
source mentions, give the derived cells the same formula (`resolve_congr`). -/
theorem derived_cells_formula_depends_only_on_sub_namespace_and_source (st st' : SM.St) (q : Path) (n : String)
    (key : Key) (m m' : Member)
    (hdec : D.cellOf (ids.cid q n) = (q, n)) (hnum : D.pathOf (D.num q) = q)
    (hm : st.mem .cells q n = some m) (hm' : st'.mem .cells q n = some m')
    (hsrc : srcOf m'.payload key = srcOf m.payload key)
    (hns : ∀ x, Mentions (srcOf m.payload key) x → nsOf ids st' q x = nsOf ids st q x) :
    (execEnv se ids D srcOf valOf st').formula (ids.cid q n, key) =
      (execEnv se ids D srcOf valOf st).formula (ids.cid q n, key) := by
  rw [structEnv_formula se ids D srcOf valOf st q n key m hdec hnum hm,
    structEnv_formula se ids D srcOf valOf st' q n key m' hdec hnum hm', hsrc]
  exact resolve_congr _ _ _ hns

/-- … hence so does its denotation: if, besides, the elements the derived cells can call (a call-closed
set `C`) keep their formulas, and the references read from `C` and the existence of the cells of `C` are
unchanged, then `Den` of the derived cells is the same in both states – whatever else the edit did to
other spaces or to names the source does not mention (`C02.den_local`). -/
theorem derived_cells_den_depends_only_on_sub_namespace_and_source (st st' : SM.St) (q : Path) (n : String)
    (key : Key) (m m' : Member)
    (hdec : D.cellOf (ids.cid q n) = (q, n)) (hnum : D.pathOf (D.num q) = q)
    (hm : st.mem .cells q n = some m) (hm' : st'.mem .cells q n = some m')
    (hsrc : srcOf m'.payload key = srcOf m.payload key)
    (hns : ∀ x, Mentions (srcOf m.payload key) x → nsOf ids st' q x = nsOf ids st q x)
    (inp : Node → Option Val) (C : Node → Prop) (R : RefId → Prop) (hC : C (ids.cid q n, key))
    (hclosed : ∀ k, C k → C02.CallsIn C ((execEnv se ids D srcOf valOf st).formula k) ∧
      C02.ReadsIn R ((execEnv se ids D srcOf valOf st).formula k))
    (hform : ∀ k, C k → k ≠ (ids.cid q n, key) →
      (execEnv se ids D srcOf valOf st').formula k = (execEnv se ids D srcOf valOf st).formula k)
    (hrefs : ∀ r, R r → (execEnv se ids D srcOf valOf st').refs r = (execEnv se ids D srcOf valOf st).refs r)
    (halive : ∀ k, C k → (execEnv se ids D srcOf valOf st').alive k.1 = (execEnv se ids D srcOf valOf st).alive k.1)
    (r : Res) :
    Den (execEnv se ids D srcOf valOf st') inp (ids.cid q n, key) r ↔
      Den (execEnv se ids D srcOf valOf st) inp (ids.cid q n, key) r := by
  have hloc := C02.den_local (execEnv se ids D srcOf valOf st) (execEnv se ids D srcOf valOf st') inp inp C R hclosed
    (fun k hk => by
      by_cases he : k = (ids.cid q n, key)
      · subst he
        exact derived_cells_formula_depends_only_on_sub_namespace_and_source se ids D srcOf valOf st st' q n key m m'
          hdec hnum hm hm' hsrc hns
      · exact hform k hk he)
    (fun _ _ => rfl) (fun _ _ => rfl) (fun _ _ => rfl) hrefs halive
  unfold Den
  constructor
  · rintro ⟨d, hd⟩; exact ⟨d, by rw [← hloc d _ hC]; exact hd⟩
  · rintro ⟨d, hd⟩; exact ⟨d, by rw [hloc d _ hC]; exact hd⟩

/-! ### (ii) with numbers: two sub spaces deriving the same cells evaluate it differently

`B` defines `f = y * 2` (payload 1) and the reference `y = 1`; `S1(B)` overrides `y = 10`; `S2(B)` overrides
nothing (it derives `y` from `B`).  Both derive `f`.  Through the mechanism (`Exec.evalTop`):
`B.f() = 2`, `S1.f() = 20`, `S2.f() = 2`. -/
def vOps : List Op := [
  .newSpace [] "B" [] [], .newCells ["B"] "f" "f" 1, .setRef ["B"] "y" 1,
  .newSpace [] "S1" [["B"]] [], .setRef ["S1"] "y" 10, .newSpace [] "S2" [["B"]] []]

def vNum : Path → Nat
  | ["B"] => 0 | ["S1"] => 1 | ["S2"] => 2 | _ => 3
def vPath : Nat → Path
  | 0 => ["B"] | 1 => ["S1"] | 2 => ["S2"] | _ => []
/-- identities: ten per space; member 0 of a space is `f` (cells) / `y` (references) -/
def vIds : Ids where
  cid := fun q x => vNum q * 10 + (if x = "f" then 0 else 1)
  rid := fun q x => vNum q * 10 + (if x = "y" then 0 else 1)
  gid := fun _ => 99
def vDec : Dec where
  cellOf := fun c => (vPath (c / 10), if c % 10 = 0 then "f" else "?")
  refOf := fun r => (vPath (r / 10), if r % 10 = 0 then "y" else "?")
  num := vNum
  pathOf := vPath
/-- the source of payload 1: `y * 2` -/
def vSrc : Nat → Key → SProg := fun _ _ =>
  SProg.readN "y" (fun o => match o with
    | some (.int i) => .ret (.int (i * 2))
    | _ => .raise (.user kType)) (.raise (.user kType)) (.raise (.user kName))
def vBase : SEnv where
  src := fun _ => .raise errDead
  home := fun _ => 0
  nss := fun _ _ => none
  cellName := fun _ => ""
  cells := [0, 10, 20]
  cached := fun _ => true
  allowNone := fun _ => false
  refs := fun _ => none
  maxdepth := 10

def vEnv : Env := execEnv vBase vIds vDec vSrc (fun p => .int p) (St.run [] {} vOps)

example : (St.run [] {} vOps).mem .cells ["S1"] "f" = some { derived := true, payload := 1 } ∧
    (St.run [] {} vOps).mem .cells ["S2"] "f" = some { derived := true, payload := 1 } ∧
    (St.run [] {} vOps).mem .refs ["S1"] "y" = some { derived := false, payload := 10 } ∧
    (St.run [] {} vOps).mem .refs ["S2"] "y" = some { derived := true, payload := 1 } := by decide

example : (evalTop vEnv (vIds.cid ["B"] "f", []) {}).1 = .ok (.int 2) ∧
    (evalTop vEnv (vIds.cid ["S1"] "f", []) {}).1 = .ok (.int 20) ∧
    (evalTop vEnv (vIds.cid ["S2"] "f", []) {}).1 = .ok (.int 2) := by decide

-- the theorems apply: `S1.f` is `B`'s source resolved in `S1`, reading `S1`'s own `y`
example : ∃ b, (St.run [] {} vOps).firstDef .cells ((St.run [] {} vOps).tail ["S1"]) "f" = some (b, 1) :=
  let ⟨b, h, _⟩ := derived_cells_formula_is_definers_source_in_sub_space vBase vIds vDec vSrc (fun p => .int p) [] vOps
    ["S1"] "f" { derived := true, payload := 1 } (by decide) rfl (by decide) (by decide)
  ⟨b, h⟩

example : ∃ k, vEnv.formula (vIds.cid ["S1"] "f", []) = .read false (vIds.rid ["S1"] "y") k ∧
    vEnv.refs (vIds.rid ["S1"] "y") = some (.int 10) :=
  let h := derived_cells_reads_sub_space_reference vBase vIds vDec vSrc (fun p => .int p) (St.run [] {} vOps)
    ["S1"] "f" { derived := true, payload := 1 } [] (by decide) (by decide) (by decide) "y" _ _ _ rfl (by decide)
    (by decide) { derived := false, payload := 10 } (by decide) (by decide)
  ⟨_, h.1, h.2⟩

end derived_evaluation

end MxModel.C03
