import MxModel.Proofs.ItemSpaceBind
import MxModel.Proofs.ItemSpaceGet
import MxModel.Proofs.ItemSpaceTotal
import MxModel.Proofs.ItemSpaceValues
import MxModel.Proofs.StructMechFrame
import MxModel.Generated.Tables
/-!
# C07 – ItemSpaces are parametrised, isolated, identity-stable instances of their base

Property theorems only (lemmas: `Proofs/ItemSpaceBind`, `ItemSpaceTable`, `ItemSpaceGet`; model:
`Kernels/ItemSpace.lean`).  Parts:

1. `bind` (`node.py` `_bind_args`): every spelling that binds at all binds to the key of the
   fully positional spelling; what binds and to what is exactly Python's rule; everything else
   is rejected.
2. the table of live dynamic spaces under every history of accesses, deletions and edits
   (`World`, `step`, `run`): equal keys give the same instance, different keys give instances
   that share no identity (so an assignment in one changes no value of another), and an
   interface obtained earlier is dead or denotes the live instance of the same address.
3. what edits of the definitions leave behind: after ANY edit of a static space (a cells
   created, redefined, renamed or deleted; a child space created or deleted; a reference
   created, changed or deleted; the parameter formula set or deleted; a model-level reference)
   and after the deletion of a space, no dynamic space built from the edited (deleted) space is
   left, wherever it hangs (`instance_fresh`, `deleted_base_leaves_no_instance`).  This was FALSE
   of the code before the repair 482219e (fixed finding C07-dynbase-edit-not-propagated; its
   witnesses stay in `corpus/C07/` and run first).
   Over HISTORIES (3b): with a clock that ticks once per operation, every live dynamic space was built
   after the last operation that touched its base - also when the edit reached the base through
   inheritance (`instances_always_fresh`, `instances_always_fresh_inherited`,
   `access_after_edit_builds_new`); and values (3c): one store keyed by the owner of the cells, an
   assignment through one address is invisible through every other one, a new instance holds no value,
   no value survives an edit of the definitions it was computed from (`assignment_isolated_in_world`,
   `new_instance_holds_no_value`, `no_value_survives_an_edit`).
4. the reference chain of a dynamic space in the order `space.py` lists it
   (`Generated.mxDynRefsOrder`, re-read from the source on every run).
5. names inside an instance (namespace order).
-/
namespace MxModel.C07
open MxModel.ItemSpace

/-! ## 1. Binding -/

/-- **Every spelling that binds at all binds to the same key as the fully positional
spelling with all parameters given.**  (Positional, keyword in any order, mixed, defaults
omitted: whatever the spelling, its key, written out positionally, binds to itself.) -/
theorem bind_canonical (sig : Sig) (args : List Val) (kw : KwArgs) (key : Key)
    (h : bindArgs sig args kw = some key) : bindArgs sig key [] = some key ∧ key.length = sig.length := by
  have hv := bind_bindVals h
  refine ⟨?_, bindVals_length hv⟩
  unfold bindArgs
  simp [kwKeys, bindVals_canonical hv]

/-- **What binds, and to what, is exactly Python's rule** (`Signature.bind` + `apply_defaults`
for positional-or-keyword parameters): the spelling is accepted iff no keyword is repeated,
there are not more positional arguments than parameters, every keyword names a parameter not
already given positionally, and every parameter without default is given; the key then lists,
parameter by parameter, the positional argument, else the keyword argument, else the default. -/
theorem bind_iff (sig : Sig) (hwf : (names sig).Nodup) (args : List Val) (kw : KwArgs) (key : Key) :
    bindArgs sig args kw = some key ↔ Accepts sig args kw ∧ key = specKey sig args kw :=
  bind_eq_some_iff sig hwf args kw key

/-- the order of the keywords is irrelevant -/
theorem bind_keyword_order (sig : Sig) (args : List Val) (kw kw' : KwArgs) (hp : kw.Perm kw') :
    bindArgs sig args kw = bindArgs sig args kw' :=
  bind_perm sig args hp

/-- too many positional arguments are rejected -/
theorem bind_rejects_too_many (sig : Sig) (hwf : (names sig).Nodup) (args : List Val) (kw : KwArgs)
    (h : sig.length < args.length) : bindArgs sig args kw = none := by
  cases hb : bindArgs sig args kw with
  | none => rfl
  | some key =>
    have := ((bind_iff sig hwf args kw key).mp hb).1.2.1
    omega

/-- a keyword that names no parameter is rejected -/
theorem bind_rejects_unknown_keyword (sig : Sig) (hwf : (names sig).Nodup) (args : List Val) (kw : KwArgs)
    (k : String) (hk : k ∈ kwKeys kw) (hn : k ∉ names sig) : bindArgs sig args kw = none := by
  cases hb : bindArgs sig args kw with
  | none => rfl
  | some key =>
    have := ((bind_iff sig hwf args kw key).mp hb).1.2.2.1 k hk
    simp only [names, List.mem_map] at this hn
    obtain ⟨p, hp, hpn⟩ := this
    exact absurd ⟨p, List.mem_of_mem_drop hp, hpn⟩ hn

/-- a parameter given positionally and by keyword is rejected -/
theorem bind_rejects_duplicate (sig : Sig) (hwf : (names sig).Nodup) (args : List Val) (kw : KwArgs)
    (p : Param) (hp : p ∈ sig.take args.length) (hk : p.name ∈ kwKeys kw) : bindArgs sig args kw = none := by
  cases hb : bindArgs sig args kw with
  | none => rfl
  | some key =>
    exfalso
    have hd := ((bind_iff sig hwf args kw key).mp hb).1.2.2.1 p.name hk
    rw [names_take_drop sig args.length] at hwf
    exact (List.nodup_append.mp hwf).2.2 p.name (List.mem_map.mpr ⟨p, hp, rfl⟩) p.name hd rfl

/-- a parameter without default that is not given is rejected -/
theorem bind_rejects_missing (sig : Sig) (hwf : (names sig).Nodup) (args : List Val) (kw : KwArgs)
    (p : Param) (hp : p ∈ sig.drop args.length) (hd : p.dflt = none) (hk : p.name ∉ kwKeys kw) :
    bindArgs sig args kw = none := by
  cases hb : bindArgs sig args kw with
  | none => rfl
  | some key => exact absurd (((bind_iff sig hwf args kw key).mp hb).1.2.2.2 p hp hd) hk

/-! ## 2. Instance identity -/

/-- the table of every history from the empty session meets the invariant -/
theorem reachable_inv (ops : List Op) : Inv (run {} ops).tbl :=
  (evolves_run ops {}).inv inv_empty

/-- **Arguments that bind equally give the same instance.**  After `S(spelling₁)` returned an
instance, any spelling that binds to the same key (under the signature the node carries)
returns that very instance – same implementation, same interface – and creates nothing. -/
theorem equal_keys_same_instance (defs : Defs) (t t1 : Table) (p : Addr) (a1 a2 : List Val) (k1 k2 : KwArgs)
    (e : Entry) (nd : Node) (sig : Sig) (hn : nodeAt defs t p = some nd) (hs : nd.sig = some sig)
    (h1 : getItem defs t p a1 k1 = (t1, .ok e)) (hk : bindArgs sig a1 k1 = bindArgs sig a2 k2) :
    getItem defs t1 p a2 k2 = (t1, .ok e) := by
  obtain ⟨nd', sig', key, hn', hs', hb', hf⟩ := getItem_ok h1
  rw [hn] at hn'; cases hn'
  rw [hs] at hs'; cases hs'
  obtain ⟨l, hl⟩ := getItem_live defs t p a1 k1
  rw [h1] at hl
  exact getItem_hit (nodeAt_append hl hn) hs (hk ▸ hb') hf

/-- **A miss creates**: in every world reached from the empty one by any history, `get_itemspace` with a
spelling that binds, on a live node whose parameter formula names an existing base, at a key that is not
live, returns a NEW instance at that key built from that base, and appends exactly that ItemSpace and one
replica per static space below the base.  (The two totalisation branches of the model - `addEntry` doing
nothing on an address that is live already, `getItem` answering `.noNode` after a creation - never fire:
`ItemSpace.getItem_noNode_iff` holds in every table, `ItemSpace.createItem_all_added` in every closed one.) -/
theorem miss_creates_instance (ops : List Op) (parent : Addr) (args : List Val) (kw : KwArgs)
    (nd : Node) (sig : Sig) (key : Key) (base : SDef)
    (hn : nodeAt (run {} ops).defs (run {} ops).tbl parent = some nd) (hs : nd.sig = some sig)
    (hb : bindArgs sig args kw = some key)
    (hmiss : findLive (run {} ops).tbl ⟨parent.root, parent.dkey ++ [.key key]⟩ = none)
    (hbase : baseOf (run {} ops).defs nd = some base) :
    ∃ e t', getItem (run {} ops).defs (run {} ops).tbl parent args kw = (t', .ok e) ∧
      e.addr = ⟨parent.root, parent.dkey ++ [.key key]⟩ ∧ e.base = base.id ∧
      t'.live.length = (run {} ops).tbl.live.length + 1 + (descendants (run {} ops).defs base.path).length :=
  reachable_creation_total ops parent args kw nd sig key base hn hs hb hmiss hbase

/-- non-vacuity: `S(i)` with a child `S.X`, from the empty world; `S[1]` misses and creates `S[1]`, `S[1].X` -/
example : ∃ e t', getItem (run {} [.newSpace ["S"] (some [⟨"i", none⟩]) none, .newSpace ["S", "X"] none none]).defs
      (run {} [.newSpace ["S"] (some [⟨"i", none⟩]) none, .newSpace ["S", "X"] none none]).tbl ⟨0, []⟩ [1] [] = (t', .ok e) ∧
      e.addr = ⟨0, [.key [1]]⟩ ∧ e.base = 0 ∧ t'.live.length = 0 + 1 + 1 :=
  miss_creates_instance [.newSpace ["S"] (some [⟨"i", none⟩]) none, .newSpace ["S", "X"] none none] ⟨0, []⟩ [1] []
    ⟨some [⟨"i", none⟩], none, 0⟩ [⟨"i", none⟩] [1] ⟨0, ["S"], some [⟨"i", none⟩], none⟩ rfl rfl rfl rfl rfl

/-- `get_itemspace` answers "no such node" only when the parent node does not exist (every table) -/
theorem no_node_only_without_parent (defs : Defs) (t : Table) (parent : Addr) (args : List Val) (kw : KwArgs) :
    (∃ t', getItem defs t parent args kw = (t', .noNode)) ↔ nodeAt defs t parent = none :=
  getItem_noNode_iff defs t parent args kw

/-- **Different arguments give different instances that share nothing**: two live dynamic
spaces with different addresses (different keys of one parent, different parents, different
child names) have different implementations – hence disjoint cells – and different interfaces. -/
theorem different_keys_different_instances (t : Table) (h : Inv t) (e1 e2 : Entry) (h1 : e1 ∈ t.live)
    (h2 : e2 ∈ t.live) (hne : e1.addr ≠ e2.addr) : e1.impl ≠ e2.impl ∧ e1.handle ≠ e2.handle := by
  refine ⟨fun hc => hne (congrArg _ (inv_impl_inj h h1 h2 hc)), fun hc => ?_⟩
  have c1 := h.cached e1 h1
  have c2 := h.cached e2 h2
  rw [hc] at c1
  exact hne (cache_handle_inj h c1 c2)

/-- two accesses from one parent whose spellings bind to different keys return different
instances (both alive afterwards) -/
theorem different_spellings_different_instances (defs : Defs) (t t1 t2 : Table) (hinv : Inv t) (p : Addr)
    (a1 a2 : List Val) (k1 k2 : KwArgs) (e1 e2 : Entry) (nd : Node) (sig : Sig)
    (hn : nodeAt defs t p = some nd) (hs : nd.sig = some sig)
    (h1 : getItem defs t p a1 k1 = (t1, .ok e1)) (h2 : getItem defs t1 p a2 k2 = (t2, .ok e2))
    (hk : bindArgs sig a1 k1 ≠ bindArgs sig a2 k2) : e1.impl ≠ e2.impl ∧ e1.handle ≠ e2.handle := by
  obtain ⟨nd1, sig1, key1, hn1, hs1, hb1, hf1⟩ := getItem_ok h1
  obtain ⟨nd2, sig2, key2, hn2, hs2, hb2, hf2⟩ := getItem_ok h2
  rw [hn] at hn1; cases hn1
  rw [hs] at hs1; cases hs1
  obtain ⟨l1, hl1⟩ := getItem_live defs t p a1 k1
  rw [h1] at hl1
  rw [nodeAt_append hl1 hn] at hn2; cases hn2
  rw [hs] at hs2; cases hs2
  obtain ⟨l2, hl2⟩ := getItem_live defs t1 p a2 k2
  rw [h2] at hl2
  have i1 : Inv t1 := by have := (evolves_getItem defs t p a1 k1).inv hinv; rw [h1] at this; exact this
  have i2 : Inv t2 := by have := (evolves_getItem defs t1 p a2 k2).inv i1; rw [h2] at this; exact this
  have m1 := findLive_some (findLive_append hl2 hf1)
  have m2 := findLive_some hf2
  apply different_keys_different_instances t2 i2 e1 e2 m1.1 m2.1
  rw [m1.2, m2.2]
  intro hc
  have : key1 = key2 := by
    have := (Addr.mk.inj hc).2
    have := List.append_cancel_left this
    simpa using this
  exact hk (by rw [hb1, hb2, this])

/-- **An assignment in one instance changes no value of another**: the values of the cells of
an instance are stored under the identity of its implementation. -/
theorem assignment_isolated (s : Store) (c c' : CellsId) (k k' : Key) (v : Val) (hne : c'.1 ≠ c.1) :
    (s.set c k v).get c' k' = s.get c' k' := by
  have hc : ¬ c = c' := fun h => hne (by rw [h])
  simp [Store.set, Store.get, hc]

/-- **A handle obtained earlier is dead or denotes the re-created instance – never a third
thing.**  Once an interface `h` has been handed out for the address `a` (it is then in the
`dynamic_cache`), after ANY further history – accesses with any spellings, `clear_at`, `del`,
`clear_items`, `clear_all`, edits of every kind, deletion of spaces – it is still the cached
interface of `a`, and a live dynamic space whose interface is `h` lives at `a`. -/
theorem old_handle (w : World) (hinv : Inv w.tbl) (a : Addr) (h : Nat) (hc : (a, h) ∈ w.tbl.cache)
    (ops : List Op) :
    (a, h) ∈ (run w ops).tbl.cache ∧ ∀ e ∈ (run w ops).tbl.live, e.handle = h → e.addr = a := by
  have ev := evolves_run ops w
  have hi := ev.inv hinv
  refine ⟨ev.cache _ hc, fun e he heh => ?_⟩
  have c1 := hi.cached e he
  rw [heh] at c1
  exact cache_handle_inj hi c1 (ev.cache _ hc)

/-- the interface returned by an access is recorded for its address (so `old_handle` applies to it) -/
theorem handle_is_cached (t : Table) (hinv : Inv t) (e : Entry) (he : e ∈ t.live) : (e.addr, e.handle) ∈ t.cache :=
  hinv.cached e he

/-! ## 3. Freshness after edits -/

/-- **No stale instance after any edit of the base**: whatever the edit of the static space
`b` – `new_cells`, a formula change, a cells rename, a cells deleted, a child space created or
deleted, a reference created/changed/deleted, the parameter formula set or deleted, a
model-level reference – no dynamic space built from `b` is left, wherever it hangs (own
ItemSpaces, replicated children of other ItemSpaces, instances of another parent that chose
this base).  The next access therefore builds a new instance from the edited definitions. -/
theorem instance_fresh (t : Table) (k : EditKind) (b : SId) :
    ∀ e ∈ (applyEdit t k b).live, e.base ≠ b := by
  cases k <;> simp only [applyEdit]
  · exact clearSubsRootItems_no_copy _ b
  · exact clearSubsRootItems_no_copy t b
  · exact fun e he => clearSubsRootItems_no_copy t b e (nsChange_sub _ b e he)
  · exact nsChange_no_copy t b
  · exact nsChange_no_copy t b
  · exact nsChange_no_copy t b
  · exact fun e he => nsChange_no_copy t b e (dynRefsChange_sub _ b e he)
  · exact fun e he => nsChange_no_copy t b e (dynRefsChange_sub _ b e he)
  · exact fun e he => nsChange_no_copy t b e (dynRefsChange_sub _ b e he)
  · exact clearSubsRootItems_no_copy _ b
  · intro e he; cases he

/-- **Deleting a space leaves no instance of it or of a space below it**, wherever it hangs. -/
theorem deleted_base_leaves_no_instance (defs : Defs) (t : Table) (d : SDef) :
    ∀ e ∈ (delSpace defs t d).2.live, ∀ x ∈ defs, d.path.isPrefixOf x.path = true → e.base ≠ x.id :=
  delSpace_no_copy defs t d

/-- every edit and every deletion only removes dynamic spaces (nothing is re-created behind
the user's back; handles stay cached: `old_handle`) -/
theorem edit_only_removes (t : Table) (k : EditKind) (b : SId) :
    ∀ e ∈ (applyEdit t k b).live, e ∈ t.live := by
  cases k <;> simp only [applyEdit]
  · exact fun e he => nsChange_sub t b e (clearSubsRootItems_sub _ b e he)
  · exact clearSubsRootItems_sub t b
  · exact fun e he => clearSubsRootItems_sub t b e (nsChange_sub _ b e he)
  · exact nsChange_sub t b
  · exact nsChange_sub t b
  · exact nsChange_sub t b
  · exact fun e he => nsChange_sub t b e (dynRefsChange_sub _ b e he)
  · exact fun e he => nsChange_sub t b e (dynRefsChange_sub _ b e he)
  · exact fun e he => nsChange_sub t b e (dynRefsChange_sub _ b e he)
  · exact fun e he => clearItems_sub t _ e (clearSubsRootItems_sub _ b e he)
  · intro e he; cases he

/-! ## 3b. Freshness over histories, through inheritance

`runH` (Kernels/ItemSpace.lean, 3c) runs the world and stamps, with a clock that ticks once per operation,
every static space with the last operation that TOUCHED it (`touched`: the edited space; the parent of a
created / deleted child space; every space of a deleted tree; every space for a model-level reference)
and every implementation object with the operation that created it.  The stamps are ghost state
(`stamped_run_is_the_run`).  An edit that reaches sub spaces through inheritance is the user-level
operation `UOp.editInh`: the edit of the space followed by an edit of each sub space it reaches - what
`SpaceManager`'s walks over `_get_subs` and `UserSpaceImpl.on_inherit` do (each sub space whose members
change gets its own `clear_subs_rootitems()` / `on_namespace_change()`); which sub spaces those are is
the structural mechanism's business (`inherited_edit_reaches_only_sub_spaces`). -/

/-- the stamps are read by no operation: the stamped run is the run, the clock counts the operations -/
theorem stamped_run_is_the_run (ops : List Op) :
    (runH {} ops).w = run {} ops ∧ (runH {} ops).clock = ops.length := by
  refine ⟨runH_world ops {}, ?_⟩
  rw [runH_clock]; show 0 + ops.length = _; omega

/-- the stamp of a touched space is the stamp of the operation … -/
theorem stamp_of_edit (h : Hist) (op : Op) (s : SId) (hs : s ∈ touched h.w op) :
    (h.step op).editedAt s = (h.step op).clock := by
  show (if s ∈ touched h.w op then h.clock + 1 else h.editedAt s) = h.clock + 1
  simp [hs]

/-- … and so is the stamp of every dynamic space the operation created -/
theorem stamp_of_build (h : Hist) (op : Op) (hinv : Inv h.w.tbl) (e : Entry)
    (he : e ∈ (step h.w op).1.tbl.live) (hnew : e ∉ h.w.tbl.live) :
    (h.step op).builtAt e.impl = (h.step op).clock := by
  show (if h.w.tbl.nextImpl ≤ e.impl ∧ e.impl < (step h.w op).1.tbl.nextImpl then h.clock + 1 else h.builtAt e.impl)
    = h.clock + 1
  have h1 : h.w.tbl.nextImpl ≤ e.impl := by
    rcases (grows_step h.w op).live e he with ho | hn
    · exact absurd ho hnew
    · exact hn
  have h2 := ((evolves_step h.w op).inv hinv).implLt e he
  simp [h1, h2]

/-- **Every live instance was built after the last edit that affects its base** - after EVERY history of
accesses (with any spellings, nested, through replicated children), deletions of instances
(`clear_at`, `del`, `clear_items`, `clear_all`), edits of every kind of every static space, creation and
deletion of spaces: for every live dynamic space, the operation that created its implementation is LATER
than the last operation that touched the static space it is a copy of. -/
theorem instances_always_fresh (ops : List Op) :
    ∀ e ∈ (runH {} ops).w.tbl.live, (runH {} ops).editedAt e.base < (runH {} ops).builtAt e.impl :=
  (fresh_runH ops {} fresh_empty).fresh

/-- the same for histories with edits that reach sub spaces through inheritance: an inherited edit stamps
the edited space and every sub space it reaches -/
theorem instances_always_fresh_inherited (us : List UOp) :
    ∀ e ∈ (runU {} us).w.tbl.live, (runU {} us).editedAt e.base < (runU {} us).builtAt e.impl :=
  instances_always_fresh _

/-- **An inherited edit leaves no instance of the edited space nor of any sub space it reaches**, wherever
the instance hangs -/
theorem inherited_edit_leaves_no_instance (w : World) (k : EditKind) (path : ItemSpace.Path)
    (reach : List (EditKind × ItemSpace.Path)) :
    ∀ e ∈ (run w (UOp.expand (.editInh k path reach))).tbl.live,
      ∀ q ∈ path :: reach.map (·.2), ∀ d, findDef w.defs q = some d → e.base ≠ d.id := by
  intro e he q hq d hd
  have := run_edits_no_copy ((k, path) :: reach) w e (by simpa [UOp.expand] using he)
  rcases List.mem_cons.mp hq with rfl | hq
  · exact this (k, q) (by simp) d hd
  · obtain ⟨r, hr, rfl⟩ := List.mem_map.mp hq
    exact this r (List.mem_cons_of_mem _ hr) d hd

/-- **Which sub spaces an edit reaches** (the structural mechanism model, `Struct/Mech.lean`, C03): when
`new_cells`, a formula change, or the deletion of a cells or reference of the space `p` is accepted, a
space whose member table differs afterwards (a member appeared, disappeared, or carries another
definition) is `p` itself or a sub space of `p` (`p` is in its linearisation).  So the spaces an inherited
edit has to reach are found along the inheritance relation, nowhere else; the member tables of all other
spaces - what their instances were built from - are what they were. -/
theorem inherited_edit_reaches_only_sub_spaces (kw : List String) (st st' : SM.St) (p : SM.Path) (name : String)
    (v : Nat) (a : SM.Attr)
    (hop : st.newCells kw p name v = some st' ∨ st.setFormula p name v = some st' ∨ st.delMember a p name = some st')
    (q : SM.Path) (b : SM.Attr) (n : String) (hne : st'.mem b q n ≠ st.mem b q n) :
    q = p ∨ q ∈ st.subs p := by
  have hf : SM.Frame st st' p := by
    rcases hop with h | h | h
    · exact SM.newCells_frame kw st st' p name v h
    · exact SM.setFormula_frame st st' p name v h
    · exact SM.delMember_frame st st' a p name h
  have := hf.changed_mem b q n hne
  simpa [SM.St.touched] using this

/-- **The next access after an edit builds a new instance.**  If an operation touches the static space `b`,
then - whatever happens afterwards - every dynamic space built from `b` that is ever live again has an
implementation object that did not exist when the edit happened (its number had not been handed out).
The INTERFACE may be the old one: modelx re-attaches the cached interface of the address to the new
implementation (`old_handle`), that is the documented behaviour of handles. -/
theorem access_after_edit_builds_new (ops1 : List Op) (op : Op) (ops2 : List Op) (b : SId)
    (hb : b ∈ touched (run {} ops1) op) :
    ∀ e ∈ (run {} (ops1 ++ op :: ops2)).tbl.live, e.base = b → (run {} ops1).tbl.nextImpl ≤ e.impl := by
  intro e he heb
  have hr : run {} (ops1 ++ op :: ops2) = run (step (run {} ops1) op).1 ops2 := by
    simp [run, List.foldl_append]
  rw [hr] at he
  rcases (grows_run ops2 _).live e he with h | h
  · exact absurd (heb ▸ hb) (step_touched_gone (run {} ops1) op e h)
  · exact Nat.le_trans (grows_step (run {} ops1) op).next h

/-- … while accesses with no operation in between return the same instance, whatever the spellings
(`equal_keys_same_instance`), and any history keeps the instances it does not delete: an operation that
touches no static space and deletes nothing (an access) leaves every live instance live -/
theorem access_keeps_instances (w : World) (root : ItemSpace.Path) (chain : List ChainSeg) :
    ∀ e ∈ w.tbl.live, e ∈ (step w (.item root chain)).1.tbl.live := by
  intro e he
  simp only [step]
  split
  · exact he
  · rename_i a _
    dsimp only
    have : ∀ (chain : List ChainSeg) (t : Table) (a : Addr), ∀ e ∈ t.live, e ∈ (walk w.defs t a chain).1.live := by
      intro chain
      induction chain with
      | nil => intro t a e he; simpa [walk] using he
      | cons sg rest ih =>
        intro t a e he
        cases sg with
        | call args kw =>
          unfold walk
          split
          · exact he
          · split
            · exact he
            · obtain ⟨l, hl⟩ := getItem_live w.defs t a args kw
              have hm : e ∈ (getItem w.defs t a args kw).1.live := by rw [hl]; exact List.mem_append_left _ he
              generalize getItem w.defs t a args kw = r at hm
              obtain ⟨t', res⟩ := r
              cases res with
              | ok e' => exact ih t' e'.addr e hm
              | typeError => exact hm
              | keyError => exact hm
              | formulaError => exact hm
              | noNode => exact hm
        | child n =>
          unfold walk
          split
          · split
            · exact ih t _ e he
            · exact he
          · split
            · exact ih t _ e he
            · exact he
    exact this chain w.tbl a e he

/-! ## 3c. Values: isolation and freshness as theorems about the world

`VWorld` (Kernels/ItemSpace.lean, 4b): the world plus ONE store of values, each owned by the cells object
it was assigned to / computed in - a cells of a static space, or of the implementation of a dynamic space.
That a value hangs on the cells object (`CellsImpl.data`) and that the cells objects of a dynamic space
are created with it is the modelling assumption (read off the code, sampled by the isolation oracle);
that distinct addresses have distinct objects, and that the objects of re-created instances are new, are
theorems about the table. -/

/-- **An assignment (or a cached result) in one instance is visible nowhere else**: after every history, a
value stored through the access chain that leads to the address `p` leaves what is read at every other
address - another instance of the same space, an instance of another space, a replicated child space, the
static space itself - exactly what the store held before. -/
theorem assignment_isolated_in_world (ops : List VOp) (root : ItemSpace.Path) (chain : List ChainSeg)
    (c : String) (k : Key) (v : Val) (p : Addr)
    (hp : (VWorld.run {} ops).target root chain = some p) (a' : Addr) (hne : a' ≠ p) (c' : String) (k' : Key) :
    ((VWorld.run {} ops).step (.assign root chain c k v)).valueAt a' c' k' =
      match ownerAt ((VWorld.run {} ops).step (.assign root chain c k v)).w a' with
      | some o' => (VWorld.run {} ops).store.get o' c' k'
      | none => none := by
  have hv := vinv_run ops {} vinv_empty
  generalize VWorld.run {} ops = vw at hp hv
  have hinv' := (vinv_step vw (.assign root chain c k v) hv).inv
  unfold VWorld.valueAt
  cases ho' : ownerAt (vw.step (.assign root chain c k v)).w a' with
  | none => rfl
  | some o' =>
    dsimp only
    rcases vstep_store vw (.assign root chain c k v) with hs | ⟨root', chain', c0, k0, v0, p0, o, heq, hp0, ho, hs⟩
    · rw [hs]
    · cases heq
      rw [hp] at hp0; cases hp0
      rw [hs, VStore.get_cons]
      have : o ≠ o' := fun e => hne (ownerAt_inj hinv' ho' (e ▸ ho))
      simp [this]

/-- in particular the static space does not see what is assigned in its instances -/
theorem static_space_unaffected_by_instance_values (ops : List VOp) (root : ItemSpace.Path) (chain : List ChainSeg)
    (c : String) (k : Key) (v : Val) (p : Addr)
    (hp : (VWorld.run {} ops).target root chain = some p) (hdyn : p.dkey ≠ []) (s : SId) (c' : String) (k' : Key) :
    ((VWorld.run {} ops).step (.assign root chain c k v)).valueAt ⟨s, []⟩ c' k' =
      match ownerAt ((VWorld.run {} ops).step (.assign root chain c k v)).w ⟨s, []⟩ with
      | some o' => (VWorld.run {} ops).store.get o' c' k'
      | none => none :=
  assignment_isolated_in_world ops root chain c k v p hp ⟨s, []⟩ (fun e => hdyn (by rw [← e])) c' k'

/-- **A newly built instance holds no value**: whatever the history, a dynamic space that an operation
creates (it is live afterwards and was not before) owns none of the values the store holds - it does not
inherit the values of an earlier instance of the same address, of its base, or of anything else. -/
theorem new_instance_holds_no_value (ops : List VOp) (op : VOp) (e : Entry)
    (he : e ∈ ((VWorld.run {} ops).step op).w.tbl.live) (hnew : e ∉ (VWorld.run {} ops).w.tbl.live)
    (c : String) (k : Key) : (VWorld.run {} ops).store.get (.dyn e.impl) c k = none := by
  have hv := vinv_run ops {} vinv_empty
  rcases (grows_vstep (VWorld.run {} ops) op).live e he with h | h
  · exact absurd h hnew
  · exact store_none_of_new hv e.impl h c k

/-- **No value survives an edit of the definitions it was computed from**: when an operation touches the
static space `b` - directly, or as a sub space reached by an inherited edit (each reached sub space is
touched by its own `Op.edit`) - then none of the values that exist at that moment is ever served by a
dynamic space built from `b`, at any later time: every such dynamic space is a new object
(`access_after_edit_builds_new`) and starts empty. -/
theorem no_value_survives_an_edit (ops1 : List VOp) (o : Op) (ops2 : List VOp) (b : SId)
    (hb : b ∈ touched (VWorld.run {} ops1).w o) :
    ∀ e ∈ (VWorld.run {} (ops1 ++ .op o :: ops2)).w.tbl.live, e.base = b →
      ∀ c k, (VWorld.run {} ops1).store.get (.dyn e.impl) c k = none := by
  intro e he heb c k
  have hv := vinv_run ops1 {} vinv_empty
  have hr : VWorld.run {} (ops1 ++ .op o :: ops2) = ((VWorld.run {} ops1).step (.op o)).run ops2 := by
    simp [VWorld.run, List.foldl_append]
  rw [hr] at he
  apply store_none_of_new hv
  rcases (grows_vrun ops2 _).live e he with h | h
  · exact absurd (heb ▸ hb) (step_touched_gone (VWorld.run {} ops1).w o e h)
  · exact Nat.le_trans (grows_step (VWorld.run {} ops1).w o).next h

/-- a small world for the witnesses: static `S` (id 0, parameter `i`) with a child space `S.X` (id 1) -/
def demoDefs : Defs := [⟨0, ["S"], some [⟨"i", none⟩], none⟩, ⟨1, ["S", "X"], none, none⟩]

/-- `S[1]` (with its replicated child `S[1].X`) and `S[2]` -/
def demoWorld : World :=
  run { defs := demoDefs, nextStatic := 2 }
    [.item ["S"] [.call [1] []], .item ["S"] [.call [] [("i", 2)]]]

/-- the witness of the fixed finding C07-dynbase-edit-not-propagated, now as a regression:
deleting a cells of `S.X` (an edit that reaches `S.X` only through its namespace) removes
`S[1]` and `S[2]`, in which the copies of `S.X` live -/
theorem fixed_witness_del_cells : (applyEdit demoWorld.tbl .delCells 1).live = [] := by decide

/-! ## 4. The reference chain -/

/-- the chain of a dynamic space, in the order read from `space.py` -/
def chain (argmaps : List RefMap) (own sys dynbase global : RefMap) : List RefMap :=
  refChain MxModel.Generated.mxDynRefsOrder MxModel.Generated.mxAllargsOrder argmaps own sys dynbase global

/-- with the order `_init_allargs` has now, the argument maps are searched innermost first -/
theorem allargs_order (argmaps : List RefMap) : allargs MxModel.Generated.mxAllargsOrder argmaps = argmaps := by
  induction argmaps with
  | nil => rfl
  | cons a rest ih =>
    unfold MxModel.Generated.mxAllargsOrder at ih ⊢
    simp [allargs, ih]

/-- with the order `space.py` has now, the chain is: arguments (innermost ItemSpace first), own
references (those the parameter formula returned), `_self/_space/_model`, the base's
references, the model's -/
theorem chain_order (argmaps : List RefMap) (own sys dynbase global : RefMap) :
    chain argmaps own sys dynbase global = argmaps ++ [own, sys, dynbase, global] := by
  simp [chain, refChain, MxModel.Generated.mxDynRefsOrder, chainMaps, allargs_order]

/-- **The innermost ItemSpace's argument wins** over an argument of the same name of an
enclosing ItemSpace, and over every reference of that name. -/
theorem innermost_argument_wins (inner : RefMap) (outer : List RefMap) (own sys dynbase global : RefMap)
    (x : String) (v : Val) (h : inner.find x = some v) :
    chainFind (chain (inner :: outer) own sys dynbase global) x = some v := by
  rw [chain_order]
  simp [chainFind, h]

/-- **A parameter shadows a base reference (and a model-level one) of the same name.** -/
theorem parameter_shadows_base_reference (argmaps : List RefMap) (own sys dynbase global : RefMap)
    (x : String) (v : Val) (h : chainFind argmaps x = some v) :
    chainFind (chain argmaps own sys dynbase global) x = some v := by
  rw [chain_order]
  exact chainFind_append_some h

/-- a reference returned by the parameter formula shadows the base's and the model's -/
theorem formula_reference_shadows_base_reference (argmaps : List RefMap) (own sys dynbase global : RefMap)
    (x : String) (v : Val) (ha : chainFind argmaps x = none) (h : own.find x = some v) :
    chainFind (chain argmaps own sys dynbase global) x = some v := by
  rw [chain_order, chainFind_append_none ha]
  simp [chainFind, h]

/-- the base's reference is what an instance sees when neither an argument nor the formula
nor the system names shadow it; it shadows the model's -/
theorem base_reference_shadows_model (argmaps : List RefMap) (own sys dynbase global : RefMap)
    (x : String) (v : Val) (ha : chainFind argmaps x = none) (ho : own.find x = none)
    (hs : sys.find x = none) (h : dynbase.find x = some v) :
    chainFind (chain argmaps own sys dynbase global) x = some v := by
  rw [chain_order, chainFind_append_none ha]
  simp [chainFind, ho, hs, h]

/-! ## 5. Names inside an instance -/

/-- **Calls to sibling cells stay inside the instance**: in the namespace order `space.py` has
now (cells, then references, then child spaces) a name that is a cells of the dynamic space
denotes the cells of that very implementation – not the base's, not another instance's (their
implementations differ, `different_keys_different_instances`) – whatever arguments or
references carry the same name. -/
theorem sibling_call_stays_inside (impl : Nat) (cellNames : List String) (refs : List RefMap)
    (children : List String) (x : String) (hx : x ∈ cellNames) :
    resolveName MxModel.Generated.mxNamespaceOrder impl cellNames refs children x = some (.cells impl x) := by
  simp [resolveName, MxModel.Generated.mxNamespaceOrder, namespaceMap, hx]

/-- a name that is no cells of the instance is looked up in its reference chain: the bound
parameters first (`parameter_shadows_base_reference`) -/
theorem parameter_is_bound_as_name (impl : Nat) (cellNames : List String) (argmaps : List RefMap)
    (own sys dynbase global : RefMap) (children : List String) (x : String) (v : Val)
    (hx : x ∉ cellNames) (h : chainFind argmaps x = some v) :
    resolveName MxModel.Generated.mxNamespaceOrder impl cellNames (chain argmaps own sys dynbase global)
      children x = some (.ref v) := by
  have := parameter_shadows_base_reference argmaps own sys dynbase global x v h
  simp [resolveName, MxModel.Generated.mxNamespaceOrder, List.findSome?, namespaceMap, hx, this]

/-! ## Non-vacuity -/

def sig2 : Sig := [⟨"i", none⟩, ⟨"j", some 2⟩]

-- all the spellings of `S[1]` for `lambda i, j=2` bind to `(1, 2)`
example : bindArgs sig2 [1] [] = some [1, 2] := by decide
example : bindArgs sig2 [] [("i", 1)] = some [1, 2] := by decide
example : bindArgs sig2 [1] [("j", 2)] = some [1, 2] := by decide
example : bindArgs sig2 [] [("j", 2), ("i", 1)] = some [1, 2] := by decide
example : bindArgs sig2 [1, 2] [] = some [1, 2] := by decide
-- … and the malformed ones are rejected
example : bindArgs sig2 [1, 2, 3] [] = none := by decide
example : bindArgs sig2 [1] [("k", 2)] = none := by decide
example : bindArgs sig2 [1] [("i", 1)] = none := by decide
example : bindArgs sig2 [] [("j", 1)] = none := by decide
example : Accepts sig2 [1] [("j", 5)] ∧ specKey sig2 [1] [("j", 5)] = [1, 5] := by
  refine ⟨⟨by decide, by decide, ?_, ?_⟩, by decide⟩ <;> simp [sig2, kwKeys, names]

-- the demo world: three live dynamic spaces, two instances; the invariant holds (by the theorem)
example : demoWorld.tbl.live.map (fun e => (e.addr.dkey, e.impl, e.handle, e.base)) =
    [([.key [1]], 0, 0, 0), ([.key [1], .name "X"], 1, 1, 1), ([.key [2]], 2, 2, 0),
     ([.key [2], .name "X"], 3, 3, 1)] := by decide
example : Inv demoWorld.tbl := (evolves_run _ _).inv inv_empty

-- a propagated edit of S.X removes both instances; a re-created S[1] gets its old interface back
example : (applyEdit demoWorld.tbl .setFormula 1).live = [] := by decide
example : ((step { demoWorld with tbl := applyEdit demoWorld.tbl .setFormula 1 }
    (.item ["S"] [.call [1] []])).1.tbl.live.map (fun e => (e.addr.dkey, e.impl, e.handle))) =
    [([.key [1]], 4, 0), ([.key [1], .name "X"], 5, 1)] := by decide
-- an edit of S (not of S.X) removes S's own ItemSpaces with the copies of S.X below them
example : (applyEdit demoWorld.tbl .newRef 0).live = [] := by decide
-- an edit of a space nothing was built from removes nothing
example : (applyEdit demoWorld.tbl .delCells 7).live.length = 4 := by decide

-- histories with stamps: `S(i)` with child `S.X`; `S[1]`, `S[2]`; a cells of `S.X` is deleted (op 5, touches
-- `S.X` only); `S[1]` again (op 6): new implementations 4, 5 built at 6 > the stamps 2 (`S`: its child was
-- created at op 2) and 5 (`S.X`); the interfaces 0, 1 are the old ones
def histOps : List Op := [
  .newSpace ["S"] (some [⟨"i", none⟩]) none, .newSpace ["S", "X"] none none,
  .item ["S"] [.call [1] []], .item ["S"] [.call [2] []],
  .edit .delCells ["S", "X"],
  .item ["S"] [.call [1] []]]

example : (runH {} histOps).w.tbl.live.map (fun e => (e.addr.dkey, e.impl, e.handle, e.base,
      (runH {} histOps).builtAt e.impl, (runH {} histOps).editedAt e.base)) =
    [([.key [1]], 4, 0, 0, 6, 2), ([.key [1], .name "X"], 5, 1, 1, 6, 5)] := by decide
example : touched (run {} (histOps.take 4)) (.edit .delCells ["S", "X"]) = [1] := by decide
example : (run {} (histOps.take 4)).tbl.nextImpl = 4 ∧ (run {} (histOps.take 5)).tbl.live = [] := by decide

-- inheritance: `S(i)` and `T(j)`; `S` derives the cells of `B`, `T` does not.  The formula of `B`'s cells
-- changes: the edit reaches `S` (stamp 7), not `T`: `T[5]` (built at 5) stays, `S[1]` is rebuilt (op 8 > 7)
def inhOps : List UOp := [
  .op (.newSpace ["B"] none none), .op (.newSpace ["S"] (some [⟨"i", none⟩]) none),
  .op (.newSpace ["T"] (some [⟨"j", none⟩]) none),
  .op (.item ["S"] [.call [1] []]), .op (.item ["T"] [.call [5] []]),
  .editInh .setFormula ["B"] [(.setFormula, ["S"])],
  .op (.item ["S"] [.call [1] []])]

example : (runU {} inhOps).w.tbl.live.map (fun e => (e.addr.root, e.addr.dkey, e.impl, e.handle,
      (runU {} inhOps).builtAt e.impl, (runU {} inhOps).editedAt e.base)) =
    [(2, [.key [5]], 1, 1, 5, 0), (1, [.key [1]], 2, 0, 8, 7)] := by decide

-- the structural mechanism: `S` derives `B`, `T` does not; the formula of `B.f` changes: `S`'s table
-- changes (and `S` is a sub space of `B`), `T`'s does not
example :
    let st := SM.St.run [] {} [.newSpace [] "B" [] [], .newCells ["B"] "f" "f" 1, .newSpace [] "S" [["B"]] [],
      .newSpace [] "T" [] [], .newCells ["T"] "f" "f" 1]
    ∃ st', st.setFormula ["B"] "f" 2 = some st' ∧ st'.mem .cells ["S"] "f" ≠ st.mem .cells ["S"] "f" ∧
      st'.mem .cells ["T"] "f" = st.mem .cells ["T"] "f" ∧ ["S"] ∈ st.subs ["B"] ∧ ["T"] ∉ st.subs ["B"] := by
  refine ⟨_, rfl, ?_, ?_, ?_, ?_⟩ <;> decide

-- values: `S[1].f[0] = 10`, `S[2].f[0] = 20`, `S.f[0] = 30` are three values; after a formula change of `S`
-- the re-created `S[1]` holds none
def valOps : List VOp := [
  .op (.newSpace ["S"] (some [⟨"i", none⟩]) none),
  .assign ["S"] [.call [1] []] "f" [0] 10,
  .assign ["S"] [.call [2] []] "f" [0] 20,
  .assign ["S"] [] "f" [0] 30]

example : (VWorld.run {} valOps).valueAt ⟨0, [.key [1]]⟩ "f" [0] = some 10 ∧
    (VWorld.run {} valOps).valueAt ⟨0, [.key [2]]⟩ "f" [0] = some 20 ∧
    (VWorld.run {} valOps).valueAt ⟨0, []⟩ "f" [0] = some 30 := by decide
example : (VWorld.run {} valOps).target ["S"] [.call [1] []] = some ⟨0, [.key [1]]⟩ := by decide
example : (VWorld.run {} (valOps ++ [.op (.edit .setFormula ["S"]), .op (.item ["S"] [.call [1] []])])).valueAt
    ⟨0, [.key [1]]⟩ "f" [0] = none := by decide
example : (0 : SId) ∈ touched (VWorld.run {} valOps).w (.edit .setFormula ["S"]) := by decide

-- the chain: a parameter `i` shadows the base's `i` and the model's; the inner `i` wins
example : chainFind (chain [[("i", 2)], [("i", 1)]] [("r", 7)] [] [("i", 50), ("r", 3)] [("i", 99), ("u", 11)]) "i"
    = some 2 := by decide
example : chainFind (chain [[("i", 2)], [("i", 1)]] [("r", 7)] [] [("i", 50), ("r", 3)] [("i", 99), ("u", 11)]) "r"
    = some 7 := by decide

-- `f` is a cells of the instance with implementation 4 and also the name of an argument: the cells wins
example : resolveName MxModel.Generated.mxNamespaceOrder 4 ["f", "g"] [[("f", 1), ("i", 2)]] ["X"] "f"
    = some (.cells 4 "f") := by decide
example : resolveName MxModel.Generated.mxNamespaceOrder 4 ["f", "g"] [[("f", 1), ("i", 2)]] ["X"] "i"
    = some (.ref 2) := by decide

end MxModel.C07
