import MxModel.Proofs.Capture
import MxModel.Kernels.DocQuote
/-!
# C20 – Formula capture is faithful and idempotent; rename and doc edits are inert

Property theorems only (helper lemmas: `Proofs/Capture.lean`; model: `Kernels/Capture.lean`).

`render f` is the text of a definition of the grammar (`FuncDef`: any indentation, leading
comment lines, decorators incl. multi-line ones, gap lines, `def` spacing, an opaque
signature over one or several lines, a one-line or block body with or without a docstring
literal in any quote style and over one or several lines, opaque body lines – nested
defs/classes with their own decorators live there –, trailing lines).  The functions
`dedent`, `removeDecorator`, `replaceFuncname`, `replaceDocstring`, `extractLambda` are
modelx's text rewriting (`modelx/core/formula.py`); they take the token positions from a
parser.  The theorems hold for EVERY parser `parse` that reports, for the (at most three)
texts it is actually asked about, the layout `layoutOf` says the rendering has – that
CPython/asttokens is such a parser is what the correspondence check compares.

Documentation texts are arbitrary character lists: `quote_docstring_faithful` (every string
reads back) and `doc_inert` need no hypothesis on the characters; `lexTriple`/`readBack` is the
model of CPython's reading of a triple-quoted literal.

What is NOT a theorem: that the captured text, compiled by CPython, behaves like the original
function (sampled by the check's oracle; known findings `C20-dedent-in-string`,
`C20-splitlines-in-body`: the lines of the grammar hold no form feed / U+2028-like character).
-/
namespace MxModel.C20
open MxModel.Capture

/-- `parse` reports for the text of `f` the layout of `f` -/
def Parses (parse : Text → Layout) (f : FuncDef) : Prop := parse (render f) = layoutOf f

/-! ## Capture -/

/-- WHAT the specification `captureS` says, field by field (true by definition of `captureS` – this
theorem documents the specification, it proves nothing about modelx; the content is
`capture_text_agrees`: modelx's text algorithm computes this): the same definition – signature,
parameter names, body, comments – with the indentation gone, whitespace-only lines emptied, no
decorators, under the cells' name. -/
theorem capture_spec (f : FuncDef) (n : Line) :
    (captureS f (some n)).pre = [] ∧ (captureS f (some n)).decos = []
      ∧ (captureS f (some n)).name = n
      ∧ (captureS f (some n)).lead = f.lead.map normBlank
      ∧ (captureS f (some n)).gap = f.gap.map normBlank
      ∧ (captureS f (some n)).defkw = f.defkw ∧ (captureS f (some n)).sig = f.sig
      ∧ (captureS f (some n)).body = f.body.norm
      ∧ (captureS f (some n)).trail = f.trail.map normBlank
      ∧ (captureS f (some n)).pnames = f.pnames :=
  ⟨rfl, rfl, rfl, rfl, rfl, rfl, rfl, rfl, rfl, rfl⟩

/-- modelx's text algorithm (`Formula._init_from_funcdef`: `dedent`, `remove_decorator`,
`replace_funcname`) applied to the text of ANY well-formed definition of the grammar yields
the text of the specified structure. -/
theorem capture_text_agrees (parse : Text → Layout) (f : FuncDef) (n : Option Line)
    (hwf : f.wf = true) (h1 : Parses parse (dedentS f))
    (h2 : Parses parse (undecorate (dedentS f))) :
    captureText parse (render f) n = render (captureS f n) :=
  captureText_render parse f n hwf h1 h2

/-- `dedent` alone is exact on every well-formed definition: precisely the indentation of
the `def` line is removed from every non-blank line (this is the step that also reaches into
string literals – see the negative example at the end). -/
theorem dedent_exact (f : FuncDef) (hwf : f.wf = true) :
    dedent (render f) = render (dedentS f) :=
  dedent_render f hwf

/-- Capturing a captured definition under the same name changes nothing (on the specification:
`captureS` is idempotent – `Body.norm`, `normBlank` are; the statement about modelx's text
algorithm is `capture_idempotent_text`). -/
theorem capture_idempotent (f : FuncDef) (n : Line) :
    captureS (captureS f (some n)) (some n) = captureS f (some n) := by
  rw [captureS_captureS]; rfl

/-- `formula.source` is self-contained: creating a cells from it under the same name
reproduces the same text. -/
theorem capture_idempotent_text (parse : Text → Layout) (f : FuncDef) (n : Line)
    (hwf : f.wf = true) (h1 : Parses parse (dedentS f))
    (h2 : Parses parse (undecorate (dedentS f))) (h3 : Parses parse (captureS f (some n))) :
    captureText parse (captureText parse (render f) (some n)) (some n)
      = captureText parse (render f) (some n) := by
  rw [capture_text_agrees parse f (some n) hwf h1 h2]
  have hw := wf_captureS f (some n) hwf
  rw [captureText_render parse _ (some n) hw (by rw [dedentS_captureS]; exact h3)
    (by rw [dedentS_captureS, undecorate_captureS]; exact h3), capture_idempotent]

/-! ## Rename -/

/-- Renaming a cells (`on_rename`: `Formula(self.formula, name=new)`) changes the name field
and nothing else (on the specification; for modelx's text algorithm: `rename_inert_text`). -/
theorem rename_inert (f : FuncDef) (n m : Line) :
    captureS (captureS f (some n)) (some m) = { captureS f (some n) with name := m } := by
  rw [captureS_captureS]; rfl

theorem rename_inert_text (parse : Text → Layout) (f : FuncDef) (n m : Line)
    (hwf : f.wf = true) (h3 : Parses parse (captureS f (some n))) :
    captureText parse (render (captureS f (some n))) (some m)
      = render { captureS f (some n) with name := m } := by
  have hw := wf_captureS f (some n) hwf
  rw [captureText_render parse _ (some m) hw (by rw [dedentS_captureS]; exact h3)
    (by rw [dedentS_captureS, undecorate_captureS]; exact h3), rename_inert]

/-- …so renaming back restores the original formula exactly (specification). -/
theorem rename_round_trip (f : FuncDef) (n m : Line) :
    captureS (captureS (captureS f (some n)) (some m)) (some n) = captureS f (some n) := by
  rw [captureS_captureS, captureS_captureS]; rfl

/-- **Rename there and back, on the text**: modelx's text algorithm applied to `formula.source`
under another name and then under the old one gives `formula.source` back, character by
character – for every well-formed definition whose two texts the parser reads as the grammar says. -/
theorem rename_round_trip_text (parse : Text → Layout) (f : FuncDef) (n m : Line)
    (hwf : f.wf = true) (h3 : Parses parse (captureS f (some n)))
    (h4 : Parses parse { captureS f (some n) with name := m }) :
    captureText parse (captureText parse (render (captureS f (some n))) (some m)) (some n)
      = render (captureS f (some n)) := by
  rw [rename_inert_text parse f n m hwf h3]
  have e : { captureS f (some n) with name := m } = captureS (captureS f (some n)) (some m) :=
    (rename_inert f n m).symm
  have hw := wf_captureS (captureS f (some n)) (some m) (wf_captureS f (some n) hwf)
  rw [e] at h4 ⊢
  rw [captureText_render parse _ (some n) hw (by rw [dedentS_captureS]; exact h4)
    (by rw [dedentS_captureS, undecorate_captureS]; exact h4), rename_round_trip]

/-- **`formula.source` is a self-contained, dedented definition**: `textwrap.dedent` does nothing
to it any more (so a second capture starts from the same text), for every well-formed definition. -/
theorem capture_source_is_dedented (f : FuncDef) (n : Option Line) (hwf : f.wf = true) :
    dedent (render (captureS f n)) = render (captureS f n) := by
  rw [dedent_exact _ (wf_captureS f n hwf), dedentS_captureS]

/-- Renaming a cells that has the same-named cells in sub spaces (`rename_cells` loop):
every entry that is DEFINED in its space – the renamed cells itself and every cells that
overrides it further down – keeps its own formula, only under the new name; flags and the
stored lambda documentation are untouched. -/
theorem rename_chain_keeps_own (n : Line) (es : List Entry) (i : Nat) (e : Entry)
    (hi : es[i]? = some e) (hd : e.derived = false) :
    (renameChain n none es)[i]? = some { e with formula := renameFormula n e.formula } :=
  renameChain_defined n es none i e hi hd

/-- …and a derived entry shows the (renamed) formula of the entry it derives from. -/
theorem rename_chain_derived_follow (n : Line) (es : List Entry) (i : Nat) (e0 e : Entry)
    (f : FuncDef) (h0 : es[i]? = some e0) (hi : es[i + 1]? = some e) (hd : e.derived = true)
    (hf : e.formula = .fn f) :
    ((renameChain n none es)[i + 1]?).map (·.formula)
      = ((renameChain n none es)[i]?).map (·.formula) :=
  renameChain_derived n es none i e0 e f h0 hi hd hf

/-- the chain is as derivation leaves it: a derived cells with a `def` formula shows the formula of
the cells before it (`prev`), so the first cells of a chain is a defined one or a lambda -/
def ChainDerived : Option Formula → List Entry → Prop
  | _, [] => True
  | prev, e :: es =>
    (e.derived = true → (∃ f, e.formula = .fn f) → prev = some e.formula) ∧ ChainDerived (some e.formula) es

theorem renameChain_pointwise (n : Line) : ∀ (es : List Entry) (prev : Option Formula),
    ChainDerived prev es →
    renameChain n (prev.map (renameFormula n)) es =
      es.map (fun e => { e with formula := renameFormula n e.formula }) := by
  intro es
  induction es with
  | nil => intro _ _; rfl
  | cons e es ih =>
    intro prev h
    obtain ⟨h1, h2⟩ := h
    have ih' := ih (some e.formula) h2
    simp only [Option.map_some] at ih'
    simp only [renameChain, List.map_cons]
    cases hform : e.formula with
    | lam s p =>
      rw [hform] at ih'
      simp only [renameFormula] at ih' ⊢
      rw [ih']
    | fn f =>
      rw [hform] at ih'
      simp only [renameFormula] at ih' ⊢
      by_cases hd : e.derived = true
      · have hp := h1 hd ⟨f, hform⟩
        rw [hp, hform]
        simp only [Option.map_some, renameFormula, hd, if_true]
        rw [ih']
      · have hd' : e.derived = false := by simpa using hd
        simp only [hd', Bool.false_eq_true, if_false]
        rw [ih']

/-- **Renaming commutes with derivation.**  `rename_cells` walks down the chain of same-named cells
handing each derived cells the (renamed) formula of the cells before it; on a chain that is as
derivation leaves it, the result is the pointwise rename: EVERY cells of the chain – defined,
overriding, derived, lambda – shows exactly the formula it showed before, under the new name (a
lambda: unchanged), and nothing else of the entry changes. -/
theorem rename_chain_is_pointwise_rename (n : Line) (es : List Entry) (h : ChainDerived none es) :
    renameChain n none es = es.map (fun e => { e with formula := renameFormula n e.formula }) :=
  renameChain_pointwise n es none h

/-! ## Documentation -/

/-- the two Lean models of `quote_docstring` (`DocQuote.quoteDocstring`, used by C04 with a model of
CPython's tokenizer, and `Capture.quoteDocstring`, used here) are one function: both are the loop of
`quote_docstring` over the escape table read from the code -/
theorem quote_docstring_one_model (d : List Char) :
    MxModel.DocQuote.quoteDocstring d = quoteDocstring d := by
  have hb : ∀ (d : List Char) (q : Nat), MxModel.DocQuote.quoteBody q d = quoteChars q d := by
    intro d
    induction d with
    | nil => intro q; rfl
    | cons c cs ih =>
      intro q
      have he : docEscapes.lookup c = MxModel.DocQuote.escapeOf c := rfl
      simp only [MxModel.DocQuote.quoteBody, quoteChars, ih, escapeChar, he]
      cases MxModel.DocQuote.escapeOf c <;> rfl
  unfold MxModel.DocQuote.quoteDocstring quoteDocstring
  rw [hb]; rfl

/-- **`quote_docstring` is faithful, for every string**: the triple-quoted literal it builds
(`"""`, the text with backslashes, NUL, line boundaries other than the line feed, every third
quote of a run and a final quote escaped, `"""`) is read back by CPython's lexer as exactly
the text – no hypothesis on the text.  (Induction with the run-of-quotes invariant:
`lex_quoteChars`.) -/
theorem quote_docstring_faithful (d : List Char) : readBack (quoteDocstring d) = some d :=
  readBack_quoteDocstring d

/-- `replace_docstring` on the text of a captured definition is `replaceDocS` on the
structure, for every body shape (block or one-line, with or without a docstring, the old
docstring of any shape: one token or several, on one line or several), every new text and
`insert_indents`. -/
theorem replace_docstring_agrees (parse : Text → Layout) (f : FuncDef) (doc : List Char)
    (ii : Bool) (hp : f.pre = []) (h0 : Parses parse f) :
    replaceDocstring (parse (render f)) (render f) doc ii = render (replaceDocS f doc ii) := by
  rw [h0]; exact replaceDocstring_render f hp doc ii

/-- `set_doc` as a whole (replace, then re-capture under the cells' name). -/
theorem set_doc_text_agrees (parse : Text → Layout) (f : FuncDef) (doc : List Char) (ii : Bool)
    (hwf : f.wf = true) (hp : f.pre = []) (h0 : Parses parse f)
    (h1 : Parses parse (dedentS (replaceDocS f doc ii)))
    (h2 : Parses parse (undecorate (dedentS (replaceDocS f doc ii)))) :
    setDocText parse (render f) doc ii f.name = render (setDocS f doc ii) :=
  setDocText_render parse f doc ii hwf hp h0 h1 h2

/-- Replacing the documentation of a captured definition changes nothing but the docstring
statement: name, signature, parameter names, comments and every line of the body other than
the literal (and the `;` that ends its statement in a one-line body) are the same – for
every body shape, every text, with and without `insert_indents`. -/
theorem doc_changes_only_docstring (f : FuncDef) (n : Line) (doc : List Char) (ii : Bool)
    (hwf : f.wf = true) :
    let g := captureS f (some n)
    let g' := setDocS g doc ii
    g'.pre = g.pre ∧ g'.lead = g.lead ∧ g'.decos = g.decos ∧ g'.gap = g.gap
      ∧ g'.defkw = g.defkw ∧ g'.name = g.name ∧ g'.sig = g.sig ∧ g'.trail = g.trail
      ∧ g'.pnames = g.pnames ∧ g'.body.undoc = g.body.undoc := by
  have hb : f.body.wf = true := by
    simp only [FuncDef.wf, Bool.and_eq_true] at hwf; exact hwf.2
  simp only [setDocS, captureS, withName, undecorate, dedentS, replaceDocS, map_normBlank_idem,
    true_and]
  cases hbody : f.body with
  | inline doc0 stmts =>
    cases doc0 with
    | none =>
      simp [Body.norm, setDocBody, Body.undoc, dropSep, semi, isWs]
    | some d0 => simp [Body.norm, setDocBody, Body.undoc]
  | block sm cmts ind doc0 after rest =>
    cases doc0 with
    | none =>
      rw [hbody] at hb
      simp only [Body.wf, Bool.not_eq_true'] at hb
      have hl : normBlank (ind ++ after) = ind ++ after :=
        normBlank_of_not_blank (by simp [hb])
      simp [Body.norm, setDocBody, Body.undoc, Function.comp_def, hl]
    | some d0 =>
      simp [Body.norm, setDocBody, Body.undoc, Function.comp_def]

/-- the literal `doc = d` writes (without `insert_indents`): the quoted text, with the
whitespace-only lines inside it emptied by the `dedent` of the re-capture -/
theorem doc_written (f : FuncDef) (n : Line) (doc : List Char) :
    (setDocS (captureS f (some n)) doc false).body.docLit = some (mkDoc (docSpan doc).norm) := by
  simp only [setDocS, captureS, withName, undecorate, dedentS, replaceDocS]
  cases f.body with
  | inline doc0 stmts => cases doc0 <;> simp [Body.norm, setDocBody, Body.docLit, DocLit.norm, mkDoc]
  | block sm cmts ind doc0 after rest =>
    generalize docSpan doc = d
    obtain ⟨first, more⟩ := d
    cases doc0 <;> cases more <;>
      simp [Body.norm, setDocBody, Body.docLit, DocLit.norm, mkDoc, blockDoc, Span.norm]

/-- **`doc = d` is inert**: for EVERY well-formed definition of the grammar (block or one-line
body, with or without a docstring of any shape) and EVERY text `d` without a whitespace-only
line strictly inside it – any characters: quotes, runs of quotes, a final quote, backslashes,
NUL, carriage returns and the other line boundaries –, after `set_doc` the docstring reads
back as exactly `d` and nothing of the body but the docstring statement has changed.
(The remaining hypothesis is the known finding `C20-dedent-in-string`: the rebuilt source is
dedented again, which empties whitespace-only lines also inside the literal.) -/
theorem doc_inert (f : FuncDef) (n : Line) (doc : List Char) (hwf : f.wf = true)
    (hclean : NoWsOnlyMiddle doc = true) :
    (setDocS (captureS f (some n)) doc false).body.undoc = (captureS f (some n)).body.undoc
      ∧ ((setDocS (captureS f (some n)) doc false).body.docLit.bind DocLit.value) = some doc := by
  refine ⟨(doc_changes_only_docstring f n doc false hwf).2.2.2.2.2.2.2.2.2, ?_⟩
  rw [doc_written, docSpan_norm doc hclean]
  exact value_mkDoc_docSpan doc

/-- the same for the text algorithm: what `set_doc` makes of `formula.source` is the text of a
definition that differs from the old one in the docstring statement only, and whose docstring
CPython reads as `d` -/
theorem doc_inert_text (parse : Text → Layout) (f : FuncDef) (n : Line) (doc : List Char)
    (hwf : f.wf = true) (hclean : NoWsOnlyMiddle doc = true)
    (h0 : Parses parse (captureS f (some n)))
    (h1 : Parses parse (dedentS (replaceDocS (captureS f (some n)) doc false)))
    (h2 : Parses parse (undecorate (dedentS (replaceDocS (captureS f (some n)) doc false)))) :
    ∃ g', setDocText parse (render (captureS f (some n))) doc false n = render g'
      ∧ g'.name = n ∧ g'.defkw = f.defkw ∧ g'.sig = f.sig ∧ g'.pnames = f.pnames
      ∧ g'.body.undoc = (captureS f (some n)).body.undoc
      ∧ (g'.body.docLit.bind DocLit.value) = some doc := by
  refine ⟨setDocS (captureS f (some n)) doc false, ?_, rfl, rfl, rfl, rfl, ?_⟩
  · exact set_doc_text_agrees parse (captureS f (some n)) doc false (wf_captureS f _ hwf) rfl h0 h1 h2
  · exact doc_inert f n doc hwf hclean

def s (x : String) : Line := x.toList

/-- `def foo(x):` / `    return x` -/
def plainDef : FuncDef :=
  { defkw := s "def ", name := s "foo", sig := s "(x):",
    body := .block [] [] (s "    ") none (s "return x") [], pnames := [s "x"] }

/-- The statement without the hypothesis still fails on the real code, and the model shows it:
a whitespace-only line inside the text is emptied (`doc = 'a\n   \nb'` reads back `'a\n\nb'`;
known finding `C20-dedent-in-string`). -/
theorem doc_full_statement_fails :
    ¬ ∀ (f : FuncDef) (n : Line) (doc : List Char), f.wf = true →
      ((setDocS (captureS f (some n)) doc false).body.docLit.bind DocLit.value) = some doc := by
  intro h
  have := h plainDef (s "foo") (s "a\n   \nb") (by decide)
  revert this
  decide +kernel

example : ((setDocS (captureS plainDef (s "foo")) (s "a\n   \nb") false).body.docLit.bind DocLit.value)
    = some (s "a\n\nb") := by decide +kernel

/-! Regression: the texts and layouts that failed before the repairs (2b72506, 35c2f08). -/

/-- what `quote_docstring` writes for the texts that used to break -/
theorem quote_docstring_regression :
    quoteDocstring (s "ends with \"") = s "\"\"\"ends with \\\"\"\"\""
      ∧ quoteDocstring (s "has \"\"\" inside") = s "\"\"\"has \"\"\\\" inside\"\"\""
      ∧ quoteDocstring (s "back\\nslash") = s "\"\"\"back\\\\nslash\"\"\""
      ∧ quoteDocstring (s "cr\rhere") = s "\"\"\"cr\\rhere\"\"\""
      ∧ quoteDocstring ['n', 'u', 'l', Char.ofNat 0, Char.ofNat 0x2028] = s "\"\"\"nul\\x00\\u2028\"\"\""
      ∧ quoteDocstring (s "\"\"\"\"\"") = s "\"\"\"\"\"\\\"\"\\\"\"\"\"" := by
  decide

/-- …and they read back: instances of `doc_inert` (all of them violated `SafeDoc` of the
former partial theorem) -/
theorem doc_regression_texts :
    ∀ doc ∈ [s "ends with \"", s "has \"\"\" inside", s "back\\nslash", s "trailing\\",
              s "cr\rhere", s "\"\"\"", s "a\n\"", ['n', 'u', 'l', Char.ofNat 0]],
      ((setDocS (captureS plainDef (s "foo")) doc false).body.docLit.bind DocLit.value) = some doc := by
  intro doc hd
  refine (doc_inert plainDef (s "foo") doc (by decide) ?_).2
  revert doc; decide

/-- `def f(x): return x` -/
def oneLineDef : FuncDef :=
  { defkw := s "def ", name := s "f", sig := s "(x): ", body := .inline none (s "return x") }

/-- a one-line body without a docstring: a `; ` separates the new literal from the statement
(formerly `def f(x): """doc"""return x`, SyntaxError) -/
theorem doc_one_line_body :
    render (replaceDocS oneLineDef (s "doc") false) = [s "def f(x): \"\"\"doc\"\"\"; return x"]
      ∧ (setDocS oneLineDef (s "doc") false).body.undoc = oneLineDef.body.undoc
      ∧ replaceDocstring (layoutOf oneLineDef) (render oneLineDef) (s "doc") false
          = [s "def f(x): \"\"\"doc\"\"\"; return x"] := by
  decide

/-- `def f(x):` / `    'a' 'b'  # c` / `    return x` – a docstring of two tokens (the grammar's
literal is whatever stands between the first and the last character of the statement) -/
def concatDocDef : FuncDef :=
  { defkw := s "def ", name := s "f", sig := s "(x):",
    body := .block [] [] (s "    ") (some { opn := s "'", txt := ⟨s "a' 'b", none⟩, cls := s "'" })
      (s "  # c") [s "    return x"] }

/-- `def f(x):` / `    ('a'` / `  'b')` / `    return x` -/
def parenDocDef : FuncDef :=
  { defkw := s "def ", name := s "f", sig := s "(x):",
    body := .block [] [] (s "    ") (some { opn := s "('", txt := ⟨s "a'", some ([], s "  'b")⟩, cls := s "')" })
      [] [s "    return x"] }

/-- a docstring written as several tokens is replaced as a whole (formerly only its first
token: `'a' 'b'` kept its tail, `('a')` lost its parenthesis) -/
theorem doc_compound_literal :
    replaceDocstring (layoutOf concatDocDef) (render concatDocDef) (s "doc") false
        = [s "def f(x):", s "    \"\"\"doc\"\"\"  # c", s "    return x"]
      ∧ replaceDocstring (layoutOf parenDocDef) (render parenDocDef) (s "doc") false
        = [s "def f(x):", s "    \"\"\"doc\"\"\"", s "    return x"] := by
  decide

/-! ## Lambda expressions -/

/-- A lambda embedded in a longer, arbitrarily indented statement (from text:
`extract_lambda_from_source(dedent(src))`): the source is the lambda expression alone,
dedented. -/
theorem lambda_capture_spec (parse : Text → LamPos) (st : LamStmt) (hwf : st.wf = true)
    (h : parse st.dedentS.render = st.dedentS.layout) :
    captureLambdaText parse st.render = st.lam.norm.lines := by
  unfold captureLambdaText
  rw [st.dedent_render hwf, h, extractLambda_render]
  simp only [LamStmt.rawLam, LamStmt.dedentS, Span.lines, indAll_nil_pre, List.nil_append]

/-- A lambda object (`extract_lambda_from_func`): the lambda expression as it stands in the
file – continuation lines keep their indentation. -/
theorem lambda_object_capture_spec (parse : Text → LamPos) (st : LamStmt)
    (h : parse st.render = st.layout) :
    captureLambdaObj parse st.render = st.rawLam := by
  unfold captureLambdaObj
  rw [h, extractLambda_render]

/-- the lines of a lambda expression standing alone are the statement that consists of it -/
theorem lambda_alone_render (lam : Span) : ({ lam := lam } : LamStmt).render = lam.lines := by
  unfold LamStmt.render Span.lines
  cases lam.more with
  | none => simp
  | some p => obtain ⟨mid, last⟩ := p; simp

/-- the captured lambda text, given back as a source, is reproduced (for every lambda expression
whose whitespace-only lines are already empty – which is what capture leaves – and whose text the
parser reads as the grammar says) -/
theorem lambda_capture_idempotent (parse : Text → LamPos) (lam : Span)
    (hn : lam.norm = lam) (hwf : ({ lam := lam } : LamStmt).wf = true)
    (h : parse ({ lam := lam } : LamStmt).dedentS.render = ({ lam := lam } : LamStmt).dedentS.layout) :
    captureLambdaText parse lam.lines = lam.lines := by
  conv => lhs; rw [← lambda_alone_render lam]
  rw [lambda_capture_spec parse _ hwf h, hn]

/-! ## Non-vacuity: concrete layouts -/

/-- an indented, decorated definition with comments everywhere, a multi-line docstring with
a whitespace-only line, a decorated nested def and a last-line comment -/
def demo : FuncDef :=
  { pre := s "    ",
    lead := [s "# lead", s "  "],
    decos := [s "@deco", s "@deco2(1,", s "   2)  # c"],
    gap := [s ""],
    defkw := s "def  ", name := s "foo", sig := s "(x, y: int = 2) -> int:  # sig",
    body := .block [] [s "    # before"] (s "    ")
      (some { opn := s "'''", txt := ⟨s "Doc", some ([s "   ", s "      more"], s "    ")⟩,
              cls := s "'''" })
      (s "  # after")
      [s "    @inner_deco", s "    def g(v):", s "        return v + 1", s "",
       s "    return g(x) + y  # done"],
    trail := [s "    # trailing", s "# at def level"],
    pnames := [s "x", s "y"] }

/-- an honest parser for the three texts involved (a table) -/
def demoParse (t : Text) : Layout :=
  if t = render (dedentS demo) then layoutOf (dedentS demo)
  else if t = render (undecorate (dedentS demo)) then layoutOf (undecorate (dedentS demo))
  else layoutOf (captureS demo (some (s "bar")))

example : demo.wf = true := by decide

example : captureText demoParse (render demo) (some (s "bar")) =
    [s "# lead", s "",
     s "",
     s "def  bar(x, y: int = 2) -> int:  # sig",
     s "    # before",
     s "    '''Doc", s "", s "      more", s "    '''  # after",
     s "    @inner_deco", s "    def g(v):", s "        return v + 1", s "",
     s "    return g(x) + y  # done",
     s "    # trailing", s "# at def level"] := by
  decide +kernel

example : captureText demoParse (render demo) (some (s "bar")) = render (captureS demo (some (s "bar"))) :=
  capture_text_agrees demoParse demo _ (by decide) (by unfold Parses; decide +kernel)
    (by unfold Parses; decide +kernel)

/-- `set_doc` with `insert_indents` on the demo layout; the text has a whitespace-only line, a
backslash, a run of four quotes and a final quote -/
def demoDoc : List Char := s "new\n  \ntext \\ \"\"\"\" end\""

def demoDocParse (t : Text) : Layout :=
  if t = render (captureS demo (some (s "bar"))) then layoutOf (captureS demo (some (s "bar")))
  else layoutOf (setDocS (captureS demo (some (s "bar"))) demoDoc true)

example : setDocText demoDocParse (render (captureS demo (some (s "bar")))) demoDoc true (s "bar") =
    [s "# lead", s "",
     s "",
     s "def  bar(x, y: int = 2) -> int:  # sig",
     s "    # before",
     s "    \"\"\"new", s "", s "    text \\\\ \"\"\\\"\" end\\\"\"\"\"  # after",
     s "    @inner_deco", s "    def g(v):", s "        return v + 1", s "",
     s "    return g(x) + y  # done",
     s "    # trailing", s "# at def level"] := by
  decide +kernel

example : setDocText demoDocParse (render (captureS demo (some (s "bar")))) demoDoc true (s "bar")
    = render (setDocS (captureS demo (some (s "bar"))) demoDoc true) :=
  set_doc_text_agrees demoDocParse _ demoDoc true (by decide) rfl (by unfold Parses; decide +kernel)
    (by unfold Parses; decide +kernel) (by unfold Parses; decide +kernel)

example : replaceDocstring (demoDocParse (render (captureS demo (some (s "bar")))))
      (render (captureS demo (some (s "bar")))) demoDoc true
    = render (replaceDocS (captureS demo (some (s "bar"))) demoDoc true) :=
  replace_docstring_agrees demoDocParse _ demoDoc true rfl (by unfold Parses; decide +kernel)

example : quoteDocstring demoDoc = s "\"\"\"new\n  \ntext \\\\ \"\"\\\"\" end\\\"\"\"\""
    ∧ readBack (quoteDocstring demoDoc) = some demoDoc :=
  ⟨by decide, quote_docstring_faithful _⟩

example : (setDocS (captureS demo (some (s "bar"))) demoDoc true).body.undoc
    = (captureS demo (some (s "bar"))).body.undoc :=
  (doc_changes_only_docstring demo (s "bar") demoDoc true (by decide)).2.2.2.2.2.2.2.2.2

example : (setDocS (captureS demo (some (s "bar"))) (s "x") false).body.docLit
    = some (mkDoc ⟨s "x", none⟩) := by
  rw [doc_written]; decide

/-- rename: only the token after `def` changes -/
example : captureText (fun _ => layoutOf (captureS demo (some (s "bar"))))
    (render (captureS demo (some (s "bar")))) (some (s "renamed")) =
    [s "# lead", s "", s "",
     s "def  renamed(x, y: int = 2) -> int:  # sig",
     s "    # before",
     s "    '''Doc", s "", s "      more", s "    '''  # after",
     s "    @inner_deco", s "    def g(v):", s "        return v + 1", s "",
     s "    return g(x) + y  # done",
     s "    # trailing", s "# at def level"] := by
  decide +kernel

/-- re-creating from the captured text reproduces it -/
example : captureText (fun _ => layoutOf (captureS demo (some (s "bar"))))
    (render (captureS demo (some (s "bar")))) (some (s "bar")) = render (captureS demo (some (s "bar"))) := by
  decide +kernel

/-- a multi-line documentation text full of characters that need escaping reads back; the
body is untouched -/
def demoDoc2 : List Char := s "Summary \"quoted\".\n\n  details: \\n is not a newline\r\n\"\"\""

example : NoWsOnlyMiddle demoDoc2 = true := by decide

example : ((setDocS (captureS demo (some (s "bar"))) demoDoc2 false).body.docLit.bind DocLit.value)
    = some demoDoc2 :=
  (doc_inert demo (s "bar") _ (by decide) (by decide)).2

def demoDoc2Parse (t : Text) : Layout :=
  if t = render (captureS demo (some (s "bar"))) then layoutOf (captureS demo (some (s "bar")))
  else layoutOf (setDocS (captureS demo (some (s "bar"))) demoDoc2 false)

example : ∃ g', setDocText demoDoc2Parse
      (render (captureS demo (some (s "bar")))) demoDoc2 false (s "bar") = render g'
      ∧ (g'.body.docLit.bind DocLit.value) = some demoDoc2 := by
  obtain ⟨g', h1, _, _, _, _, _, h7⟩ := doc_inert_text demoDoc2Parse demo (s "bar") demoDoc2 (by decide) (by decide)
    (by unfold Parses; decide +kernel) (by unfold Parses; decide +kernel) (by unfold Parses; decide +kernel)
  exact ⟨g', h1, h7⟩

/-- `    foo(1, lambda a: (a,` / `       2), 3)  # c` -/
def demoLam : LamStmt :=
  { pre := s "    ", lead := [s "# c"], pfx := s "foo(1, ", lam := ⟨s "lambda a: (a,", some ([s "  "], s "   2)")⟩,
    sfx := s ", 3)  # c" }

example : demoLam.wf = true := by decide
example : captureLambdaText (fun _ => demoLam.dedentS.layout) demoLam.render
    = [s "lambda a: (a,", s "", s "   2)"] := by decide +kernel
example : captureLambdaObj (fun _ => demoLam.layout) demoLam.render
    = [s "lambda a: (a,", s "  ", s "       2)"] := by decide +kernel

/-- non-vacuity of `lambda_capture_idempotent`: a two-line lambda whose middle line is empty -/
def lam1 : Span := ⟨s "lambda a: (a,", some ([s ""], s "   2)")⟩
example : captureLambdaText (fun _ => ({ lam := lam1 } : LamStmt).dedentS.layout) lam1.lines = lam1.lines :=
  lambda_capture_idempotent _ lam1 (by decide +kernel) (by decide +kernel) rfl
example : lam1.lines = [s "lambda a: (a,", s "", s "   2)"] := by decide +kernel

/-- Base.foo, Sub overrides foo, SubSub derives from Sub; `Base.foo.rename('bar')` -/
def demoChain : List Entry :=
  [ { derived := false, formula := .fn plainDef },
    { derived := false, formula := .fn { plainDef with sig := s "(x, k=3):" } },
    { derived := true, formula := .fn { plainDef with sig := s "(x, k=3):" } } ]

example : (renameChain (s "bar") none demoChain).map (fun e => match e.formula with
      | .fn f => render f | .lam l _ => l) =
    [[s "def bar(x):", s "    return x"], [s "def bar(x, k=3):", s "    return x"],
     [s "def bar(x, k=3):", s "    return x"]] := by decide +kernel

theorem demoChain_derived : ChainDerived none demoChain := by
  simp [ChainDerived, demoChain]
example : renameChain (s "bar") none demoChain =
    demoChain.map (fun e => { e with formula := renameFormula (s "bar") e.formula }) :=
  rename_chain_is_pointwise_rename _ _ demoChain_derived
/-- without the hypothesis the statement is false: a chain whose first cells claims to be derived
keeps its old name -/
example : renameChain (s "bar") none [{ derived := true, formula := .fn plainDef }] ≠
    [{ derived := true, formula := renameFormula (s "bar") (.fn plainDef) }] := by decide +kernel

/-- the hypotheses of `rename_round_trip_text` are satisfiable, and the text comes back -/
example : captureText (fun t => if t = render (captureS demo (some (s "bar"))) then
        layoutOf (captureS demo (some (s "bar"))) else layoutOf { captureS demo (some (s "bar")) with name := s "baz" })
      (captureText (fun t => if t = render (captureS demo (some (s "bar"))) then
          layoutOf (captureS demo (some (s "bar"))) else layoutOf { captureS demo (some (s "bar")) with name := s "baz" })
        (render (captureS demo (some (s "bar")))) (some (s "baz"))) (some (s "bar"))
    = render (captureS demo (some (s "bar"))) :=
  rename_round_trip_text _ demo (s "bar") (s "baz") (by decide) (by simp [Parses])
    (by
      unfold Parses
      have : render { captureS demo (some (s "bar")) with name := s "baz" } ≠ render (captureS demo (some (s "bar"))) := by
        decide +kernel
      simp [this])
example : dedent (render (captureS demo (some (s "bar")))) = render (captureS demo (some (s "bar"))) :=
  capture_source_is_dedented demo _ (by decide)

/-- The model is bug-faithful about `dedent`: a whitespace-only line inside a string literal
of the body is emptied and continuation lines of a multi-line string lose the definition's
indentation – the text of the literal, hence the function's value, changes
(known finding `C20-dedent-in-string`). -/
example : dedent [s "    def f():", s "        return '''a", s "      ", s "        b'''"]
    = [s "def f():", s "    return '''a", s "", s "    b'''"] := by decide

end MxModel.C20
