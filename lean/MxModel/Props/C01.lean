import MxModel.Proofs.ExecSoundTop
import MxModel.Proofs.ExecTaint
import MxModel.Proofs.ExecGhostOps
import MxModel.Proofs.ExecLog
import MxModel.Exec.Expr
/-!
# C01 – memoisation is transparent

The mechanism (`Exec/Mech.lean`: `eval_node`, `_eval_formula`, call stack, cache) against the
specification `Den` (`Exec/Prog.lean`: uncached evaluation of the formulas as pure
functions).  All theorems quantify over every environment `env` – every formula behaviour,
including formulas that catch their callees' failures – over every state reachable with
held values (`Good`), over every element and every depth.

`LimitNotCaughtInThisCall env n s` is the hypothesis of the `_partial` theorems: the recursion limit
is not hit during THIS evaluation (not even inside a `try`) – formally, the evaluation started from
`s` with the ghost flag `hit` lowered ends with the flag down.  It says nothing about earlier
evaluations: the flag is a ghost (`limit_flag_is_ghost`, `limit_flag_is_ghost_history`: no function
of the mechanism reads it; results and states are the same whatever it is), so a depth error in an
earlier call does not take later calls out of the theorems' scope.  Without the hypothesis the
statement is false of the model and of modelx for formulas that CATCH the depth error
(`full_statement_fails`, known finding C01-caught-deep); for formulas that let it propagate
(`DeepPropagatesEnv`) or that handle no failure at all (`NoCatchEnv`) no hypothesis about the limit
is needed (`eval_value_is_denotation_deep_propagates_partial`, `…_nocatch_partial`).
-/
namespace MxModel.C01
open MxModel.Exec

variable (env : Env) (inp : Node → Option Val)

/-- **The limit flag is a ghost**: a top-level call from a state in which the flag is up (an
earlier evaluation hit the limit) returns the same result and ends in the same state, flag up, as
from the state with the flag as it was. -/
theorem limit_flag_is_ghost (n : Node) (s : St) (b : Bool) :
    evalTop env n (s.orHit b) = ((evalTop env n s).1, (evalTop env n s).2.orHit b) :=
  evalTop_orHit env n s b

/-- …and so is every operation of the edit language (`C02.Op`: evaluations, value edits, reference
edits, formula / flag edits, cells deleted and created, limit changes, administrative calls): a
whole history run with the flag up gives the same definitions and the same state, flag up. -/
theorem limit_flag_is_ghost_history (ops : List C02.Op) (env : Env) (s : St) (b : Bool) :
    C02.run (env, s.orHit b) ops = ((C02.run (env, s) ops).1, (C02.run (env, s) ops).2.orHit b) :=
  C02.run_orHit ops env s b

/-- the hypothesis in its old form (flag down before and after the call) implies the new one -/
theorem limit_not_caught_of_flag (n : Node) (s : St) (h0 : s.hit = false)
    (hend : (evalTop env n s).2.hit = false) : LimitNotCaughtInThisCall env n s :=
  LimitNotCaughtInThisCall.of_flag h0 hend

/-- **Values equal uncached evaluation (partial: `LimitNotCaughtInThisCall`).**  From any state in
which every held value is the spec's, whatever was computed before and in whatever order – and
whatever happened to the limit in earlier evaluations –, a top-level call that does not hit the
limit returns exactly the spec's result – value, or `FormulaError` carrying the spec's error – and
every value held afterwards is again the spec's. -/
theorem eval_value_is_denotation_partial (n : Node) (s : St)
    (hg : Good env inp s) (hlim : LimitNotCaughtInThisCall env n s) :
    (∀ v, (evalTop env n s).1 = .ok v → Den env inp n (.ok v)) ∧
    (∀ e tb, (evalTop env n s).1 = .formulaError e tb → Den env inp n (.err e)) ∧
    Good env inp (evalTop env n s).2 :=
  evalTop_sound env inp n s hg hlim

/-- **Conversely**: if pure evaluation of `n` stays within the configured limit, the call
returns exactly that result and does not hit the limit – whatever is cached, whatever earlier calls
did. -/
theorem eval_returns_denotation (n : Node) (s : St) (r : Res)
    (hg : Good env inp s)
    (hd : denoteN env inp (env.maxdepth + 1) n = (r, false)) :
    LimitNotCaughtInThisCall env n s ∧
    (∀ v, r = .ok v → (evalTop env n s).1 = .ok v) ∧
    (∀ e, r = .err e → ∃ tb, (evalTop env n s).1 = .formulaError e tb) :=
  evalTop_complete env inp n s r hg hd

/-- **The answer does not depend on what was computed before**: two states (two histories of
earlier evaluations) that both hold only correct values give the same result. -/
theorem order_independent (n : Node) (s s' : St)
    (hg : Good env inp s) (hg' : Good env inp s')
    (he : LimitNotCaughtInThisCall env n s) (he' : LimitNotCaughtInThisCall env n s')
    (v v' : Val) (hv : (evalTop env n s).1 = .ok v) (hv' : (evalTop env n s').1 = .ok v') : v = v' := by
  have a := (eval_value_is_denotation_partial env inp n s hg he).1 v hv
  have b := (eval_value_is_denotation_partial env inp n s' hg' he').1 v' hv'
  have := Den_det env inp n _ _ a b
  cases this; rfl

/-- **No hypothesis about the limit for formulas that let `DeepReferenceError` propagate**
(partial: `DeepPropagatesEnv` – formulas may handle any other failure of their callees, but a depth
error received from a callee ends the formula with that depth error; the complement is exactly the
known finding C01-caught-deep).  Whatever the limit is and wherever it is hit: every value a
top-level call returns is the spec's, an error it carries is the depth error or the spec's, and every
value held afterwards is the spec's – an uncaught depth error rolls the whole chain back and leaves
the values of the sub-evaluations that completed. -/
theorem eval_value_is_denotation_deep_propagates_partial (hdp : DeepPropagatesEnv env) (n : Node) (s : St)
    (hg : Good env inp s) :
    (∀ v, (evalTop env n s).1 = .ok v → Den env inp n (.ok v)) ∧
    (∀ e tb, (evalTop env n s).1 = .formulaError e tb → e = .deep ∨ Den env inp n (.err e)) ∧
    Good env inp (evalTop env n s).2 :=
  have h := evalTop_taint env inp (fun e => e = .deep) rfl hdp n s hg
  ⟨h.2.1, h.2.2, h.1⟩

/-- **…and for formulas that handle no failure** (partial: `NoCatchEnv`, the regime of C02): every
value returned is the spec's and the state stays correct after ANY call – returned, failed with any
error at any depth, or stopped by the limit anywhere. -/
theorem eval_value_is_denotation_nocatch_partial (hnc : NoCatchEnv env) (n : Node) (s : St)
    (hg : Good env inp s) :
    (∀ v, (evalTop env n s).1 = .ok v → Den env inp n (.ok v)) ∧ Good env inp (evalTop env n s).2 :=
  have h := evalTop_taint env inp (fun _ => True) trivial (taintClosedEnv_of_noCatch env hnc) n s hg
  ⟨h.2.1, h.1⟩

/-- **After any history**: in every state reachable by the thirteen-operation edit language of C02
(evaluations – returned, failed, stopped by the limit –, value / reference / formula / flag edits,
cells deleted and created, limit changes; regime `WF`: terminating, `NoCatch`, statically scoped),
a top-level call returns the spec's value under the CURRENT definitions and inputs – with no
hypothesis about the limit, in this call or any earlier one – and, when this call does not hit the
limit, a `FormulaError` carrying the spec's error. -/
theorem eval_after_any_history_partial (lt : Node → Node → Prop) (ho : StrictOrder lt) (env0 : Env)
    (hw0 : C02.WF env0 lt) (ops : List C02.Op) (hadm : C02.Admissible lt (env0, {}) ops) (n : Node) :
    (∀ v, (evalTop (C02.run (env0, {}) ops).1 n (C02.run (env0, {}) ops).2).1 = .ok v →
      Den (C02.run (env0, {}) ops).1 (inpOf (C02.run (env0, {}) ops).2) n (.ok v)) ∧
    (LimitNotCaughtInThisCall (C02.run (env0, {}) ops).1 n (C02.run (env0, {}) ops).2 →
      ∀ e tb, (evalTop (C02.run (env0, {}) ops).1 n (C02.run (env0, {}) ops).2).1 = .formulaError e tb →
      Den (C02.run (env0, {}) ops).1 (inpOf (C02.run (env0, {}) ops).2) n (.err e)) := by
  obtain ⟨hci, hw⟩ := C02.run_ci lt ho ops (env0, {}) hw0 (CI.empty env0 lt) hadm
  exact ⟨(eval_value_is_denotation_nocatch_partial _ _ hw.noCatch n _ hci.good).1,
    fun hlim => (eval_value_is_denotation_partial _ _ n _ hci.good hlim).2.1⟩

/-- **While an element holds a value its formula is never run again**: a top-level call for a
held element of a cached cells returns the held value and changes nothing – in particular
the execution log. -/
theorem held_never_reexecuted_top (n : Node) (s : St) (v : Val)
    (hc : env.cached n.1 = true) (hl : lookup s.data n = some v) :
    evalTop env n s = (.ok v, s) := by
  unfold evalTop; simp [hc, hl]

/-- …and the same for a call made from inside a formula: the evaluator for misses is not
invoked, the log is unchanged, the held value is returned.  (`ha`: the cells exists – a cells
that was deleted holds nothing, `C13.reachable_dead_cells_have_nothing`, and its name is not
bound.) -/
theorem held_never_reexecuted (ef : Node → St → Res × St) (n : Node) (s : St) (v : Val)
    (ha : env.alive n.1 = true)
    (hc : env.cached n.1 = true) (hl : lookup s.data n = some v) :
    (evalNode env ef n s).1 = .ok v ∧ (evalNode env ef n s).2.log = s.log ∧
    (evalNode env ef n s).2.data = s.data := by
  unfold evalNode
  simp only [ha, hc, if_true, hl]
  refine ⟨trivial, ?_, (sameCache_hitEdge s n).data⟩
  unfold St.hitEdge
  split
  · unfold St.addEdge St.addNode; simp only []; repeat' split
    all_goals rfl
  · rfl

/-! ### computed once: the execution log

`St.log` (ghost) gets an entry for every formula execution (`CallStack.append`).  Regime: the graph
invariant `GI` of C08 (terminating programs, `Ranked`), idle executor – every reachable state. -/

/-- **While an element holds a value its formula is never run**: the executions `new` that a
top-level call makes – at any depth, hits and misses, failed or not – contain no element of a cached
cells that held a value when the call started. -/
theorem held_elements_never_executed (lt : Node → Node → Prop) (ho : StrictOrder lt) (hr : Ranked env lt)
    (s : St) (g : GI env lt s) (hst : s.stack = []) (hidx : s.idx = []) (n : Node) :
    ∃ new, (evalTop env n s).2.log = new ++ s.log ∧
      ∀ m ∈ new, env.cached m.1 = true → lookup s.data m = none := by
  obtain ⟨new, rb, h1, h2, _⟩ := evalTop_log ho hr g hst hidx n
  exact ⟨new, h1, h2⟩

/-- **Every execution either fails or is THE execution that stores the element's value**: for an
element `m` of a cached cells, the number of its executions during one top-level call equals the
number of its frames that were rolled back (`rb`: `_eval_formula`'s roll-back list, before
`_start_exec` clears it) plus one if `m` acquired its value in this call.  (A failed element holds
nothing; a handler or a `finally` block that calls it again executes it again.) -/
theorem every_execution_fails_or_stores (lt : Node → Node → Prop) (ho : StrictOrder lt) (hr : Ranked env lt)
    (s : St) (g : GI env lt s) (hst : s.stack = []) (hidx : s.idx = []) (n : Node) :
    ∃ (new : List Node) (rb : List (Node × Nat)), (evalTop env n s).2.log = new ++ s.log ∧
      ((if env.cached n.1 = true then lookup s.data n else none) = none →
        (runN env (env.maxdepth + 1) n s).2.rolledback = s.rolledback ++ rb) ∧
      ∀ m, env.cached m.1 = true →
        new.count m = (rb.map (·.1)).count m + newly s (evalTop env n s).2 m := by
  obtain ⟨new, rb, h1, _, h3, h4, _⟩ := evalTop_log ho hr g hst hidx n
  exact ⟨new, rb, h1, h4, h3⟩

/-- **Computed once**: when formulas handle no failure (`NoCatchEnv`) and the call returns, no element
of a cached cells is executed twice, and the executed ones are exactly those that acquired their
value in this call. -/
theorem computed_once_nocatch (lt : Node → Node → Prop) (ho : StrictOrder lt) (hr : Ranked env lt)
    (hnc : NoCatchEnv env) (s : St) (g : GI env lt s) (hst : s.stack = []) (hidx : s.idx = []) (n : Node)
    (v : Val) (hv : (evalTop env n s).1 = .ok v) :
    ∃ new, (evalTop env n s).2.log = new ++ s.log ∧
      ∀ m, env.cached m.1 = true → new.count m ≤ 1 ∧
        (m ∈ new ↔ lookup s.data m = none ∧ (lookup (evalTop env n s).2.data m).isSome = true) := by
  obtain ⟨new, rb, h1, _, h3, _, h5⟩ := evalTop_log ho hr g hst hidx n
  have hrb : rb = [] := h5 hnc v hv
  subst hrb
  refine ⟨new, h1, fun m hc => ?_⟩
  have := h3 m hc
  simp only [List.map_nil, List.count_nil, Nat.zero_add] at this
  unfold newly at this
  constructor
  · rw [this]; split <;> omega
  · rw [← List.count_pos_iff, this]
    split
    · rename_i h; simp [h]
    · rename_i h; simp [h]

/-- **…across a history**: in every state reachable by the thirteen-operation language of C02, an
evaluation executes only elements that hold no value at that moment – an element that was computed
is executed again only after an edit or a clear discarded its value. -/
theorem executed_again_only_after_cleared (lt : Node → Node → Prop) (ho : StrictOrder lt) (env0 : Env)
    (hw0 : C02.WF env0 lt) (ops : List C02.Op) (hadm : C02.Admissible lt (env0, {}) ops) (n : Node) :
    ∃ new, (evalTop (C02.run (env0, {}) ops).1 n (C02.run (env0, {}) ops).2).2.log =
        new ++ (C02.run (env0, {}) ops).2.log ∧
      ∀ m ∈ new, (C02.run (env0, {}) ops).1.cached m.1 = true → lookup (C02.run (env0, {}) ops).2.data m = none := by
  obtain ⟨hci, hw⟩ := C02.run_ci lt ho ops (env0, {}) hw0 (CI.empty env0 lt) hadm
  exact held_elements_never_executed _ lt ho hw.ranked _ hci.gi hci.quiet.stack hci.quiet.idx n

/-! Non-vacuity.  `c0 = c1() + c1()`, `c1 = 2`: `c1` is executed once, the second call is a hit.
`c2 = try: c3() except: (try: c3() except: 0)`, `c3 = raise`: `c3` is executed twice – both frames are
rolled back, it never holds a value – which is why "executed at most once" needs `NoCatch`. -/
def oCells : CellId → Option Expr
  | 0 => some (.add (.call 1 []) (.call 1 []))
  | 1 => some (.lit 2)
  | 2 => some (.try_ (.call 3 []) .all (.try_ (.call 3 []) .all (.lit 0)))
  | 3 => some (.raise kValue)
  | _ => none

def oEnv : Env where
  formula := fun n => match oCells n.1 with
    | some e => formulaOf (fun c => (oCells c).map (fun _ => 0)) e n.2
    | none => .raise (.user kName)
  cached := fun _ => true
  allowNone := fun _ => false
  refs := fun _ => .none
  maxdepth := 10

example : (evalTop oEnv (0, []) {}).1 = .ok (.int 4) ∧ (evalTop oEnv (0, []) {}).2.log = [(1, []), (0, [])] ∧
    (evalTop oEnv (2, []) {}).1 = .ok (.int 0) ∧
    (evalTop oEnv (2, []) {}).2.log = [(3, []), (3, []), (2, [])] ∧
    ((runN oEnv 11 (2, []) {}).2.rolledback.map (·.1)) = [(3, []), (3, [])] := by decide

/-! ### the full statement is false: a formula that catches the depth-limit error

`c0 = try: c1() except Exception: -1`, `c1 = c2()`, `c2 = 5` under a limit that admits two
frames: the mechanism returns and stores `-1`, pure evaluation gives `5`. -/
def wCells : CellId → Option Expr
  | 0 => some (.try_ (.call 1 []) .all (.lit (-1)))
  | 1 => some (.call 2 [])
  | 2 => some (.lit 5)
  | _ => none

def wEnv : Env where
  formula := fun n => match wCells n.1 with
    | some e => formulaOf (fun c => (wCells c).map (fun _ => 0)) e n.2
    | none => .raise (.user kName)
  cached := fun _ => true
  allowNone := fun _ => false
  refs := fun _ => .none
  maxdepth := 1

theorem full_statement_fails :
    ¬ (∀ (env : Env) (inp : Node → Option Val) (n : Node) (s : St) (v : Val),
        Good env inp s → s.hit = false → (evalTop env n s).1 = .ok v → Den env inp n (.ok v)) := by
  intro h
  have hgood : Good wEnv (fun _ => none) {} := ⟨by intro n v _ hl; simp at hl, by intro n v _ hi; cases hi⟩
  have hrun : (evalTop wEnv (0, []) {}).1 = .ok (.int (-1)) := by decide
  have := h wEnv (fun _ => none) (0, []) {} (.int (-1)) hgood rfl hrun
  have hspec : Den wEnv (fun _ => none) (0, []) (.ok (.int 5)) := ⟨3, by decide⟩
  have := Den_det wEnv (fun _ => none) (0, []) _ _ this hspec
  cases this

/-! Non-vacuity: the hypotheses of the partial theorem are met by a non-trivial reachable
state (the same program under a sufficient limit), where the value is the spec's. -/
example : (evalTop { wEnv with maxdepth := 5 } (0, []) {}).1 = .ok (.int 5) ∧
    LimitNotCaughtInThisCall { wEnv with maxdepth := 5 } (0, []) {} := by
  unfold LimitNotCaughtInThisCall; decide

/-! …and by a state reached AFTER an evaluation that hit the limit (flag up for good): `c1()` under
a limit of one frame fails with the depth error; the next call `c2()` does not hit the limit, the
theorem applies to it although `hit = true` in its start state. -/
def wEnv0 : Env := { wEnv with maxdepth := 0 }

example : (evalTop wEnv0 (1, []) {}).1 = .formulaError .deep [(1, [])] ∧
    (evalTop wEnv0 (1, []) {}).2.hit = true ∧
    LimitNotCaughtInThisCall wEnv0 (2, []) (evalTop wEnv0 (1, []) {}).2 ∧
    (evalTop wEnv0 (2, []) (evalTop wEnv0 (1, []) {}).2).1 = .ok (.int 5) := by
  unfold LimitNotCaughtInThisCall; decide

/-! Non-vacuity for `DeepPropagatesEnv`: `chain(k) = chain(k-1) + 1` whose handler turns EVERY
failure of the callee except the depth error into `-1`.  Under a limit of three frames `chain(5)`
fails with the depth error, `chain(2)` then evaluates to 2 – both covered without any hypothesis
about the limit. -/
def pK : Res → Prog
  | .ok (.int i) => .ret (.int (i + 1))
  | .ok .none => .raise (.user 1)
  | .err .deep => .reraise .deep
  | .err _ => .ret (.int (-1))

def pEnv : Env where
  formula := fun n => match n.2 with
    | [.int k] => if 0 < k then .call (0, [.int (k - 1)]) pK else .ret (.int 0)
    | _ => .raise (.user 0)
  cached := fun _ => true
  allowNone := fun _ => false
  refs := fun _ => none
  maxdepth := 3

theorem pEnv_deepPropagates : DeepPropagatesEnv pEnv := by
  intro n
  show TaintClosed _ (match n.2 with
    | [.int k] => if 0 < k then Prog.call (0, [.int (k - 1)]) pK else .ret (.int 0)
    | _ => .raise (.user 0))
  split
  · split
    · refine ⟨?_, ?_⟩
      · intro e he; subst he; exact rfl
      · intro r
        match r with
        | .ok (.int i) => trivial
        | .ok .none => trivial
        | .err .deep => trivial
        | .err (.user _) => trivial
        | .err .noneRet => trivial
    · trivial
  · trivial

example : (evalTop pEnv (0, [.int 5]) {}).1 =
      .formulaError .deep [(0, [.int 5]), (0, [.int 4]), (0, [.int 3]), (0, [.int 2])] ∧
    (evalTop pEnv (0, [.int 2]) (evalTop pEnv (0, [.int 5]) {}).2).1 = .ok (.int 2) := by decide

example : Good pEnv (fun _ => none) (evalTop pEnv (0, [.int 5]) {}).2 :=
  (eval_value_is_denotation_deep_propagates_partial pEnv _ pEnv_deepPropagates _ _
    ⟨by intro n v _ hl; simp at hl, by intro n v _ hi; cases hi⟩).2.2

end MxModel.C01
