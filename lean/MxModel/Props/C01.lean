import MxModel.Proofs.ExecSound
import MxModel.Exec.Expr
/-!
# C01 – memoisation is transparent

The mechanism (`Exec/Mech.lean`: `eval_node`, `_eval_formula`, call stack, cache) against the
specification `Den` (`Exec/Prog.lean`: uncached evaluation of the formulas as pure
functions).  All theorems quantify over every environment `env` – every formula behaviour,
including formulas that catch their callees' failures – over every state reachable with
held values (`Good`), over every element and every depth.

`LimitNeverCaught` is the hypothesis `….hit = false`: the recursion limit was not hit during
the evaluation (not even inside a `try`).  Without it the statement is false of the model
and of modelx (`full_statement_fails`, known finding C01-caught-deep).
-/
namespace MxModel.C01
open MxModel.Exec

variable (env : Env) (inp : Node → Option Val)

/-- **Values equal uncached evaluation (partial: `LimitNeverCaught`).**  From any state in
which every held value is the spec's, whatever was computed before and in whatever order, a
top-level call returns exactly the spec's result – value, or `FormulaError` carrying the
spec's error – and every value held afterwards is again the spec's. -/
theorem eval_value_is_denotation_partial (n : Node) (s : St)
    (hg : Good env inp s) (h0 : s.hit = false)
    (hend : (evalTop env n s).2.hit = false) :
    (∀ v, (evalTop env n s).1 = .ok v → Den env inp n (.ok v)) ∧
    (∀ e tb, (evalTop env n s).1 = .formulaError e tb → Den env inp n (.err e)) ∧
    Good env inp (evalTop env n s).2 := by
  unfold evalTop at hend ⊢
  cases hl : (if env.cached n.1 = true then lookup s.data n else none) with
  | some v =>
    simp only [hl] at hend ⊢
    refine ⟨?_, ?_, hg⟩
    · intro w hw
      cases hw
      split at hl
      · rename_i hc; exact hg.sound n v hc hl
      · cases hl
    · intro e tb h; cases h
  | none =>
    simp only [hl] at hend ⊢
    have hin : s.hit = false → env.cached n.1 = true → inp n = none := by
      intro _ hc
      simp only [hc, if_true] at hl
      cases hi : inp n with
      | none => rfl
      | some v => have := hg.inputsHeld n v hc hi; rw [hl] at this; cases this
    have hok := runN_ok env inp (env.maxdepth + 1) n s (fun _ => hg) hin
    generalize runN env (env.maxdepth + 1) n s = p at hok hend
    obtain ⟨r, s1⟩ := p
    cases r with
    | ok v =>
      simp only [] at hend ⊢
      have := hok.2 hend
      refine ⟨?_, ?_, ⟨this.1.sound, this.1.inputsHeld⟩⟩
      · intro w hw; cases hw; exact this.2
      · intro e tb h; cases h
    | err e =>
      simp only [] at hend ⊢
      have := hok.2 hend
      refine ⟨?_, ?_, ⟨this.1.sound, this.1.inputsHeld⟩⟩
      · intro w hw; cases hw
      · intro e' tb h; cases h; exact this.2

/-- **Conversely**: if pure evaluation of `n` stays within the configured limit, the call
returns exactly that result and the limit is never hit – whatever is cached. -/
theorem eval_returns_denotation (n : Node) (s : St) (r : Res)
    (hg : Good env inp s) (h0 : s.hit = false)
    (hd : denoteN env inp (env.maxdepth + 1) n = (r, false)) :
    (evalTop env n s).2.hit = false ∧
    (∀ v, r = .ok v → (evalTop env n s).1 = .ok v) ∧
    (∀ e, r = .err e → ∃ tb, (evalTop env n s).1 = .formulaError e tb) := by
  unfold evalTop
  cases hl : (if env.cached n.1 = true then lookup s.data n else none) with
  | some v =>
    simp only []
    have hden : Den env inp n (.ok v) := by
      split at hl
      · rename_i hc; exact hg.sound n v hc hl
      · cases hl
    have := Den_det env inp n _ _ hden ⟨_, hd⟩
    subst this
    refine ⟨h0, ?_, ?_⟩
    · intro w hw; cases hw; rfl
    · intro e he; cases he
  | none =>
    simp only []
    have hin : env.cached n.1 = true → inp n = none := by
      intro hc
      simp only [hc, if_true] at hl
      cases hi : inp n with
      | none => rfl
      | some v => have := hg.inputsHeld n v hc hi; rw [hl] at this; cases this
    obtain ⟨hr, hh⟩ := runN_complete env inp (env.maxdepth + 1) n s r hg h0 hin hd
    generalize runN env (env.maxdepth + 1) n s = p at hr hh
    obtain ⟨r1, s1⟩ := p
    simp only [] at hr hh
    subst hr
    cases r1 with
    | ok v =>
      refine ⟨hh, ?_, ?_⟩
      · intro w hw; cases hw; rfl
      · intro e he; cases he
    | err e =>
      refine ⟨hh, ?_, ?_⟩
      · intro w hw; cases hw
      · intro e' he; cases he; exact ⟨_, rfl⟩

/-- **The answer does not depend on what was computed before**: two states (two histories of
earlier evaluations) that both hold only correct values give the same result. -/
theorem order_independent (n : Node) (s s' : St)
    (hg : Good env inp s) (hg' : Good env inp s') (h0 : s.hit = false) (h0' : s'.hit = false)
    (he : (evalTop env n s).2.hit = false) (he' : (evalTop env n s').2.hit = false)
    (v v' : Val) (hv : (evalTop env n s).1 = .ok v) (hv' : (evalTop env n s').1 = .ok v') : v = v' := by
  have a := (eval_value_is_denotation_partial env inp n s hg h0 he).1 v hv
  have b := (eval_value_is_denotation_partial env inp n s' hg' h0' he').1 v' hv'
  have := Den_det env inp n _ _ a b
  cases this; rfl

/-- **While an element holds a value its formula is never run again**: a top-level call for a
held element of a cached cells returns the held value and changes nothing – in particular
the execution log. -/
theorem held_never_reexecuted_top (n : Node) (s : St) (v : Val)
    (hc : env.cached n.1 = true) (hl : lookup s.data n = some v) :
    evalTop env n s = (.ok v, s) := by
  unfold evalTop; simp [hc, hl]

/-- …and the same for a call made from inside a formula: the evaluator for misses is not
invoked, the log is unchanged, the held value is returned.  (`ha`: the cells exists – a cells
that was deleted holds nothing, `C13.reachable_dead_cells_hold_nothing`, and its name is not
bound.) -/
theorem held_never_reexecuted (ef : Node → St → Res × St) (n : Node) (s : St) (v : Val)
    (ha : env.alive n.1 = true)
    (hc : env.cached n.1 = true) (hl : lookup s.data n = some v) :
    (evalNode env ef n s).1 = .ok v ∧ (evalNode env ef n s).2.log = s.log ∧
    (evalNode env ef n s).2.data = s.data := by
  unfold evalNode
  simp only [ha, hc, if_true, hl]
  refine ⟨trivial, ?_, (sameCache_hitEdge s n).data⟩
  unfold St.hitEdge
  split
  · unfold St.addEdge St.addNode; simp only []; repeat' split
    all_goals rfl
  · rfl

/-! ### the full statement is false: a formula that catches the depth-limit error

`c0 = try: c1() except Exception: -1`, `c1 = c2()`, `c2 = 5` under a limit that admits two
frames: the mechanism returns and stores `-1`, pure evaluation gives `5`. -/
def wCells : CellId → Option Expr
  | 0 => some (.try_ (.call 1 []) .all (.lit (-1)))
  | 1 => some (.call 2 [])
  | 2 => some (.lit 5)
  | _ => none

def wEnv : Env where
  formula := fun n => match wCells n.1 with
    | some e => formulaOf (fun c => (wCells c).map (fun _ => 0)) e n.2
    | none => .raise (.user kName)
  cached := fun _ => true
  allowNone := fun _ => false
  refs := fun _ => .none
  maxdepth := 1

theorem full_statement_fails :
    ¬ (∀ (env : Env) (inp : Node → Option Val) (n : Node) (s : St) (v : Val),
        Good env inp s → s.hit = false → (evalTop env n s).1 = .ok v → Den env inp n (.ok v)) := by
  intro h
  have hgood : Good wEnv (fun _ => none) {} := ⟨by intro n v _ hl; simp at hl, by intro n v _ hi; cases hi⟩
  have hrun : (evalTop wEnv (0, []) {}).1 = .ok (.int (-1)) := by decide
  have := h wEnv (fun _ => none) (0, []) {} (.int (-1)) hgood rfl hrun
  have hspec : Den wEnv (fun _ => none) (0, []) (.ok (.int 5)) := ⟨3, by decide⟩
  have := Den_det wEnv (fun _ => none) (0, []) _ _ this hspec
  cases this

/-! Non-vacuity: the hypotheses of the partial theorem are met by a non-trivial reachable
state (the same program under a sufficient limit), where the value is the spec's. -/
example : (evalTop { wEnv with maxdepth := 5 } (0, []) {}).1 = .ok (.int 5) ∧
    (evalTop { wEnv with maxdepth := 5 } (0, []) {}).2.hit = false := by decide

end MxModel.C01
