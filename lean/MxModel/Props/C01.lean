import MxModel.Proofs.ExecSoundTop
import MxModel.Proofs.ExecTaint
import MxModel.Proofs.ExecGhostOps
import MxModel.Proofs.ExecLog
import MxModel.Exec.Expr
import MxModel.Proofs.ExprSpell
import MxModel.Proofs.ExprBindItem
/-!
# C01 – memoisation is transparent

The mechanism (`Exec/Mech.lean`: `eval_node`, `_eval_formula`, call stack, cache) against the
specification `Den` (`Exec/Prog.lean`: uncached evaluation of the formulas as pure
functions).  All theorems quantify over every environment `env` – every formula behaviour,
including formulas that catch their callees' failures – over every state reachable with
held values (`Good`), over every element and every depth.

`LimitNotCaughtInThisCall env n s` is the hypothesis of the `_partial` theorems: the recursion limit
is not hit during THIS evaluation (not even inside a `try`) – formally, the evaluation started from
`s` with the ghost flag `hit` lowered ends with the flag down.  It says nothing about earlier
evaluations: the flag is a ghost (`limit_flag_is_ghost`, `limit_flag_is_ghost_history`: no function
of the mechanism reads it; results and states are the same whatever it is), so a depth error in an
earlier call does not take later calls out of the theorems' scope.  Without the hypothesis the
statement is false of the model and of modelx for formulas that CATCH the depth error
(`full_statement_fails`, known finding C01-caught-deep); for formulas that let it propagate
(`DeepPropagatesEnv`) or that handle no failure at all (`NoCatchEnv`) no hypothesis about the limit
is needed (`eval_value_is_denotation_deep_propagates_partial`, `…_nocatch_partial`).
-/
namespace MxModel.C01
open MxModel.Exec

variable (env : Env) (inp : Node → Option Val)

/-- **The limit flag is a ghost**: a top-level call from a state in which the flag is up (an
earlier evaluation hit the limit) returns the same result and ends in the same state, flag up, as
from the state with the flag as it was. -/
theorem limit_flag_is_ghost (n : Node) (s : St) (b : Bool) :
    evalTop env n (s.orHit b) = ((evalTop env n s).1, (evalTop env n s).2.orHit b) :=
  evalTop_orHit env n s b

/-- …and so is every operation of the edit language (`C02.Op`: evaluations, value edits, reference
edits, formula / flag edits, cells deleted and created, limit changes, administrative calls): a
whole history run with the flag up gives the same definitions and the same state, flag up. -/
theorem limit_flag_is_ghost_history (ops : List C02.Op) (env : Env) (s : St) (b : Bool) :
    C02.run (env, s.orHit b) ops = ((C02.run (env, s) ops).1, (C02.run (env, s) ops).2.orHit b) :=
  C02.run_orHit ops env s b

/-- the hypothesis in its old form (flag down before and after the call) implies the new one -/
theorem limit_not_caught_of_flag (n : Node) (s : St) (h0 : s.hit = false)
    (hend : (evalTop env n s).2.hit = false) : LimitNotCaughtInThisCall env n s :=
  LimitNotCaughtInThisCall.of_flag h0 hend

/-- **Values equal uncached evaluation (partial: `LimitNotCaughtInThisCall`).**  From any state in
which every held value is the spec's, whatever was computed before and in whatever order – and
whatever happened to the limit in earlier evaluations –, a top-level call that does not hit the
limit returns exactly the spec's result – value, or `FormulaError` carrying the spec's error – and
every value held afterwards is again the spec's. -/
theorem eval_value_is_denotation_partial (n : Node) (s : St)
    (hg : Good env inp s) (hlim : LimitNotCaughtInThisCall env n s) :
    (∀ v, (evalTop env n s).1 = .ok v → Den env inp n (.ok v)) ∧
    (∀ e tb, (evalTop env n s).1 = .formulaError e tb → Den env inp n (.err e)) ∧
    Good env inp (evalTop env n s).2 :=
  evalTop_sound env inp n s hg hlim

/-- **Conversely**: if pure evaluation of `n` stays within the configured limit, the call
returns exactly that result and does not hit the limit – whatever is cached, whatever earlier calls
did. -/
theorem eval_returns_denotation (n : Node) (s : St) (r : Res)
    (hg : Good env inp s)
    (hd : denoteN env inp (env.maxdepth + 1) n = (r, false)) :
    LimitNotCaughtInThisCall env n s ∧
    (∀ v, r = .ok v → (evalTop env n s).1 = .ok v) ∧
    (∀ e, r = .err e → ∃ tb, (evalTop env n s).1 = .formulaError e tb) :=
  evalTop_complete env inp n s r hg hd

/-- **The answer does not depend on what was computed before**: two states (two histories of
earlier evaluations) that both hold only correct values give the same result. -/
theorem order_independent (n : Node) (s s' : St)
    (hg : Good env inp s) (hg' : Good env inp s')
    (he : LimitNotCaughtInThisCall env n s) (he' : LimitNotCaughtInThisCall env n s')
    (v v' : Val) (hv : (evalTop env n s).1 = .ok v) (hv' : (evalTop env n s').1 = .ok v') : v = v' := by
  have a := (eval_value_is_denotation_partial env inp n s hg he).1 v hv
  have b := (eval_value_is_denotation_partial env inp n s' hg' he').1 v' hv'
  have := Den_det env inp n _ _ a b
  cases this; rfl

/-- **No hypothesis about the limit for formulas that let `DeepReferenceError` propagate**
(partial: `DeepPropagatesEnv` – formulas may handle any other failure of their callees, but a depth
error received from a callee ends the formula with that depth error; the complement is exactly the
known finding C01-caught-deep).  Whatever the limit is and wherever it is hit: every value a
top-level call returns is the spec's, an error it carries is the depth error or the spec's, and every
value held afterwards is the spec's – an uncaught depth error rolls the whole chain back and leaves
the values of the sub-evaluations that completed. -/
theorem eval_value_is_denotation_deep_propagates_partial (hdp : DeepPropagatesEnv env) (n : Node) (s : St)
    (hg : Good env inp s) :
    (∀ v, (evalTop env n s).1 = .ok v → Den env inp n (.ok v)) ∧
    (∀ e tb, (evalTop env n s).1 = .formulaError e tb → e = .deep ∨ Den env inp n (.err e)) ∧
    Good env inp (evalTop env n s).2 :=
  have h := evalTop_taint env inp (fun e => e = .deep) rfl hdp n s hg
  ⟨h.2.1, h.2.2, h.1⟩

/-- **…and for formulas that handle no failure** (partial: `NoCatchEnv`, the regime of C02): every
value returned is the spec's and the state stays correct after ANY call – returned, failed with any
error at any depth, or stopped by the limit anywhere. -/
theorem eval_value_is_denotation_nocatch_partial (hnc : NoCatchEnv env) (n : Node) (s : St)
    (hg : Good env inp s) :
    (∀ v, (evalTop env n s).1 = .ok v → Den env inp n (.ok v)) ∧ Good env inp (evalTop env n s).2 :=
  have h := evalTop_taint env inp (fun _ => True) trivial (taintClosedEnv_of_noCatch env hnc) n s hg
  ⟨h.2.1, h.1⟩

/-- **After any history**: in every state reachable by the thirteen-operation edit language of C02
(evaluations – returned, failed, stopped by the limit –, value / reference / formula / flag edits,
cells deleted and created, limit changes; regime `WF`: terminating, `NoCatch`, statically scoped),
a top-level call returns the spec's value under the CURRENT definitions and inputs – with no
hypothesis about the limit, in this call or any earlier one – and, when this call does not hit the
limit, a `FormulaError` carrying the spec's error. -/
theorem eval_after_any_history_partial (lt : Node → Node → Prop) (ho : StrictOrder lt) (env0 : Env)
    (hw0 : C02.WF env0 lt) (ops : List C02.Op) (hadm : C02.Admissible lt (env0, {}) ops) (n : Node) :
    (∀ v, (evalTop (C02.run (env0, {}) ops).1 n (C02.run (env0, {}) ops).2).1 = .ok v →
      Den (C02.run (env0, {}) ops).1 (inpOf (C02.run (env0, {}) ops).2) n (.ok v)) ∧
    (LimitNotCaughtInThisCall (C02.run (env0, {}) ops).1 n (C02.run (env0, {}) ops).2 →
      ∀ e tb, (evalTop (C02.run (env0, {}) ops).1 n (C02.run (env0, {}) ops).2).1 = .formulaError e tb →
      Den (C02.run (env0, {}) ops).1 (inpOf (C02.run (env0, {}) ops).2) n (.err e)) := by
  obtain ⟨hci, hw⟩ := C02.run_ci lt ho ops (env0, {}) hw0 (CI.empty env0 lt) hadm
  exact ⟨(eval_value_is_denotation_nocatch_partial _ _ hw.noCatch n _ hci.good).1,
    fun hlim => (eval_value_is_denotation_partial _ _ n _ hci.good hlim).2.1⟩

/-- **While an element holds a value its formula is never run again**: a top-level call for a
held element of a cached cells returns the held value and changes nothing – in particular
the execution log. -/
theorem held_never_reexecuted_top (n : Node) (s : St) (v : Val)
    (hc : env.cached n.1 = true) (hl : lookup s.data n = some v) :
    evalTop env n s = (.ok v, s) := by
  unfold evalTop; simp [hc, hl]

/-- …and the same for a call made from inside a formula: the evaluator for misses is not
invoked, the log is unchanged, the held value is returned.  (`ha`: the cells exists – a cells
that was deleted holds nothing, `C13.reachable_dead_cells_have_nothing`, and its name is not
bound.) -/
theorem held_never_reexecuted (ef : Node → St → Res × St) (n : Node) (s : St) (v : Val)
    (ha : env.alive n.1 = true)
    (hc : env.cached n.1 = true) (hl : lookup s.data n = some v) :
    (evalNode env ef n s).1 = .ok v ∧ (evalNode env ef n s).2.log = s.log ∧
    (evalNode env ef n s).2.data = s.data := by
  unfold evalNode
  simp only [ha, hc, if_true, hl]
  refine ⟨trivial, ?_, (sameCache_hitEdge s n).data⟩
  unfold St.hitEdge
  split
  · unfold St.addEdge St.addNode; simp only []; repeat' split
    all_goals rfl
  · rfl

/-! ### calls that bind to the same arguments denote the same element

A request `c(pos…, k=v…)` – from outside (`evalSpelled`, the driver's `eval`; `c[args]` and `c.value` are the
spellings without keywords) or from a formula (`Expr.callK`) – is bound against the signature of `c`
(`a` positional-or-keyword parameters, the last `dflt.length` of them with the defaults `dflt`) by
`bindKey`, the model of `node._bind_args`.  `Binds` / `canonKey` (`Proofs/ExprBindSpec.lean`) are
Python's rule: what is accepted, and the fully positional key with keyword values and trailing defaults
filled in.  All theorems hold for every signature, every spelling, every environment, every state. -/

/-- **`bindKey` is Python's rule**: a spelling binds iff there is no surplus positional argument, no
repeated keyword, every keyword names a parameter that has no positional argument, and every parameter
without a default is supplied; the bound key is the fully positional one (`canonKey`: positional
arguments, then keyword values, then the defaults of the LAST parameters). -/
theorem bind_is_pythons_rule (a : Nat) (dflt pos : List Val) (kw : List (Nat × Val)) (key : Key) :
    bindKey a dflt pos kw = some key ↔ Binds a dflt pos kw ∧ key = canonKey a dflt pos kw :=
  bindKey_iff a dflt pos kw key

/-- keyword arguments in any order, and the fully positional spelling of the bound key, denote the same
element; a bound key has one value per parameter -/
theorem bind_keyword_order_and_canonical (a : Nat) (dflt pos : List Val) (kw kw' : List (Nat × Val))
    (hp : kw.Perm kw') :
    bindKey a dflt pos kw = bindKey a dflt pos kw' ∧
    ∀ key, bindKey a dflt pos kw = some key → bindKey a dflt key [] = some key ∧ key.length = a :=
  ⟨bindKey_perm a dflt pos hp, fun key h => ⟨bindKey_canonical a dflt pos kw key h, bindKey_length a dflt pos kw key h⟩⟩

/-- **The exec layer's binder and the C07 kernel's binder are the same function** (the statement SEEDE left
open): under any injective naming of the parameters (`nm`; the driver and the harness use `a<i>`) and the
embedding of the C07 kernel's integer values, `bindKey` computes what `ItemSpace.bindArgs` computes – for
which `C07.bind_iff` / `bind_canonical` say that it is Python's rule – for every signature (`sigOf`: `a`
parameters, the last ones with the defaults `dflt`) and every spelling. -/
theorem bind_agrees_with_itemspace_binding (nm : Nat → String) (hinj : ∀ i j, nm i = nm j → i = j) (a : Nat)
    (dflt pos : List Int) (kw : List (Nat × Int)) :
    bindKey a (dflt.map .int) (pos.map .int) (kwVals kw) =
      (ItemSpace.bindArgs (sigOf nm a dflt) pos (kwNamed nm kw)).map (·.map Val.int) :=
  bindKey_eq_bindArgs hinj a dflt pos kw

example : bindKey 3 [.int 100, .int 10] [] [(2, .int 5), (0, .int 3)] =
    (ItemSpace.bindArgs (sigOf nmA 3 [100, 10]) [] [("aa", 5), ("", 3)]).map (·.map Val.int) :=
  bind_agrees_with_itemspace_binding nmA nmA_inj 3 [100, 10] [] [(2, 5), (0, 3)]

/-- **Equal spellings, same element (top level).**  Two spellings – positional, keyword in any order,
mixed, relying on defaults – that bind to the same key are, in the mechanism, the same request: what
either of them does is `evalTop` of the one node `(c, key)` – same result, same resulting state (cache,
graphs, log). -/
theorem equal_spellings_same_element (c : CellId) (a : Nat) (dflt pos pos' : List Val)
    (kw kw' : List (Nat × Val)) (key : Key)
    (h : bindKey a dflt pos kw = some key) (h' : bindKey a dflt pos' kw' = some key) (s : St) :
    evalSpelled env c a dflt pos kw s = (.res (evalTop env (c, key) s).1, (evalTop env (c, key) s).2) ∧
    evalSpelled env c a dflt pos' kw' s = evalSpelled env c a dflt pos kw s := by
  rw [evalSpelled_of_bind h, evalSpelled_of_bind h']
  exact ⟨rfl, rfl⟩

/-- … stated with Python's rule: every accepted spelling evaluates the element `canonKey` -/
theorem spelling_denotes_canonical_element (c : CellId) (a : Nat) (dflt pos : List Val)
    (kw : List (Nat × Val)) (hb : Binds a dflt pos kw) (s : St) :
    evalSpelled env c a dflt pos kw s =
      (.res (evalTop env (c, canonKey a dflt pos kw) s).1, (evalTop env (c, canonKey a dflt pos kw) s).2) :=
  evalSpelled_of_bind (bindKey_of_binds hb) s

/-- **One cache entry, computed once for both.**  For a cached cells: after a request under one spelling
has returned `v`, the element is held under the bound key – under exactly one cache entry when it was not
held before – and a request under ANY other spelling of the same key returns `v` and leaves the whole
state as it is: no formula runs (the execution log is unchanged), no second entry is made. -/
theorem equal_spellings_computed_once (c : CellId) (a : Nat) (dflt pos pos' : List Val)
    (kw kw' : List (Nat × Val)) (key : Key) (hc : env.cached c = true)
    (h : bindKey a dflt pos kw = some key) (h' : bindKey a dflt pos' kw' = some key) (s : St) (v : Val)
    (hv : (evalSpelled env c a dflt pos kw s).1 = .res (.ok v)) :
    lookup (evalSpelled env c a dflt pos kw s).2.data (c, key) = some v ∧
    (lookup s.data (c, key) = none →
      (evalSpelled env c a dflt pos kw s).2.data.filter (fun e => e.1 == (c, key)) = [((c, key), v)]) ∧
    evalSpelled env c a dflt pos' kw' (evalSpelled env c a dflt pos kw s).2 =
      (.res (.ok v), (evalSpelled env c a dflt pos kw s).2) := by
  rw [evalSpelled_of_bind h] at hv ⊢
  simp only [SpelledRes.res.injEq] at hv
  have hheld := evalTop_ok_held env (c, key) s v hc hv
  refine ⟨hheld, fun hl => evalTop_ok_one_entry env (c, key) s v hc hl hv, ?_⟩
  rw [evalSpelled_of_bind h', held_never_reexecuted_top env (c, key) _ v hc hheld]

/-- **Spellings that do not bind are refused before anything is evaluated**: `TypeError`, the state is
untouched. -/
theorem unbound_spelling_refused (c : CellId) (a : Nat) (dflt pos : List Val) (kw : List (Nat × Val))
    (hb : ¬ Binds a dflt pos kw) (s : St) :
    evalSpelled env c a dflt pos kw s = (.typeError, s) :=
  evalSpelled_of_none ((bindKey_eq_none_iff a dflt pos kw).mpr hb) s

/-- **Calls from formulas.**  Whatever the argument expressions are: once they are evaluated (in source
order, as Python does), a spelled call `c(e…, k=e…)` IS the plain positional call of the bound key, or –
when the values do not bind – a `TypeError` raised in the caller with no call made. -/
theorem spelled_call_is_positional_call_of_bound_key (ar : CellId → Option Nat) (params : List Val) (c : CellId)
    (a : Nat) (args : List Expr) (npos : Nat) (kws : List Nat) (dflt : List Val) (hc : ar c = some a)
    (k : Val → Prog) (hh : Bool → Err → Prog) :
    compile ar params (.callK c args npos kws dflt) k hh =
      compileArgs ar params args (fun vs =>
        match bindKey a dflt (vs.take npos) (kws.zip (vs.drop npos)) with
        | some key => compile ar params (.call c (key.map valExpr)) k hh
        | none => hh true (.user kType)) hh :=
  compile_callK ar params c a args npos kws dflt hc k hh

/-- **Equal spellings, same element (inside formulas).**  Two spelled calls whose arguments are
effect-free expressions (literals, parameters: `ArgVals`) and bind to the same key compile to the SAME
behaviour – the call of the node `(c, key)` – so a formula does exactly the same whichever spelling it
uses: same callee node, same cache entry, same edge, same result (`retK`: a value goes on, a failure of
the callee goes to the handler). -/
theorem equal_spellings_same_element_in_formulas (ar : CellId → Option Nat) (params : List Val) (c : CellId)
    (a : Nat) (dflt : List Val) (args args' : List Expr) (vs vs' : List Val) (npos npos' : Nat)
    (kws kws' : List Nat) (key : Key) (hc : ar c = some a)
    (hv : ArgVals params args vs) (hv' : ArgVals params args' vs')
    (hb : bindKey a dflt (vs.take npos) (kws.zip (vs.drop npos)) = some key)
    (hb' : bindKey a dflt (vs'.take npos') (kws'.zip (vs'.drop npos')) = some key)
    (k : Val → Prog) (hh : Bool → Err → Prog) :
    compile ar params (.callK c args npos kws dflt) k hh = .call (c, key) (retK k hh) ∧
    compile ar params (.callK c args' npos' kws' dflt) k hh = compile ar params (.callK c args npos kws dflt) k hh := by
  rw [compile_callK_pure ar params c a args vs npos kws dflt key hc hv hb,
    compile_callK_pure ar params c a args' vs' npos' kws' dflt key hc hv' hb']
  exact ⟨rfl, rfl⟩

/-- … and a spelling that does not bind raises `TypeError` in the calling formula; the callee is not
called -/
theorem unbound_spelling_in_formula_raises (ar : CellId → Option Nat) (params : List Val) (c : CellId)
    (a : Nat) (dflt : List Val) (args : List Expr) (vs : List Val) (npos : Nat) (kws : List Nat)
    (hc : ar c = some a) (hv : ArgVals params args vs)
    (hb : ¬ Binds a dflt (vs.take npos) (kws.zip (vs.drop npos)))
    (k : Val → Prog) (hh : Bool → Err → Prog) :
    compile ar params (.callK c args npos kws dflt) k hh = hh true (.user kType) :=
  compile_callK_unbound ar params c a args vs npos kws dflt hc hv ((bindKey_eq_none_iff _ _ _ _).mpr hb) k hh

/-! Non-vacuity, with numbers.  `rate(t, base=100, step=10) = t * base + step` (cells 0); three callers
spell the same element `rate(3, 200, 10)`: `c1 = rate(3, 200)`, `c2 = rate(3, step=10, base=200)`,
`c3 = rate(base=200, t=3)`; `c4 = rate(3, nosuch=1)` does not bind.  Evaluating `c1`, `c2`, `c3` one after
the other gives 610 three times; `rate`'s formula runs ONCE (one log entry, one cache entry of cells 0);
`c4` fails with `TypeError` and `rate` is not called. -/
def rDflt : List Val := [.int 100, .int 10]
def rCells : CellId → Option Expr
  | 0 => some (.add (.mul (.param 0) (.param 1)) (.param 2))
  | 1 => some (.callK 0 [.lit 3, .lit 200] 2 [] rDflt)
  | 2 => some (.callK 0 [.lit 3, .lit 10, .lit 200] 1 [2, 1] rDflt)
  | 3 => some (.callK 0 [.lit 200, .lit 3] 0 [1, 0] rDflt)
  | 4 => some (.callK 0 [.lit 3, .lit 1] 1 [7] rDflt)
  | _ => none
def rAr : CellId → Option Nat
  | 0 => some 3
  | c => (rCells c).map (fun _ => 0)

def rEnv : Env where
  formula := fun n => match rCells n.1 with
    | some e => formulaOf rAr e n.2
    | none => .raise (.user kName)
  cached := fun _ => true
  allowNone := fun _ => false
  refs := fun _ => .none
  maxdepth := 10

def rS1 : St := (evalTop rEnv (1, []) {}).2
def rS2 : St := (evalTop rEnv (2, []) rS1).2
def rS3 : St := (evalTop rEnv (3, []) rS2).2

example : (evalTop rEnv (1, []) {}).1 = .ok (.int 610) ∧ (evalTop rEnv (2, []) rS1).1 = .ok (.int 610) ∧
    (evalTop rEnv (3, []) rS2).1 = .ok (.int 610) ∧
    rS3.log = [(3, []), (2, []), (0, [.int 3, .int 200, .int 10]), (1, [])] ∧
    rS3.data.filter (fun e => e.1.1 == 0) = [((0, [.int 3, .int 200, .int 10]), .int 610)] ∧
    (evalTop rEnv (4, []) rS3).1 = .formulaError (.user kType) [(4, [])] ∧
    (evalTop rEnv (4, []) rS3).2.log = (4, []) :: rS3.log := by decide

-- the same element requested from outside under four spellings (the third relies on one default, the
-- fourth is the subscript / fully positional form); a spelling that does not bind
example : (evalSpelled rEnv 0 3 rDflt [.int 3, .int 200] [] {}).1 = .res (.ok (.int 610)) ∧
    evalSpelled rEnv 0 3 rDflt [.int 3] [(2, .int 10), (1, .int 200)] {} = evalSpelled rEnv 0 3 rDflt [.int 3, .int 200] [] {} ∧
    evalSpelled rEnv 0 3 rDflt [] [(1, .int 200), (0, .int 3)] {} = evalSpelled rEnv 0 3 rDflt [.int 3, .int 200] [] {} ∧
    evalSpelled rEnv 0 3 rDflt [.int 3, .int 200, .int 10] [] {} = evalSpelled rEnv 0 3 rDflt [.int 3, .int 200] [] {} ∧
    (evalSpelled rEnv 0 3 rDflt [.int 3, .int 200] [] {}).2.log = [(0, [.int 3, .int 200, .int 10])] ∧
    evalSpelled rEnv 0 3 rDflt [.int 3] [(0, .int 4)] {} = (.typeError, {}) := by
  refine ⟨by decide, ?_, ?_, ?_, by decide, evalSpelled_of_none (by decide) {}⟩
  · exact (equal_spellings_same_element rEnv 0 3 rDflt _ _ _ _ [.int 3, .int 200, .int 10] (by decide) (by decide) {}).2
  · exact (equal_spellings_same_element rEnv 0 3 rDflt _ _ _ _ [.int 3, .int 200, .int 10] (by decide) (by decide) {}).2
  · exact (equal_spellings_same_element rEnv 0 3 rDflt _ _ _ _ [.int 3, .int 200, .int 10] (by decide) (by decide) {}).2

-- instance of `equal_spellings_computed_once`: the second spelling is served from the one entry
example : evalSpelled rEnv 0 3 rDflt [] [(1, .int 200), (0, .int 3)] (evalSpelled rEnv 0 3 rDflt [.int 3, .int 200] [] {}).2 =
    (.res (.ok (.int 610)), (evalSpelled rEnv 0 3 rDflt [.int 3, .int 200] [] {}).2) :=
  (equal_spellings_computed_once rEnv 0 3 rDflt _ _ _ _ [.int 3, .int 200, .int 10] rfl (by decide) (by decide) {}
    (.int 610) (by decide)).2.2

-- instance of the formula-level theorem: `c2`'s and `c3`'s calls are the same behaviour as `c1`'s
example (k : Val → Prog) (hh : Bool → Err → Prog) :
    compile rAr [] (.callK 0 [.lit 200, .lit 3] 0 [1, 0] rDflt) k hh =
      compile rAr [] (.callK 0 [.lit 3, .lit 200] 2 [] rDflt) k hh :=
  (equal_spellings_same_element_in_formulas rAr [] 0 3 rDflt _ _ [.int 3, .int 200] [.int 200, .int 3] 2 0 [] [1, 0]
    [.int 3, .int 200, .int 10] rfl (by simp [ArgVals, argVal]) (by simp [ArgVals, argVal]) (by decide) (by decide) k hh).2

/-! ### computed once: the execution log

`St.log` (ghost) gets an entry for every formula execution (`CallStack.append`).  Regime: the graph
invariant `GI` of C08 (terminating programs, `Ranked`), idle executor – every reachable state. -/

/-- **While an element holds a value its formula is never run**: the executions `new` that a
top-level call makes – at any depth, hits and misses, failed or not – contain no element of a cached
cells that held a value when the call started. -/
theorem held_elements_never_executed (lt : Node → Node → Prop) (ho : StrictOrder lt) (hr : Ranked env lt)
    (s : St) (g : GI env lt s) (hst : s.stack = []) (hidx : s.idx = []) (n : Node) :
    ∃ new, (evalTop env n s).2.log = new ++ s.log ∧
      ∀ m ∈ new, env.cached m.1 = true → lookup s.data m = none := by
  obtain ⟨new, rb, h1, h2, _⟩ := evalTop_log ho hr g hst hidx n
  exact ⟨new, h1, h2⟩

/-- **Every execution either fails or is THE execution that stores the element's value**: for an
element `m` of a cached cells, the number of its executions during one top-level call equals the
number of its frames that were rolled back (`rb`: `_eval_formula`'s roll-back list, before
`_start_exec` clears it) plus one if `m` acquired its value in this call.  (A failed element holds
nothing; a handler or a `finally` block that calls it again executes it again.) -/
theorem every_execution_fails_or_stores (lt : Node → Node → Prop) (ho : StrictOrder lt) (hr : Ranked env lt)
    (s : St) (g : GI env lt s) (hst : s.stack = []) (hidx : s.idx = []) (n : Node) :
    ∃ (new : List Node) (rb : List (Node × Nat)), (evalTop env n s).2.log = new ++ s.log ∧
      ((if env.cached n.1 = true then lookup s.data n else none) = none →
        (runN env (env.maxdepth + 1) n s).2.rolledback = s.rolledback ++ rb) ∧
      ∀ m, env.cached m.1 = true →
        new.count m = (rb.map (·.1)).count m + newly s (evalTop env n s).2 m := by
  obtain ⟨new, rb, h1, _, h3, h4, _⟩ := evalTop_log ho hr g hst hidx n
  exact ⟨new, rb, h1, h4, h3⟩

/-- **Computed once**: when formulas handle no failure (`NoCatchEnv`) and the call returns, no element
of a cached cells is executed twice, and the executed ones are exactly those that acquired their
value in this call. -/
theorem computed_once_nocatch (lt : Node → Node → Prop) (ho : StrictOrder lt) (hr : Ranked env lt)
    (hnc : NoCatchEnv env) (s : St) (g : GI env lt s) (hst : s.stack = []) (hidx : s.idx = []) (n : Node)
    (v : Val) (hv : (evalTop env n s).1 = .ok v) :
    ∃ new, (evalTop env n s).2.log = new ++ s.log ∧
      ∀ m, env.cached m.1 = true → new.count m ≤ 1 ∧
        (m ∈ new ↔ lookup s.data m = none ∧ (lookup (evalTop env n s).2.data m).isSome = true) := by
  obtain ⟨new, rb, h1, _, h3, _, h5⟩ := evalTop_log ho hr g hst hidx n
  have hrb : rb = [] := h5 hnc v hv
  subst hrb
  refine ⟨new, h1, fun m hc => ?_⟩
  have := h3 m hc
  simp only [List.map_nil, List.count_nil, Nat.zero_add] at this
  unfold newly at this
  constructor
  · rw [this]; split <;> omega
  · rw [← List.count_pos_iff, this]
    split
    · rename_i h; simp [h]
    · rename_i h; simp [h]

/-- **…across a history**: in every state reachable by the thirteen-operation language of C02, an
evaluation executes only elements that hold no value at that moment – an element that was computed
is executed again only after an edit or a clear discarded its value. -/
theorem executed_again_only_after_cleared (lt : Node → Node → Prop) (ho : StrictOrder lt) (env0 : Env)
    (hw0 : C02.WF env0 lt) (ops : List C02.Op) (hadm : C02.Admissible lt (env0, {}) ops) (n : Node) :
    ∃ new, (evalTop (C02.run (env0, {}) ops).1 n (C02.run (env0, {}) ops).2).2.log =
        new ++ (C02.run (env0, {}) ops).2.log ∧
      ∀ m ∈ new, (C02.run (env0, {}) ops).1.cached m.1 = true → lookup (C02.run (env0, {}) ops).2.data m = none := by
  obtain ⟨hci, hw⟩ := C02.run_ci lt ho ops (env0, {}) hw0 (CI.empty env0 lt) hadm
  exact held_elements_never_executed _ lt ho hw.ranked _ hci.gi hci.quiet.stack hci.quiet.idx n

/-! Non-vacuity.  `c0 = c1() + c1()`, `c1 = 2`: `c1` is executed once, the second call is a hit.
`c2 = try: c3() except: (try: c3() except: 0)`, `c3 = raise`: `c3` is executed twice – both frames are
rolled back, it never holds a value – which is why "executed at most once" needs `NoCatch`. -/
def oCells : CellId → Option Expr
  | 0 => some (.add (.call 1 []) (.call 1 []))
  | 1 => some (.lit 2)
  | 2 => some (.try_ (.call 3 []) .all (.try_ (.call 3 []) .all (.lit 0)))
  | 3 => some (.raise kValue)
  | _ => none

def oEnv : Env where
  formula := fun n => match oCells n.1 with
    | some e => formulaOf (fun c => (oCells c).map (fun _ => 0)) e n.2
    | none => .raise (.user kName)
  cached := fun _ => true
  allowNone := fun _ => false
  refs := fun _ => .none
  maxdepth := 10

example : (evalTop oEnv (0, []) {}).1 = .ok (.int 4) ∧ (evalTop oEnv (0, []) {}).2.log = [(1, []), (0, [])] ∧
    (evalTop oEnv (2, []) {}).1 = .ok (.int 0) ∧
    (evalTop oEnv (2, []) {}).2.log = [(3, []), (3, []), (2, [])] ∧
    ((runN oEnv 11 (2, []) {}).2.rolledback.map (·.1)) = [(3, []), (3, [])] := by decide

/-! ### the full statement is false: a formula that catches the depth-limit error

`c0 = try: c1() except Exception: -1`, `c1 = c2()`, `c2 = 5` under a limit that admits two
frames: the mechanism returns and stores `-1`, pure evaluation gives `5`. -/
def wCells : CellId → Option Expr
  | 0 => some (.try_ (.call 1 []) .all (.lit (-1)))
  | 1 => some (.call 2 [])
  | 2 => some (.lit 5)
  | _ => none

def wEnv : Env where
  formula := fun n => match wCells n.1 with
    | some e => formulaOf (fun c => (wCells c).map (fun _ => 0)) e n.2
    | none => .raise (.user kName)
  cached := fun _ => true
  allowNone := fun _ => false
  refs := fun _ => .none
  maxdepth := 1

theorem full_statement_fails :
    ¬ (∀ (env : Env) (inp : Node → Option Val) (n : Node) (s : St) (v : Val),
        Good env inp s → s.hit = false → (evalTop env n s).1 = .ok v → Den env inp n (.ok v)) := by
  intro h
  have hgood : Good wEnv (fun _ => none) {} := ⟨by intro n v _ hl; simp at hl, by intro n v _ hi; cases hi⟩
  have hrun : (evalTop wEnv (0, []) {}).1 = .ok (.int (-1)) := by decide
  have := h wEnv (fun _ => none) (0, []) {} (.int (-1)) hgood rfl hrun
  have hspec : Den wEnv (fun _ => none) (0, []) (.ok (.int 5)) := ⟨3, by decide⟩
  have := Den_det wEnv (fun _ => none) (0, []) _ _ this hspec
  cases this

/-! Non-vacuity: the hypotheses of the partial theorem are met by a non-trivial reachable
state (the same program under a sufficient limit), where the value is the spec's. -/
example : (evalTop { wEnv with maxdepth := 5 } (0, []) {}).1 = .ok (.int 5) ∧
    LimitNotCaughtInThisCall { wEnv with maxdepth := 5 } (0, []) {} := by
  unfold LimitNotCaughtInThisCall; decide

/-! …and by a state reached AFTER an evaluation that hit the limit (flag up for good): `c1()` under
a limit of one frame fails with the depth error; the next call `c2()` does not hit the limit, the
theorem applies to it although `hit = true` in its start state. -/
def wEnv0 : Env := { wEnv with maxdepth := 0 }

example : (evalTop wEnv0 (1, []) {}).1 = .formulaError .deep [(1, [])] ∧
    (evalTop wEnv0 (1, []) {}).2.hit = true ∧
    LimitNotCaughtInThisCall wEnv0 (2, []) (evalTop wEnv0 (1, []) {}).2 ∧
    (evalTop wEnv0 (2, []) (evalTop wEnv0 (1, []) {}).2).1 = .ok (.int 5) := by
  unfold LimitNotCaughtInThisCall; decide

/-! Non-vacuity for `DeepPropagatesEnv`: `chain(k) = chain(k-1) + 1` whose handler turns EVERY
failure of the callee except the depth error into `-1`.  Under a limit of three frames `chain(5)`
fails with the depth error, `chain(2)` then evaluates to 2 – both covered without any hypothesis
about the limit. -/
def pK : Res → Prog
  | .ok (.int i) => .ret (.int (i + 1))
  | .ok .none => .raise (.user 1)
  | .err .deep => .reraise .deep
  | .err _ => .ret (.int (-1))

def pEnv : Env where
  formula := fun n => match n.2 with
    | [.int k] => if 0 < k then .call (0, [.int (k - 1)]) pK else .ret (.int 0)
    | _ => .raise (.user 0)
  cached := fun _ => true
  allowNone := fun _ => false
  refs := fun _ => none
  maxdepth := 3

theorem pEnv_deepPropagates : DeepPropagatesEnv pEnv := by
  intro n
  show TaintClosed _ (match n.2 with
    | [.int k] => if 0 < k then Prog.call (0, [.int (k - 1)]) pK else .ret (.int 0)
    | _ => .raise (.user 0))
  split
  · split
    · refine ⟨?_, ?_⟩
      · intro e he; subst he; exact rfl
      · intro r
        match r with
        | .ok (.int i) => trivial
        | .ok .none => trivial
        | .err .deep => trivial
        | .err (.user _) => trivial
        | .err .noneRet => trivial
    · trivial
  · trivial

example : (evalTop pEnv (0, [.int 5]) {}).1 =
      .formulaError .deep [(0, [.int 5]), (0, [.int 4]), (0, [.int 3]), (0, [.int 2])] ∧
    (evalTop pEnv (0, [.int 2]) (evalTop pEnv (0, [.int 5]) {}).2).1 = .ok (.int 2) := by decide

example : Good pEnv (fun _ => none) (evalTop pEnv (0, [.int 5]) {}).2 :=
  (eval_value_is_denotation_deep_propagates_partial pEnv _ pEnv_deepPropagates _ _
    ⟨by intro n v _ hl; simp at hl, by intro n v _ hi; cases hi⟩).2.2

end MxModel.C01
