import MxModel.Proofs.Relative
import MxModel.Proofs.RelativeHist
/-!
# C10 – object-valued references rebind relatively or stay absolute as their mode says

The model is `Kernels/Relative.lean`: `SpaceGraph.get_relative` on dotted names, and the
decision logic of `ReferenceImpl.on_inherit`, `SpaceManager.new_ref` / `change_ref` and
`DynBaseRefDict.wrap_impl`, for an arbitrary linearisation `mroOf` (`SpaceGraph.get_mro`)
and arbitrary nesting depths.  The theorems are the decision logic stated outright.

Six defects this development had found in the real code were repaired in /repo (commits
6d7db1b, 39b86b9, e655c26, 069099b, 2f47edb, 4d6c07c); the model follows the repaired code and
the statements that needed a hypothesis because of them are now proved in full
(`static_rebind`, `mode_stable`, `change_ref_agrees`, `ref_loop`, `dynamic_outside`; the former
witnesses of failure are positive `example`s at the end).  Three places where the real code
does not do what the property says stay visible (two are open):

* `dynamic_rebind_full_fails` – an `auto` reference that the ItemSpace's base tree derives from
  a space outside it with an absolute binding is not rebound although its target lies inside
  (known finding `C10-dyn-derived-absolute-inside`; `dynamic_rebind` is the partial statement);
* (repaired by 004f472, `accepted_set_ref_agrees_with_inherit` is the full statement now;
  `unguarded_change_ref_fails` keeps the witness of the code before it: `change_ref` accepted a
  `relative` reference whose target is outside a sub space's tree);
* `binding_depends_on_enclosing_bases` – what a nested space's reference denotes depends on
  the bases of the enclosing spaces, which modelx does not re-derive after a base change there
  (known finding `C10-enclosing-base-change`; an incremental-maintenance defect, outside this
  from-scratch model).
-/
namespace MxModel.C10
open MxModel.Relative

/-! ## `get_relative` against its declarative specification -/

/-- **`get_relative` is: strip the common suffix, require the bases relation at the roots,
re-append the relative part.**  If `(rs, rb)` is the outermost pair of spaces below which
`sub` and `base` sit at the same relative position `t` and with `rb` in the linearisation of
`rs`, then the value has a counterpart iff it lies in `rb`'s tree, and the counterpart is the
same relative name below `rs`. -/
theorem getRelative_spec (mroOf : Path → List Path) (sub base value rs rb : Path) (t : List String)
    (hs : Clean sub) (hb : Clean base) (hv : Clean value)
    (ho : Outermost mroOf sub base rs rb t) :
    getRelative mroOf sub base value =
      if rb <+: value then .some (rs ++ value.drop rb.length) else .none := by
  obtain ⟨sr, hsr⟩ := desc_suffix_left sub base
  obtain ⟨br, hbr⟩ := desc_suffix_right sub base
  obtain ⟨hsrne, hbrne⟩ := roots_ne hs.1 hb.1 hsr hbr
  obtain ⟨pre, hT, hrs, hrb⟩ := related_split hsr hbr ho.1
  have hrbne : rb ≠ [] := by rw [hrb]; simp [hbrne]
  have hrbpre : rb <+: base := ⟨t, ho.1.2.1.symm⟩
  have hrscl : Clean rs := by
    refine ⟨by rw [hrs]; simp [hsrne], ?_⟩
    have : rs.Sublist sub := by rw [ho.1.1]; exact List.sublist_append_left _ _
    exact not_mem_of_sublist this hs.2
  rw [getRelative_clean mroOf hs hb hv hsr hbr, relLoop_of_outermost mroOf hs.1 hb.1 hsr hbr ho]
  by_cases h : lcp base value = []
  · have : ¬ rb <+: value := by
      intro hp
      have := prefix_lcp _ _ _ hrbpre hp
      rw [h] at this
      exact hrbne (List.prefix_nil.mp this)
    simp [h, this]
  · simp only [h, if_false]
    exact relFinish_clean hb hv hrscl hrbne hrbpre h

/-- … such an outermost pair exists as soon as the two spaces are related at all … -/
theorem getRelative_spec_total (mroOf : Path → List Path) (sub base : Path)
    (hs : sub ≠ []) (hb : base ≠ []) (h : ∃ rs rb t, Related mroOf sub base rs rb t) :
    ∃ rs rb t, Outermost mroOf sub base rs rb t :=
  exists_outermost mroOf hs hb h

/-- … and when they are not related at any level, the code raises
`RuntimeError("must not happen")` (unless value and base do not even share their top-level
space, which is checked first). -/
theorem getRelative_unrelated (mroOf : Path → List Path) (sub base value : Path)
    (hs : Clean sub) (hb : Clean base) (hv : Clean value)
    (hh : base.head? = value.head?)
    (h : ∀ rs rb t, ¬ Related mroOf sub base rs rb t) :
    getRelative mroOf sub base value = .mustNotHappen := by
  obtain ⟨sr, hsr⟩ := desc_suffix_left sub base
  obtain ⟨br, hbr⟩ := desc_suffix_right sub base
  obtain ⟨hsrne, hbrne⟩ := roots_ne hs.1 hb.1 hsr hbr
  rw [getRelative_clean mroOf hs hb hv hsr hbr]
  simp only [lcp_ne_nil_of_head hb.1 hh, if_false]
  cases hl : relLoop mroOf sr br (desc sub base) with
  | none => rfl
  | some roots =>
    obtain ⟨rs1, rb1⟩ := roots
    obtain ⟨t1, h1⟩ := outermost_of_relLoop mroOf hs.1 hb.1 hsr hbr hl
    exact absurd h1.1 (h _ _ _)

/-- a value under another top-level space never has a counterpart -/
theorem getRelative_other_top (mroOf : Path → List Path) (sub base value : Path)
    (hb : Clean base) (hv : Clean value) (hh : base.head? ≠ value.head?) :
    getRelative mroOf sub base value = .none := by
  unfold getRelative
  rw [sharedAsc_clean hb hv, lcp_eq_nil_of_head hh]
  rfl

/-- **inside the definer's tree**: for every space `sub` that has the definer `base` in its
linearisation and every relative name `rel` (empty: the definer itself; one name: a cells or
child; longer: anything deeper), the counterpart of `base.rel` is `sub.rel` – whatever the
depths of `sub` and `base` and whatever outer pair the loop stops at. -/
theorem getRelative_inside (mroOf : Path → List Path) (sub base : Path) (rel : List String)
    (hs : Clean sub) (hb : Clean base) (hrel : "" ∉ rel) (hd : base ∈ mroOf sub) :
    getRelative mroOf sub base (base ++ rel) = .some (sub ++ rel) := by
  have hv : Clean (base ++ rel) := by
    refine ⟨by simp [hb.1], ?_⟩
    intro hm
    rcases List.mem_append.mp hm with hm | hm
    · exact hb.2 hm
    · exact hrel hm
  obtain ⟨rs, rb, t, ho⟩ := exists_outermost mroOf hs.1 hb.1 ⟨sub, base, [], by simp, by simp, hs.1, hb.1, hd⟩
  rw [getRelative_spec mroOf sub base (base ++ rel) rs rb t hs hb hv ho]
  have h1 : rb <+: base ++ rel := ⟨t ++ rel, by rw [← List.append_assoc, ← ho.1.2.1]⟩
  simp only [h1, if_true]
  congr 1
  have : (base ++ rel).drop rb.length = t ++ rel := by
    rw [ho.1.2.1, List.append_assoc, List.drop_left]
  rw [this, ← List.append_assoc, ← ho.1.1]

/-- when the two spaces share no trailing name (`Sub` deriving `Base`, `P.Sub` deriving `Q.Base`)
the roots are the spaces themselves: exactly the definer's tree is rebound -/
theorem getRelative_plain (mroOf : Path → List Path) (sub base value : Path)
    (hs : Clean sub) (hb : Clean base) (hv : Clean value)
    (hl : sub.getLast? ≠ base.getLast?) (hd : base ∈ mroOf sub) :
    getRelative mroOf sub base value =
      if base <+: value then .some (sub ++ value.drop base.length) else .none := by
  apply getRelative_spec mroOf sub base value sub base [] hs hb hv
  refine ⟨⟨by simp, by simp, hs.1, hb.1, hd⟩, ?_⟩
  intro rs' rb' t' hrel
  cases ht : t'.getLast? with
  | none => simp [List.getLast?_eq_none_iff.mp ht]
  | some x =>
    exfalso
    apply hl
    rw [hrel.1, hrel.2.1, List.getLast?_append, List.getLast?_append, ht]
    simp

/-! ## static derivation: `ReferenceImpl.on_inherit` -/

/-- **absolute**: the base's object, whatever the spaces (`old` is the binding before) -/
theorem static_absolute (mroOf : Path → List Path) (exist : Path → Bool) (S D v : Path) (old : Binding) :
    onInherit mroOf exist .absolute S D (.obj v) old = .bound ⟨.obj v, false⟩ := rfl

/-- **relative / auto, target inside the definer's tree** (`rel = []`: the defining space itself
→ the deriving space; `rel = [c]`: its cells `c` → the deriving space's `c`; deeper: the same
relative name – bound to a null object when the deriving space has no such member, because
child spaces are not inherited). -/
theorem static_rebind (mroOf : Path → List Path) (exist : Path → Bool) (m : Mode)
    (S D : Path) (rel : List String) (old : Binding)
    (hm : m ≠ .absolute) (hs : Clean S) (hb : Clean D) (hrel : "" ∉ rel) (hd : D ∈ mroOf S) :
    onInherit mroOf exist m S D (.obj (D ++ rel)) old =
      .bound ⟨if exist (S ++ rel) then .obj (S ++ rel) else .null, true⟩ := by
  have hne : S ++ rel ≠ [] := by simp [hs.1]
  cases m with
  | absolute => exact absurd rfl hm
  | auto =>
    by_cases hex : exist (S ++ rel) = true <;>
      simp [onInherit, getRelativeInterface, getRelative_inside mroOf S D rel hs hb hrel hd, hne, hex]
  | relative =>
    by_cases hex : exist (S ++ rel) = true <;>
      simp [onInherit, getRelativeInterface, getRelative_inside mroOf S D rel hs hb hrel hd, hne, hex]

/-- the deriving space itself -/
theorem static_rebind_self (mroOf : Path → List Path) (exist : Path → Bool) (m : Mode)
    (S D : Path) (old : Binding) (hm : m ≠ .absolute) (hs : Clean S) (hb : Clean D)
    (hd : D ∈ mroOf S) (hex : exist S = true) :
    onInherit mroOf exist m S D (.obj D) old = .bound ⟨.obj S, true⟩ := by
  have := static_rebind mroOf exist m S D [] old hm hs hb (by simp) hd
  simpa [hex] using this

/-- its corresponding cells -/
theorem static_rebind_cells (mroOf : Path → List Path) (exist : Path → Bool) (m : Mode)
    (S D : Path) (c : String) (old : Binding) (hm : m ≠ .absolute) (hs : Clean S) (hb : Clean D)
    (hcn : c ≠ "") (hd : D ∈ mroOf S) (hex : exist (S ++ [c]) = true) :
    onInherit mroOf exist m S D (.obj (D ++ [c])) old = .bound ⟨.obj (S ++ [c]), true⟩ := by
  have := static_rebind mroOf exist m S D [c] old hm hs hb (by simpa using Ne.symm hcn) hd
  simpa [hex] using this

/-- **outside**: when `get_relative` finds no counterpart, `auto` keeps the original object and
`relative` is rejected (`ValueError`) … -/
theorem static_outside (mroOf : Path → List Path) (exist : Path → Bool) (S D v : Path) (old : Binding)
    (h : getRelative mroOf S D v = .none) :
    onInherit mroOf exist .auto S D (.obj v) old = .bound ⟨.obj v, false⟩ ∧
    onInherit mroOf exist .relative S D (.obj v) old = .reject := by
  simp [onInherit, getRelativeInterface, h]

/-- … which is the case for every target under another top-level space, and, when the two
spaces share no trailing name, for every target outside the definer's tree. -/
theorem static_outside_tree (mroOf : Path → List Path) (exist : Path → Bool) (S D v : Path) (old : Binding)
    (hs : Clean S) (hb : Clean D) (hv : Clean v)
    (hl : S.getLast? ≠ D.getLast?) (hd : D ∈ mroOf S) (hout : ¬ D <+: v) :
    onInherit mroOf exist .auto S D (.obj v) old = .bound ⟨.obj v, false⟩ ∧
    onInherit mroOf exist .relative S D (.obj v) old = .reject := by
  apply static_outside
  rw [getRelative_plain mroOf S D v hs hb hv hl hd]
  simp [hout]

theorem static_outside_top (mroOf : Path → List Path) (exist : Path → Bool) (S D v : Path) (old : Binding)
    (hb : Clean D) (hv : Clean v) (hh : D.head? ≠ v.head?) :
    onInherit mroOf exist .auto S D (.obj v) old = .bound ⟨.obj v, false⟩ ∧
    onInherit mroOf exist .relative S D (.obj v) old = .reject :=
  static_outside mroOf exist S D v old (getRelative_other_top mroOf S D v hb hv hh)

/-- a value that is not a modelx object is copied, in every mode -/
theorem static_plain_value (mroOf : Path → List Path) (exist : Path → Bool) (m : Mode) (S D : Path)
    (x : Int) (old : Binding) :
    onInherit mroOf exist m S D (.plain x) old = .bound ⟨.plain x, old.isRelative⟩ := rfl

/-- in particular `RuntimeError("must not happen")` is unreachable from derivation: for a clean
value and a space that has the definer in its linearisation `get_relative` always answers -/
theorem static_never_must_not_happen (mroOf : Path → List Path) (S D v : Path)
    (hs : Clean S) (hb : Clean D) (hv : Clean v) (hd : D ∈ mroOf S) :
    getRelative mroOf S D v ≠ .mustNotHappen := by
  obtain ⟨rs, rb, t, ho⟩ := exists_outermost mroOf hs.1 hb.1 ⟨S, D, [], by simp, by simp, hs.1, hb.1, hd⟩
  rw [getRelative_spec mroOf S D v rs rb t hs hb hv ho]
  split <;> simp

/-! ## edits: `SpaceManager.new_ref` / `change_ref`, re-derivation -/

/-- creating the reference in the base gives each sub space what re-derivation gives it
(object-valued references that pass `_check_subs_relrefs`; `r` is whatever derived reference the
sub space held before) -/
theorem new_ref_agrees_with_inherit (mroOf : Path → List Path) (exist : Path → Bool) (m : Mode)
    (r : DRef) (S D v : Path) (hchk : checkSubRelref mroOf m S D (.obj v) = false) :
    newRefSub mroOf exist m S D (.obj v) = reinherit mroOf exist r m S D (.obj v) := by
  cases m with
  | absolute => rfl
  | auto =>
    simp only [newRefSub, reinherit, onInherit]
    cases getRelativeInterface mroOf exist S D v with
    | none => rfl
    | some p => rfl
  | relative =>
    simp only [checkSubRelref] at hchk
    simp only [newRefSub, reinherit, onInherit, getRelativeInterface]
    cases hg : getRelative mroOf S D v with
    | none => rw [hg] at hchk; simp at hchk
    | mustNotHappen => rfl
    | some p =>
      rw [hg] at hchk
      have hp : p ≠ [] := by simpa using hchk
      by_cases hex : exist p = true <;> simp [hp, hex]

/-- `change_ref` gives the sub spaces the same derived references as `new_ref`: the same object
and the same flag `is_relative` (the computed flag is stored in the new reference) -/
theorem change_ref_agrees (mroOf : Path → List Path) (exist : Path → Bool) (m : Mode) (S D : Path)
    (v : Target) : changeRefSub mroOf exist m S D v = newRefSub mroOf exist m S D v := rfl

/-- **An accepted `new_ref` / `change_ref` leaves every sub space that takes the value with what
re-derivation gives it** (object-valued references; `r` is whatever derived reference the sub space
held before).  Full statement since the repair 004f472, which makes `_check_subs_relrefs` look at
the sub spaces `change_ref` rebinds; before it the check skipped them all, see
`unguarded_change_ref_fails`. -/
theorem accepted_set_ref_agrees_with_inherit (mroOf : Path → List Path) (exist : Path → Bool)
    (change : Bool) (m : Mode) (D v : Path) (subs : List Path) (out : List (Option DRef))
    (hacc : setRefGuarded mroOf exist change m D (.obj v) subs = some out) :
    ∀ (r : DRef), out = subs.map (fun S => reinherit mroOf exist r m S D (.obj v)) := by
  intro r
  unfold setRefGuarded at hacc
  split at hacc
  · simp at hacc
  · rename_i hany
    simp only [Option.some.injEq] at hacc
    rw [← hacc]
    have hall : ∀ S ∈ subs, checkSubRelref mroOf m S D (.obj v) = false := by
      intro S hS
      cases hc : checkSubRelref mroOf m S D (.obj v)
      · rfl
      · exact absurd (List.any_eq_true.mpr ⟨S, hS, hc⟩) hany
    unfold refLoop
    apply List.map_congr_left
    intro S hS
    have := new_ref_agrees_with_inherit mroOf exist m r S D v (hall S hS)
    cases change <;> simp [changeRefSub, this]

/-- a refused edit is refused for a reason: some sub space that would take the value cannot be given
a relative binding -/
theorem refused_set_ref_has_culprit (mroOf : Path → List Path) (exist : Path → Bool)
    (change : Bool) (m : Mode) (D : Path) (v : Target) (subs : List Path)
    (href : setRefGuarded mroOf exist change m D v subs = none) :
    ∃ S ∈ subs, checkSubRelref mroOf m S D v = true := by
  unfold setRefGuarded at href
  split at href
  · rename_i hany
    exact List.any_eq_true.mp hany
  · simp at href

/-- Without the guard (the code before 004f472, where `_check_subs_relrefs` skipped every sub space
that already has the name, i.e. all those `change_ref` visits) the statement is false: re-assigning a
`relative` reference to an object outside a sub space's tree left that sub space with a
`relative`-mode reference bound absolutely - a state re-derivation rejects (finding
`C10-change-ref-relative-unchecked`, repaired; the witness stays in the corpus). -/
theorem unguarded_change_ref_fails :
    ¬ ∀ (mroOf : Path → List Path) (exist : Path → Bool) (m : Mode) (r : DRef) (S D v : Path),
        changeRefSub mroOf exist m S D (.obj v) = reinherit mroOf exist r m S D (.obj v) := by
  intro h
  have := h (fun p => if p = ["Sub"] then [["Sub"], ["Base"]] else [p]) (fun _ => true) .relative
    ⟨.relative, ⟨.obj ["Sub", "foo"], true⟩⟩ ["Sub"] ["Base"] ["Out", "oo"]
  revert this
  decide

/-- …and the guarded operation refuses exactly that edit -/
example : setRefGuarded (fun p => if p = ["Sub"] then [["Sub"], ["Base"]] else [p]) (fun _ => true)
    true .relative ["Base"] (.obj ["Out", "oo"]) [["Sub"]] = none := by decide

/-- the loop over the sub spaces gives every sub space its own step, whatever the other sub
spaces were bound to (each gets its own `subvalue`) -/
theorem ref_loop (mroOf : Path → List Path) (exist : Path → Bool) (change : Bool) (m : Mode)
    (D : Path) (v : Target) (subs : List Path) :
    refLoop mroOf exist change m D v subs = subs.map (fun S => newRefSub mroOf exist m S D v) := by
  unfold refLoop
  cases change <;> simp [changeRefSub]

/-- what a nested space's reference is bound to depends on the bases of the *enclosing* spaces
(`Xsp.Ch` derives `Ysp.Ch`; with `Xsp` deriving `Ysp` the reference `Ysp.Ch.rr = Ysp.foo` denotes
`Xsp.foo` in `Xsp.Ch`, without it `Ysp.foo`): a base change of `Xsp` therefore has to derive the
references of `Xsp.Ch` again.  modelx does not (`remove_bases` re-derives the space and the
spaces that *inherit* from it, not its children): known finding `C10-enclosing-base-change`. -/
theorem binding_depends_on_enclosing_bases :
    ∃ (mro1 mro2 : Path → List Path) (exist : Path → Bool),
      (∀ p, p ≠ ["Xsp"] → mro1 p = mro2 p) ∧
      onInherit mro1 exist .auto ["Xsp", "Ch"] ["Ysp", "Ch"] (.obj ["Ysp", "foo"]) ⟨.plain 0, true⟩
        = .bound ⟨.obj ["Xsp", "foo"], true⟩ ∧
      onInherit mro2 exist .auto ["Xsp", "Ch"] ["Ysp", "Ch"] (.obj ["Ysp", "foo"]) ⟨.plain 0, true⟩
        = .bound ⟨.obj ["Ysp", "foo"], false⟩ := by
  refine ⟨fun p => if p = ["Xsp"] then [["Xsp"], ["Ysp"]]
                   else if p = ["Xsp", "Ch"] then [["Xsp", "Ch"], ["Ysp", "Ch"]] else [p],
          fun p => if p = ["Xsp", "Ch"] then [["Xsp", "Ch"], ["Ysp", "Ch"]] else [p],
          fun _ => true, ?_, by decide, by decide⟩
  intro p hp
  simp [hp]

/-- re-derivation gives the reference the mode of its (possibly new) definer … -/
theorem reinherit_takes_definer_mode (mroOf : Path → List Path) (exist : Path → Bool) (r r' : DRef)
    (dm : Mode) (S D : Path) (v : Target) (h : reinherit mroOf exist r dm S D v = some r') :
    r'.mode = dm := by
  unfold reinherit at h
  split at h
  · cases h; rfl
  · cases h

/-- … hence **modes and bindings survive base changes**: re-derivation of an object-valued
reference does not depend on its history – whatever mode and binding the derived reference had
(from a former definer), the result is the one a freshly created derived reference gets. -/
theorem mode_stable (mroOf : Path → List Path) (exist : Path → Bool) (r : DRef)
    (definerMode : Mode) (S D v : Path) :
    reinherit mroOf exist r definerMode S D (.obj v) =
      reinherit mroOf exist (createDerived definerMode) definerMode S D (.obj v) := by
  cases definerMode <;>
    simp only [reinherit, onInherit] <;>
    (try rfl) <;>
    (cases getRelativeInterface mroOf exist S D v <;> rfl)

/-! ## ItemSpace trees: `DynBaseRefDict.wrap_impl` -/

/-- **any object inside the base's tree → the corresponding object of the dynamic tree**, for
every dynamic space `owner` of the tree that holds the reference: the ItemSpace itself for the
base (`rel = []`, also when the reference lives in a nested child), otherwise the same relative
name below the ItemSpace. -/
theorem dynamic_rebind (existsRel : Path → Bool) (root owner : Path) (rel : List String)
    (m : Mode) (defined : Bool) (hex : existsRel rel = true) :
    wrapImpl existsRel root owner ⟨m, true, defined, .obj (root ++ rel)⟩ = .dyn rel := by
  unfold wrapImpl
  by_cases h : rel = []
  · subst h; simp
  · have : root ≠ root ++ rel := by
      intro e
      have := congrArg List.length e
      simp at this
      exact h this
    simp [this, wrapLookup_inside root rel h, hex]

/-- **The full statement fails** without the flag: a reference that the base's tree *derives* from
a space outside it, bound absolutely there (its target is not in that definer's tree), is not
rebound although its mode is `auto` and its target lies inside the ItemSpace's base. -/
theorem dynamic_rebind_full_fails :
    ¬ ∀ (existsRel : Path → Bool) (root owner : Path) (rel : List String) (flag defined : Bool),
        existsRel rel = true →
        wrapImpl existsRel root owner ⟨.auto, flag, defined, .obj (root ++ rel)⟩ = .dyn rel := by
  intro h
  have := h (fun _ => true) ["Base"] ["Ch"] [] false false rfl
  revert this
  decide

/-- **absolute mode** (the flag is `False`): the base's reference itself – the original object -/
theorem dynamic_absolute (existsRel : Path → Bool) (root owner : Path) (m : Mode) (defined : Bool)
    (t : Target) :
    wrapImpl existsRel root owner ⟨m, false, defined, t⟩ = .keep := by
  unfold wrapImpl
  cases t <;> rfl

/-- **outside the base's tree** (by components: `Base2.foo` is outside `Base`): an `auto`
reference – defined in the base space or derived there – keeps denoting the object it denotes in
the base space, a `relative` one is rejected -/
theorem dynamic_outside (existsRel : Path → Bool) (root owner impl : Path) (defined : Bool)
    (h1 : ¬ root <+: impl) :
    wrapImpl existsRel root owner ⟨.auto, true, defined, .obj impl⟩ = .keep ∧
    wrapImpl existsRel root owner ⟨.relative, true, defined, .obj impl⟩ = .reject := by
  have hne : root ≠ impl := fun e => h1 (e ▸ List.prefix_refl _)
  simp [wrapImpl, hne, wrapLookup_outside h1]

/-- a value that is not a (valid) modelx object is kept -/
theorem dynamic_plain (existsRel : Path → Bool) (root owner : Path) (m : Mode) (f d : Bool) (x : Int) :
    wrapImpl existsRel root owner ⟨m, f, d, .plain x⟩ = .keep ∧
    wrapImpl existsRel root owner ⟨m, f, d, .null⟩ = .keep := ⟨rfl, rfl⟩

/-! ## Edit histories: every derived reference is what re-derivation gives NOW

`Kernels/RelativeHist.lean` drives the decision logic above by a state - spaces with ordered bases
(linearised by `C3.mro`), own cells, references defined (value, mode) or derived (mode, binding) - and the
operations `newSpace` (with bases), `setRef` (`new_ref` / `change_ref` behind `_check_subs_relrefs`:
`setRefGuarded`, `newRefSub`), `delRef`, `addBase`, `removeBase` (re-derivation by `reinherit`, refused
as a whole when it would raise).  `dirty` is ghost state: a space is marked when the linearisation of one
of its ENCLOSING spaces changed and it was not derived again since (`addBase` / `removeBase` derive the
space and the spaces that inherit from it again, not their child spaces).

LIMIT OF THE MODEL (R8C10): a target is a PATH (`Target.obj p`); what exists is asked of the current state
(`RState.exist`).  modelx has object identity: a cells that is deleted stays deleted, the references that
held it (the definer's and, copied by `on_inherit`, every deriver's) keep the dead object even when another
cells appears under the same path later (the space derives the name from a base, the name is created again,
a base is added again).  For the machine such a target is alive again.  The theorems of this section are
statements about the machine; they describe the code for references whose target object was not deleted
since it was assigned.  The `relhist` correspondence leaves out every derived reference that holds a deleted
object (harness/mxh/relhist.py, OBJECT IDENTITY; witnesses corpus/C10/family-deleted-target-*.json). -/

section histories
open MxModel.RelHist

/-- **After ANY history every derived reference of every space is what `on_inherit` from its first definer
gives in the CURRENT state**: it carries the definer's mode; when the definer holds an object it is
bound to what `reinherit` computes from the current linearisations (to a null object instead when the
counterpart did not exist at the time of the last derivation - children are not inherited); a value
that is no object is copied.  For every space that is not `dirty`, i.e. no enclosing space had its
linearisation changed since the space was last derived (the hypothesis is needed:
`enclosing_base_change_full_fails`, known finding C10-enclosing-base-change).  Objects are paths here: see
LIMIT OF THE MODEL above for what that leaves out (targets deleted since they were assigned). -/
theorem derived_refs_always_rebound (ops : List ROp) (q : Path) (n : String) (r : DRef)
    (hr : (RState.run {} ops).ref q n = some ⟨false, r⟩) (hd : (RState.run {} ops).dirty q = false) :
    Expected (RState.run {} ops) q n r :=
  (rinv_run ops {} rinv_empty).rebound q n r hr hd

/-- **the hypothesis concerns nested spaces after base changes only**: a space is marked only by
`add_bases` / `remove_bases` - in a history without them no space is ever marked - and only a space that
lies strictly below another one: a top-level space is never marked, so for top-level spaces
`derived_refs_always_rebound` holds without hypothesis -/
theorem marked_only_below_base_changes (ops : List ROp) :
    ((∀ op ∈ ops, op.isRebase = false) → ∀ q, (RState.run {} ops).dirty q = false) ∧
    (∀ q, (RState.run {} ops).dirty q = true → 2 ≤ q.length) :=
  ⟨fun h => no_rebase_no_dirty ops {} h (fun _ => rfl),
   dirty_depth_run ops {} rinv_empty (fun q hq => by cases hq)⟩

/-- for top-level spaces: after ANY history, no hypothesis -/
theorem top_level_derived_refs_always_rebound (ops : List ROp) (s : String) (n : String) (r : DRef)
    (hr : (RState.run {} ops).ref [s] n = some ⟨false, r⟩) : Expected (RState.run {} ops) [s] n r := by
  apply derived_refs_always_rebound ops [s] n r hr
  cases hd : (RState.run {} ops).dirty [s] with
  | false => rfl
  | true => have := (marked_only_below_base_changes ops).2 [s] hd; simp at this

/-- the reachable states are well-formed: every space has a linearisation, bases exist, the tree of spaces
is closed under parents, names are clean -/
theorem reachable_shape (ops : List ROp) : RShape (RState.run {} ops) := (rinv_run ops {} rinv_empty).toRShape

/-- **absolute**: bound to the very object the definer holds, after any history -/
theorem derived_absolute_same_object (ops : List ROp) (q : Path) (n : String) (r : DRef) (D : Path) (dr : DRef)
    (v : Path)
    (hr : (RState.run {} ops).ref q n = some ⟨false, r⟩) (hd : (RState.run {} ops).dirty q = false)
    (hf : (RState.run {} ops).firstDefiner q n = some (D, dr)) (hm : dr.mode = .absolute)
    (ht : dr.binding.target = .obj v) : r = ⟨.absolute, ⟨.obj v, false⟩⟩ := by
  obtain ⟨D', dr', hf', hmode, hexp⟩ := derived_refs_always_rebound ops q n r hr hd
  rw [hf] at hf'; cases hf'
  rw [ht] at hexp
  obtain ⟨b, hb, hu⟩ := hexp
  rw [hm] at hb
  simp only [reinherit, onInherit, Option.some.injEq] at hb
  subst hb
  rcases hu with hu | ⟨_, _, h3, _⟩
  · exact hu
  · cases h3

/-- **relative / auto, the definer's target inside the definer's tree** (`rel = []`: the defining space
itself; `[c]`: one of its cells; longer: deeper): after any history the derived reference is bound
relatively, inside the deriving space's own tree: to `q ++ rel` - or to a null object when `q ++ rel` did
not exist at the last derivation -/
theorem derived_relative_bound_inside_own_tree (ops : List ROp) (q : Path) (n : String) (r : DRef) (D : Path)
    (dr : DRef) (rel : List String)
    (hr : (RState.run {} ops).ref q n = some ⟨false, r⟩) (hd : (RState.run {} ops).dirty q = false)
    (hf : (RState.run {} ops).firstDefiner q n = some (D, dr)) (hm : dr.mode ≠ .absolute)
    (ht : dr.binding.target = .obj (D ++ rel)) (hrel : "" ∉ rel) :
    r.mode = dr.mode ∧ r.binding.isRelative = true ∧
      (r.binding.target = .obj (q ++ rel) ∨ r.binding.target = .null) := by
  have hsh := reachable_shape ops
  obtain ⟨D', dr', hf', hmode, hexp⟩ := derived_refs_always_rebound ops q n r hr hd
  rw [hf] at hf'; cases hf'
  have hqi := ref_in_ids hsh hr
  have hDi := definer_in_ids hsh (firstDefiner_some hf).2
  have hDm : D ∈ (RState.run {} ops).mroOf q := List.mem_of_mem_tail (firstDefiner_some hf).1
  rw [ht] at hexp
  obtain ⟨b, hb, hu⟩ := hexp
  have hs := static_rebind (RState.run {} ops).mroOf (fun _ => true) dr.mode q D rel (createDerived dr.mode).binding
    hm (hsh.clean q hqi) (hsh.clean D hDi) hrel hDm
  simp only [if_true] at hs
  simp only [reinherit, hs, Option.some.injEq] at hb
  subst hb
  refine ⟨hmode, ?_⟩
  rcases hu with hu | ⟨_, h2, _, h4, _⟩
  · rw [hu]; exact ⟨rfl, Or.inl rfl⟩
  · exact ⟨h2, Or.inr h4⟩

/-- **auto, no counterpart** (`get_relative` answers `None` in the current state: the target is outside the
trees `get_relative` relates): the derived reference keeps denoting the original object -/
theorem derived_outside_keeps_object (ops : List ROp) (q : Path) (n : String) (r : DRef) (D : Path) (dr : DRef)
    (v : Path)
    (hr : (RState.run {} ops).ref q n = some ⟨false, r⟩) (hd : (RState.run {} ops).dirty q = false)
    (hf : (RState.run {} ops).firstDefiner q n = some (D, dr)) (hm : dr.mode = .auto)
    (ht : dr.binding.target = .obj v) (hg : getRelative (RState.run {} ops).mroOf q D v = .none) :
    r = ⟨.auto, ⟨.obj v, false⟩⟩ := by
  obtain ⟨D', dr', hf', hmode, hexp⟩ := derived_refs_always_rebound ops q n r hr hd
  rw [hf] at hf'; cases hf'
  rw [ht] at hexp
  obtain ⟨b, hb, hu⟩ := hexp
  rw [hm] at hb
  simp only [reinherit, onInherit, getRelativeInterface, hg, Option.some.injEq] at hb
  subst hb
  rcases hu with hu | ⟨_, _, h3, _⟩
  · exact hu
  · cases h3

/-- a value that is no object is copied, whatever the mode -/
theorem derived_plain_value_copied (ops : List ROp) (q : Path) (n : String) (r : DRef) (D : Path) (dr : DRef) (x : Int)
    (hr : (RState.run {} ops).ref q n = some ⟨false, r⟩) (hd : (RState.run {} ops).dirty q = false)
    (hf : (RState.run {} ops).firstDefiner q n = some (D, dr)) (ht : dr.binding.target = .plain x) :
    r.mode = dr.mode ∧ r.binding.target = .plain x := by
  obtain ⟨D', dr', hf', hmode, hexp⟩ := derived_refs_always_rebound ops q n r hr hd
  rw [hf] at hf'; cases hf'
  rw [ht] at hexp
  exact ⟨hmode, hexp⟩

/-- **a `relative` reference is never bound out of scope**: in every reachable state a derived reference in
`relative` mode whose definer holds an object is bound relatively (the operation that would have bound it
absolutely was refused) -/
theorem derived_relative_mode_is_relative (ops : List ROp) (q : Path) (n : String) (r : DRef) (D : Path) (dr : DRef)
    (v : Path)
    (hr : (RState.run {} ops).ref q n = some ⟨false, r⟩) (hd : (RState.run {} ops).dirty q = false)
    (hf : (RState.run {} ops).firstDefiner q n = some (D, dr)) (hm : dr.mode = .relative)
    (ht : dr.binding.target = .obj v) : r.binding.isRelative = true := by
  obtain ⟨D', dr', hf', hmode, hexp⟩ := derived_refs_always_rebound ops q n r hr hd
  rw [hf] at hf'; cases hf'
  rw [ht] at hexp
  obtain ⟨b, hb, hu⟩ := hexp
  rw [hm] at hb
  have hbf : b.binding.isRelative = true := by
    simp only [reinherit, onInherit] at hb
    cases hgi : getRelativeInterface (RState.run {} ops).mroOf (fun _ => true) q D v with
    | none => rw [hgi] at hb; simp at hb
    | some x =>
      obtain ⟨rel, tg⟩ := x
      rw [hgi] at hb
      cases rel with
      | false => simp at hb
      | true => simp at hb; rw [← hb]
  rcases hu with hu | ⟨_, h2, _, _, _⟩
  · rw [hu]; exact hbf
  · exact h2

/-! ### the two known findings as witnesses -/

/-- `Xsp.Ch` derives `Ysp.Ch`, `Ysp.Ch.rr = Ysp.foo` (auto): absolute in `Xsp.Ch`; then `Xsp.add_bases(Ysp)` -/
def enclosingOps : List ROp := [
  .newSpace [] "Ysp" [] ["foo"], .newSpace ["Ysp"] "Ch" [] [],
  .newSpace [] "Xsp" [] ["foo"], .newSpace ["Xsp"] "Ch" [["Ysp", "Ch"]] [],
  .setRef ["Ysp", "Ch"] "rr" (.obj ["Ysp", "foo"]) .auto,
  .addBase ["Xsp"] ["Ysp"]]

/-- **Without the hypothesis on the enclosing spaces the statement is false** (known finding
C10-enclosing-base-change): after `Xsp.add_bases(Ysp)` the reference `Xsp.Ch.rr` still denotes `Ysp.foo`
absolutely, re-derivation NOW binds it to `Xsp.foo` relatively; the ghost flag marks exactly that space. -/
theorem enclosing_base_change_full_fails :
    ¬ ∀ (ops : List ROp) (q : Path) (n : String) (r : DRef),
        (RState.run {} ops).ref q n = some ⟨false, r⟩ → Expected (RState.run {} ops) q n r := by
  intro h
  have hr : (RState.run {} enclosingOps).ref ["Xsp", "Ch"] "rr" = some ⟨false, ⟨.auto, ⟨.obj ["Ysp", "foo"], false⟩⟩⟩ := by
    decide
  obtain ⟨D, dr, hf, _, hexp⟩ := h enclosingOps ["Xsp", "Ch"] "rr" _ hr
  have hf0 : (RState.run {} enclosingOps).firstDefiner ["Xsp", "Ch"] "rr" =
      some (["Ysp", "Ch"], ⟨.auto, ⟨.obj ["Ysp", "foo"], true⟩⟩) := by decide
  rw [hf0] at hf; cases hf
  obtain ⟨b, hb, hu⟩ := hexp
  have hb0 : reinherit (RState.run {} enclosingOps).mroOf (fun _ => true) (createDerived .auto) .auto ["Xsp", "Ch"]
      ["Ysp", "Ch"] (.obj ["Ysp", "foo"]) = some ⟨.auto, ⟨.obj ["Xsp", "foo"], true⟩⟩ := by decide
  rw [hb0] at hb; cases hb
  rcases hu with hu | ⟨_, h2, _⟩
  · exact absurd hu (by decide)
  · cases h2

example : (RState.run {} enclosingOps).dirty ["Xsp", "Ch"] = true ∧
    (RState.run {} enclosingOps).dirty ["Xsp"] = false ∧ (RState.run {} enclosingOps).dirty ["Ysp", "Ch"] = false := by
  decide

/-- `Base` derives `Def`; `Def.r = Base.foo` (auto): the target is outside `Def`'s tree, so `Base.r` is bound
absolutely - correctly, by the theorems above -; an ItemSpace of `Base` then keeps the static `Base.foo`
although the target lies inside its base's tree (known finding C10-dyn-derived-absolute-inside,
`dynamic_rebind_full_fails` at the level of a reachable state) -/
def dynInsideOps : List ROp := [
  .newSpace [] "Def" [] [], .newSpace [] "Base" [["Def"]] ["foo"],
  .setRef ["Def"] "r" (.obj ["Base", "foo"]) .auto]

theorem dyn_derived_absolute_inside_witness :
    (RState.run {} dynInsideOps).ref ["Base"] "r" = some ⟨false, ⟨.auto, ⟨.obj ["Base", "foo"], false⟩⟩⟩ ∧
    (RState.run {} dynInsideOps).dirty ["Base"] = false ∧
    (RState.run {} dynInsideOps).itemView ["Base"] ["Base"] "r" = some .keep ∧
    (RState.run {} dynInsideOps).exist (["Base"] ++ ["foo"]) = true := by decide

/-- … while a reference that was bound relatively is bound to the object of the dynamic tree (`dynamic_rebind`
on a reachable state: `Base.s = Base.foo` defined in `Base`; `Sub` derives `Base`: `Sub[1].s` is `Sub[1].foo`) -/
example :
    let st := RState.run {} [.newSpace [] "Base" [] ["foo"], .setRef ["Base"] "s" (.obj ["Base", "foo"]) .auto,
      .newSpace [] "Sub" [["Base"]] []]
    st.ref ["Sub"] "s" = some ⟨false, ⟨.auto, ⟨.obj ["Sub", "foo"], true⟩⟩⟩ ∧
    st.itemView ["Sub"] ["Sub"] "s" = some (.dyn ["foo"]) := by decide

/-! ### non-vacuity: a history with every operation, accepted and refused -/

def histOps : List ROp := [
  .newSpace [] "Base" [] ["foo"], .newSpace [] "Out" [] ["oo"],
  .setRef ["Base"] "rr" (.obj ["Base", "foo"]) .auto,
  .newSpace [] "Sub" [["Base"]] [],
  .setRef ["Base"] "ra" (.obj ["Base"]) .relative,
  .setRef ["Base"] "rb" (.obj ["Out", "oo"]) .auto,
  .setRef ["Base"] "rc" (.obj ["Out", "oo"]) .relative,      -- refused: out of scope in `Sub`
  .setRef ["Base"] "rp" (.plain 7) .auto,
  .newSpace [] "Two" [] [], .setRef ["Two"] "rr" (.obj ["Out"]) .absolute,
  .addBase ["Sub"] ["Two"],                                    -- `Sub(Base, Two)`: `rr` still from `Base`
  .removeBase ["Sub"] ["Base"],                                -- now from `Two`: absolute, `Out`
  .addBase ["Sub"] ["Base"],                                   -- `Sub(Two, Base)`
  .delRef ["Two"] "rr"]                                        -- back to `Base.rr`: `Sub.foo`

example : (RState.run {} (histOps.take 8)).ref ["Sub"] "rr" = some ⟨false, ⟨.auto, ⟨.obj ["Sub", "foo"], true⟩⟩⟩ ∧
    (RState.run {} (histOps.take 8)).ref ["Sub"] "ra" = some ⟨false, ⟨.relative, ⟨.obj ["Sub"], true⟩⟩⟩ ∧
    (RState.run {} (histOps.take 8)).ref ["Sub"] "rb" = some ⟨false, ⟨.auto, ⟨.obj ["Out", "oo"], false⟩⟩⟩ ∧
    (RState.run {} (histOps.take 8)).ref ["Sub"] "rc" = none ∧
    (RState.run {} (histOps.take 8)).ref ["Sub"] "rp" = some ⟨false, ⟨.auto, ⟨.plain 7, false⟩⟩⟩ := by decide
example : ((RState.run {} (histOps.take 6)).apply (.setRef ["Base"] "rc" (.obj ["Out", "oo"]) .relative)).isNone = true := by
  decide
example : (RState.run {} (histOps.take 12)).ref ["Sub"] "rr" = some ⟨false, ⟨.absolute, ⟨.obj ["Out"], false⟩⟩⟩ ∧
    (RState.run {} (histOps.take 13)).ref ["Sub"] "rr" = some ⟨false, ⟨.absolute, ⟨.obj ["Out"], false⟩⟩⟩ ∧
    (RState.run {} histOps).ref ["Sub"] "rr" = some ⟨false, ⟨.auto, ⟨.obj ["Sub", "foo"], true⟩⟩⟩ ∧
    (RState.run {} histOps).firstDefiner ["Sub"] "rr" = some (["Base"], ⟨.auto, ⟨.obj ["Base", "foo"], true⟩⟩) ∧
    (RState.run {} histOps).dirty ["Sub"] = false := by decide

end histories

/-! ## non-vacuity: concrete instances of the hypotheses and of the rebinding -/

/-- `M.P.Sub` derives `M.Q.Def`; `M.P.Sub.Ch` derives `M.Q.Def.Ch` -/
def demoMro : Path → List Path
  | ["P", "Sub"] => [["P", "Sub"], ["Q", "Def"]]
  | ["P", "Sub", "Ch"] => [["P", "Sub", "Ch"], ["Q", "Def", "Ch"]]
  | p => [p]

example : Outermost demoMro ["P", "Sub", "Ch"] ["Q", "Def", "Ch"] ["P", "Sub"] ["Q", "Def"] ["Ch"] := by
  refine ⟨⟨rfl, rfl, by decide, by decide, by decide⟩, ?_⟩
  intro rs' rb' t' h
  have h1 : t' <:+ ["P", "Sub", "Ch"] := ⟨rs', h.1.symm⟩
  have h2 : t' <:+ ["Q", "Def", "Ch"] := ⟨rb', h.2.1.symm⟩
  have := (suffix_lcs t' _ _ h1 h2).length_le
  have e : lcs ["P", "Sub", "Ch"] ["Q", "Def", "Ch"] = ["Ch"] := by decide
  rw [e] at this
  simpa using this

example : getRelative demoMro ["P", "Sub", "Ch"] ["Q", "Def", "Ch"] ["Q", "Def", "foo"]
    = .some ["P", "Sub", "foo"] := by decide
example : getRelative demoMro ["P", "Sub"] ["Q", "Def"] ["Q", "Def", "Ch", "dd"]
    = .some ["P", "Sub", "Ch", "dd"] := by decide
example : getRelative demoMro ["P", "Sub"] ["Q", "Def"] ["Q", "Out", "oo"] = .none := by decide
example : Clean ["P", "Sub"] ∧ Clean ["Q", "Def"] ∧ ["Q", "Def"] ∈ demoMro ["P", "Sub"] := by
  decide
example : onInherit demoMro (fun p => p == ["P", "Sub", "cc"]) .relative ["P", "Sub"] ["Q", "Def"]
    (.obj ["Q", "Def", "cc"]) ⟨.plain 0, true⟩ = .bound ⟨.obj ["P", "Sub", "cc"], true⟩ := by decide
example : onInherit demoMro (fun _ => false) .auto ["P", "Sub"] ["Q", "Def"]
    (.obj ["Q", "Def", "Ch"]) ⟨.plain 0, true⟩ = .bound ⟨.null, true⟩ := by decide
example : onInherit demoMro (fun _ => true) .relative ["P", "Sub"] ["Q", "Def"]
    (.obj ["Out"]) ⟨.plain 0, true⟩ = .reject := by decide
example : newRefSub demoMro (fun _ => true) .auto ["P", "Sub"] ["Q", "Def"] (.obj ["Q", "Def"])
    = some ⟨.auto, ⟨.obj ["P", "Sub"], true⟩⟩ := by decide
example : checkSubRelref demoMro .relative ["P", "Sub"] ["Q", "Def"] (.obj ["Q", "Def", "cc"]) = false := by
  decide
/-- a reference held by the grandchild `Base.Ch.Gr` whose value is the base `Base` itself -/
example : wrapImpl (fun _ => true) ["Base"] ["Ch", "Gr"] ⟨.auto, true, true, .obj ["Base"]⟩ = .dyn [] := by
  decide
example : wrapImpl (fun _ => true) ["Base"] ["Ch"] ⟨.relative, true, true, .obj ["Base", "Ch", "Gr", "ee"]⟩
    = .dyn ["Ch", "Gr", "ee"] := by decide
example : ¬ ["Base"] <+: ["Out", "oo"] ∧ ¬ ["Base"] <+: ["Base2", "foo"] := by decide

/-! ### the witnesses of the repaired defects, now positive -/

/-- `A.B` deriving a top-level `B` (6d7db1b): the reference to `B` denotes `A.B` -/
example : onInherit (fun p => if p = ["A", "B"] then [["A", "B"], ["B"]] else [p]) (fun _ => true)
    .auto ["A", "B"] ["B"] (.obj ["B"]) ⟨.plain 0, true⟩ = .bound ⟨.obj ["A", "B"], true⟩ := by decide
/-- … and a top-level `B` deriving `A.B` -/
example : onInherit (fun p => if p = ["B"] then [["B"], ["A", "B"]] else [p]) (fun _ => true)
    .relative ["B"] ["A", "B"] (.obj ["A", "B", "c"]) ⟨.plain 0, true⟩ = .bound ⟨.obj ["B", "c"], true⟩ := by
  decide
/-- `Sub(Bone, Btwo)`, `Bone.r` absolute, `Btwo.r = Btwo` auto, `Sub.remove_bases(Bone)` (39b86b9):
`Sub.r` becomes `auto` and denotes `Sub` -/
example : reinherit (fun p => if p = ["Sub"] then [["Sub"], ["Btwo"]] else [p]) (fun _ => true)
    ⟨.absolute, ⟨.obj ["Bone"], false⟩⟩ .auto ["Sub"] ["Btwo"] (.obj ["Btwo"])
    = some ⟨.auto, ⟨.obj ["Sub"], true⟩⟩ := by decide
/-- re-assigning an `auto` reference to an object outside (e655c26): the flag says absolute -/
example : changeRefSub (fun p => if p = ["Sub"] then [["Sub"], ["Base"]] else [p]) (fun _ => true) .auto
    ["Sub"] ["Base"] (.obj ["Out", "oo"]) = some ⟨.auto, ⟨.obj ["Out", "oo"], false⟩⟩ := by decide
/-- `Ysp.Ch.rr = Ysp.Other`, sub spaces `Xsp.Ch` (relative, no `Xsp.Other`: null object) and `Zsp`
(outside: the original), in this order (069099b) -/
example : refLoop (fun p => if p = ["Xsp", "Ch"] then [["Xsp", "Ch"], ["Ysp", "Ch"]]
                      else if p = ["Xsp"] then [["Xsp"], ["Ysp"]]
                      else if p = ["Zsp"] then [["Zsp"], ["Ysp", "Ch"]] else [p])
    (fun p => p != ["Xsp", "Other"]) false .auto ["Ysp", "Ch"] (.obj ["Ysp", "Other"]) [["Xsp", "Ch"], ["Zsp"]]
    = [some ⟨.auto, ⟨.null, true⟩⟩, some ⟨.auto, ⟨.obj ["Ysp", "Other"], false⟩⟩] := by decide
/-- a derived `auto` reference with `is_relative` set and a target outside the ItemSpace's base
(2f47edb), and a target whose name merely starts with the base's name (4d6c07c): kept -/
example : wrapImpl (fun _ => false) ["Xsp", "Ch"] [] ⟨.auto, true, false, .obj ["Xsp", "foo"]⟩ = .keep ∧
    wrapImpl (fun _ => false) ["Base"] [] ⟨.auto, true, true, .obj ["Base2", "foo"]⟩ = .keep := by decide

end MxModel.C10
