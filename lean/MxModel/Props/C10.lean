import MxModel.Proofs.Relative
/-!
# C10 – object-valued references rebind relatively or stay absolute as their mode says

The model is `Kernels/Relative.lean`: `SpaceGraph.get_relative` on dotted names, and the
decision logic of `ReferenceImpl.on_inherit`, `SpaceManager.new_ref` / `change_ref` and
`DynBaseRefDict.wrap_impl`, for an arbitrary linearisation `mroOf` (`SpaceGraph.get_mro`)
and arbitrary nesting depths.  The theorems are the decision logic stated outright; three
places where the real code does not do what the property says are kept visible as
`*_full_fails` (with concrete witnesses) next to the `*_partial` statements that hold:

* `static_rebind_full_fails`   – `A.B` deriving a top-level `B`: `RuntimeError("must not happen")`;
* `dynamic_outside_full_fails` – a derived `auto` reference whose flag `is_relative` is set and
  whose target is outside the ItemSpace's base (`value.direct_bases[0]`: `AttributeError`), and
  the string-prefix test `root == impl[:rootlen]` (`Base` / `Base2.foo`);
* `mode_stable_full_fails` / `change_ref_flag_full_fails` – the mode of a derived reference is
  never refreshed from its (new) base, and `change_ref` marks the discarded reference.
-/
namespace MxModel.C10
open MxModel.Relative

/-! ## `get_relative` against its declarative specification -/

/-- **`get_relative` is: strip the common suffix, require the bases relation at the roots,
re-append the relative part.**  If `(rs, rb)` is the outermost pair of spaces below which
`sub` and `base` sit at the same relative position `t` and with `rb` in the linearisation of
`rs`, then the value has a counterpart iff it lies in `rb`'s tree, and the counterpart is the
same relative name below `rs`. -/
theorem getRelative_spec (mroOf : Path → List Path) (sub base value rs rb : Path) (t : List String)
    (hs : Clean sub) (hb : Clean base) (hv : Clean value) (hc : NoSuffixClash sub base)
    (ho : Outermost mroOf sub base rs rb t) :
    getRelative mroOf sub base value =
      if rb <+: value then .some (rs ++ value.drop rb.length) else .none := by
  obtain ⟨sr, hsr⟩ := lcs_suffix_left sub base
  obtain ⟨br, hbr⟩ := lcs_suffix_right sub base
  obtain ⟨hsrne, hbrne⟩ := roots_ne hc hsr hbr
  obtain ⟨pre, hT, hrs, hrb⟩ := related_split hsr hbr ho.1
  have hrbne : rb ≠ [] := by rw [hrb]; simp [hbrne]
  have hrbpre : rb <+: base := ⟨t, ho.1.2.1.symm⟩
  have hrscl : Clean rs := by
    refine ⟨by rw [hrs]; simp [hsrne], ?_⟩
    have : rs.Sublist sub := by rw [ho.1.1]; exact List.sublist_append_left _ _
    exact not_mem_of_sublist this hs.2
  rw [getRelative_clean mroOf hs hb hv hsr hbr, relLoop_of_outermost mroOf hc hsr hbr ho]
  by_cases h : lcp base value = []
  · have : ¬ rb <+: value := by
      intro hp
      have := prefix_lcp _ _ _ hrbpre hp
      rw [h] at this
      exact hrbne (List.prefix_nil.mp this)
    simp [h, this]
  · simp only [h, if_false]
    exact relFinish_clean hb hv hrscl hrbne hrbpre h

/-- … such an outermost pair exists as soon as the two spaces are related at all … -/
theorem getRelative_spec_total (mroOf : Path → List Path) (sub base : Path)
    (hc : NoSuffixClash sub base) (h : ∃ rs rb t, Related mroOf sub base rs rb t) :
    ∃ rs rb t, Outermost mroOf sub base rs rb t :=
  exists_outermost mroOf hc h

/-- … and when they are not related at any level, the code raises
`RuntimeError("must not happen")` (unless value and base do not even share their top-level
space, which is checked first). -/
theorem getRelative_unrelated (mroOf : Path → List Path) (sub base value : Path)
    (hs : Clean sub) (hb : Clean base) (hv : Clean value) (hc : NoSuffixClash sub base)
    (hh : base.head? = value.head?)
    (h : ∀ rs rb t, ¬ Related mroOf sub base rs rb t) :
    getRelative mroOf sub base value = .mustNotHappen := by
  obtain ⟨sr, hsr⟩ := lcs_suffix_left sub base
  obtain ⟨br, hbr⟩ := lcs_suffix_right sub base
  obtain ⟨hsrne, hbrne⟩ := roots_ne hc hsr hbr
  rw [getRelative_clean mroOf hs hb hv hsr hbr]
  simp only [lcp_ne_nil_of_head hb.1 hh, if_false]
  cases hl : relLoop mroOf sr br (lcs sub base) with
  | none => rfl
  | some roots =>
    obtain ⟨rs1, rb1⟩ := roots
    obtain ⟨t1, h1⟩ := outermost_of_relLoop mroOf hc hsr hbr hl
    exact absurd h1.1 (h _ _ _)

/-- a value under another top-level space never has a counterpart -/
theorem getRelative_other_top (mroOf : Path → List Path) (sub base value : Path)
    (hb : Clean base) (hv : Clean value) (hh : base.head? ≠ value.head?) :
    getRelative mroOf sub base value = .none := by
  unfold getRelative
  rw [sharedAsc_clean hb hv, lcp_eq_nil_of_head hh]
  rfl

/-- **inside the definer's tree**: for every space `sub` that has the definer `base` in its
linearisation and every relative name `rel` (empty: the definer itself; one name: a cells or
child; longer: anything deeper), the counterpart of `base.rel` is `sub.rel` – whatever the
depths of `sub` and `base` and whatever outer pair the loop stops at. -/
theorem getRelative_inside (mroOf : Path → List Path) (sub base : Path) (rel : List String)
    (hs : Clean sub) (hb : Clean base) (hrel : "" ∉ rel) (hc : NoSuffixClash sub base)
    (hd : base ∈ mroOf sub) :
    getRelative mroOf sub base (base ++ rel) = .some (sub ++ rel) := by
  have hv : Clean (base ++ rel) := by
    refine ⟨by simp [hb.1], ?_⟩
    intro hm
    rcases List.mem_append.mp hm with hm | hm
    · exact hb.2 hm
    · exact hrel hm
  obtain ⟨rs, rb, t, ho⟩ := exists_outermost mroOf hc ⟨sub, base, [], by simp, by simp, hd⟩
  rw [getRelative_spec mroOf sub base (base ++ rel) rs rb t hs hb hv hc ho]
  have h1 : rb <+: base ++ rel := ⟨t ++ rel, by rw [← List.append_assoc, ← ho.1.2.1]⟩
  simp only [h1, if_true]
  congr 1
  have : (base ++ rel).drop rb.length = t ++ rel := by
    rw [ho.1.2.1, List.append_assoc, List.drop_left]
  rw [this, ← List.append_assoc, ← ho.1.1]

/-- when the two spaces share no trailing name (`Sub` deriving `Base`, `P.Sub` deriving `Q.Base`)
the roots are the spaces themselves: exactly the definer's tree is rebound -/
theorem getRelative_plain (mroOf : Path → List Path) (sub base value : Path)
    (hs : Clean sub) (hb : Clean base) (hv : Clean value) (hc : NoSuffixClash sub base)
    (hl : sub.getLast? ≠ base.getLast?) (hd : base ∈ mroOf sub) :
    getRelative mroOf sub base value =
      if base <+: value then .some (sub ++ value.drop base.length) else .none := by
  apply getRelative_spec mroOf sub base value sub base [] hs hb hv hc
  refine ⟨⟨by simp, by simp, hd⟩, ?_⟩
  intro rs' rb' t' hrel
  cases ht : t'.getLast? with
  | none => simp [List.getLast?_eq_none_iff.mp ht]
  | some x =>
    exfalso
    apply hl
    rw [hrel.1, hrel.2.1, List.getLast?_append, List.getLast?_append, ht]
    simp

/-! ## static derivation: `ReferenceImpl.on_inherit` -/

/-- **absolute**: the base's object, whatever the spaces (`old` is the binding before) -/
theorem static_absolute (mroOf : Path → List Path) (exist : Path → Bool) (S D v : Path) (old : Binding) :
    onInherit mroOf exist .absolute S D (.obj v) old = .bound ⟨.obj v, false⟩ := rfl

/-- **relative / auto, target inside the definer's tree** (`rel = []`: the defining space itself
→ the deriving space; `rel = [c]`: its cells `c` → the deriving space's `c`; deeper: the same
relative name – bound to a null object when the deriving space has no such member, because
child spaces are not inherited). -/
theorem static_rebind_partial (mroOf : Path → List Path) (exist : Path → Bool) (m : Mode)
    (S D : Path) (rel : List String) (old : Binding)
    (hm : m ≠ .absolute) (hs : Clean S) (hb : Clean D) (hrel : "" ∉ rel)
    (hc : NoSuffixClash S D) (hd : D ∈ mroOf S) :
    onInherit mroOf exist m S D (.obj (D ++ rel)) old =
      .bound ⟨if exist (S ++ rel) then .obj (S ++ rel) else .null, true⟩ := by
  have hne : S ++ rel ≠ [] := by simp [hs.1]
  cases m with
  | absolute => exact absurd rfl hm
  | auto =>
    by_cases hex : exist (S ++ rel) = true <;>
      simp [onInherit, getRelativeInterface, getRelative_inside mroOf S D rel hs hb hrel hc hd, hne, hex]
  | relative =>
    by_cases hex : exist (S ++ rel) = true <;>
      simp [onInherit, getRelativeInterface, getRelative_inside mroOf S D rel hs hb hrel hc hd, hne, hex]

/-- the deriving space itself -/
theorem static_rebind_self (mroOf : Path → List Path) (exist : Path → Bool) (m : Mode)
    (S D : Path) (old : Binding) (hm : m ≠ .absolute) (hs : Clean S) (hb : Clean D)
    (hc : NoSuffixClash S D) (hd : D ∈ mroOf S) (hex : exist S = true) :
    onInherit mroOf exist m S D (.obj D) old = .bound ⟨.obj S, true⟩ := by
  have := static_rebind_partial mroOf exist m S D [] old hm hs hb (by simp) hc hd
  simpa [hex] using this

/-- its corresponding cells -/
theorem static_rebind_cells (mroOf : Path → List Path) (exist : Path → Bool) (m : Mode)
    (S D : Path) (c : String) (old : Binding) (hm : m ≠ .absolute) (hs : Clean S) (hb : Clean D)
    (hcn : c ≠ "") (hc : NoSuffixClash S D) (hd : D ∈ mroOf S) (hex : exist (S ++ [c]) = true) :
    onInherit mroOf exist m S D (.obj (D ++ [c])) old = .bound ⟨.obj (S ++ [c]), true⟩ := by
  have := static_rebind_partial mroOf exist m S D [c] old hm hs hb (by simpa using Ne.symm hcn) hc hd
  simpa [hex] using this

/-- **outside**: when `get_relative` finds no counterpart, `auto` keeps the original object and
`relative` is rejected (`ValueError`) … -/
theorem static_outside (mroOf : Path → List Path) (exist : Path → Bool) (S D v : Path) (old : Binding)
    (h : getRelative mroOf S D v = .none) :
    onInherit mroOf exist .auto S D (.obj v) old = .bound ⟨.obj v, false⟩ ∧
    onInherit mroOf exist .relative S D (.obj v) old = .reject := by
  simp [onInherit, getRelativeInterface, h]

/-- … which is the case for every target under another top-level space, and, when the two
spaces share no trailing name, for every target outside the definer's tree. -/
theorem static_outside_tree (mroOf : Path → List Path) (exist : Path → Bool) (S D v : Path) (old : Binding)
    (hs : Clean S) (hb : Clean D) (hv : Clean v) (hc : NoSuffixClash S D)
    (hl : S.getLast? ≠ D.getLast?) (hd : D ∈ mroOf S) (hout : ¬ D <+: v) :
    onInherit mroOf exist .auto S D (.obj v) old = .bound ⟨.obj v, false⟩ ∧
    onInherit mroOf exist .relative S D (.obj v) old = .reject := by
  apply static_outside
  rw [getRelative_plain mroOf S D v hs hb hv hc hl hd]
  simp [hout]

theorem static_outside_top (mroOf : Path → List Path) (exist : Path → Bool) (S D v : Path) (old : Binding)
    (hb : Clean D) (hv : Clean v) (hh : D.head? ≠ v.head?) :
    onInherit mroOf exist .auto S D (.obj v) old = .bound ⟨.obj v, false⟩ ∧
    onInherit mroOf exist .relative S D (.obj v) old = .reject :=
  static_outside mroOf exist S D v old (getRelative_other_top mroOf S D v hb hv hh)

/-- a value that is not a modelx object is copied, in every mode -/
theorem static_plain_value (mroOf : Path → List Path) (exist : Path → Bool) (m : Mode) (S D : Path)
    (x : Int) (old : Binding) :
    onInherit mroOf exist m S D (.plain x) old = .bound ⟨.plain x, old.isRelative⟩ := rfl

/-- **The full statement fails**: without `NoSuffixClash` the deriving space is not even
created – a nested space `A.B` deriving a top-level space `B` whose reference denotes `B`
itself ends in `RuntimeError("must not happen")` (and so does a top-level `B` deriving `A.B`). -/
theorem static_rebind_full_fails :
    ¬ ∀ (mroOf : Path → List Path) (exist : Path → Bool) (S D : Path) (old : Binding),
        Clean S → Clean D → D ∈ mroOf S → exist S = true →
        onInherit mroOf exist .auto S D (.obj D) old = .bound ⟨.obj S, true⟩ := by
  intro h
  have := h (fun p => if p = ["A", "B"] then [["A", "B"], ["B"]] else [p]) (fun _ => true)
    ["A", "B"] ["B"] ⟨.plain 0, true⟩ (by decide) (by decide) (by decide) rfl
  revert this
  decide

/-! ## edits: `SpaceManager.new_ref` / `change_ref`, re-derivation -/

/-- creating the reference in the base gives each sub space what re-derivation gives it
(object-valued references that pass `_check_subs_relrefs`) -/
theorem new_ref_agrees_with_inherit (mroOf : Path → List Path) (exist : Path → Bool) (m : Mode)
    (S D v : Path) (hchk : checkSubRelref mroOf m S D (.obj v) = false) :
    newRefSub mroOf exist m S D (.obj v) =
      reinherit mroOf exist (createDerived m) S D (.obj v) := by
  cases m with
  | absolute => rfl
  | auto =>
    simp only [newRefSub, reinherit, onInherit, createDerived]
    cases getRelativeInterface mroOf exist S D v with
    | none => rfl
    | some p => rfl
  | relative =>
    simp only [checkSubRelref] at hchk
    simp only [newRefSub, reinherit, onInherit, createDerived, getRelativeInterface]
    cases hg : getRelative mroOf S D v with
    | none => rw [hg] at hchk; simp at hchk
    | mustNotHappen => rfl
    | some p =>
      rw [hg] at hchk
      have hp : p ≠ [] := by simpa using hchk
      by_cases hex : exist p = true <;> simp [hp, hex]

/-- `change_ref` binds the sub spaces to the same objects as `new_ref` … -/
theorem change_ref_target (mroOf : Path → List Path) (exist : Path → Bool) (m : Mode) (S D : Path)
    (v : Target) :
    (changeRefSub mroOf exist m S D v).map (·.binding.target) =
      (newRefSub mroOf exist m S D v).map (·.binding.target) := by
  unfold changeRefSub
  cases newRefSub mroOf exist m S D v <;> rfl

/-- … but the flag `is_relative` of the new derived reference is the constructor's default
(the computed flag is stored in the discarded reference) … -/
theorem change_ref_flag (mroOf : Path → List Path) (exist : Path → Bool) (m : Mode) (S D : Path)
    (v : Target) (r : DRef) (h : changeRefSub mroOf exist m S D v = some r) :
    r.binding.isRelative = ctorFlag m := by
  unfold changeRefSub at h
  cases hn : newRefSub mroOf exist m S D v with
  | none => rw [hn] at h; cases h
  | some r' => rw [hn] at h; cases h; rfl

/-- … so it is right exactly when the binding is relative or the mode absolute; re-assigning an
`auto` reference to an object outside leaves `is_relative = True` on an absolute binding. -/
theorem change_ref_flag_full_fails :
    ¬ ∀ (mroOf : Path → List Path) (exist : Path → Bool) (m : Mode) (S D : Path) (v : Target),
        changeRefSub mroOf exist m S D v = newRefSub mroOf exist m S D v := by
  intro h
  have := h (fun p => if p = ["Sub"] then [["Sub"], ["Base"]] else [p]) (fun _ => true) .auto
    ["Sub"] ["Base"] (.obj ["Out", "oo"])
  revert this
  decide

/-- the loop over the sub spaces gives every sub space its own step as long as no sub space is
bound to a null object … -/
theorem ref_loop_partial (mroOf : Path → List Path) (exist : Path → Bool) (change : Bool) (m : Mode)
    (D : Path) (v : Target) : ∀ (subs : List Path),
    (∀ S ∈ subs, boundNull (newRefSub mroOf exist m S D v) = false) →
    refLoop mroOf exist change m D v subs false =
      subs.map (fun S => if change then changeRefSub mroOf exist m S D v else newRefSub mroOf exist m S D v)
  | [], _ => rfl
  | S :: rest, h => by
    simp only [refLoop, Bool.false_eq_true, if_false, List.map_cons, h S (by simp)]
    rw [ref_loop_partial mroOf exist change m D v rest (fun S' hS' => h S' (by simp [hS']))]

/-- … **but** `value` is overwritten inside the loop: after a sub space whose counterpart does not
exist, every following sub space gets the null object, also one for which the target is outside
and must stay the original (`Ysp.Ch.rr = Ysp.Other`, sub spaces `Xsp.Ch` – relative, no
`Xsp.Other` – and `Zsp` – absolute). -/
theorem ref_loop_full_fails :
    ¬ ∀ (mroOf : Path → List Path) (exist : Path → Bool) (m : Mode) (D : Path) (v : Target)
        (subs : List Path),
        refLoop mroOf exist false m D v subs false = subs.map (fun S => newRefSub mroOf exist m S D v) := by
  intro h
  have := h (fun p => if p = ["Xsp", "Ch"] then [["Xsp", "Ch"], ["Ysp", "Ch"]]
                      else if p = ["Xsp"] then [["Xsp"], ["Ysp"]]
                      else if p = ["Zsp"] then [["Zsp"], ["Ysp", "Ch"]] else [p])
    (fun p => p != ["Xsp", "Other"]) .auto ["Ysp", "Ch"] (.obj ["Ysp", "Other"]) [["Xsp", "Ch"], ["Zsp"]]
  revert this
  decide

/-- what a nested space's reference is bound to depends on the bases of the *enclosing* spaces
(`Xsp.Ch` derives `Ysp.Ch`; with `Xsp` deriving `Ysp` the reference `Ysp.Ch.rr = Ysp.foo` denotes
`Xsp.foo` in `Xsp.Ch`, without it `Ysp.foo`): a base change of `Xsp` therefore has to derive the
references of `Xsp.Ch` again.  modelx does not (`remove_bases` re-derives the space and the
spaces that *inherit* from it, not its children): known finding `C10-enclosing-base-change`. -/
theorem binding_depends_on_enclosing_bases :
    ∃ (mro1 mro2 : Path → List Path) (exist : Path → Bool),
      (∀ p, p ≠ ["Xsp"] → mro1 p = mro2 p) ∧
      onInherit mro1 exist .auto ["Xsp", "Ch"] ["Ysp", "Ch"] (.obj ["Ysp", "foo"]) ⟨.plain 0, true⟩
        = .bound ⟨.obj ["Xsp", "foo"], true⟩ ∧
      onInherit mro2 exist .auto ["Xsp", "Ch"] ["Ysp", "Ch"] (.obj ["Ysp", "foo"]) ⟨.plain 0, true⟩
        = .bound ⟨.obj ["Ysp", "foo"], false⟩ := by
  refine ⟨fun p => if p = ["Xsp"] then [["Xsp"], ["Ysp"]]
                   else if p = ["Xsp", "Ch"] then [["Xsp", "Ch"], ["Ysp", "Ch"]] else [p],
          fun p => if p = ["Xsp", "Ch"] then [["Xsp", "Ch"], ["Ysp", "Ch"]] else [p],
          fun _ => true, ?_, by decide, by decide⟩
  intro p hp
  simp [hp]

/-- a derived reference keeps the mode it was created with … -/
theorem reinherit_keeps_mode (mroOf : Path → List Path) (exist : Path → Bool) (r r' : DRef)
    (S D : Path) (v : Target) (h : reinherit mroOf exist r S D v = some r') : r'.mode = r.mode := by
  unfold reinherit at h
  split at h
  · cases h; rfl
  · cases h

/-- … hence **modes and bindings survive base changes** as long as the reference's definer keeps
the same mode: re-derivation of an object-valued reference does not depend on its history. -/
theorem mode_stable_partial (mroOf : Path → List Path) (exist : Path → Bool) (r : DRef)
    (definerMode : Mode) (S D v : Path) (h : r.mode = definerMode) :
    reinherit mroOf exist r S D (.obj v) =
      reinherit mroOf exist (createDerived definerMode) S D (.obj v) := by
  subst h
  cases hm : r.mode <;>
    simp only [reinherit, onInherit, createDerived, hm] <;>
    (try rfl) <;>
    (cases getRelativeInterface mroOf exist S D v <;> rfl)

/-- **The full statement fails**: when a base change makes the reference derive from a definer
with another mode (`Sub(Bone, Btwo)`, `Bone.r` absolute, `Btwo.r = Btwo` auto, then
`Sub.remove_bases(Bone)`), the stale mode decides: `Sub.r` stays `absolute` and denotes `Btwo`. -/
theorem mode_stable_full_fails :
    ¬ ∀ (mroOf : Path → List Path) (exist : Path → Bool) (r : DRef) (definerMode : Mode) (S D v : Path),
        reinherit mroOf exist r S D (.obj v) =
          reinherit mroOf exist (createDerived definerMode) S D (.obj v) := by
  intro h
  have := h (fun p => if p = ["Sub"] then [["Sub"], ["Btwo"]] else [p]) (fun _ => true)
    ⟨.absolute, ⟨.obj ["Bone"], false⟩⟩ .auto ["Sub"] ["Btwo"] ["Btwo"]
  revert this
  decide

/-! ## ItemSpace trees: `DynBaseRefDict.wrap_impl` -/

/-- **any object inside the base's tree → the corresponding object of the dynamic tree**, for
every dynamic space `owner` of the tree that holds the reference: the ItemSpace itself for the
base (`rel = []`, also when the reference lives in a nested child), otherwise the same relative
name below the ItemSpace. -/
theorem dynamic_rebind (existsRel : Path → Bool) (root owner : Path) (rel : List String)
    (m : Mode) (defined : Bool) (hroot : root ≠ []) (hex : existsRel rel = true) :
    wrapImpl existsRel root owner ⟨m, true, defined, .obj (root ++ rel)⟩ = .dyn rel := by
  unfold wrapImpl
  by_cases h : rel = []
  · subst h; simp
  · have : root ≠ root ++ rel := by
      intro e
      have := congrArg List.length e
      simp at this
      exact h this
    simp [this, wrapLookup_inside root rel hroot, hex]

/-- **The full statement fails** without the flag: a reference that the base's tree *derives* from
a space outside it, bound absolutely there (its target is not in that definer's tree), is not
rebound although its mode is `auto` and its target lies inside the ItemSpace's base. -/
theorem dynamic_rebind_full_fails :
    ¬ ∀ (existsRel : Path → Bool) (root owner : Path) (rel : List String) (flag defined : Bool),
        root ≠ [] → existsRel rel = true →
        wrapImpl existsRel root owner ⟨.auto, flag, defined, .obj (root ++ rel)⟩ = .dyn rel := by
  intro h
  have := h (fun _ => true) ["Base"] ["Ch"] [] false false (by decide) rfl
  revert this
  decide

/-- **absolute mode** (the flag is `False`): the base's reference itself – the original object -/
theorem dynamic_absolute (existsRel : Path → Bool) (root owner : Path) (m : Mode) (defined : Bool)
    (t : Target) :
    wrapImpl existsRel root owner ⟨m, false, defined, t⟩ = .keep := by
  unfold wrapImpl
  cases t <;> rfl

/-- **outside the base's tree**: a *defined* `auto` reference keeps denoting the original object,
a `relative` one is rejected – provided the names do not merely share a string prefix -/
theorem dynamic_outside_partial (existsRel : Path → Bool) (root owner impl : Path)
    (h1 : ¬ root <+: impl) (h2 : ¬ NameClash root impl) :
    wrapImpl existsRel root owner ⟨.auto, true, true, .obj impl⟩ = .keep ∧
    wrapImpl existsRel root owner ⟨.relative, true, true, .obj impl⟩ = .reject ∧
    wrapImpl existsRel root owner ⟨.relative, true, false, .obj impl⟩ = .reject := by
  have hne : root ≠ impl := fun e => h1 (e ▸ List.prefix_refl _)
  simp [wrapImpl, hne, wrapLookup_outside h1 h2]

/-- **The full statement fails** twice: (1) an `auto` reference that is *derived* in the base
space (the base derives it from another space) with `is_relative` set – because its target is
relative to an enclosing pair of spaces, or because `change_ref` left the flag stale – and a
target outside the ItemSpace's base: `value.direct_bases[0]` raises `AttributeError` and the
ItemSpace cannot be created; (2) a base named `Base` and a target `Base2.foo`: the string
slice `impl[:rootlen]` matches, `get_impl_from_name(".foo")` returns `None`. -/
theorem dynamic_outside_full_fails :
    (¬ ∀ (existsRel : Path → Bool) (root owner impl : Path) (defined : Bool),
        ¬ root <+: impl → ¬ NameClash root impl →
        wrapImpl existsRel root owner ⟨.auto, true, defined, .obj impl⟩ = .keep) ∧
    (¬ ∀ (existsRel : Path → Bool) (root owner impl : Path),
        ¬ root <+: impl →
        wrapImpl existsRel root owner ⟨.auto, true, true, .obj impl⟩ = .keep) := by
  constructor
  · intro h
    have := h (fun _ => false) ["Sub"] ["Sub"] ["Out", "oo"] false (by decide)
      (by
        rintro ⟨pre, r, i, rest, h1, h2, _, _⟩
        cases pre with
        | nil =>
          simp only [List.nil_append, List.cons.injEq, and_true] at h1
          subst h1
          simp only [List.nil_append, List.cons.injEq] at h2
          obtain ⟨rfl, _⟩ := h2
          contradiction
        | cons x pre' =>
          have := congrArg List.length h1
          simp at this)
    revert this
    decide
  · intro h
    have := h (fun _ => false) ["Base"] ["Base"] ["Base2", "foo"] (by decide)
    revert this
    decide

/-! ## non-vacuity: concrete instances of the hypotheses and of the rebinding -/

/-- `M.P.Sub` derives `M.Q.Def`; `M.P.Sub.Ch` derives `M.Q.Def.Ch` -/
def demoMro : Path → List Path
  | ["P", "Sub"] => [["P", "Sub"], ["Q", "Def"]]
  | ["P", "Sub", "Ch"] => [["P", "Sub", "Ch"], ["Q", "Def", "Ch"]]
  | p => [p]

example : Outermost demoMro ["P", "Sub", "Ch"] ["Q", "Def", "Ch"] ["P", "Sub"] ["Q", "Def"] ["Ch"] := by
  refine ⟨⟨rfl, rfl, by decide⟩, ?_⟩
  intro rs' rb' t' h
  have h1 : t' <:+ ["P", "Sub", "Ch"] := ⟨rs', h.1.symm⟩
  have h2 : t' <:+ ["Q", "Def", "Ch"] := ⟨rb', h.2.1.symm⟩
  have := (suffix_lcs t' _ _ h1 h2).length_le
  have e : lcs ["P", "Sub", "Ch"] ["Q", "Def", "Ch"] = ["Ch"] := by decide
  rw [e] at this
  simpa using this

example : getRelative demoMro ["P", "Sub", "Ch"] ["Q", "Def", "Ch"] ["Q", "Def", "foo"]
    = .some ["P", "Sub", "foo"] := by decide
example : getRelative demoMro ["P", "Sub"] ["Q", "Def"] ["Q", "Def", "Ch", "dd"]
    = .some ["P", "Sub", "Ch", "dd"] := by decide
example : getRelative demoMro ["P", "Sub"] ["Q", "Def"] ["Q", "Out", "oo"] = .none := by decide
example : Clean ["P", "Sub"] ∧ NoSuffixClash ["P", "Sub"] ["Q", "Def"] ∧ ["Q", "Def"] ∈ demoMro ["P", "Sub"] := by
  decide
example : onInherit demoMro (fun p => p == ["P", "Sub", "cc"]) .relative ["P", "Sub"] ["Q", "Def"]
    (.obj ["Q", "Def", "cc"]) ⟨.plain 0, true⟩ = .bound ⟨.obj ["P", "Sub", "cc"], true⟩ := by decide
example : onInherit demoMro (fun _ => false) .auto ["P", "Sub"] ["Q", "Def"]
    (.obj ["Q", "Def", "Ch"]) ⟨.plain 0, true⟩ = .bound ⟨.null, true⟩ := by decide
example : onInherit demoMro (fun _ => true) .relative ["P", "Sub"] ["Q", "Def"]
    (.obj ["Out"]) ⟨.plain 0, true⟩ = .reject := by decide
example : newRefSub demoMro (fun _ => true) .auto ["P", "Sub"] ["Q", "Def"] (.obj ["Q", "Def"])
    = some ⟨.auto, ⟨.obj ["P", "Sub"], true⟩⟩ := by decide
example : checkSubRelref demoMro .relative ["P", "Sub"] ["Q", "Def"] (.obj ["Q", "Def", "cc"]) = false := by
  decide
/-- a reference held by the grandchild `Base.Ch.Gr` whose value is the base `Base` itself -/
example : wrapImpl (fun _ => true) ["Base"] ["Ch", "Gr"] ⟨.auto, true, true, .obj ["Base"]⟩ = .dyn [] := by
  decide
example : wrapImpl (fun _ => true) ["Base"] ["Ch"] ⟨.relative, true, true, .obj ["Base", "Ch", "Gr", "ee"]⟩
    = .dyn ["Ch", "Gr", "ee"] := by decide
example : ¬ ["Base"] <+: ["Out", "oo"] ∧ ¬ NameClash ["Base"] ["Out", "oo"] := by
  refine ⟨by decide, ?_⟩
  rintro ⟨pre, r, i, rest, h1, h2, _, h4⟩
  cases pre with
  | nil =>
    simp only [List.nil_append, List.cons.injEq, and_true] at h1
    subst h1
    simp only [List.nil_append, List.cons.injEq] at h2
    obtain ⟨rfl, _⟩ := h2
    revert h4; decide
  | cons x pre' =>
    have := congrArg List.length h1
    simp at this

end MxModel.C10
