import MxModel.Props.C03
import MxModel.Props.C02
import MxModel.Proofs.StructMechCor
import MxModel.Proofs.StructMechLive
/-!
# C13 – deletion is complete (structural part)

In derivation from scratch a derived member exists only while a space of the linearisation
defines the name.  Hence every way a deletion is triggered – deleting the defining cells or
reference, removing the base relation, deleting the base space (the linearisation then no
longer contains it) – removes the derived copies that have no other definer, and keeps those
that have one.  That modelx's incremental maintenance agrees with derivation from scratch is
C03's correspondence and, for the mechanism model, the theorem `C03.mech_refines_derivation`; its
consequences for deletion are below (`no_orphan_derived`, `deleted_member_not_defined`,
`deleted_space_leaves_no_trace`).  That old handles raise is decided by the implementation-only
oracle of this check.

**Value layer** (last section; mechanism model `Exec/Mech.lean`, proofs in
`Proofs/ExecCertCellsDel.lean`): a cells that does not exist holds nothing and has no node in either
graph – in every reachable state (`reachable_dead_cells_have_nothing`) and right after its deletion
(`deleted_cells_holds_nothing`); no element that depended on it, directly or through other elements,
holds a value after the deletion (`deleted_cells_dependents_hold_nothing`); everything that is not
a descendant of a seed of the deletion keeps its value and its input mark
(`delete_keeps_independent_values`), and the bound is exact (`delete_clears_exactly`).  `St.delCell`
is tied to `SpaceManager.del_cells` by the value-layer correspondence of C02's check (values, trace
graph, reference graph after every operation).
-/
namespace MxModel.C13
open MxModel.C3 MxModel.Struct

variable {α : Type} [DecidableEq α]

/-- **A derived copy does not survive its last definer**: if no space of the linearisation
defines `x` (any more), the space has no derived `x`. -/
theorem derived_gone_without_definer (tail : List α) (defs : α → List String) (own : List String)
    (x : String) (h : ∀ b ∈ tail, x ∉ defs b) : x ∉ (derive tail defs own).map (·.1) := by
  intro hx
  obtain ⟨_, b, hb, hxb⟩ := (C03.derived_iff tail defs own x).mp hx
  exact h b hb hxb

/-- **…and survives as long as another definer remains** (deleting one of two definers, or
removing one of two bases, keeps the derived member, now from the other one). -/
theorem derived_kept_with_other_definer (tail : List α) (defs : α → List String) (own : List String)
    (x : String) (b : α) (hb : b ∈ tail) (hx : x ∈ defs b) (hown : x ∉ own) :
    x ∈ (derive tail defs own).map (·.1) :=
  (C03.derived_iff tail defs own x).mpr ⟨hown, b, hb, hx⟩

/-- **A removed base relation removes the base from the linearisation** unless it is still
reachable through another base: every member of the linearisation is a direct base or a
member of a direct base's linearisation. -/
theorem linearisation_members (bases : α → List α) (d : Nat) (s : α) (r : List α)
    (h : mro bases (d + 1) s = some (s :: r)) (x : α) (hx : x ∈ r) :
    x ∈ bases s ∨ ∃ b ∈ bases s, ∃ lb, mro bases d b = some lb ∧ x ∈ lb :=
  C03.linearisation_only_ancestors bases d s r h x hx

/-! Non-vacuity: `D(B, C)`, `f` defined in `A` and `C`: deleting `C.f` keeps `D.f` (now from `A`),
deleting both removes it. -/
example : (derive ["B", "C", "A"] (fun s => if s = "A" then ["f"] else []) []).map (·.1) = ["f"] := by decide
example : (derive ["B", "C", "A"] (fun _ => ([] : List String)) []).map (·.1) = [] := by decide

/-! ## The mechanism: after any deletion no member without definer survives -/

section mechanism
open MxModel.SM

/-- **No derived member survives without a definer** – in every reachable state, in particular in
the state right after `delCells`, `delRef`, `delSpace` or `removeBases`: a derived member of `q`
is the copy of a definition that exists *now* in a space of `q`'s *current* linearisation. -/
theorem no_orphan_derived (kw : List String) (ops : List Op) (a : Attr) (q : Path) (n : String)
    (m : Member) (hm : (St.run kw {} ops).mem a q n = some m) (hd : m.derived = true) :
    ∃ b ∈ (St.run kw {} ops).tail q, (St.run kw {} ops).defd a b n = some m.payload := by
  obtain ⟨b, hb⟩ := (C03.mech_derived_from_first_definer kw ops a q n).1 m hm hd
  obtain ⟨h1, h2⟩ := firstDef_some _ a _ n b _ hb
  exact ⟨b, h1, h2⟩

/-- **A deleted cells / reference is gone from its space** as a definition; whatever the space
still holds under the name is (by `no_orphan_derived`) the derived copy of another definition. -/
theorem deleted_member_not_defined (kw : List String) (ops : List Op) (a : Attr) (p : Path) (name : String)
    (st' : St) (hop : (St.run kw {} ops).delMember a p name = some st') : st'.defd a p name = none :=
  defd_delMember _ st' (run_inv kw ops).wf.keys a p name hop

/-- … and the copies derived from it alone are gone: after the deletion a sub space has the name
only if it defines it itself or another space of its linearisation does. -/
theorem deleted_member_closure (kw : List String) (ops : List Op) (a : Attr) (p : Path) (name : String)
    (st' : St) (hop : (St.run kw {} ops).delMember a p name = some st') (q : Path)
    (hnone : ∀ b ∈ st'.tail q, st'.defd a b name = none) (hq : st'.defd a q name = none) :
    st'.mem a q name = none := by
  have hinv : Inv st' := inv_delMember _ st' (run_inv kw ops) a p name hop
  rw [hinv.mem_eq_derivation a q name, hq, (firstDef_eq_none st' a _ name).mpr hnone]
  rfl

/-- **A deleted space, with all its descendants, appears in no container, base list or
linearisation**: after an accepted `delSpace p` no space whose id has prefix `p` is a space of the
model, a direct base of a space, or a member of a linearisation. -/
theorem deleted_space_leaves_no_trace (kw : List String) (ops : List Op) (p : Path) (st' : St)
    (hop : (St.run kw {} ops).delSpace p = some st') (r : Path) (hr : isPrefix p r = true) :
    r ∉ st'.ids ∧ (∀ q, r ∉ st'.basesOf q) ∧ (∀ q, r ∉ st'.tail q) ∧
    (∀ a q n m, st'.mem a q n = some m → m.derived = true → ∃ b ∈ st'.tail q, b ≠ r ∧
      st'.defd a b n = some m.payload) := by
  have hinv : Inv st' := inv_delSpace _ st' (run_inv kw ops) p hop
  have hr' : r ∉ st'.ids := by
    intro h
    have := ((ids_delSpace _ st' p hop r).mp h).2
    rw [hr] at this; cases this
  refine ⟨hr', fun q h => hr' (hinv.wf.bases q r h), fun q h => hr' (hinv.wf.tail_mem_ids q r h), ?_⟩
  intro a q n m hm hd
  have hg := hinv.good a q n
  unfold Good1 at hg
  rw [hm] at hg
  obtain ⟨b, hb⟩ := hg hd
  obtain ⟨h1, h2⟩ := firstDef_some st' a _ n b _ hb
  exact ⟨b, h1, fun e => hr' (e ▸ hinv.wf.tail_mem_ids q b h1), h2⟩

/-- the spaces outside the deleted tree stay -/
theorem delete_keeps_the_rest (kw : List String) (ops : List Op) (p : Path) (st' : St)
    (hop : (St.run kw {} ops).delSpace p = some st') (q : Path) (hq : q ∈ (St.run kw {} ops).ids)
    (hnp : isPrefix p q = false) : q ∈ st'.ids :=
  (ids_delSpace _ st' p hop q).mpr ⟨hq, hnp⟩

/-- **Deletion deletes nothing else** (member): exactly the definitions can be deleted
(`delMember_isSome`); after an accepted deletion the spaces, their bases and every OTHER definition -
other names, other spaces, the other kind of member - are what they were.  With `no_orphan_derived` this
fixes the whole state after the deletion. -/
theorem deleted_member_frame (kw : List String) (ops : List Op) (a : Attr) (p : Path) (name : String)
    (st' : St) (hop : (St.run kw {} ops).delMember a p name = some st') :
    st'.ids = (St.run kw {} ops).ids ∧ st'.basesOf = (St.run kw {} ops).basesOf ∧
    st'.globals = (St.run kw {} ops).globals ∧
    ∀ a' q n', ¬ (q = p ∧ a' = a ∧ n' = name) → st'.defd a' q n' = (St.run kw {} ops).defd a' q n' := by
  obtain ⟨hs, hu⟩ := delMember_spec _ st' (run_inv kw ops).wf.keys a p name hop
  refine ⟨hs.ids, hs.basesOf, hs.globals, ?_⟩
  intro a' q n' hc
  rw [hu a' q n']; simp [hc]

/-- **Deletion deletes nothing else** (space): the surviving spaces keep every definition and lose
from their direct bases exactly the removed spaces; the model-level references stay -/
theorem deleted_space_frame (kw : List String) (ops : List Op) (p : Path) (st' : St)
    (hop : (St.run kw {} ops).delSpace p = some st') (q : Path) (hnp : isPrefix p q = false) :
    (∀ a n, st'.defd a q n = (St.run kw {} ops).defd a q n) ∧
    st'.basesOf q = ((St.run kw {} ops).basesOf q).filter (fun b => !((St.run kw {} ops).removedBy p).contains b) ∧
    st'.globals = (St.run kw {} ops).globals := by
  have D := delSpace_spec _ st' (run_inv kw ops).wf.keys p hop
  refine ⟨fun a n => by rw [D.defs a q n]; simp [hnp], by rw [D.basesOf q]; simp [hnp], D.globals⟩

/-! Non-vacuity: `D(B, C)`, `B(A)`, `C(A)`, `f` defined in `A` and `C`; a child `A.K` with a sub
space `E(A.K)`.  Deleting `C.f` keeps `D.f` (now from `A`); deleting `A.f` too removes it;
deleting `A` removes `A` and `A.K` from every base list and linearisation and the members
derived from them. -/
def delOps : List Op := [
  .newSpace [] "A" [] [], .newCells ["A"] "f" "f" 1, .newSpace [] "B" [["A"]] [], .newSpace [] "C" [["A"]] [],
  .setFormula ["C"] "f" 2, .newSpace [] "D" [["B"], ["C"]] [], .newSpace ["A"] "K" [] [],
  .newCells ["A", "K"] "g" "g" 5, .newSpace [] "E" [["A", "K"]] []]

example : (St.run [] {} delOps).mem .cells ["E"] "g" = some { derived := true, payload := 5 } := by decide
example : (St.run [] {} (delOps ++ [.delCells ["C"] "f"])).mem .cells ["D"] "f"
    = some { derived := true, payload := 1 } := by decide
example : (St.run [] {} (delOps ++ [.delCells ["C"] "f", .delCells ["A"] "f"])).mem .cells ["D"] "f" = none := by decide
example : ((St.run [] {} delOps).step [] (.delSpace ["A"])).2 = true := by decide
example : (St.run [] {} (delOps ++ [.delSpace ["A"]])).ids = [["B"], ["C"], ["D"], ["E"]] := by decide
example : (St.run [] {} (delOps ++ [.delSpace ["A"]])).basesOf ["E"] = [] := by decide
example : (St.run [] {} (delOps ++ [.delSpace ["A"]])).mem .cells ["E"] "g" = none := by decide
example : (St.run [] {} (delOps ++ [.delSpace ["A"]])).tail ["D"] = [["B"], ["C"]] := by decide
example : (St.run [] {} (delOps ++ [.delSpace ["A"]])).mem .cells ["D"] "f"
    = some { derived := true, payload := 2 } := by decide

end mechanism

/-! ## Value layer: no value, no graph node of a deleted cells; dependents cleared; the rest kept -/
section values
open MxModel.Exec

/-- **A cells that does not exist has nothing** – in ANY state with the certificate invariant: no
element of it is held or marked as input, no node of it (element or object node) is in the trace
graph, no edge touches one, no reference-graph edge ends in one of its elements. -/
theorem dead_cells_have_nothing (env : Env) (lt : Node → Node → Prop) (s : Exec.St) (h : CI env lt s)
    (c : CellId) (hd : env.alive c = false) :
    (∀ n : Node, n.1 = c → lookup s.data n = none ∧ n ∉ s.inputs) ∧
    (∀ x ∈ s.gn, x.cell ≠ c) ∧
    (∀ a b, (a, b) ∈ s.ge → a.cell ≠ c ∧ b.cell ≠ c) ∧
    (∀ e ∈ s.rg, e.2.1 ≠ c) :=
  dead_has_nothing h c hd

/-- …hence in every state reachable by evaluations, value / reference / formula edits and
deletions / creations of cells (the regime of `C02.reachable_ci`). -/
theorem reachable_dead_cells_have_nothing (lt : Node → Node → Prop) (ho : StrictOrder lt) (env0 : Env)
    (hw0 : C02.WF env0 lt) (ops : List C02.Op) (hadm : C02.Admissible lt (env0, {}) ops) (c : CellId)
    (hd : (C02.run (env0, {}) ops).1.alive c = false) :
    (∀ n : Node, n.1 = c → lookup (C02.run (env0, {}) ops).2.data n = none) ∧
    (∀ x ∈ (C02.run (env0, {}) ops).2.gn, x.cell ≠ c) ∧
    (∀ e ∈ (C02.run (env0, {}) ops).2.rg, e.2.1 ≠ c) :=
  have := dead_has_nothing (C02.reachable_ci lt ho env0 hw0 ops hadm).1 c hd
  ⟨fun n hn => (this.1 n hn).1, this.2.1, this.2.2.2⟩

/-- **Right after `del space.c`** (`St.delCell`) nothing of `c` is left: no value, no input mark,
no node, no edge, no reference-graph edge into it. -/
theorem deleted_cells_holds_nothing (env : Env) (lt : Node → Node → Prop) (s : Exec.St) (h : CI env lt s)
    (c : CellId) :
    (∀ n : Node, n.1 = c → lookup (s.delCell env c).data n = none ∧ n ∉ (s.delCell env c).inputs) ∧
    (∀ x ∈ (s.delCell env c).gn, x.cell ≠ c) ∧
    (∀ a b, (a, b) ∈ (s.delCell env c).ge → a.cell ≠ c ∧ b.cell ≠ c) ∧
    (∀ e ∈ (s.delCell env c).rg, e.2.1 ≠ c) := by
  have h' : CI (env.withAlive c false) lt (s.delCell env c) :=
    delCell_ci h (C02.batchEdit_withAlive env c false) (fun c' _ hne => by simp [Env.withAlive, hne])
  exact dead_has_nothing h' c (by simp [Env.withAlive])

/-- **No element that depended on the deleted cells holds a value** – transitively: every
descendant in the trace graph of a node of `c` (an element, or the object node of an uncached `c`)
is gone; read off the certificates: an element whose formula called an element of `c`, directly
or inside an uncached callee, is gone. -/
theorem deleted_cells_dependents_hold_nothing (env : Env) (lt : Node → Node → Prop) (s : Exec.St)
    (h : CI env lt s) (c : CellId) :
    (∀ a y, a ∈ s.gn → a.cell = c → Reach s.ge a y →
      y ∉ (s.delCell env c).gn ∧ ∀ m, y = .elem m → lookup (s.delCell env c).data m = none ∧
        m ∉ (s.delCell env c).inputs) ∧
    (∀ n v tr, Cert env s n v tr → ∀ m : Node, m.1 = c →
      ((∃ w, FEv.call m w ∈ flat n.1 tr) ∨ FEv.ucall m ∈ flat n.1 tr) →
      lookup (s.delCell env c).data n = none) :=
  ⟨fun a y ha hac hr => delCell_descendants s h.gi.edgeOK c a y ha hac hr,
   fun n v tr hcert m hm hev => delCell_callers h c n v tr hcert m hm hev⟩

/-- **Everything else keeps its value.**  The seeds of the deletion of `c` (`DelSeed`): the nodes
of `c`; the COMPUTED elements of the cached cells of `c`'s space (namespace notification – their
inputs are no seeds); the nodes of the uncached cells of `c`'s space.  An element that is not a
descendant of a seed – i.e. neither of `c`, nor computed from `c`, nor a computed element of `c`'s
space or computed from one – has the same value and the same input mark after the deletion. -/
theorem delete_keeps_independent_values (env : Env) (lt : Node → Node → Prop) (s : Exec.St)
    (h : CI env lt s) (c : CellId) (m : Node)
    (hm : ∀ a, DelSeed env s c a → ¬ Reach s.ge a (.elem m)) :
    lookup (s.delCell env c).data m = lookup s.data m ∧ (m ∈ (s.delCell env c).inputs ↔ m ∈ s.inputs) :=
  (delCell_kept s h.gi.edgeOK c (.elem m) hm).data m rfl

/-- **…and exactly that survives**: an element is cleared iff it is a descendant of a seed. -/
theorem delete_clears_exactly (env : Env) (lt : Node → Node → Prop) (s : Exec.St) (h : CI env lt s)
    (c : CellId) (m : Node) :
    ((∃ a, DelSeed env s c a ∧ Reach s.ge a (.elem m)) →
      lookup (s.delCell env c).data m = none ∧ m ∉ (s.delCell env c).inputs) ∧
    ((¬ ∃ a, DelSeed env s c a ∧ Reach s.ge a (.elem m)) →
      lookup (s.delCell env c).data m = lookup s.data m ∧ (m ∈ (s.delCell env c).inputs ↔ m ∈ s.inputs)) :=
  delCell_exact h c m

/-! Non-vacuity (program of `C02.xEnv`: `c0`, uncached `c1`, `c3` in space 0, `c2` in space 1; `c3 → c2 →
c1 → c0`).  After evaluating `c3()`, `c0(5)` and assigning `c2(7) := 1`, `c0(9) := 100`: deleting `c2`
(space 1) clears `c2(1)` and its dependent `c3()`, keeps the elements of `c0` – inputs and computed –
and the state has no node of `c2`; deleting `c0` (space 0) clears every element of `c0`, the input
`c0(9)` included, and – through the notification of space 0 – `c3()`, keeps the input `c2(7)` of the
other space and drops `c2(1)`, which was computed from `c0` through the uncached `c1`. -/
def vState : Env × Exec.St :=
  C02.run (C02.xEnv, {}) [.eval (3, []), .eval (0, [.int 5]), .setValue (2, [.int 7]) (.int 1),
    .setValue (0, [.int 9]) (.int 100)]

example : (vState.2.data.map (·.1)) =
      [(0, [.int 9]), (2, [.int 7]), (0, [.int 5]), (3, []), (2, [.int 1]), (0, [.int 1])] ∧
    ((vState.2.delCell vState.1 2).data.map (·.1)) = [(0, [.int 9]), (0, [.int 5]), (0, [.int 1])] ∧
    ((vState.2.delCell vState.1 2).gn.all (fun x => x.cell != 2)) = true ∧
    ((vState.2.delCell vState.1 0).data.map (·.1)) = [(2, [.int 7])] ∧
    (vState.2.delCell vState.1 0).inputs = [(2, [.int 7])] ∧
    (vState.2.delCell vState.1 0).rg = [] := by
  decide

end values

/-! ## Inheritance: which namespaces an edit of a member changes -/
section inheritance
open MxModel.SM

/-- **An edit of a member of space `p` – `new_cells`, a new formula, `del_cells` / `del_ref` – changes
the member tables, hence the namespaces, of `p` and of the sub spaces the mechanism walks only**
(`SM.St.touched st p = p :: st.subs p`): every other space has literally the same cells and
references, the spaces, the base relation and the model-level references are unchanged. -/
theorem member_edit_changes_only_touched_spaces (kw : List String) (st st' : SM.St) (p : Path) (name : String)
    (v : Nat) (a0 : Attr)
    (hop : st.newCells kw p name v = some st' ∨ st.setFormula p name v = some st' ∨
      st.delMember a0 p name = some st') :
    SM.Frame st st' p ∧
    (∀ a q n, st'.mem a q n ≠ st.mem a q n → q ∈ st.touched p) ∧
    (∀ (ids : SM.Ids) q, SM.nsOf ids st' q ≠ SM.nsOf ids st q → q ∈ st.touched p) := by
  have hf : SM.Frame st st' p := by
    rcases hop with h | h | h
    · exact newCells_frame kw st st' p name v h
    · exact setFormula_frame st st' p name v h
    · exact delMember_frame st st' a0 p name h
  exact ⟨hf, fun a q n hne => hf.changed_mem a q n hne, fun ids q hne => nsOf_changed_in_touched ids hf q hne⟩

/-- **…so the deletion of a cells that sub spaces inherit leaves no stale value in the sub spaces
either**: the cells that go – the deleted one and its derived copies, `CL` – are cleared by
`clear_obj`; the cells `L` are notified; every cells living in `p` or in a sub space of `p` is
notified or cleared; those not cleared that hold an input still exist.  Then every value held
afterwards is a denotation under the definitions resolved in the NEW namespaces. -/
theorem deleted_member_leaves_no_stale_value_in_subs (se : Exec.SEnv) (ids : SM.Ids) (pathOf : Nat → Path)
    (st st' : SM.St) (p : Path) (name : String) (hop : st.delMember .cells p name = some st')
    (CL L : List Exec.CellId) (lt : Exec.Node → Exec.Node → Prop) (s : Exec.St)
    (h : Exec.CI (SM.withStruct se ids pathOf st).toEnv lt s)
    (hL : ∀ c, pathOf (se.home c) ∈ st.touched p → c ∈ L ∨ c ∈ CL)
    (hinp : ∀ n ∈ s.inputs, pathOf (se.home n.1) ∈ st.touched p → n.1 ∉ CL →
      (SM.withStruct se ids pathOf st').toEnv.alive n.1 = true) :
    Exec.Good (SM.withStruct se ids pathOf st').toEnv
      (Exec.inpOf ((CL.foldl Exec.St.clearObj s).notifyAll (SM.withStruct se ids pathOf st).toEnv L))
      ((CL.foldl Exec.St.clearObj s).notifyAll (SM.withStruct se ids pathOf st).toEnv L) :=
  (SM.mech_edit_cleared_ci se ids pathOf st st' p (delMember_frame st st' .cells p name hop) CL L h hL hinp).good

/-! Non-vacuity: `A` defines `f`; `B(A)` and `D(B)` inherit it, `C` is unrelated.  `A.new_cells("g")`
touches `A`, `B`, `D` – `g` becomes visible there – and nothing of `C`; `del A.f` likewise. -/
def iOps : List SM.Op :=
  [.newSpace [] "A" [] [], .newSpace [] "B" [["A"]] [], .newSpace [] "C" [] [], .newSpace [] "D" [["B"]] [],
   .newCells ["A"] "f" "f" 1, .newCells ["C"] "h" "h" 2]

def iIds : SM.Ids := ⟨fun q x => q.length * 100 + x.length, fun _ _ => 0, fun _ => 0⟩

example : (SM.St.run [] {} iOps).touched ["A"] = [["A"], ["B"], ["D"]] ∧
    (SM.nsOf iIds (SM.St.run [] {} (iOps ++ [.newCells ["A"] "g" "g" 3])) ["D"] "g").isSome = true ∧
    (SM.nsOf iIds (SM.St.run [] {} iOps) ["D"] "g").isSome = false ∧
    (SM.nsOf iIds (SM.St.run [] {} (iOps ++ [.delCells ["A"] "f"])) ["D"] "f").isSome = false ∧
    (SM.nsOf iIds (SM.St.run [] {} iOps) ["D"] "f").isSome = true ∧
    (SM.St.run [] {} (iOps ++ [.newCells ["A"] "g" "g" 3])).cont .cells ["C"] = (SM.St.run [] {} iOps).cont .cells ["C"] := by
  decide

end inheritance


/-! ## Structure and values together: after a deletion in a base nothing of a derived copy is held

In the combined machine (`Edit/Machine.lean`; `C02.machine_keeps_ci`) a cells identity stands for a
member `(space, name)`; it exists exactly while the structure has that member.  So in every state with
the combined invariant – in particular after `del base.f`, `del model.Base`, `remove_bases`, which make
the DERIVED copies in the sub spaces vanish (`derived_gone_without_definer`) – no element of a pair
that is no member holds a value, is marked as input, or has a node or an edge in either graph. -/
section combined
open MxModel.Exec

/-- **a `(space, name)` that is no cells of the structure holds nothing** -/
theorem nonmember_holds_nothing (P : Edit.Params) (lt : Node → Node → Prop) (w : Edit.W) (h : Edit.CIW P lt w)
    (q : SM.Path) (n : String) (hm : w.sm.mem .cells q n = none) :
    (∀ key : Key, lookup w.ex.data (w.tabs.cid q n, key) = none ∧ (w.tabs.cid q n, key) ∉ w.ex.inputs) ∧
    (∀ x ∈ w.ex.gn, x.cell ≠ w.tabs.cid q n) ∧
    (∀ a b, (a, b) ∈ w.ex.ge → a.cell ≠ w.tabs.cid q n ∧ b.cell ≠ w.tabs.cid q n) ∧
    (∀ e ∈ w.ex.rg, e.2.1 ≠ w.tabs.cid q n) := by
  have hd : (w.env P).alive (w.tabs.cid q n) = false := by
    rw [Edit.alive_cid P w h.alloc q n, hm]; rfl
  obtain ⟨h1, h2, h3, h4⟩ := dead_has_nothing h.ci _ hd
  exact ⟨fun key => h1 (_, key) rfl, h2, h3, h4⟩

/-- the identity of a member does not change when the structure is edited -/
theorem identity_stable (P : Edit.Params) (w : Edit.W) (ha : Edit.AllocOK w.tabs w.sm) (op : Edit.Op)
    (q : SM.Path) (n : String) (hm : (w.sm.mem .cells q n).isSome = true) :
    (Edit.step P w op).tabs.cid q n = w.tabs.cid q n := by
  cases op with
  | struct o =>
    simp only [Edit.step]
    split
    · cases hop : w.sm.apply P.kw o with
      | none => rfl
      | some st' => exact (Edit.ext_grow w.tabs st').cid q n (ha.cells q n hm)
    · rfl
  | eval q' n' key => simp only [Edit.step]; split <;> rfl
  | setValue q' n' key v => simp only [Edit.step]; split <;> rfl
  | clearAt q' n' key => rfl
  | clear q' n' => rfl
  | clearAll q' n' => rfl

/-- **`del base.f`** (`del_cells`): the state after it has the invariant, and every `(q, f)` that is no
member any more – `base` itself unless another base of it defines `f`, and every sub space whose only
definer was `base` – holds nothing, under the identity it had. -/
theorem deleted_base_cells_leaves_nothing_in_subs (P : Edit.Params) (lt : Node → Node → Prop)
    (ho : StrictOrder lt) (w : Edit.W) (p : SM.Path) (name : String) (hw : C02.WF (w.env P) lt)
    (h : Edit.CIW P lt w) (q : SM.Path)
    (hgone : (Edit.step P w (.struct (.delCells p name))).sm.mem .cells q name = none) :
    Edit.CIW P lt (Edit.step P w (.struct (.delCells p name))) ∧
    (∀ key : Key, lookup (Edit.step P w (.struct (.delCells p name))).ex.data
        ((Edit.step P w (.struct (.delCells p name))).tabs.cid q name, key) = none) ∧
    (∀ x ∈ (Edit.step P w (.struct (.delCells p name))).ex.gn,
        x.cell ≠ (Edit.step P w (.struct (.delCells p name))).tabs.cid q name) := by
  have h' := C02.machine_keeps_ci P lt ho w (.struct (.delCells p name)) hw h
  obtain ⟨h1, h2, _, _⟩ := nonmember_holds_nothing P lt _ h' q name hgone
  exact ⟨h', fun key => (h1 key).1, h2⟩

/-- **`del model.Base`** (`del_defined_space`): nothing of any cells of the deleted space or of a space
below it is held -/
theorem deleted_space_leaves_nothing (P : Edit.Params) (lt : Node → Node → Prop) (ho : StrictOrder lt)
    (w : Edit.W) (p : SM.Path) (hw : C02.WF (w.env P) lt) (h : Edit.CIW P lt w)
    (hacc : (w.sm.apply P.kw (.delSpace p)).isSome = true) (q : SM.Path) (hq : SM.isPrefix p q = true)
    (x : String) :
    Edit.CIW P lt (Edit.step P w (.struct (.delSpace p))) ∧
    (∀ key : Key, lookup (Edit.step P w (.struct (.delSpace p))).ex.data
        ((Edit.step P w (.struct (.delSpace p))).tabs.cid q x, key) = none) ∧
    (∀ y ∈ (Edit.step P w (.struct (.delSpace p))).ex.gn,
        y.cell ≠ (Edit.step P w (.struct (.delSpace p))).tabs.cid q x) := by
  have h' := C02.machine_keeps_ci P lt ho w (.struct (.delSpace p)) hw h
  have hgone : (Edit.step P w (.struct (.delSpace p))).sm.mem .cells q x = none := by
    cases hop : w.sm.apply P.kw (.delSpace p) with
    | none => rw [hop] at hacc; cases hacc
    | some st' =>
      have hsm : (Edit.step P w (.struct (.delSpace p))).sm = st' := by
        simp [Edit.step, Edit.supported, hop]
      rw [hsm]
      have D := SM.delSpaceOp_spec w.sm st' (Edit.keysOK_of_inv h.inv) p hop
      apply SM.St.mem_of_not_mem
      intro hin
      have := ((D.ids q).mp hin).2
      rw [hq] at this; cases this
  obtain ⟨h1, h2, _, _⟩ := nonmember_holds_nothing P lt _ h' q x hgone
  exact ⟨h', fun key => (h1 key).1, h2⟩

/-- …in every state the combined machine reaches -/
theorem reachable_nonmembers_hold_nothing (P : Edit.Params) (lt : Node → Node → Prop) (ho : StrictOrder lt)
    (ops : List Edit.Op) (hadm : Edit.Admissible P lt {} ops) (q : SM.Path) (n : String)
    (hm : (Edit.run P {} ops).sm.mem .cells q n = none) (key : Key) :
    lookup (Edit.run P {} ops).ex.data ((Edit.run P {} ops).tabs.cid q n, key) = none :=
  ((nonmember_holds_nothing P lt _ (C02.machine_reachable_ci P lt ho ops hadm).1 q n hm).1 key).1

/-! Non-vacuity (`Edit.dOps`): `Base.f = y * 2`, `Base.y = 1`, `Sub(Base)`; `Sub.f()` is evaluated (2, held
under identity 1); `del Base.f` – `Sub` has no `f` any more and NOTHING is held; `Base.f` is created
again (`y * 3`), `Sub.f()` is 3; `del model.Base` – `Sub` has lost `f` again, nothing is held. -/
example : (Edit.run Edit.eP {} (Edit.dOps.take 5)).ex.data = [((1, []), .int 2)] ∧
    (Edit.run Edit.eP {} (Edit.dOps.take 6)).sm.mem .cells ["Sub"] "f" = none ∧
    (Edit.run Edit.eP {} (Edit.dOps.take 6)).ex.data = [] ∧
    (Edit.run Edit.eP {} (Edit.dOps.take 6)).ex.gn = [] ∧
    (Edit.run Edit.eP {} (Edit.dOps.take 8)).ex.data = [((1, []), .int 3)] ∧
    (Edit.run Edit.eP {} Edit.dOps).sm.mem .cells ["Sub"] "f" = none ∧
    (Edit.run Edit.eP {} Edit.dOps).ex.data = [] ∧ (Edit.run Edit.eP {} Edit.dOps).ex.gn = [] := by
  decide

example : Edit.CIW Edit.eP Exec.idLt (Edit.run Edit.eP {} Edit.dOps) :=
  (C02.machine_reachable_ci Edit.eP Exec.idLt Exec.idLt_strict Edit.dOps Edit.dOps_admissible).1

example (key : Key) : lookup (Edit.run Edit.eP {} Edit.dOps).ex.data
    ((Edit.run Edit.eP {} Edit.dOps).tabs.cid ["Sub"] "f", key) = none :=
  reachable_nonmembers_hold_nothing Edit.eP Exec.idLt Exec.idLt_strict Edit.dOps Edit.dOps_admissible
    ["Sub"] "f" (by decide) key

end combined

end MxModel.C13
