import MxModel.Props.C03
import MxModel.Proofs.StructMechLive
/-!
# C13 – deletion is complete (structural part)

In derivation from scratch a derived member exists only while a space of the linearisation
defines the name.  Hence every way a deletion is triggered – deleting the defining cells or
reference, removing the base relation, deleting the base space (the linearisation then no
longer contains it) – removes the derived copies that have no other definer, and keeps those
that have one.  That modelx's incremental maintenance agrees with derivation from scratch is
C03's correspondence and, for the mechanism model, the theorem `C03.mech_refines_derivation`; its
consequences for deletion are below (`no_orphan_derived`, `deleted_member_not_defined`,
`deleted_space_leaves_no_trace`).  That old handles raise and that no value computed from a deleted
object survives is decided by the implementation-only oracle of this check.
-/
namespace MxModel.C13
open MxModel.C3 MxModel.Struct

variable {α : Type} [DecidableEq α]

/-- **A derived copy does not survive its last definer**: if no space of the linearisation
defines `x` (any more), the space has no derived `x`. -/
theorem derived_gone_without_definer (tail : List α) (defs : α → List String) (own : List String)
    (x : String) (h : ∀ b ∈ tail, x ∉ defs b) : x ∉ (derive tail defs own).map (·.1) := by
  intro hx
  obtain ⟨_, b, hb, hxb⟩ := (C03.derived_iff tail defs own x).mp hx
  exact h b hb hxb

/-- **…and survives as long as another definer remains** (deleting one of two definers, or
removing one of two bases, keeps the derived member, now from the other one). -/
theorem derived_kept_with_other_definer (tail : List α) (defs : α → List String) (own : List String)
    (x : String) (b : α) (hb : b ∈ tail) (hx : x ∈ defs b) (hown : x ∉ own) :
    x ∈ (derive tail defs own).map (·.1) :=
  (C03.derived_iff tail defs own x).mpr ⟨hown, b, hb, hx⟩

/-- **A removed base relation removes the base from the linearisation** unless it is still
reachable through another base: every member of the linearisation is a direct base or a
member of a direct base's linearisation. -/
theorem linearisation_members (bases : α → List α) (d : Nat) (s : α) (r : List α)
    (h : mro bases (d + 1) s = some (s :: r)) (x : α) (hx : x ∈ r) :
    x ∈ bases s ∨ ∃ b ∈ bases s, ∃ lb, mro bases d b = some lb ∧ x ∈ lb :=
  C03.linearisation_only_ancestors bases d s r h x hx

/-! Non-vacuity: `D(B, C)`, `f` defined in `A` and `C`: deleting `C.f` keeps `D.f` (now from `A`),
deleting both removes it. -/
example : (derive ["B", "C", "A"] (fun s => if s = "A" then ["f"] else []) []).map (·.1) = ["f"] := by decide
example : (derive ["B", "C", "A"] (fun _ => ([] : List String)) []).map (·.1) = [] := by decide

/-! ## The mechanism: after any deletion no member without definer survives -/

section mechanism
open MxModel.SM

/-- **No derived member survives without a definer** – in every reachable state, in particular in
the state right after `delCells`, `delRef`, `delSpace` or `removeBases`: a derived member of `q`
is the copy of a definition that exists *now* in a space of `q`'s *current* linearisation. -/
theorem no_orphan_derived (kw : List String) (ops : List Op) (a : Attr) (q : Path) (n : String)
    (m : Member) (hm : (St.run kw {} ops).mem a q n = some m) (hd : m.derived = true) :
    ∃ b ∈ (St.run kw {} ops).tail q, (St.run kw {} ops).defd a b n = some m.payload := by
  obtain ⟨b, hb⟩ := (C03.mech_derived_from_first_definer kw ops a q n).1 m hm hd
  obtain ⟨h1, h2⟩ := firstDef_some _ a _ n b _ hb
  exact ⟨b, h1, h2⟩

/-- **A deleted cells / reference is gone from its space** as a definition; whatever the space
still holds under the name is (by `no_orphan_derived`) the derived copy of another definition. -/
theorem deleted_member_not_defined (kw : List String) (ops : List Op) (a : Attr) (p : Path) (name : String)
    (st' : St) (hop : (St.run kw {} ops).delMember a p name = some st') : st'.defd a p name = none :=
  defd_delMember _ st' (run_inv kw ops).wf.keys a p name hop

/-- … and the copies derived from it alone are gone: after the deletion a sub space has the name
only if it defines it itself or another space of its linearisation does. -/
theorem deleted_member_closure (kw : List String) (ops : List Op) (a : Attr) (p : Path) (name : String)
    (st' : St) (hop : (St.run kw {} ops).delMember a p name = some st') (q : Path)
    (hnone : ∀ b ∈ st'.tail q, st'.defd a b name = none) (hq : st'.defd a q name = none) :
    st'.mem a q name = none := by
  have hinv : Inv st' := inv_delMember _ st' (run_inv kw ops) a p name hop
  rw [hinv.mem_eq_derivation a q name, hq, (firstDef_eq_none st' a _ name).mpr hnone]
  rfl

/-- **A deleted space, with all its descendants, appears in no container, base list or
linearisation**: after an accepted `delSpace p` no space whose id has prefix `p` is a space of the
model, a direct base of a space, or a member of a linearisation. -/
theorem deleted_space_leaves_no_trace (kw : List String) (ops : List Op) (p : Path) (st' : St)
    (hop : (St.run kw {} ops).delSpace p = some st') (r : Path) (hr : isPrefix p r = true) :
    r ∉ st'.ids ∧ (∀ q, r ∉ st'.basesOf q) ∧ (∀ q, r ∉ st'.tail q) ∧
    (∀ a q n m, st'.mem a q n = some m → m.derived = true → ∃ b ∈ st'.tail q, b ≠ r ∧
      st'.defd a b n = some m.payload) := by
  have hinv : Inv st' := inv_delSpace _ st' (run_inv kw ops) p hop
  have hr' : r ∉ st'.ids := by
    intro h
    have := ((ids_delSpace _ st' p hop r).mp h).2
    rw [hr] at this; cases this
  refine ⟨hr', fun q h => hr' (hinv.wf.bases q r h), fun q h => hr' (hinv.wf.tail_mem_ids q r h), ?_⟩
  intro a q n m hm hd
  have hg := hinv.good a q n
  unfold Good1 at hg
  rw [hm] at hg
  obtain ⟨b, hb⟩ := hg hd
  obtain ⟨h1, h2⟩ := firstDef_some st' a _ n b _ hb
  exact ⟨b, h1, fun e => hr' (e ▸ hinv.wf.tail_mem_ids q b h1), h2⟩

/-- the spaces outside the deleted tree stay -/
theorem delete_keeps_the_rest (kw : List String) (ops : List Op) (p : Path) (st' : St)
    (hop : (St.run kw {} ops).delSpace p = some st') (q : Path) (hq : q ∈ (St.run kw {} ops).ids)
    (hnp : isPrefix p q = false) : q ∈ st'.ids :=
  (ids_delSpace _ st' p hop q).mpr ⟨hq, hnp⟩

/-- **Deletion deletes nothing else** (member): exactly the definitions can be deleted
(`delMember_isSome`); after an accepted deletion the spaces, their bases and every OTHER definition -
other names, other spaces, the other kind of member - are what they were.  With `no_orphan_derived` this
fixes the whole state after the deletion. -/
theorem deleted_member_frame (kw : List String) (ops : List Op) (a : Attr) (p : Path) (name : String)
    (st' : St) (hop : (St.run kw {} ops).delMember a p name = some st') :
    st'.ids = (St.run kw {} ops).ids ∧ st'.basesOf = (St.run kw {} ops).basesOf ∧
    st'.globals = (St.run kw {} ops).globals ∧
    ∀ a' q n', ¬ (q = p ∧ a' = a ∧ n' = name) → st'.defd a' q n' = (St.run kw {} ops).defd a' q n' := by
  obtain ⟨hs, hu⟩ := delMember_spec _ st' (run_inv kw ops).wf.keys a p name hop
  refine ⟨hs.ids, hs.basesOf, hs.globals, ?_⟩
  intro a' q n' hc
  rw [hu a' q n']; simp [hc]

/-- **Deletion deletes nothing else** (space): the surviving spaces keep every definition and lose
from their direct bases exactly the removed spaces; the model-level references stay -/
theorem deleted_space_frame (kw : List String) (ops : List Op) (p : Path) (st' : St)
    (hop : (St.run kw {} ops).delSpace p = some st') (q : Path) (hnp : isPrefix p q = false) :
    (∀ a n, st'.defd a q n = (St.run kw {} ops).defd a q n) ∧
    st'.basesOf q = ((St.run kw {} ops).basesOf q).filter (fun b => !((St.run kw {} ops).removedBy p).contains b) ∧
    st'.globals = (St.run kw {} ops).globals := by
  have D := delSpace_spec _ st' (run_inv kw ops).wf.keys p hop
  refine ⟨fun a n => by rw [D.defs a q n]; simp [hnp], by rw [D.basesOf q]; simp [hnp], D.globals⟩

/-! Non-vacuity: `D(B, C)`, `B(A)`, `C(A)`, `f` defined in `A` and `C`; a child `A.K` with a sub
space `E(A.K)`.  Deleting `C.f` keeps `D.f` (now from `A`); deleting `A.f` too removes it;
deleting `A` removes `A` and `A.K` from every base list and linearisation and the members
derived from them. -/
def delOps : List Op := [
  .newSpace [] "A" [] [], .newCells ["A"] "f" "f" 1, .newSpace [] "B" [["A"]] [], .newSpace [] "C" [["A"]] [],
  .setFormula ["C"] "f" 2, .newSpace [] "D" [["B"], ["C"]] [], .newSpace ["A"] "K" [] [],
  .newCells ["A", "K"] "g" "g" 5, .newSpace [] "E" [["A", "K"]] []]

example : (St.run [] {} delOps).mem .cells ["E"] "g" = some { derived := true, payload := 5 } := by decide
example : (St.run [] {} (delOps ++ [.delCells ["C"] "f"])).mem .cells ["D"] "f"
    = some { derived := true, payload := 1 } := by decide
example : (St.run [] {} (delOps ++ [.delCells ["C"] "f", .delCells ["A"] "f"])).mem .cells ["D"] "f" = none := by decide
example : ((St.run [] {} delOps).step [] (.delSpace ["A"])).2 = true := by decide
example : (St.run [] {} (delOps ++ [.delSpace ["A"]])).ids = [["B"], ["C"], ["D"], ["E"]] := by decide
example : (St.run [] {} (delOps ++ [.delSpace ["A"]])).basesOf ["E"] = [] := by decide
example : (St.run [] {} (delOps ++ [.delSpace ["A"]])).mem .cells ["E"] "g" = none := by decide
example : (St.run [] {} (delOps ++ [.delSpace ["A"]])).tail ["D"] = [["B"], ["C"]] := by decide
example : (St.run [] {} (delOps ++ [.delSpace ["A"]])).mem .cells ["D"] "f"
    = some { derived := true, payload := 2 } := by decide

end mechanism

end MxModel.C13
