import MxModel.Props.C03
/-!
# C13 – deletion is complete (structural part)

In derivation from scratch a derived member exists only while a space of the linearisation
defines the name.  Hence every way a deletion is triggered – deleting the defining cells or
reference, removing the base relation, deleting the base space (the linearisation then no
longer contains it) – removes the derived copies that have no other definer, and keeps those
that have one.  That modelx's incremental maintenance agrees with derivation from scratch is
C03's correspondence; that old handles raise and that no value computed from a deleted
object survives is decided by the implementation-only oracle of this check.
-/
namespace MxModel.C13
open MxModel.C3 MxModel.Struct

variable {α : Type} [DecidableEq α]

/-- **A derived copy does not survive its last definer**: if no space of the linearisation
defines `x` (any more), the space has no derived `x`. -/
theorem derived_gone_without_definer (tail : List α) (defs : α → List String) (own : List String)
    (x : String) (h : ∀ b ∈ tail, x ∉ defs b) : x ∉ (derive tail defs own).map (·.1) := by
  intro hx
  obtain ⟨_, b, hb, hxb⟩ := (C03.derived_iff tail defs own x).mp hx
  exact h b hb hxb

/-- **…and survives as long as another definer remains** (deleting one of two definers, or
removing one of two bases, keeps the derived member, now from the other one). -/
theorem derived_kept_with_other_definer (tail : List α) (defs : α → List String) (own : List String)
    (x : String) (b : α) (hb : b ∈ tail) (hx : x ∈ defs b) (hown : x ∉ own) :
    x ∈ (derive tail defs own).map (·.1) :=
  (C03.derived_iff tail defs own x).mpr ⟨hown, b, hb, hx⟩

/-- **A removed base relation removes the base from the linearisation** unless it is still
reachable through another base: every member of the linearisation is a direct base or a
member of a direct base's linearisation. -/
theorem linearisation_members (bases : α → List α) (d : Nat) (s : α) (r : List α)
    (h : mro bases (d + 1) s = some (s :: r)) (x : α) (hx : x ∈ r) :
    x ∈ bases s ∨ ∃ b ∈ bases s, ∃ lb, mro bases d b = some lb ∧ x ∈ lb :=
  C03.linearisation_only_ancestors bases d s r h x hx

/-! Non-vacuity: `D(B, C)`, `f` defined in `A` and `C`: deleting `C.f` keeps `D.f` (now from `A`),
deleting both removes it. -/
example : (derive ["B", "C", "A"] (fun s => if s = "A" then ["f"] else []) []).map (·.1) = ["f"] := by decide
example : (derive ["B", "C", "A"] (fun _ => ([] : List String)) []).map (·.1) = [] := by decide

end MxModel.C13
