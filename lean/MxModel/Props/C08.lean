import MxModel.Proofs.ExecEdits
import MxModel.Proofs.ExprRanked
import MxModel.Exec.Expr
/-!
# C08 – graph and cache agree; the graph is acyclic

Regime: terminating programs (`Ranked env lt` for a strict order `lt` on elements – every
call a formula can make goes to a lower element), any formula behaviour otherwise, including
handled and unhandled failures, cached and uncached cells, the depth limit.  Histories: any
interleaving of top-level evaluations (hits and misses), value assignments, `clear_at`,
`clear`, `clear_all` and `clear_obj`, from the empty model.

What is *not* proved here and is checked only by the correspondence and by the
call-recording oracle: that the predecessor set of an element is exactly the set of calls its
formula made (the model adds an edge exactly when a call returns a value – `hitEdge`,
`popEdge` – and removes them on rollback; the theorem relating this to a trace of the formula
is future work).
-/
namespace MxModel.C08
open MxModel.Exec

/-- operations of the value layer -/
inductive Op
  | eval (n : Node)
  | set (n : Node) (v : Val)
  | clearAt (n : Node)
  | clear (c : CellId)
  | clearAll (c : CellId)
  | clearObj (c : CellId)

def step (env : Env) (s : St) : Op → St
  | .eval n => (evalTop env n s).2
  | .set n v => if env.cached n.1 then (s.setValue env n v).1 else s   -- uncached: ValueError
  | .clearAt n => s.clearValueAt n true
  | .clear c => s.clearAllValues c false
  | .clearAll c => s.clearAllValues c true
  | .clearObj c => s.clearObj c

def run (env : Env) (s : St) (ops : List Op) : St := ops.foldl (step env) s

/-- idle executor -/
def Idle (s : St) : Prop := s.stack = [] ∧ s.idx = []

theorem step_inv (env : Env) (lt : Node → Node → Prop) (ho : StrictOrder lt) (hr : Ranked env lt)
    (s : St) (op : Op) (g : GI env lt s) (hi : Idle s) :
    GI env lt (step env s op) ∧ Idle (step env s op) := by
  obtain ⟨hst, hidx⟩ := hi
  cases op with
  | eval n =>
    obtain ⟨g', h1, h2, _⟩ := g.topCall ho hr hst hidx n
    exact ⟨g', h1, h2⟩
  | set n v =>
    simp only [step]
    split
    · rename_i hc
      obtain ⟨g', h1⟩ := g.setValue hst n v hc
      refine ⟨g', h1, ?_⟩
      have : ∀ s' : St, (s'.clearValueAt n true).idx = s'.idx := by
        intro s'
        unfold St.clearValueAt
        split
        · split
          · rw [clearWithDescs_eq]; split <;> rfl
          · rfl
        · rfl
      unfold St.setValue
      simp only []
      split
      · exact hidx
      · unfold St.addNode; split <;> (simp only []; rw [this]; exact hidx)
    · exact ⟨g, hst, hidx⟩
  | clearAt n =>
    refine ⟨g.clearValueAt hst n true, by simp only [step]; rw [clearValueAt_stack]; exact hst, ?_⟩
    simp only [step]
    unfold St.clearValueAt
    split
    · split
      · rw [clearWithDescs_eq]; split <;> exact hidx
      · exact hidx
    · exact hidx
  | clear c =>
    obtain ⟨g', h1⟩ := g.clearAllValues hst c false
    refine ⟨g', h1, ?_⟩
    simp only [step]
    exact clearAll_idx s c false hidx
  | clearAll c =>
    obtain ⟨g', h1⟩ := g.clearAllValues hst c true
    refine ⟨g', h1, ?_⟩
    simp only [step]
    exact clearAll_idx s c true hidx
  | clearObj c =>
    exact ⟨g.clearObj hst c, by simp [step, St.clearObj, St.dropValues, St.rgRemoveReferred, St.removeNodes, hst],
      by simp [step, St.clearObj, St.dropValues, St.rgRemoveReferred, St.removeNodes, hidx]⟩
where
  clearAll_idx (s : St) (c : CellId) (ci : Bool) (h : s.idx = []) : (s.clearAllValues c ci).idx = [] := by
    unfold St.clearAllValues
    generalize ((s.data.filter (fun e => e.1.1 == c)).map (·.1)) = keys
    induction keys generalizing s with
    | nil => exact h
    | cons k rest ih =>
      simp only [List.foldl]
      apply ih
      unfold St.clearValueAt
      split
      · split
        · rw [clearWithDescs_eq]; split <;> exact h
        · exact h
      · exact h

theorem empty_GI (env : Env) (lt : Node → Node → Prop) : GI env lt {} := by
  constructor <;> simp

/-- **Every reachable state satisfies the graph invariant**: after any finite history of
evaluations, cache hits, value edits and failed evaluations. -/
theorem reachable_inv (env : Env) (lt : Node → Node → Prop) (ho : StrictOrder lt) (hr : Ranked env lt)
    (ops : List Op) : GI env lt (run env {} ops) ∧ Idle (run env {} ops) := by
  suffices ∀ s, GI env lt s → Idle s → GI env lt (run env s ops) ∧ Idle (run env s ops) from
    this {} (empty_GI env lt) ⟨rfl, rfl⟩
  induction ops with
  | nil => intro s g hi; exact ⟨g, hi⟩
  | cons op rest ih =>
    intro s g hi
    obtain ⟨g', hi'⟩ := step_inv env lt ho hr s op g hi
    exact ih _ g' hi'

/-- **The elements present in the dependency graph are exactly the elements holding a
value** (at every reachable state). -/
theorem graph_nodes_eq_held (env : Env) (lt : Node → Node → Prop) (ho : StrictOrder lt)
    (hr : Ranked env lt) (ops : List Op) (m : Node) :
    GNode.elem m ∈ (run env {} ops).gn ↔ (lookup (run env {} ops).data m).isSome := by
  obtain ⟨g, hi⟩ := reachable_inv env lt ho hr ops
  constructor
  · intro h
    rcases g.nodesHeld m h with h' | h'
    · exact h'
    · rw [hi.1] at h'; cases h'
  · intro h; exact (g.heldNodes m h).1

/-- **The graph never mentions a cleared or deleted element**: both ends of every edge are
nodes of the graph, hence (previous theorem) held elements or uncached cells' object nodes. -/
theorem edges_between_nodes (env : Env) (lt : Node → Node → Prop) (ho : StrictOrder lt)
    (hr : Ranked env lt) (ops : List Op) (a b : GNode) (h : (a, b) ∈ (run env {} ops).ge) :
    a ∈ (run env {} ops).gn ∧ b ∈ (run env {} ops).gn :=
  (reachable_inv env lt ho hr ops).1.edgeNodes a b h

inductive Path (ge : List (GNode × GNode)) : GNode → GNode → Prop
  | single {a b} : (a, b) ∈ ge → Path ge a b
  | cons {a b c} : (a, b) ∈ ge → Path ge b c → Path ge a c

theorem path_ordered {env : Env} {lt : Node → Node → Prop} (ho : StrictOrder lt) {s : St}
    (g : GI env lt s) {a c : GNode} (p : Path s.ge a c) :
    ∃ u, c = .elem u ∧ ((∃ m, a = .elem m ∧ lt m u) ∨ (∃ c', a = .obj c')) := by
  induction p with
  | single h => exact g.edgesOrd _ _ h
  | cons h _ ih =>
    obtain ⟨t, hb, ha⟩ := g.edgesOrd _ _ h
    obtain ⟨u, hc, hbu⟩ := ih
    refine ⟨u, hc, ?_⟩
    subst hb
    rcases hbu with ⟨m, hm, hlt⟩ | ⟨c', hc'⟩
    · cases hm
      rcases ha with ⟨m', hm', hlt'⟩ | ⟨c', hc'⟩
      · exact Or.inl ⟨m', hm', ho.trans _ _ _ hlt' hlt⟩
      · exact Or.inr ⟨c', hc'⟩
    · cases hc'

/-- **The graph is acyclic.** -/
theorem graph_acyclic (env : Env) (lt : Node → Node → Prop) (ho : StrictOrder lt)
    (hr : Ranked env lt) (ops : List Op) (a : GNode) : ¬ Path (run env {} ops).ge a a := by
  intro p
  obtain ⟨u, hu, h⟩ := path_ordered ho (reachable_inv env lt ho hr ops).1 p
  subst hu
  rcases h with ⟨m, hm, hlt⟩ | ⟨c, hc⟩
  · cases hm; exact ho.irrefl _ hlt
  · cases hc

/-- **User inputs have no predecessors** and every edge points from a callee to a strictly
higher caller (or from an uncached cells' object node to a caller). -/
theorem inputs_have_no_preds (env : Env) (lt : Node → Node → Prop) (ho : StrictOrder lt)
    (hr : Ranked env lt) (ops : List Op) (a : GNode) (m : Node)
    (h : (a, GNode.elem m) ∈ (run env {} ops).ge) : m ∉ (run env {} ops).inputs :=
  (reachable_inv env lt ho hr ops).1.inputsNoPreds a m h

/-- **Uncached cells hold no values.** -/
theorem uncached_holds_nothing (env : Env) (lt : Node → Node → Prop) (ho : StrictOrder lt)
    (hr : Ranked env lt) (ops : List Op) (m : Node) (hc : env.cached m.1 = false) :
    lookup (run env {} ops).data m = none := by
  cases h : lookup (run env {} ops).data m with
  | none => rfl
  | some v =>
    have := ((reachable_inv env lt ho hr ops).1.heldNodes m (by rw [h]; rfl)).2
    rw [hc] at this; cases this


/-! Non-vacuity: a concrete program (a cached cells calling an uncached one that calls a cached
one and reads a reference by attribute path; a failing cells; a handler) is `Ranked`, and a
history with a hit, a failure and a value edit reaches a state with object-node edges. -/
def gCells : CellId → Option Expr
  | 0 => some (.add (.param 0) (.readA 0))
  | 1 => some (.call 0 [.param 0])
  | 2 => some (.raise kValue)
  | 3 => some (.add (.call 1 [.lit 1]) (.try_ (.call 2 []) .all (.lit 0)))
  | _ => none

def gAr : CellId → Option Nat
  | 0 => some 1 | 1 => some 1 | 2 => some 0 | 3 => some 0 | _ => none

def gEnv : Env where
  formula := fun n => match gCells n.1 with
    | some e => formulaOf gAr e n.2
    | none => .raise (.user kName)
  cached := fun c => c != 1
  allowNone := fun _ => false
  refs := fun _ => some (.int 10)
  maxdepth := 20

theorem gEnv_ranked : Ranked gEnv idLt :=
  ranked_of_table gCells gAr gEnv (fun _ => rfl) (by
    intro i e h
    match i, h with
    | 0, h => cases h; rfl
    | 1, h => cases h; rfl
    | 2, h => cases h; rfl
    | 3, h => cases h; rfl)

def gOps : List Op := [.eval (3, []), .eval (2, []), .set (0, [.int 5]) (.int 1), .eval (3, [])]

example : (run gEnv {} gOps).ge =
    [(.elem (0, [.int 1]), .elem (3, [])), (.obj 1, .elem (3, []))] := by decide

example (a : GNode) : ¬ Path (run gEnv {} gOps).ge a a :=
  graph_acyclic gEnv idLt idLt_strict gEnv_ranked gOps a

end MxModel.C08
