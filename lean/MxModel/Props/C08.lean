import MxModel.Proofs.ExecGraphOps
import MxModel.Proofs.ExprRanked
import MxModel.Proofs.ExecCertRunOps
import MxModel.Proofs.ExecCertExamples
import MxModel.Exec.Expr
/-!
# C08 – graph and cache agree; the graph is acyclic

Regime: terminating programs (`Ranked env lt` for a strict order `lt` on elements – every
call a formula can make goes to a lower element), any formula behaviour otherwise, including
handled and unhandled failures, cached and uncached cells, the depth limit.  Histories: any
interleaving of top-level evaluations (hits and misses), value assignments, `clear_at`,
`clear`, `clear_all` and `clear_obj`, from the empty model.

**Predecessors = the calls made** (`edges_are_exactly_the_calls`, regime `C02.WF`: additionally
`NoCatch` and static scoping): in every state with certificates – hence every reachable state of the
thirteen-operation language – a held computed element has a replayable trace of its formula, and
the sources of the edges INTO it are exactly the recorded calls: the cached elements it (or an
uncached callee on its behalf, at any nesting depth) called, and the object nodes of the uncached
cells it went through.  For formulas that handle failures the statement is decided by the
call-recording oracle of the check (a handled failure leaves no record: C02-caught-failure-untracked).
-/
namespace MxModel.C08
open MxModel.Exec

/-- **Every reachable state satisfies the graph invariant**: after any finite history of
evaluations, cache hits, value edits and failed evaluations. -/
theorem reachable_inv (env : Env) (lt : Node → Node → Prop) (ho : StrictOrder lt) (hr : Ranked env lt)
    (ops : List Op) : GI env lt (run env {} ops) ∧ Idle (run env {} ops) := by
  suffices ∀ s, GI env lt s → Idle s → GI env lt (run env s ops) ∧ Idle (run env s ops) from
    this {} (empty_GI env lt) ⟨rfl, rfl⟩
  induction ops with
  | nil => intro s g hi; exact ⟨g, hi⟩
  | cons op rest ih =>
    intro s g hi
    obtain ⟨g', hi'⟩ := step_inv env lt ho hr s op g hi
    exact ih _ g' hi'

/-- **The elements present in the dependency graph are exactly the elements holding a
value** (at every reachable state). -/
theorem graph_nodes_eq_held (env : Env) (lt : Node → Node → Prop) (ho : StrictOrder lt)
    (hr : Ranked env lt) (ops : List Op) (m : Node) :
    GNode.elem m ∈ (run env {} ops).gn ↔ (lookup (run env {} ops).data m).isSome := by
  obtain ⟨g, hi⟩ := reachable_inv env lt ho hr ops
  constructor
  · intro h
    rcases g.nodesHeld m h with h' | h'
    · exact h'
    · rw [hi.1] at h'; cases h'
  · intro h; exact (g.heldNodes m h).1

/-- **The graph never mentions a cleared or deleted element**: both ends of every edge are
nodes of the graph, hence (previous theorem) held elements or uncached cells' object nodes. -/
theorem edges_between_nodes (env : Env) (lt : Node → Node → Prop) (ho : StrictOrder lt)
    (hr : Ranked env lt) (ops : List Op) (a b : GNode) (h : (a, b) ∈ (run env {} ops).ge) :
    a ∈ (run env {} ops).gn ∧ b ∈ (run env {} ops).gn :=
  (reachable_inv env lt ho hr ops).1.edgeNodes a b h

inductive Path (ge : List (GNode × GNode)) : GNode → GNode → Prop
  | single {a b} : (a, b) ∈ ge → Path ge a b
  | cons {a b c} : (a, b) ∈ ge → Path ge b c → Path ge a c

theorem path_ordered {env : Env} {lt : Node → Node → Prop} (ho : StrictOrder lt) {s : St}
    (g : GI env lt s) {a c : GNode} (p : Path s.ge a c) :
    ∃ u, c = .elem u ∧ ((∃ m, a = .elem m ∧ lt m u) ∨ (∃ c', a = .obj c')) := by
  induction p with
  | single h => exact g.edgesOrd _ _ h
  | cons h _ ih =>
    obtain ⟨t, hb, ha⟩ := g.edgesOrd _ _ h
    obtain ⟨u, hc, hbu⟩ := ih
    refine ⟨u, hc, ?_⟩
    subst hb
    rcases hbu with ⟨m, hm, hlt⟩ | ⟨c', hc'⟩
    · cases hm
      rcases ha with ⟨m', hm', hlt'⟩ | ⟨c', hc'⟩
      · exact Or.inl ⟨m', hm', ho.trans _ _ _ hlt' hlt⟩
      · exact Or.inr ⟨c', hc'⟩
    · cases hc'

/-- **The graph is acyclic.** -/
theorem graph_acyclic (env : Env) (lt : Node → Node → Prop) (ho : StrictOrder lt)
    (hr : Ranked env lt) (ops : List Op) (a : GNode) : ¬ Path (run env {} ops).ge a a := by
  intro p
  obtain ⟨u, hu, h⟩ := path_ordered ho (reachable_inv env lt ho hr ops).1 p
  subst hu
  rcases h with ⟨m, hm, hlt⟩ | ⟨c, hc⟩
  · cases hm; exact ho.irrefl _ hlt
  · cases hc

/-- **User inputs have no predecessors** and every edge points from a callee to a strictly
higher caller (or from an uncached cells' object node to a caller). -/
theorem inputs_have_no_preds (env : Env) (lt : Node → Node → Prop) (ho : StrictOrder lt)
    (hr : Ranked env lt) (ops : List Op) (a : GNode) (m : Node)
    (h : (a, GNode.elem m) ∈ (run env {} ops).ge) : m ∉ (run env {} ops).inputs :=
  (reachable_inv env lt ho hr ops).1.inputsNoPreds a m h

/-- **Uncached cells hold no values.** -/
theorem uncached_holds_nothing (env : Env) (lt : Node → Node → Prop) (ho : StrictOrder lt)
    (hr : Ranked env lt) (ops : List Op) (m : Node) (hc : env.cached m.1 = false) :
    lookup (run env {} ops).data m = none := by
  cases h : lookup (run env {} ops).data m with
  | none => rfl
  | some v =>
    have := ((reachable_inv env lt ho hr ops).1.heldNodes m (by rw [h]; rfl)).2
    rw [hc] at this; cases this


/-! Non-vacuity: a concrete program (a cached cells calling an uncached one that calls a cached
one and reads a reference by attribute path; a failing cells; a handler) is `Ranked`, and a
history with a hit, a failure and a value edit reaches a state with object-node edges. -/
def gCells : CellId → Option Expr
  | 0 => some (.add (.param 0) (.readA 0))
  | 1 => some (.call 0 [.param 0])
  | 2 => some (.raise kValue)
  | 3 => some (.add (.call 1 [.lit 1]) (.try_ (.call 2 []) .all (.lit 0)))
  | _ => none

def gAr : CellId → Option Nat
  | 0 => some 1 | 1 => some 1 | 2 => some 0 | 3 => some 0 | _ => none

def gEnv : Env where
  formula := fun n => match gCells n.1 with
    | some e => formulaOf gAr e n.2
    | none => .raise (.user kName)
  cached := fun c => c != 1
  allowNone := fun _ => false
  refs := fun _ => some (.int 10)
  maxdepth := 20

theorem gEnv_ranked : Ranked gEnv idLt :=
  ranked_of_table gCells gAr gEnv (fun _ => rfl) (by
    intro i e h
    match i, h with
    | 0, h => cases h; rfl
    | 1, h => cases h; rfl
    | 2, h => cases h; rfl
    | 3, h => cases h; rfl)

def gOps : List Op := [.eval (3, []), .eval (2, []), .set (0, [.int 5]) (.int 1), .eval (3, [])]

example : (run gEnv {} gOps).ge =
    [(.elem (0, [.int 1]), .elem (3, [])), (.obj 1, .elem (3, []))] := by decide

example (a : GNode) : ¬ Path (run gEnv {} gOps).ge a a :=
  graph_acyclic gEnv idLt idLt_strict gEnv_ranked gOps a

/-! ### `Ranked` is needed – or the depth limit must not be caught

Every theorem above assumes terminating programs (`Ranked`).  Without it the statements are false of
the model AND of modelx when a formula catches `DeepReferenceError`: `c0 = try: c1() except: 0`,
`c1 = c0()` under a limit of three frames.  The recursion `c0 → c1 → c0 → c1` hits the limit in the
innermost `c0`; that `c0` handles it and returns `0`, is STORED while the outer `c0` is still
executing, `c1` completes (edge `c0 → c1`), the outer `c0` completes and overwrites itself (edge
`c1 → c0`): the dependency graph is cyclic, an executing element held a value, `c0` was executed and
stored twice.  Real modelx (`notes/EXECP-repro_cycle_caught_deep.py`): edges `[(c0, c1), (c1, c0)]`,
`nx.is_directed_acyclic_graph` is `False`.  Recorded as known finding C08-cycle-after-caught-deep (variant
of C01-caught-deep: same cause, a handled depth error).  For programs that do not catch the depth
error the recursion ends in an uncaught `DeepReferenceError` and everything is rolled back
(`ranked_or_limit_needed` second part). -/

def cyCells : CellId → Option Expr
  | 0 => some (.try_ (.call 1 []) .all (.lit 0))
  | 1 => some (.call 0 [])
  | _ => none

def cyEnv : Env where
  formula := fun n => match cyCells n.1 with
    | some e => formulaOf (fun c => (cyCells c).map (fun _ => 0)) e n.2
    | none => .raise (.user kName)
  cached := fun _ => true
  allowNone := fun _ => false
  refs := fun _ => none
  maxdepth := 3

/-- the same two cells without the handler: `c0 = c1()`, `c1 = c0()` -/
def cyCells' : CellId → Option Expr
  | 0 => some (.call 1 [])
  | 1 => some (.call 0 [])
  | _ => none

def cyEnv' : Env := { cyEnv with formula := fun n => match cyCells' n.1 with
    | some e => formulaOf (fun c => (cyCells' c).map (fun _ => 0)) e n.2
    | none => .raise (.user kName) }

/-- **The graph statements are false without `Ranked` when the depth error is caught** – the graph
has a cycle, and an element was executed twice in one evaluation –; when it is not caught the
non-terminating recursion ends in `DeepReferenceError` and leaves nothing behind. -/
theorem ranked_or_limit_needed :
    (¬ ∀ (env : Env) (ops : List Op) (a : GNode), ¬ Path (run env {} ops).ge a a) ∧
    (run cyEnv {} [.eval (0, [])]).log = [(1, []), (0, []), (1, []), (0, [])] ∧
    (evalTop cyEnv' (0, []) {}).1 = .formulaError .deep [(0, []), (1, []), (0, []), (1, [])] ∧
    (evalTop cyEnv' (0, []) {}).2.gn = [] ∧ (evalTop cyEnv' (0, []) {}).2.data = [] := by
  refine ⟨?_, by decide, by decide, by decide, by decide⟩
  intro h
  refine h cyEnv [.eval (0, [])] (.elem (0, [])) (Path.cons (b := .elem (1, [])) ?_ (Path.single ?_))
  · decide
  · decide

example : (run cyEnv {} [.eval (0, [])]).ge =
    [(.elem (0, []), .elem (1, [])), (.elem (1, []), .elem (0, []))] := by decide

/-! ## Histories that also edit the definitions

The value-layer language above keeps the definitions fixed.  Here an operation may also change
them: a reference is set (created or changed) or deleted, a cells gets another formula, the
`is_cached` flag of a cells is switched – in either direction – each with the clearing modelx
performs for it (`St.setRef`, `St.delRef`, `St.setFormula` = `clear_obj`; the setter of
`is_cached` returns at once when the flag already has the value).  The only hypothesis is that
the definitions stay terminating (`Ranked`) – formulas may handle failures, cells may be
uncached, the depth limit may be hit. -/

/-- **Every reachable state satisfies the graph invariant – also across edits of the
definitions**: after any finite history of evaluations, cache hits, failed evaluations, value
edits, reference edits (create, change, delete), formula edits and switches of `is_cached` in
either direction, from the empty model. -/
theorem reachable_inv_edits (lt : Node → Node → Prop) (ho : StrictOrder lt) (env0 : Env)
    (hr0 : Ranked env0 lt) (ops : List EOp) (hadm : StaysRanked lt (env0, {}) ops) :
    GI (erun (env0, {}) ops).1 lt (erun (env0, {}) ops).2 ∧ Idle (erun (env0, {}) ops).2 := by
  suffices ∀ (ops : List EOp) (st : Env × St), Ranked st.1 lt → GI st.1 lt st.2 → Idle st.2 →
      StaysRanked lt st ops → GI (erun st ops).1 lt (erun st ops).2 ∧ Idle (erun st ops).2 from
    this ops (env0, {}) hr0 (empty_GI env0 lt) ⟨rfl, rfl⟩ hadm
  intro ops
  induction ops with
  | nil => intro st _ g hi _; exact ⟨g, hi⟩
  | cons op rest ih =>
    intro st hr g hi hadm
    obtain ⟨g', hi'⟩ := estep_inv lt ho st op hr g hi
    exact ih (estep st op) hadm.1 g' hi' hadm.2

/-- **Graph element nodes = held elements, after any history with edits** (in particular right
after a switch of `is_cached`: nothing of the cells' old mode is left as an element node, and
every element node belongs to a cells that is cached NOW). -/
theorem graph_nodes_eq_held_edits (lt : Node → Node → Prop) (ho : StrictOrder lt) (env0 : Env)
    (hr0 : Ranked env0 lt) (ops : List EOp) (hadm : StaysRanked lt (env0, {}) ops) (m : Node) :
    (GNode.elem m ∈ (erun (env0, {}) ops).2.gn ↔ (lookup (erun (env0, {}) ops).2.data m).isSome) ∧
    (GNode.elem m ∈ (erun (env0, {}) ops).2.gn → (erun (env0, {}) ops).1.cached m.1 = true) := by
  obtain ⟨g, hi⟩ := reachable_inv_edits lt ho env0 hr0 ops hadm
  refine ⟨⟨fun h => ?_, fun h => (g.heldNodes m h).1⟩, g.elemCached m⟩
  rcases g.nodesHeld m h with h' | h'
  · exact h'
  · rw [hi.1] at h'; cases h'

/-- **The graph stays acyclic across edits.** -/
theorem graph_acyclic_edits (lt : Node → Node → Prop) (ho : StrictOrder lt) (env0 : Env)
    (hr0 : Ranked env0 lt) (ops : List EOp) (hadm : StaysRanked lt (env0, {}) ops) (a : GNode) :
    ¬ Path (erun (env0, {}) ops).2.ge a a := by
  intro p
  obtain ⟨u, hu, h⟩ := path_ordered ho (reachable_inv_edits lt ho env0 hr0 ops hadm).1 p
  subst hu
  rcases h with ⟨m, hm, hlt⟩ | ⟨c, hc⟩
  · cases hm; exact ho.irrefl _ hlt
  · cases hc

/-! ### object nodes

The key-less node `(cells,)` stands for an uncached cells.  It is legitimate only while the cells
IS uncached: switching the flag on must remove it together with everything calculated through
the cells (`clear_obj`).  No hypothesis on the programs beyond `Ranked` (which gives `GI`, needed
for the closure facts of the clearing routines). -/

/-- **An object node is in the graph only for a cells that is uncached NOW** – in every state
reachable by evaluations, failed evaluations, value edits, reference edits, formula edits and
switches of `is_cached` in either direction.  With `graph_nodes_eq_held_edits`: the nodes of the
graph are exactly the held elements (all of cached cells) and object nodes of uncached cells. -/
theorem object_nodes_only_for_uncached (lt : Node → Node → Prop) (ho : StrictOrder lt) (env0 : Env)
    (hr0 : Ranked env0 lt) (ops : List EOp) (hadm : StaysRanked lt (env0, {}) ops) (c : CellId)
    (h : GNode.obj c ∈ (erun (env0, {}) ops).2.gn) : (erun (env0, {}) ops).1.cached c = false := by
  suffices ∀ (ops : List EOp) (st : Env × St), Ranked st.1 lt → GI st.1 lt st.2 → Idle st.2 →
      ObjOK st.1 st.2 → StaysRanked lt st ops → ObjOK (erun st ops).1 (erun st ops).2 from
    this ops (env0, {}) hr0 (empty_GI env0 lt) ⟨rfl, rfl⟩ (by intro c hc; simp at hc) hadm c h
  intro ops
  induction ops with
  | nil => intro st _ _ _ hobj _; exact hobj
  | cons op rest ih =>
    intro st hr g hi hobj hadm
    obtain ⟨g', hi'⟩ := estep_inv lt ho st op hr g hi
    exact ih (estep st op) hadm.1 g' hi' (estep_obj lt st op g hi hobj) hadm.2

/-! Non-vacuity (the history of the seeded change C08-mutD): `top` (c2) is calculated through the
uncached `mid` (c1) over `base` (c0); then caching is switched ON for `mid`.  The object node of
`mid`, `top(1)` and their edges are gone; after the next query the graph is that of a model that
had `mid` cached from the start; assigning `mid(1)` invalidates `top(1)`. -/
def hCells : CellId → Option Expr
  | 0 => some (.mul (.param 0) (.lit 10))
  | 1 => some (.add (.call 0 [.param 0]) (.lit 1))
  | 2 => some (.mul (.call 1 [.param 0]) (.lit 2))
  | _ => none

def hAr : CellId → Option Nat
  | 0 => some 1 | 1 => some 1 | 2 => some 1 | _ => none

def hEnv : Env where
  formula := fun n => match hCells n.1 with
    | some e => formulaOf hAr e n.2
    | none => .raise (.user kName)
  cached := fun c => c != 1
  allowNone := fun _ => false
  refs := fun _ => none
  maxdepth := 20

theorem hEnv_ranked : Ranked hEnv idLt :=
  ranked_of_table hCells hAr hEnv (fun _ => rfl) (by
    intro i e h
    match i, h with
    | 0, h => cases h; rfl
    | 1, h => cases h; rfl
    | 2, h => cases h; rfl)

def k1 : Key := [.int 1]

example : (erun (hEnv, {}) [.eval (2, k1)]).2.ge =
    [(.elem (0, k1), .elem (2, k1)), (.obj 1, .elem (2, k1))] := by decide

example : (erun (hEnv, {}) [.eval (2, k1), .setCached 1 true]).2.gn = [.elem (0, k1)] ∧
    (erun (hEnv, {}) [.eval (2, k1), .setCached 1 true]).2.ge = [] := by decide

example : (erun (hEnv, {}) [.eval (2, k1), .setCached 1 true, .eval (2, k1)]).2.ge =
    [(.elem (0, k1), .elem (1, k1)), (.elem (1, k1), .elem (2, k1))] := by decide

example : (evalTop (withCached hEnv 1 true) (2, k1)
    (erun (hEnv, {}) [.eval (2, k1), .setCached 1 true, .eval (2, k1), .set (1, k1) (.int 100)]).2).1
    = .ok (.int 200) := by decide

example : StaysRanked idLt (hEnv, {}) [.eval (2, k1), .setCached 1 true, .eval (2, k1)] :=
  ⟨hEnv_ranked, ranked_withCached hEnv_ranked 1 true, ranked_withCached hEnv_ranked 1 true, trivial⟩

/-! ## The full edit language

`C02.Op` is the union of the edit languages of the executor family – thirteen operations:
evaluations (hits, misses, failed, stopped by the limit), value assignment, `clear_at`, `clear`,
`clear_all`, reference set / delete, formula edit, `is_cached` switch, cells deleted, cells created,
`set_recursion`, administrative calls.  Every reachable state has the certificate invariant
(`C02.reachable_ci`), whose first component is `GI`; the graph statements follow for every reachable
state of THAT language – in the regime `C02.WF` (terminating, `NoCatch`, statically scoped), which
`C02.Admissible` keeps across formula edits and cells creation. -/

theorem reachable_inv_full (lt : Node → Node → Prop) (ho : StrictOrder lt) (env0 : Env)
    (hw0 : C02.WF env0 lt) (ops : List C02.Op) (hadm : C02.Admissible lt (env0, {}) ops) :
    GI (C02.run (env0, {}) ops).1 lt (C02.run (env0, {}) ops).2 ∧ Idle (C02.run (env0, {}) ops).2 :=
  have h := (C02.run_ci lt ho ops (env0, {}) hw0 (CI.empty env0 lt) hadm).1
  ⟨h.gi, h.quiet.stack, h.quiet.idx⟩

/-- **Graph element nodes = held elements**, all of cells that are cached NOW and exist NOW. -/
theorem graph_nodes_eq_held_full (lt : Node → Node → Prop) (ho : StrictOrder lt) (env0 : Env)
    (hw0 : C02.WF env0 lt) (ops : List C02.Op) (hadm : C02.Admissible lt (env0, {}) ops) (m : Node) :
    (GNode.elem m ∈ (C02.run (env0, {}) ops).2.gn ↔ (lookup (C02.run (env0, {}) ops).2.data m).isSome) ∧
    (GNode.elem m ∈ (C02.run (env0, {}) ops).2.gn →
      (C02.run (env0, {}) ops).1.cached m.1 = true ∧ (C02.run (env0, {}) ops).1.alive m.1 = true) := by
  have h := (C02.run_ci lt ho ops (env0, {}) hw0 (CI.empty env0 lt) hadm).1
  refine ⟨⟨fun hm => ?_, fun hm => (h.gi.heldNodes m hm).1⟩,
    fun hm => ⟨h.gi.elemCached m hm, h.alive.nodes _ hm⟩⟩
  rcases h.gi.nodesHeld m hm with h' | h'
  · exact h'
  · rw [h.quiet.stack] at h'; cases h'

/-- **The graph never mentions a cleared or deleted element**: both ends of every edge are nodes. -/
theorem edges_between_nodes_full (lt : Node → Node → Prop) (ho : StrictOrder lt) (env0 : Env)
    (hw0 : C02.WF env0 lt) (ops : List C02.Op) (hadm : C02.Admissible lt (env0, {}) ops) (a b : GNode)
    (h : (a, b) ∈ (C02.run (env0, {}) ops).2.ge) :
    a ∈ (C02.run (env0, {}) ops).2.gn ∧ b ∈ (C02.run (env0, {}) ops).2.gn :=
  (reachable_inv_full lt ho env0 hw0 ops hadm).1.edgeNodes a b h

/-- **The graph is acyclic** after any history of the full language. -/
theorem graph_acyclic_full (lt : Node → Node → Prop) (ho : StrictOrder lt) (env0 : Env)
    (hw0 : C02.WF env0 lt) (ops : List C02.Op) (hadm : C02.Admissible lt (env0, {}) ops) (a : GNode) :
    ¬ Path (C02.run (env0, {}) ops).2.ge a a := by
  intro p
  obtain ⟨u, hu, h⟩ := path_ordered ho (reachable_inv_full lt ho env0 hw0 ops hadm).1 p
  subst hu
  rcases h with ⟨m, hm, hlt⟩ | ⟨c, hc⟩
  · cases hm; exact ho.irrefl _ hlt
  · cases hc

theorem inputs_have_no_preds_full (lt : Node → Node → Prop) (ho : StrictOrder lt) (env0 : Env)
    (hw0 : C02.WF env0 lt) (ops : List C02.Op) (hadm : C02.Admissible lt (env0, {}) ops) (a : GNode) (m : Node)
    (h : (a, GNode.elem m) ∈ (C02.run (env0, {}) ops).2.ge) : m ∉ (C02.run (env0, {}) ops).2.inputs :=
  (reachable_inv_full lt ho env0 hw0 ops hadm).1.inputsNoPreds a m h

/-- **Uncached cells hold no values** – whatever flag flips, formula edits, deletions and
re-creations the history contains: the flag that counts is the one in force NOW. -/
theorem uncached_holds_nothing_full (lt : Node → Node → Prop) (ho : StrictOrder lt) (env0 : Env)
    (hw0 : C02.WF env0 lt) (ops : List C02.Op) (hadm : C02.Admissible lt (env0, {}) ops) (m : Node)
    (hc : (C02.run (env0, {}) ops).1.cached m.1 = false) :
    lookup (C02.run (env0, {}) ops).2.data m = none := by
  cases h : lookup (C02.run (env0, {}) ops).2.data m with
  | none => rfl
  | some v =>
    have := ((reachable_inv_full lt ho env0 hw0 ops hadm).1.heldNodes m (by rw [h]; rfl)).2
    rw [hc] at this; cases this

/-- **An object node is in the graph only for a cells that is uncached NOW and exists NOW.** -/
theorem object_nodes_only_for_uncached_full (lt : Node → Node → Prop) (ho : StrictOrder lt) (env0 : Env)
    (hw0 : C02.WF env0 lt) (ops : List C02.Op) (hadm : C02.Admissible lt (env0, {}) ops) (c : CellId)
    (h : GNode.obj c ∈ (C02.run (env0, {}) ops).2.gn) :
    (C02.run (env0, {}) ops).1.cached c = false ∧ (C02.run (env0, {}) ops).1.alive c = true :=
  have hci := (C02.run_ci lt ho ops (env0, {}) hw0 (CI.empty env0 lt) hadm).1
  ⟨hci.alive.objs c h, hci.alive.nodes _ h⟩

/-- **Reported dependencies are exactly the calls made**: for an element `n` holding a computed value
there is a trace `tr` of its formula – the formula, fed the recorded answers, asks exactly the
recorded questions and returns the held value (`Replay`); every recorded cached callee holds the
recorded value now – such that the predecessors of `n` in the dependency graph are exactly the
recorded callees: `a → n` is an edge iff `a` is a cached element recorded as called (by `n`'s formula
or, flattened by the `idx` rule, by an uncached callee's formula inside it) or the object node of an
uncached cells recorded as called. -/
theorem edges_are_exactly_the_calls {env : Env} {lt : Node → Node → Prop} {s : St} (h : CI env lt s)
    (n : Node) (v : Val) (hl : lookup s.data n = some v) (hin : n ∉ s.inputs) :
    ∃ tr, Replay env tr (env.formula n) v ∧
      (∀ m w, FEv.call m w ∈ flat n.1 tr → lookup s.data m = some w) ∧
      ∀ a, (a, GNode.elem n) ∈ s.ge ↔
        (∃ m w, a = .elem m ∧ FEv.call m w ∈ flat n.1 tr) ∨ (∃ m, a = .obj m.1 ∧ FEv.ucall m ∈ flat n.1 tr) := by
  obtain ⟨tr, hc⟩ := h.certs n v hl hin
  refine ⟨tr, hc.replay, fun m w hm => (hc.events _ hm).1, fun a => ⟨hc.just a, ?_⟩⟩
  rintro (⟨m, w, rfl, hm⟩ | ⟨m, rfl, hm⟩)
  · exact (hc.events _ hm).2.2
  · exact hc.events _ hm

/-- …in every reachable state of the full edit language; user inputs have no predecessors
(`inputs_have_no_preds_full`). -/
theorem reachable_edges_are_exactly_the_calls (lt : Node → Node → Prop) (ho : StrictOrder lt) (env0 : Env)
    (hw0 : C02.WF env0 lt) (ops : List C02.Op) (hadm : C02.Admissible lt (env0, {}) ops) (n : Node) (v : Val)
    (hl : lookup (C02.run (env0, {}) ops).2.data n = some v) (hin : n ∉ (C02.run (env0, {}) ops).2.inputs) :
    ∃ tr, Replay (C02.run (env0, {}) ops).1 tr ((C02.run (env0, {}) ops).1.formula n) v ∧
      (∀ m w, FEv.call m w ∈ flat n.1 tr → lookup (C02.run (env0, {}) ops).2.data m = some w) ∧
      ∀ a, (a, GNode.elem n) ∈ (C02.run (env0, {}) ops).2.ge ↔
        (∃ m w, a = .elem m ∧ FEv.call m w ∈ flat n.1 tr) ∨ (∃ m, a = .obj m.1 ∧ FEv.ucall m ∈ flat n.1 tr) :=
  edges_are_exactly_the_calls (C02.run_ci lt ho ops (env0, {}) hw0 (CI.empty env0 lt) hadm).1 n v hl hin

/-! Non-vacuity: after `c3()` in the program of C02, `c2(1)` – computed through the uncached `c1` – has
the predecessors `c0(1)` (called by `c1` on its behalf) and the object node of `c1`; the theorem gives
a trace of `c2`'s formula in which exactly these are the recorded calls. -/
example : (C02.run (C02.xEnv, {}) [.eval (3, [])]).2.ge =
    [(.elem (0, [.int 1]), .elem (2, [.int 1])), (.obj 1, .elem (2, [.int 1])),
     (.elem (2, [.int 1]), .elem (3, []))] := by decide

example : ∃ tr, Replay C02.xEnv tr (C02.xEnv.formula (2, [.int 1])) (.int 26) ∧
    ∀ a, (a, GNode.elem (2, [.int 1])) ∈ (C02.run (C02.xEnv, {}) [.eval (3, [])]).2.ge ↔
      (∃ m w, a = .elem m ∧ FEv.call m w ∈ flat 2 tr) ∨ (∃ m, a = .obj m.1 ∧ FEv.ucall m ∈ flat 2 tr) := by
  obtain ⟨tr, h1, _, h3⟩ := reachable_edges_are_exactly_the_calls idLt idLt_strict C02.xEnv C02.xEnv_wf
    [.eval (3, [])] ⟨C02.xEnv_wf, trivial⟩ (2, [.int 1]) (.int 26) (by decide) (by decide)
  exact ⟨tr, h1, h3⟩

/-! Non-vacuity: the history `C02.yOps` (evaluations, an assignment, the deletion and re-creation of a
cells, in the four-cells / two-spaces program with an uncached cells) is admissible; its graph. -/
example (a : GNode) : ¬ Path (C02.run (C02.xEnv, {}) C02.yOps).2.ge a a :=
  graph_acyclic_full idLt idLt_strict C02.xEnv C02.xEnv_wf C02.yOps C02.yOps_admissible a

example : (C02.run (C02.xEnv, {}) C02.yOps).2.ge =
    [(.elem (0, [.int 1]), .elem (2, [.int 1])), (.obj 1, .elem (2, [.int 1])),
     (.elem (2, [.int 1]), .elem (3, []))] := by decide

end MxModel.C08
