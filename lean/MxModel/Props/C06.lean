import MxModel.Proofs.Reach
import MxModel.Props.C08
import MxModel.Props.C01
import MxModel.Proofs.ExecKeep
import MxModel.Proofs.ExecInputsRun
import MxModel.Proofs.ExecCertExamples
import MxModel.Proofs.ExecRecalc
import MxModel.Proofs.ExecCertRecalcOp
/-!
# C06 – a value edit discards exactly its dependents; inputs persist

`Reach s.ge (.elem n) (.elem m)`: `m` is `n` or was computed, directly or transitively, from a
value returned by `n` (edges of the trace graph go from callee to caller).  `St.descsWith` –
the model of `nx.descendants` – is proved to be exactly this closure (`descs_iff`), so the
statements below are about *exactly* the dependents.  Regime: the reachable states of C08
(terminating programs).  The recalculation option: last section (`St.setValueRecalc`, tied to the code by
the exec correspondence of C06 run with `recalc on`).
-/
namespace MxModel.C06
open MxModel.Exec MxModel.C08
open Classical

variable {env : Env} {lt : Node → Node → Prop}

theorem reach_from_non_node {s : St} (g : GI env lt s) (a x : GNode) (ha : a ∉ s.gn)
    (h : Reach s.ge a x) : x = a := by
  induction h with
  | refl => rfl
  | step _ he ih => subst ih; exact absurd (g.edgeNodes _ _ he).1 ha

/-- `clear_with_descs(n)`: exactly the dependents of `n` lose their values -/
theorem clearWithDescs_lookup {s : St} (g : GI env lt s) (n m : Node) :
    lookup (s.clearWithDescs n).data m =
      if GNode.elem n ∈ s.gn ∧ Reach s.ge (.elem n) (.elem m) then none else lookup s.data m := by
  classical
  rw [clearWithDescs_eq]
  by_cases hn : GNode.elem n ∈ s.gn
  · simp only [List.contains_eq_mem, hn, decide_true, if_true, true_and]
    simp only [St.removeAll, St.dropValues, St.removeNodes]
    rw [lookup_dropValues]
    have : (elemsOf (s.descsWith (.elem n))).contains m = true ↔ Reach s.ge (.elem n) (.elem m) := by
      simp only [List.contains_eq_mem, decide_eq_true_eq, mem_elemsOf]
      exact descs_iff s (fun x y h => (g.edgeNodes x y h).2) _ _ hn
    by_cases hr : Reach s.ge (.elem n) (.elem m)
    · rw [this.mpr hr]; simp [hr]
    · have : (elemsOf (s.descsWith (.elem n))).contains m = false := by
        cases h : (elemsOf (s.descsWith (.elem n))).contains m with
        | false => rfl
        | true => exact absurd (this.mp h) hr
      rw [this]; simp [hr]
  · simp [hn]

/-- **Assigning or overwriting the value of element `n` discards precisely the held values
computed directly or transitively from it; every other held value stays** – and `n` holds the
assigned value. -/
theorem set_value_exact {s : St} (g : GI env lt s) (hi : Idle s) (n m : Node) (v : Val)
    (hv : ¬ (v = .none ∧ env.allowNone n.1 = false)) :
    lookup (s.setValue env n v).1.data m =
      if m = n then some v
      else if Reach s.ge (.elem n) (.elem m) then none
      else lookup s.data m := by
  classical
  unfold St.setValue
  simp only []
  have hcond : (decide (v = Val.none) && !env.allowNone n.1) = false := by
    cases h1 : decide (v = Val.none) <;> cases h2 : env.allowNone n.1 <;> simp_all
  simp only [hcond, Bool.false_eq_true, if_false]
  have hdata : ∀ s2 : St, (s2.addNode (.elem n)).data = s2.data := by
    intro s2; unfold St.addNode; split <;> rfl
  simp only [hdata, lookup_insert]
  by_cases hmn : m = n
  · subst hmn; simp
  · have hnm : ¬ n = m := fun h => hmn h.symm
    simp only [hmn, hnm, if_false]
    unfold St.clearValueAt
    by_cases hheld : (lookup s.data n).isSome = true
    · simp only [hheld, if_true, Bool.true_or]
      rw [clearWithDescs_lookup g]
      simp only [(g.heldNodes n hheld).1, true_and]
    · simp only [hheld, Bool.false_eq_true, if_false]
      have hnot : GNode.elem n ∉ s.gn := by
        intro h
        rcases g.nodesHeld n h with h' | h'
        · exact absurd h' hheld
        · rw [hi.1] at h'; cases h'
      have hnr : ¬ Reach s.ge (.elem n) (.elem m) := by
        intro hr
        have := reach_from_non_node g _ _ hnot hr
        cases this; exact absurd rfl hmn
      simp [hnr]

/-- the same, read for idle (reachable) states: the `else` branch above is only taken when
nothing is executing -/
theorem set_value_exact_idle {s : St} (g : GI env lt s) (hi : Idle s) (n m : Node) (v : Val)
    (hv : ¬ (v = .none ∧ env.allowNone n.1 = false)) (hmn : m ≠ n)
    (hr : Reach s.ge (.elem n) (.elem m)) : lookup (s.setValue env n v).1.data m = none := by
  rw [set_value_exact g hi n m v hv]; simp [hmn, hr]

/-- **`clear_at` discards exactly the element and its dependents.** -/
theorem clear_at_exact {s : St} (g : GI env lt s) (hi : Idle s) (n m : Node) :
    lookup (s.clearValueAt n true).data m =
      if (lookup s.data n).isSome ∧ Reach s.ge (.elem n) (.elem m) then none else lookup s.data m := by
  classical
  unfold St.clearValueAt
  by_cases hheld : (lookup s.data n).isSome = true
  · simp only [hheld, if_true, Bool.true_or, true_and]
    rw [clearWithDescs_lookup g]
    simp only [(g.heldNodes n hheld).1, true_and]
  · simp [hheld]

/-- a user input is never a dependent of another element -/
theorem input_not_dependent {s : St} (g : GI env lt s) (a : GNode) (m : Node) (hin : m ∈ s.inputs)
    (hne : a ≠ .elem m) : ¬ Reach s.ge a (.elem m) := by
  intro h
  obtain ⟨y, hy⟩ := h.pred (fun h' => hne h'.symm)
  exact g.inputsNoPreds y m hy hin

/-- **Values assigned by the user survive edits of other elements**: assigning to `n ≠ m`
leaves the input `m` an input with its value. -/
theorem input_survives_set {s : St} (g : GI env lt s) (hi : Idle s) (n m : Node) (v w : Val)
    (hv : ¬ (v = .none ∧ env.allowNone n.1 = false)) (hmn : m ≠ n)
    (hin : m ∈ s.inputs) (hl : lookup s.data m = some w) :
    lookup (s.setValue env n v).1.data m = some w := by
  rw [set_value_exact g hi n m v hv]
  have : ¬ Reach s.ge (.elem n) (.elem m) :=
    input_not_dependent g _ m hin (by intro h; cases h; exact hmn rfl)
  simp [hmn, this, hl]

/-- **…and survive `clear()`** (which discards calculated values only): every step of
`clear_all_values(clear_input=False)` leaves every input of the model in place. -/
theorem input_survives_clear_step {s : St} (g : GI env lt s) (k m : Node) (w : Val)
    (hin : m ∈ s.inputs) (hl : lookup s.data m = some w) :
    lookup (s.clearValueAt k false).data m = some w ∧ m ∈ (s.clearValueAt k false).inputs := by
  classical
  unfold St.clearValueAt
  split
  · split
    · rename_i hk
      have hkin : k ∉ s.inputs := by simpa using hk
      have hkm : GNode.elem k ≠ GNode.elem m := by intro h; cases h; exact hkin hin
      have hnr : ¬ Reach s.ge (.elem k) (.elem m) := input_not_dependent g _ m hin hkm
      refine ⟨by rw [clearWithDescs_lookup g]; simp [hnr, hl], ?_⟩
      rw [clearWithDescs_eq]
      split
      · simp only [St.removeAll, St.dropValues, St.removeNodes, List.mem_filter, hin, true_and,
          Bool.not_eq_true', List.contains_eq_mem, decide_eq_false_iff_not, mem_elemsOf]
        intro hd; exact hnr (descs_sound s _ _ hd)
      · exact hin
    · exact ⟨hl, hin⟩
  · exact ⟨hl, hin⟩

theorem input_survives_clear {s : St} (g : GI env lt s) (hi : Idle s) (c : CellId) (m : Node) (w : Val)
    (hin : m ∈ s.inputs) (hl : lookup s.data m = some w) :
    lookup (s.clearAllValues c false).data m = some w ∧ m ∈ (s.clearAllValues c false).inputs := by
  unfold St.clearAllValues
  generalize ((s.data.filter (fun e => e.1.1 == c)).map (·.1)) = keys
  have hst := hi.1
  clear hi
  induction keys generalizing s with
  | nil => exact ⟨hl, hin⟩
  | cons k rest ih =>
    simp only [List.foldl]
    obtain ⟨h1, h2⟩ := input_survives_clear_step g k m w hin hl
    exact ih (g.clearValueAt hst k false) h2 h1 (by rw [clearValueAt_stack]; exact hst)

/-- **Evaluations never touch held values or inputs** (no entry is overwritten, the input set
is unchanged). -/
theorem eval_keeps_held (ho : StrictOrder lt) (hr : Ranked env lt) {s : St} (g : GI env lt s)
    (hi : Idle s) (n m : Node) (w : Val) (hl : lookup s.data m = some w) :
    lookup (evalTop env n s).2.data m = some w ∧ (evalTop env n s).2.inputs = s.inputs :=
  ⟨(g.topCall ho hr hi.1 hi.2 n).2.2.2 m w hl, (evalTop_keeps env n s).2⟩

/-- **An assigned value is what the cells returns for those arguments regardless of its
formula**, and it is served without running any formula. -/
theorem assigned_value_returned {s : St} (g : GI env lt s) (hi : Idle s) (n : Node) (v : Val)
    (hc : env.cached n.1 = true) (hv : ¬ (v = .none ∧ env.allowNone n.1 = false)) :
    evalTop env n (s.setValue env n v).1 = (.ok v, (s.setValue env n v).1) := by
  apply C01.held_never_reexecuted_top env n _ v hc
  rw [set_value_exact g hi n n v hv]; simp

/-- **Every other held value is served without its formula running again.** -/
theorem survivor_served_without_running {s : St} (g : GI env lt s) (hi : Idle s) (n m : Node) (v w : Val)
    (hc : env.cached m.1 = true) (hv : ¬ (v = .none ∧ env.allowNone n.1 = false)) (hmn : m ≠ n)
    (hnr : ¬ Reach s.ge (.elem n) (.elem m)) (hl : lookup s.data m = some w) :
    evalTop env m (s.setValue env n v).1 = (.ok w, (s.setValue env n v).1) := by
  apply C01.held_never_reexecuted_top env m _ w hc
  rw [set_value_exact g hi n m v hv]; simp [hmn, hnr, hl]

/-! ### inputs survive reference changes, formula edits and deletions of OTHER cells

The facts above are about value edits.  For the edits of the definitions the supporting invariant is
`RgNoInputs`: **no element holding an assigned value is a reader in the reference graph** – so
`clear_attr_referrers`, which every reference edit performs, cannot reach it (the defect class of the
repair 87e96f6) – together with `inputs_have_no_preds` (C08): an input is a dependent of nothing.
`reachable_inputs_not_readers`: the invariant holds in every reachable state of the thirteen-operation
language of C02. -/

theorem reachable_inputs_not_readers (lt : Node → Node → Prop) (ho : StrictOrder lt) (env0 : Env)
    (hw0 : C02.WF env0 lt) (ops : List C02.Op) (hadm : C02.Admissible lt (env0, {}) ops) :
    RgNoInputs (C02.run (env0, {}) ops).2 :=
  C02.run_rgNoInputs lt ho ops (env0, {}) hw0 (CI.empty env0 lt) (fun e he => by simp at he) hadm

/-- **Values assigned by the user survive reference changes**: setting a reference (creating or
changing it) – namespace notification of the observer cells, `clear_attr_referrers` – leaves every
input an input with its value. -/
theorem input_survives_ref_edit {s : St} (h : CI env lt s) (hr : RgNoInputs s) (r : RefId) (m : Node) (w : Val)
    (hin : m ∈ s.inputs) (hl : lookup s.data m = some w) :
    lookup (s.setRef env r).data m = some w ∧ m ∈ (s.setRef env r).inputs :=
  have k := (kept_input_setRef (InpInv.of_ci h hr) r m hin).data m rfl
  ⟨k.1.trans hl, k.2.mpr hin⟩

/-- …and the deletion of a reference. -/
theorem input_survives_ref_delete {s : St} (h : CI env lt s) (hr : RgNoInputs s) (r : RefId) (m : Node) (w : Val)
    (hin : m ∈ s.inputs) (hl : lookup s.data m = some w) :
    lookup (s.delRef env r).data m = some w ∧ m ∈ (s.delRef env r).inputs :=
  have k := (kept_input_delRef (InpInv.of_ci h hr) r m hin).data m rfl
  ⟨k.1.trans hl, k.2.mpr hin⟩

/-- **…survive a formula or cache-flag edit of another cells** (`clear_obj` of that cells). -/
theorem input_survives_formula_edit_of_other_cells {s : St} (h : CI env lt s) (hr : RgNoInputs s) (c : CellId)
    (m : Node) (w : Val) (hne : m.1 ≠ c) (hin : m ∈ s.inputs) (hl : lookup s.data m = some w) :
    lookup (s.setFormula c).data m = some w ∧ m ∈ (s.setFormula c).inputs :=
  have k := (kept_input_clearObj (InpInv.of_ci h hr) c m hin hne).data m rfl
  ⟨k.1.trans hl, k.2.mpr hin⟩

/-- **…survive the deletion of another cells** – also of a cells of the same space (the namespace
notification keeps inputs) – and the creation of any cells. -/
theorem input_survives_cell_delete_of_other_cells {s : St} (h : CI env lt s) (hr : RgNoInputs s) (c : CellId)
    (m : Node) (w : Val) (hne : m.1 ≠ c) (hin : m ∈ s.inputs) (hl : lookup s.data m = some w) :
    lookup (s.delCell env c).data m = some w ∧ m ∈ (s.delCell env c).inputs :=
  have k := (kept_input_delCell (InpInv.of_ci h hr) c m hin hne).data m rfl
  ⟨k.1.trans hl, k.2.mpr hin⟩

theorem input_survives_cell_create {s : St} (h : CI env lt s) (hr : RgNoInputs s) (c : CellId)
    (m : Node) (w : Val) (hin : m ∈ s.inputs) (hl : lookup s.data m = some w) :
    lookup (s.newCell env c).data m = some w ∧ m ∈ (s.newCell env c).inputs :=
  have k := (kept_input_newCell (InpInv.of_ci h hr) c m hin).data m rfl
  ⟨k.1.trans hl, k.2.mpr hin⟩

/-- **An input is dropped only by its own clear / overwrite, by `clear_all` of its cells, or by a
formula / flag edit or the deletion of its cells** (`C02.Touches m op`: `setValue m`, `clearAt m`,
`clearAll m.1`, `setFormula m.1`, `setCached m.1`, `delCell m.1`): every OTHER operation of the
thirteen-operation language – evaluations (returned or failed), assignments to and clears of other
elements, `clear()` of any cells, reference edits, formula / flag edits, deletion and creation of
other cells, limit changes, administrative calls – leaves it an input with its value.  (`h`, `hr`:
true of every reachable state, `C02.reachable_ci`, `reachable_inputs_not_readers`.) -/
theorem input_dropped_only_by_own_ops (ho : StrictOrder lt) (hw : C02.WF env lt) {s : St} (h : CI env lt s)
    (hr : RgNoInputs s) (op : C02.Op) (m : Node) (w : Val) (hop : ¬ C02.Touches m op)
    (hin : m ∈ s.inputs) (hl : lookup s.data m = some w) :
    lookup (C02.step (env, s) op).2.data m = some w ∧ m ∈ (C02.step (env, s) op).2.inputs :=
  C02.step_keeps_input ho hw h hr op m w hop hin hl

/-- **The inputs are a function of the edits**: after any operation, which elements hold an assigned
value and which value is determined by the definitions, the inputs before and the operation
(`C02.inpStep`) – no evaluation, no reference edit, no `clear()`, no edit of another cells changes
them. -/
theorem inputs_depend_on_edits_only (ho : StrictOrder lt) (hw : C02.WF env lt) {s : St} (h : CI env lt s)
    (hr : RgNoInputs s) (op : C02.Op) :
    inpOf (C02.step (env, s) op).2 = C02.inpStep env (inpOf s) op :=
  C02.inpOf_step ho hw h hr op

/-! ### "exactly the dependents": the graph against the calls the formulas made

`set_value_exact` / `clear_at_exact` are exact relative to the trace graph.  That the graph contains
every call is a theorem in the regime of C02 (`NoCatch`): in a state with certificates, a held
computed element has a replayable trace of its formula (the calls it made, with the values they
returned; calls made inside uncached callees flattened into it), and EVERY recorded call has its
edge – so a value edit discards at least everything computed from the edited element – and every
edge into it stems from a recorded call (`edges_stem_from_calls`; both directions together:
`C08.edges_are_exactly_the_calls`), so nothing else is discarded: the descendants of `n` in the graph
are exactly the elements whose recorded computation used, directly or transitively, a value
returned by `n`. -/

/-- **every call a held element's formula made has an edge in the trace graph** -/
theorem calls_have_edges {s : St} (h : CI env lt s) (n : Node) (v : Val) (hl : lookup s.data n = some v)
    (hin : n ∉ s.inputs) :
    ∃ tr, Replay env tr (env.formula n) v ∧
      (∀ m w, FEv.call m w ∈ flat n.1 tr → lookup s.data m = some w ∧ (GNode.elem m, GNode.elem n) ∈ s.ge) ∧
      (∀ m, FEv.ucall m ∈ flat n.1 tr → (GNode.obj m.1, GNode.elem n) ∈ s.ge) := by
  obtain ⟨tr, hc⟩ := h.certs n v hl hin
  exact ⟨tr, hc.replay, fun m w hm => ⟨(hc.events _ hm).1, (hc.events _ hm).2.2⟩, fun m hm => hc.events _ hm⟩

/-- **every edge into a held computed element stems from a call its computation made** -/
theorem edges_stem_from_calls {s : St} (n : Node) (v : Val) (tr : Tr) (hc : Cert env s n v tr) (a : GNode)
    (he : (a, GNode.elem n) ∈ s.ge) :
    (∃ m w, a = .elem m ∧ FEv.call m w ∈ flat n.1 tr) ∨ (∃ m, a = .obj m.1 ∧ FEv.ucall m ∈ flat n.1 tr) :=
  hc.just a he

/-- …hence **assigning to (or clearing) an element discards every value whose computation called
it** – directly or from inside uncached callees. -/
theorem callers_are_discarded {s : St} (h : CI env lt s) (n m : Node) (v w v' : Val)
    (hl : lookup s.data n = some v) (hin : n ∉ s.inputs) (tr : Tr) (hc : Cert env s n v tr)
    (hcall : FEv.call m w ∈ flat n.1 tr) (hv : ¬ (v' = .none ∧ env.allowNone m.1 = false)) :
    lookup (s.setValue env m v').1.data n = none := by
  have hedge := (hc.events _ hcall).2.2
  have hrk := (hc.events _ hcall).2.1
  have hne : n ≠ m := by intro h'; subst h'; omega
  rw [set_value_exact h.gi ⟨h.quiet.stack, h.quiet.idx⟩ m n v' hv, if_neg hne,
    if_pos (Reach.step Reach.refl hedge)]

/-! Non-vacuity: in the program of C02 (`C02.xEnv`: `c3()` reads `r0` by attribute path, `c0` reads it
by name) `c3()` is evaluated and then ASSIGNED; the reference graph no longer mentions it, and a
change of `r0` – which clears the computed `c0(5)` and would clear a computed `c3()` – leaves the
input in place. -/
def iOps : List C02.Op :=
  [.eval (3, []), .eval (0, [.int 5]), .setValue (3, []) (.int 77), .setRef 0 (.int 20)]

example : (C02.run (C02.xEnv, {}) (iOps.take 2)).2.rg = [(1, (2, [.int 1])), (0, (3, []))] ∧
    (C02.run (C02.xEnv, {}) (iOps.take 3)).2.rg = [(1, (2, [.int 1]))] ∧
    (C02.run (C02.xEnv, {}) iOps).2.inputs = [(3, [])] ∧
    lookup (C02.run (C02.xEnv, {}) iOps).2.data (3, []) = some (.int 77) ∧
    lookup (C02.run (C02.xEnv, {}) iOps).2.data (0, [.int 5]) = none := by decide

/-! Non-vacuity on the program of C08: after evaluating `c3()` (which depends on `c0(1)` through
the uncached `c1`), assigning `c0(1)` discards `c3()` and nothing else. -/
example : (lookup (run gEnv {} [.eval (3, []), .eval (0, [.int 7]), .set (0, [.int 1]) (.int 100)]).data
    (3, [])) = none ∧
    (lookup (run gEnv {} [.eval (3, []), .eval (0, [.int 7]), .set (0, [.int 1]) (.int 100)]).data
    (0, [.int 7])) = some (.int 17) := by decide

/-! ### the recalculation option (`mx.set_recalc(True)`)

`St.setValueRecalc` (Exec/Mech.lean) is `set_value_from_key` with `System._recalc_dependents = True`:
`targets = get_startnodes_from(node)` BEFORE the clearing, the assignment as with the option off, then
`for trg in targets: trg[OBJ].get_value_from_key(trg[KEY])` (`St.recalcTargets`; a failing recomputation
raises out of the loop, the remaining targets are not evaluated).  Regime of the value statements: `CI`
states and `C02.WF` (`Ranked`, `NoCatch`, `Scoped`) – every reachable state of the thirteen-operation
language, and of the fourteen-operation language with the recalculating assignment itself among the
operations (`C02.reachable_ci_with_recalc`).  State-level two-run form: `recalc_state_is_lazy_run`. -/

/-- **Recalculation = the lazy assignment, then evaluate the former leaf dependents** (the definition of
the model, made explicit): an accepted assignment is `St.setValue` followed by the loop over
`St.startNodesFrom` of the state BEFORE the assignment; a refused one (`None` where it is not allowed)
changes nothing; the loop is one top-level evaluation per target, in order, stopping at the first
failure. -/
theorem recalc_is_lazy_then_evaluate (s : St) (n : Node) (v : Val) :
    (¬ (v = .none ∧ env.allowNone n.1 = false) →
      s.setValueRecalc env n v =
        ((St.recalcTargets env (s.startNodesFrom n) (s.setValue env n v).1).2,
         (St.recalcTargets env (s.startNodesFrom n) (s.setValue env n v).1).1)) ∧
    ((v = .none ∧ env.allowNone n.1 = false) → s.setValueRecalc env n v = (s, .refused .noneNotAllowed)) ∧
    (∀ s', St.recalcTargets env [] s' = (.ok, s')) ∧
    (∀ t ts s', St.recalcTargets env (t :: ts) s' =
      match (evalTop env t s').1 with
      | .ok _ => St.recalcTargets env ts (evalTop env t s').2
      | .formulaError e tb => (.failed t e tb, (evalTop env t s').2)) :=
  ⟨setValueRecalc_eq s n v, setValueRecalc_refused s n v, fun _ => rfl, fun _ _ _ => rfl⟩

/-- **which elements are recomputed at once**: the former leaf dependents – the elements computed,
directly or transitively, from `n` (other than `n`) from which nothing else was computed; each of them
held a value, of a cached cells that exists -/
theorem recalc_targets_are_former_leaf_dependents {s : St} (h : CI env lt s) (n t : Node) :
    (t ∈ s.startNodesFrom n ↔
      GNode.elem n ∈ s.gn ∧ Reach s.ge (.elem n) (.elem t) ∧ t ≠ n ∧ ∀ y, (GNode.elem t, y) ∉ s.ge) ∧
    (t ∈ s.startNodesFrom n → env.alive t.1 = true ∧ env.cached t.1 = true ∧ (lookup s.data t).isSome = true) :=
  ⟨mem_startNodesFrom (fun x y hxy => (h.gi.edgeNodes x y hxy).2) n t, startNodes_alive h n t⟩

/-- **Every value held after the recalculating assignment is the value lazy recomputation gives**: the
state has certificates (`CI`), its inputs – elements and values – are those of the lazy assignment, and
every held value is the denotation under these inputs (`Good`: `no_stale_after_value_edit` for the
assignment, `eval_keeps_certificates` for every recomputation – whether it returned or failed). -/
theorem recalc_values_are_lazy_values (ho : StrictOrder lt) (hw : C02.WF env lt) {s : St} (h : CI env lt s)
    (n : Node) (v : Val) (hc : env.cached n.1 = true) (hn : env.alive n.1 = true) :
    CI env lt (s.setValueRecalc env n v).1 ∧
    inpOf (s.setValueRecalc env n v).1 = inpOf (s.setValue env n v).1 ∧
    Good env (inpOf (s.setValue env n v).1) (s.setValueRecalc env n v).1 := by
  have h1 := setValue_ci h n v hc hn
  by_cases hv : v = .none ∧ env.allowNone n.1 = false
  · rw [setValueRecalc_refused s n v hv, setValue_refused s n v hv]
    exact ⟨h, rfl, h.good⟩
  · rw [setValueRecalc_eq s n v hv]
    have hal : ∀ t ∈ s.startNodesFrom n, env.alive t.1 = true := fun t ht => (startNodes_alive h n t ht).1
    have h2 := (recalcTargets_ci ho hw.ranked hw.noCatch (s.startNodesFrom n) _ hal h1).1
    have h3 := inpOf_recalcTargets ho hw.ranked hw.noCatch (s.startNodesFrom n) hal h1
    refine ⟨h2, h3, ?_⟩
    have := h2.good
    rw [h3] at this
    exact this

/-- … read element by element: a value `w` held for `m` after the recalculating assignment is what the
LAZY model – the same assignment with the option off – returns when `m` is asked for afterwards: any
value it returns is `w`, and when that evaluation stays within the recursion limit it does return `w`. -/
theorem recalc_value_equals_lazy_value (ho : StrictOrder lt) (hw : C02.WF env lt) {s : St} (h : CI env lt s)
    (n : Node) (v : Val) (hc : env.cached n.1 = true) (hn : env.alive n.1 = true) (m : Node) (w : Val)
    (hl : lookup (s.setValueRecalc env n v).1.data m = some w) :
    (∀ w', (evalTop env m (s.setValue env n v).1).1 = .ok w' → w' = w) ∧
    (LimitNotCaughtInThisCall env m (s.setValue env n v).1 → (evalTop env m (s.setValue env n v).1).1 = .ok w) := by
  obtain ⟨h2, _, hg⟩ := recalc_values_are_lazy_values ho hw h n v hc hn
  have hcm : env.cached m.1 = true := (h2.gi.heldNodes m (by rw [hl]; rfl)).2
  have hden := hg.sound m w hcm hl
  have hg1 := (setValue_ci h n v hc hn).good
  constructor
  · intro w' hw'
    have := (C01.eval_value_is_denotation_nocatch_partial env _ hw.noCatch m _ hg1).1 w' hw'
    have := Den_det env _ m _ _ this hden
    cases this; rfl
  · intro hlim
    obtain ⟨a, b, _⟩ := C01.eval_value_is_denotation_partial env _ m _ hg1 hlim
    cases hr : (evalTop env m (s.setValue env n v).1).1 with
    | ok w' =>
      have := Den_det env _ m _ _ (a w' hr) hden
      cases this; rfl
    | formulaError e tb =>
      have := Den_det env _ m _ _ (b e tb hr) hden
      cases this

/-- **When no recomputation fails, every former leaf dependent holds a value again** (and with it, by the
certificates of the resulting state – `calls_have_edges` –, every element its recomputation called; a
former dependent that is NOT a leaf is recomputed exactly when some leaf's new computation calls it: see the
example `kEnv` below, where `c1()` stays empty).  No hypothesis on the formulas is needed for this half. -/
theorem recalc_recomputes_former_leaves {s : St} (h : CI env lt s) (n : Node) (v : Val)
    (hok : (s.setValueRecalc env n v).2 = .ok) (t : Node) (ht : t ∈ s.startNodesFrom n) :
    (lookup (s.setValueRecalc env n v).1.data t).isSome = true := by
  by_cases hv : v = .none ∧ env.allowNone n.1 = false
  · rw [setValueRecalc_refused s n v hv] at hok; cases hok
  · rw [setValueRecalc_eq s n v hv] at hok ⊢
    exact recalcTargets_held env _ _ hok t ht (startNodes_alive h n t ht).2.1

/-- **A failing recomputation raises out of the assignment, which is made all the same**: the element
holds the assigned value and is an input; the failure is the `FormulaError` of the top-level evaluation
of one former leaf dependent `t`, the targets before it (in the model's order) were recomputed, those
after it were not evaluated. -/
theorem recalc_failure_leaves_assignment_made (ho : StrictOrder lt) (hw : C02.WF env lt) {s : St} (h : CI env lt s)
    (n : Node) (v : Val) (hc : env.cached n.1 = true) (hn : env.alive n.1 = true)
    (hv : ¬ (v = .none ∧ env.allowNone n.1 = false)) :
    lookup (s.setValueRecalc env n v).1.data n = some v ∧ n ∈ (s.setValueRecalc env n v).1.inputs ∧
    ∀ t e tb, (s.setValueRecalc env n v).2 = .failed t e tb →
      ∃ pre post, s.startNodesFrom n = pre ++ t :: post ∧
        (St.recalcTargets env pre (s.setValue env n v).1).1 = .ok ∧
        (evalTop env t (St.recalcTargets env pre (s.setValue env n v).1).2).1 = .formulaError e tb ∧
        (s.setValueRecalc env n v).1 = (evalTop env t (St.recalcTargets env pre (s.setValue env n v).1).2).2 := by
  have h1 := setValue_ci h n v hc hn
  have hal : ∀ t ∈ s.startNodesFrom n, env.alive t.1 = true := fun t ht => (startNodes_alive h n t ht).1
  rw [setValueRecalc_eq s n v hv]
  have hx := (recalcTargets_ci ho hw.ranked hw.noCatch (s.startNodesFrom n) _ hal h1).2.1
  have hset : lookup (s.setValue env n v).1.data n = some v := by
    rw [set_value_exact h.gi ⟨h.quiet.stack, h.quiet.idx⟩ n n v hv]; simp
  have hin : n ∈ (s.setValue env n v).1.inputs := setValue_mem_inputs s n v hv
  refine ⟨hx n v hset, ?_, ?_⟩
  · rw [(recalcTargets_keeps env _ _).2]; exact hin
  · intro t e tb hf
    obtain ⟨pre, post, s0, e1, e2, e3, e4, e5⟩ := recalcTargets_failed env _ _ t e tb hf
    subst e3
    exact ⟨pre, post, e1, e2, e4, e5⟩

/-- **Nothing else is touched**: an element that was held and is not a dependent of `n` keeps its value
and is not executed – neither by the clearing nor by any recomputation (`new`: the formula executions the
whole assignment adds to the log); `n` itself holds the assigned value and is not executed either. -/
theorem recalc_touches_nothing_else (ho : StrictOrder lt) (hw : C02.WF env lt) {s : St} (h : CI env lt s)
    (n : Node) (v : Val) (hc : env.cached n.1 = true) (hn : env.alive n.1 = true)
    (hv : ¬ (v = .none ∧ env.allowNone n.1 = false)) :
    ∃ new, (s.setValueRecalc env n v).1.log = new ++ s.log ∧ n ∉ new ∧
      ∀ m w, m ≠ n → ¬ Reach s.ge (.elem n) (.elem m) → lookup s.data m = some w →
        lookup (s.setValueRecalc env n v).1.data m = some w ∧ m ∉ new := by
  have h1 := setValue_ci h n v hc hn
  have hal : ∀ t ∈ s.startNodesFrom n, env.alive t.1 = true := fun t ht => (startNodes_alive h n t ht).1
  rw [setValueRecalc_eq s n v hv]
  obtain ⟨_, hx, new, hlog, hnew⟩ := recalcTargets_ci ho hw.ranked hw.noCatch (s.startNodesFrom n) _ hal h1
  refine ⟨new, by rw [hlog, setValue_log], ?_, ?_⟩
  · intro hmem
    have := hnew n hmem hc
    rw [set_value_exact h.gi ⟨h.quiet.stack, h.quiet.idx⟩ n n v hv] at this
    simp at this
  · intro m w hmn hnr hl
    have hl1 : lookup (s.setValue env n v).1.data m = some w := by
      rw [set_value_exact h.gi ⟨h.quiet.stack, h.quiet.idx⟩ n m v hv]; simp [hmn, hnr, hl]
    refine ⟨hx m w hl1, fun hmem => ?_⟩
    have := hnew m hmem (h.gi.heldNodes m (by rw [hl]; rfl)).2
    rw [hl1] at this; cases this

/-- **The two-run form: the STATE after the recalculating assignment IS the state of the lazy run.**
Run 1: the recalculating assignment `s.setValueRecalc env n v` (option on).  Run 2 (option off), from the
same state: the lazy assignment `.setValue n v` followed by the evaluations `.eval t` of the former leaf
dependents (`C02.expandOp`, a history of the thirteen-operation language `C02.Op` run by `C02.run`).  The two
runs end in the same definitions and the same mechanism state – every held value, the inputs, the trace
graph, the reference graph, the execution log.  Which evaluations: `s.startNodesFrom n`, taken BEFORE the
assignment – all of them when no recomputation fails; those up to and including the failing one when one
fails (the others are not evaluated by either run); none when the assignment is refused (`None` where it
is not allowed: neither run changes anything).  With `recalc_values_are_lazy_values`: the values both runs
hold are the denotations under the inputs of the lazy assignment. -/
theorem recalc_state_is_lazy_run {s : St} (h : CI env lt s) (n : Node) (v : Val)
    (hc : env.cached n.1 = true) (hn : env.alive n.1 = true) :
    (env, (s.setValueRecalc env n v).1) = C02.run (env, s) (C02.expandOp (env, s) (.setValueRecalc n v)) ∧
    (¬ (v = .none ∧ env.allowNone n.1 = false) →
      C02.expandOp (env, s) (.setValueRecalc n v) =
        .setValue n v :: (C02.evaluatedTargets env (s.startNodesFrom n) (s.setValue env n v).1).map C02.Op.eval) ∧
    ((s.setValueRecalc env n v).2 = .ok →
      C02.evaluatedTargets env (s.startNodesFrom n) (s.setValue env n v).1 = s.startNodesFrom n) ∧
    (∀ t e tb, (s.setValueRecalc env n v).2 = .failed t e tb →
      ∃ pre post, s.startNodesFrom n = pre ++ t :: post ∧
        C02.evaluatedTargets env (s.startNodesFrom n) (s.setValue env n v).1 = pre ++ [t]) ∧
    ((v = .none ∧ env.allowNone n.1 = false) →
      C02.expandOp (env, s) (.setValueRecalc n v) = [.setValue n v] ∧
      C02.run (env, s) [.setValue n v] = (env, s)) := by
  have hg : (env.cached n.1 && env.alive n.1) = true := by rw [hc, hn]; rfl
  refine ⟨?_, ?_, ?_, ?_, ?_⟩
  · have := C02.stepR_eq_run (lt := lt) (env, s) (.setValueRecalc n v) h
    simp only [C02.stepR, hg, if_true] at this
    exact this
  · intro hv
    simp only [C02.expandOp, hg, if_true, setValue_accepted s n v hv]
  · intro hok
    by_cases hv : v = .none ∧ env.allowNone n.1 = false
    · rw [setValueRecalc_refused s n v hv] at hok; cases hok
    · rw [setValueRecalc_eq s n v hv] at hok
      exact C02.evaluatedTargets_ok env _ _ hok
  · intro t e tb hf
    by_cases hv : v = .none ∧ env.allowNone n.1 = false
    · rw [setValueRecalc_refused s n v hv] at hf; cases hf
    · rw [setValueRecalc_eq s n v hv] at hf
      exact C02.evaluatedTargets_failed env _ _ t e tb hf
  · intro hv
    refine ⟨?_, ?_⟩
    · simp only [C02.expandOp, hg, if_true, setValue_refused s n v hv]
    · simp only [C02.run, List.foldl_cons, List.foldl_nil, C02.step, hg, if_true, setValue_refused s n v hv]

/-! Non-vacuity, with numbers.  `c0 = 1`, `c1 = c0() * 10`, `c2 = c1() + 1 if c0() < 5 else 0`,
`c3 = c1() + 100`, `c4 = 7`, `c5 = 1 if c0() < 5 else raise ValueError`, `c6 = c0() + 100`.

* `kS`: `c2()`, `c3()`, `c4()` evaluated (11, 110, 7).  The former leaf dependents of `c0()` are `c2()`,
  `c3()` (`c1()` is a dependent with dependents).  `c0 = 2` with the option on: `c1()`, `c2()`, `c3()`
  hold 20, 21, 120 at once; the executions are those three; `c4()` keeps 7 and is not executed.
* `kT`: only `c2()` evaluated.  `c0 = 9` with the option on: `c2()` is recomputed to 0 WITHOUT calling
  `c1()`: the former dependent `c1()`, which is not a leaf, holds nothing – as after lazy recomputation
  of `c2()`.
* `kU`: `c5()`, then `c3()` evaluated; targets in the model's order `c5()`, `c3()`.  `c0 = 9`: the
  recomputation of `c5()` fails; the error comes out of the assignment (`.failed`), `c0()` holds 9 as an
  input, the remaining target `c3()` was not evaluated (it holds nothing, as after the lazy assignment).
  `kV`: `c6()`, then `c5()` evaluated; targets `c6()`, `c5()`: `c6()` is recomputed (109) before `c5()` fails. -/
def kCells : CellId → Option Expr
  | 0 => some (.lit 1)
  | 1 => some (.mul (.call 0 []) (.lit 10))
  | 2 => some (.ite (.lt (.call 0 []) (.lit 5)) (.add (.call 1 []) (.lit 1)) (.lit 0))
  | 3 => some (.add (.call 1 []) (.lit 100))
  | 4 => some (.lit 7)
  | 5 => some (.ite (.lt (.call 0 []) (.lit 5)) (.lit 1) (.raise kValue))
  | 6 => some (.add (.call 0 []) (.lit 100))
  | _ => none

def kAr : CellId → Option Nat := fun c => (kCells c).map (fun _ => 0)

def kEnv : Env :=
  C02.tableEnv kCells kAr [0, 1, 2, 3, 4, 5, 6] (fun _ => true) (fun _ => false) (fun _ => 0) (fun _ => 0)
    (fun _ => none) 50

theorem kEnv_wf : C02.WF kEnv idLt :=
  C02.tableEnv_wf_aux _ _ _ _ _ _ _ _ _ _ _
    (by intro i e h
        match i, h with
        | 0, _ => simp
        | 1, _ => simp
        | 2, _ => simp
        | 3, _ => simp
        | 4, _ => simp
        | 5, _ => simp
        | 6, _ => simp)
    (by intro i e h
        match i, h with
        | 0, h => cases h; exact ⟨rfl, rfl⟩
        | 1, h => cases h; exact ⟨rfl, rfl⟩
        | 2, h => cases h; exact ⟨rfl, rfl⟩
        | 3, h => cases h; exact ⟨rfl, rfl⟩
        | 4, h => cases h; exact ⟨rfl, rfl⟩
        | 5, h => cases h; exact ⟨rfl, rfl⟩
        | 6, h => cases h; exact ⟨rfl, rfl⟩)

def kS : St := (evalTop kEnv (4, []) (evalTop kEnv (3, []) (evalTop kEnv (2, []) {}).2).2).2
def kT : St := (evalTop kEnv (2, []) {}).2
def kU : St := (evalTop kEnv (3, []) (evalTop kEnv (5, []) {}).2).2
def kV : St := (evalTop kEnv (5, []) (evalTop kEnv (6, []) {}).2).2

theorem kS_ci : CI kEnv idLt kS :=
  evalTop_ci idLt_strict kEnv_wf.ranked kEnv_wf.noCatch _ rfl
    (evalTop_ci idLt_strict kEnv_wf.ranked kEnv_wf.noCatch _ rfl
      (evalTop_ci idLt_strict kEnv_wf.ranked kEnv_wf.noCatch _ rfl (CI.empty kEnv idLt)))

example : kS.startNodesFrom (0, []) = [(2, []), (3, [])] ∧
    (kS.setValueRecalc kEnv (0, []) (.int 2)).2 = .ok ∧
    lookup (kS.setValueRecalc kEnv (0, []) (.int 2)).1.data (1, []) = some (.int 20) ∧
    lookup (kS.setValueRecalc kEnv (0, []) (.int 2)).1.data (2, []) = some (.int 21) ∧
    lookup (kS.setValueRecalc kEnv (0, []) (.int 2)).1.data (3, []) = some (.int 120) ∧
    lookup (kS.setValueRecalc kEnv (0, []) (.int 2)).1.data (4, []) = some (.int 7) ∧
    (kS.setValueRecalc kEnv (0, []) (.int 2)).1.inputs = [(0, [])] ∧
    (kS.setValueRecalc kEnv (0, []) (.int 2)).1.log = [(3, []), (1, []), (2, [])] ++ kS.log ∧
    -- the lazy assignment holds none of the three; asked for afterwards it gives the same values
    lookup (kS.setValue kEnv (0, []) (.int 2)).1.data (2, []) = none ∧
    (evalTop kEnv (2, []) (kS.setValue kEnv (0, []) (.int 2)).1).1 = .ok (.int 21) ∧
    (evalTop kEnv (3, []) (kS.setValue kEnv (0, []) (.int 2)).1).1 = .ok (.int 120) := by decide

-- the theorems apply to `kS` (hypotheses met), e.g.:
example : Good kEnv (inpOf (kS.setValue kEnv (0, []) (.int 2)).1) (kS.setValueRecalc kEnv (0, []) (.int 2)).1 :=
  (recalc_values_are_lazy_values idLt_strict kEnv_wf kS_ci (0, []) (.int 2) rfl rfl).2.2

example : (lookup (kS.setValueRecalc kEnv (0, []) (.int 2)).1.data (3, [])).isSome = true :=
  recalc_recomputes_former_leaves kS_ci (0, []) (.int 2) (by decide) (3, []) (by decide)

example : ∃ new, (kS.setValueRecalc kEnv (0, []) (.int 2)).1.log = new ++ kS.log ∧ (0, []) ∉ new ∧
    ∀ m w, m ≠ (0, []) → ¬ Reach kS.ge (.elem (0, [])) (.elem m) → lookup kS.data m = some w →
      lookup (kS.setValueRecalc kEnv (0, []) (.int 2)).1.data m = some w ∧ m ∉ new :=
  recalc_touches_nothing_else idLt_strict kEnv_wf kS_ci (0, []) (.int 2) rfl rfl (fun h => by cases h.1)

example : (evalTop kEnv (3, []) (kS.setValue kEnv (0, []) (.int 2)).1).1 = .ok (.int 120) :=
  (recalc_value_equals_lazy_value idLt_strict kEnv_wf kS_ci (0, []) (.int 2) rfl rfl (3, []) (.int 120) (by decide)).2
    (by unfold LimitNotCaughtInThisCall; decide)

example : kT.startNodesFrom (0, []) = [(2, [])] ∧
    (kT.setValueRecalc kEnv (0, []) (.int 9)).2 = .ok ∧
    lookup (kT.setValueRecalc kEnv (0, []) (.int 9)).1.data (2, []) = some (.int 0) ∧
    lookup kT.data (1, []) = some (.int 10) ∧
    lookup (kT.setValueRecalc kEnv (0, []) (.int 9)).1.data (1, []) = none ∧
    lookup (evalTop kEnv (2, []) (kT.setValue kEnv (0, []) (.int 9)).1).2.data (1, []) = none := by decide

example : kU.startNodesFrom (0, []) = [(5, []), (3, [])] ∧
    (kU.setValueRecalc kEnv (0, []) (.int 9)).2 = .failed (5, []) (.user kValue) [(5, [])] ∧
    lookup (kU.setValueRecalc kEnv (0, []) (.int 9)).1.data (0, []) = some (.int 9) ∧
    (kU.setValueRecalc kEnv (0, []) (.int 9)).1.inputs = [(0, [])] ∧
    lookup (kU.setValueRecalc kEnv (0, []) (.int 9)).1.data (3, []) = none ∧
    lookup (kU.setValueRecalc kEnv (0, []) (.int 9)).1.data (5, []) = none ∧
    kV.startNodesFrom (0, []) = [(6, []), (5, [])] ∧
    (kV.setValueRecalc kEnv (0, []) (.int 9)).2 = .failed (5, []) (.user kValue) [(5, [])] ∧
    lookup (kV.setValueRecalc kEnv (0, []) (.int 9)).1.data (6, []) = some (.int 109) ∧
    lookup (kV.setValueRecalc kEnv (0, []) (.int 9)).1.data (5, []) = none := by decide

/-! The two-run form on the examples: on `kS` (both targets recomputed), on `kT`, on `kU` (the first target
fails: one evaluation in the lazy run) and on `kV` (the second fails: two evaluations) the recalculating
assignment and the lazy run end in the same state – compared as whole states: values, inputs, graphs, log. -/
theorem kT_ci : CI kEnv idLt kT :=
  evalTop_ci idLt_strict kEnv_wf.ranked kEnv_wf.noCatch _ rfl (CI.empty kEnv idLt)

theorem kU_ci : CI kEnv idLt kU :=
  evalTop_ci idLt_strict kEnv_wf.ranked kEnv_wf.noCatch _ rfl
    (evalTop_ci idLt_strict kEnv_wf.ranked kEnv_wf.noCatch _ rfl (CI.empty kEnv idLt))

theorem kV_ci : CI kEnv idLt kV :=
  evalTop_ci idLt_strict kEnv_wf.ranked kEnv_wf.noCatch _ rfl
    (evalTop_ci idLt_strict kEnv_wf.ranked kEnv_wf.noCatch _ rfl (CI.empty kEnv idLt))

example : (kS.setValueRecalc kEnv (0, []) (.int 2)).1 =
      (C02.run (kEnv, kS) [.setValue (0, []) (.int 2), .eval (2, []), .eval (3, [])]).2 ∧
    (kT.setValueRecalc kEnv (0, []) (.int 9)).1 =
      (C02.run (kEnv, kT) [.setValue (0, []) (.int 9), .eval (2, [])]).2 ∧
    (kU.setValueRecalc kEnv (0, []) (.int 9)).1 =
      (C02.run (kEnv, kU) [.setValue (0, []) (.int 9), .eval (5, [])]).2 ∧
    (kV.setValueRecalc kEnv (0, []) (.int 9)).1 =
      (C02.run (kEnv, kV) [.setValue (0, []) (.int 9), .eval (6, []), .eval (5, [])]).2 ∧
    -- and the lazy assignment alone does NOT end there
    (kS.setValueRecalc kEnv (0, []) (.int 2)).1 ≠ (C02.run (kEnv, kS) [.setValue (0, []) (.int 2)]).2 := by
  decide

-- the evaluations of the lazy run are the ones `expandOp` names
example : C02.evaluatedTargets kEnv (kS.startNodesFrom (0, [])) (kS.setValue kEnv (0, []) (.int 2)).1 = [(2, []), (3, [])] ∧
    C02.evaluatedTargets kEnv (kU.startNodesFrom (0, [])) (kU.setValue kEnv (0, []) (.int 9)).1 = [(5, [])] ∧
    C02.evaluatedTargets kEnv (kV.startNodesFrom (0, [])) (kV.setValue kEnv (0, []) (.int 9)).1 = [(6, []), (5, [])] := by
  decide

-- the theorem applies to them (hypotheses met)
example : (kEnv, (kU.setValueRecalc kEnv (0, []) (.int 9)).1) =
    C02.run (kEnv, kU) (C02.expandOp (kEnv, kU) (.setValueRecalc (0, []) (.int 9))) :=
  (recalc_state_is_lazy_run kU_ci (0, []) (.int 9) rfl rfl).1

end MxModel.C06
