import MxModel.Proofs.Reach
import MxModel.Props.C08
import MxModel.Props.C01
import MxModel.Proofs.ExecKeep
/-!
# C06 – a value edit discards exactly its dependents; inputs persist

`Reach s.ge (.elem n) (.elem m)`: `m` is `n` or was computed, directly or transitively, from a
value returned by `n` (edges of the trace graph go from callee to caller).  `St.descsWith` –
the model of `nx.descendants` – is proved to be exactly this closure (`descs_iff`), so the
statements below are about *exactly* the dependents.  Regime: the reachable states of C08
(terminating programs), recalculation option off (the option-on path is checked by the
implementation-only oracle).
-/
namespace MxModel.C06
open MxModel.Exec MxModel.C08
open Classical

variable {env : Env} {lt : Node → Node → Prop}

theorem reach_from_non_node {s : St} (g : GI env lt s) (a x : GNode) (ha : a ∉ s.gn)
    (h : Reach s.ge a x) : x = a := by
  induction h with
  | refl => rfl
  | step _ he ih => subst ih; exact absurd (g.edgeNodes _ _ he).1 ha

/-- `clear_with_descs(n)`: exactly the dependents of `n` lose their values -/
theorem clearWithDescs_lookup {s : St} (g : GI env lt s) (n m : Node) :
    lookup (s.clearWithDescs n).data m =
      if GNode.elem n ∈ s.gn ∧ Reach s.ge (.elem n) (.elem m) then none else lookup s.data m := by
  classical
  rw [clearWithDescs_eq]
  by_cases hn : GNode.elem n ∈ s.gn
  · simp only [List.contains_eq_mem, hn, decide_true, if_true, true_and]
    simp only [St.removeAll, St.dropValues, St.removeNodes]
    rw [lookup_dropValues]
    have : (elemsOf (s.descsWith (.elem n))).contains m = true ↔ Reach s.ge (.elem n) (.elem m) := by
      simp only [List.contains_eq_mem, decide_eq_true_eq, mem_elemsOf]
      exact descs_iff s (fun x y h => (g.edgeNodes x y h).2) _ _ hn
    by_cases hr : Reach s.ge (.elem n) (.elem m)
    · rw [this.mpr hr]; simp [hr]
    · have : (elemsOf (s.descsWith (.elem n))).contains m = false := by
        cases h : (elemsOf (s.descsWith (.elem n))).contains m with
        | false => rfl
        | true => exact absurd (this.mp h) hr
      rw [this]; simp [hr]
  · simp [hn]

/-- **Assigning or overwriting the value of element `n` discards precisely the held values
computed directly or transitively from it; every other held value stays** – and `n` holds the
assigned value. -/
theorem set_value_exact {s : St} (g : GI env lt s) (hi : Idle s) (n m : Node) (v : Val)
    (hv : ¬ (v = .none ∧ env.allowNone n.1 = false)) :
    lookup (s.setValue env n v).1.data m =
      if m = n then some v
      else if Reach s.ge (.elem n) (.elem m) then none
      else lookup s.data m := by
  classical
  unfold St.setValue
  simp only []
  have hcond : (decide (v = Val.none) && !env.allowNone n.1) = false := by
    cases h1 : decide (v = Val.none) <;> cases h2 : env.allowNone n.1 <;> simp_all
  simp only [hcond, Bool.false_eq_true, if_false]
  have hdata : ∀ s2 : St, (s2.addNode (.elem n)).data = s2.data := by
    intro s2; unfold St.addNode; split <;> rfl
  simp only [hdata, lookup_insert]
  by_cases hmn : m = n
  · subst hmn; simp
  · have hnm : ¬ n = m := fun h => hmn h.symm
    simp only [hmn, hnm, if_false]
    unfold St.clearValueAt
    by_cases hheld : (lookup s.data n).isSome = true
    · simp only [hheld, if_true, Bool.true_or]
      rw [clearWithDescs_lookup g]
      simp only [(g.heldNodes n hheld).1, true_and]
    · simp only [hheld, Bool.false_eq_true, if_false]
      have hnot : GNode.elem n ∉ s.gn := by
        intro h
        rcases g.nodesHeld n h with h' | h'
        · exact absurd h' hheld
        · rw [hi.1] at h'; cases h'
      have hnr : ¬ Reach s.ge (.elem n) (.elem m) := by
        intro hr
        have := reach_from_non_node g _ _ hnot hr
        cases this; exact absurd rfl hmn
      simp [hnr]

/-- the same, read for idle (reachable) states: the `else` branch above is only taken when
nothing is executing -/
theorem set_value_exact_idle {s : St} (g : GI env lt s) (hi : Idle s) (n m : Node) (v : Val)
    (hv : ¬ (v = .none ∧ env.allowNone n.1 = false)) (hmn : m ≠ n)
    (hr : Reach s.ge (.elem n) (.elem m)) : lookup (s.setValue env n v).1.data m = none := by
  rw [set_value_exact g hi n m v hv]; simp [hmn, hr]

/-- **`clear_at` discards exactly the element and its dependents.** -/
theorem clear_at_exact {s : St} (g : GI env lt s) (hi : Idle s) (n m : Node) :
    lookup (s.clearValueAt n true).data m =
      if (lookup s.data n).isSome ∧ Reach s.ge (.elem n) (.elem m) then none else lookup s.data m := by
  classical
  unfold St.clearValueAt
  by_cases hheld : (lookup s.data n).isSome = true
  · simp only [hheld, if_true, Bool.true_or, true_and]
    rw [clearWithDescs_lookup g]
    simp only [(g.heldNodes n hheld).1, true_and]
  · simp [hheld]

/-- a user input is never a dependent of another element -/
theorem input_not_dependent {s : St} (g : GI env lt s) (a : GNode) (m : Node) (hin : m ∈ s.inputs)
    (hne : a ≠ .elem m) : ¬ Reach s.ge a (.elem m) := by
  intro h
  obtain ⟨y, hy⟩ := h.pred (fun h' => hne h'.symm)
  exact g.inputsNoPreds y m hy hin

/-- **Values assigned by the user survive edits of other elements**: assigning to `n ≠ m`
leaves the input `m` an input with its value. -/
theorem input_survives_set {s : St} (g : GI env lt s) (hi : Idle s) (n m : Node) (v w : Val)
    (hv : ¬ (v = .none ∧ env.allowNone n.1 = false)) (hmn : m ≠ n)
    (hin : m ∈ s.inputs) (hl : lookup s.data m = some w) :
    lookup (s.setValue env n v).1.data m = some w := by
  rw [set_value_exact g hi n m v hv]
  have : ¬ Reach s.ge (.elem n) (.elem m) :=
    input_not_dependent g _ m hin (by intro h; cases h; exact hmn rfl)
  simp [hmn, this, hl]

/-- **…and survive `clear()`** (which discards calculated values only): every step of
`clear_all_values(clear_input=False)` leaves every input of the model in place. -/
theorem input_survives_clear_step {s : St} (g : GI env lt s) (k m : Node) (w : Val)
    (hin : m ∈ s.inputs) (hl : lookup s.data m = some w) :
    lookup (s.clearValueAt k false).data m = some w ∧ m ∈ (s.clearValueAt k false).inputs := by
  classical
  unfold St.clearValueAt
  split
  · split
    · rename_i hk
      have hkin : k ∉ s.inputs := by simpa using hk
      have hkm : GNode.elem k ≠ GNode.elem m := by intro h; cases h; exact hkin hin
      have hnr : ¬ Reach s.ge (.elem k) (.elem m) := input_not_dependent g _ m hin hkm
      refine ⟨by rw [clearWithDescs_lookup g]; simp [hnr, hl], ?_⟩
      rw [clearWithDescs_eq]
      split
      · simp only [St.removeAll, St.dropValues, St.removeNodes, List.mem_filter, hin, true_and,
          Bool.not_eq_true', List.contains_eq_mem, decide_eq_false_iff_not, mem_elemsOf]
        intro hd; exact hnr (descs_sound s _ _ hd)
      · exact hin
    · exact ⟨hl, hin⟩
  · exact ⟨hl, hin⟩

theorem input_survives_clear {s : St} (g : GI env lt s) (hi : Idle s) (c : CellId) (m : Node) (w : Val)
    (hin : m ∈ s.inputs) (hl : lookup s.data m = some w) :
    lookup (s.clearAllValues c false).data m = some w ∧ m ∈ (s.clearAllValues c false).inputs := by
  unfold St.clearAllValues
  generalize ((s.data.filter (fun e => e.1.1 == c)).map (·.1)) = keys
  have hst := hi.1
  clear hi
  induction keys generalizing s with
  | nil => exact ⟨hl, hin⟩
  | cons k rest ih =>
    simp only [List.foldl]
    obtain ⟨h1, h2⟩ := input_survives_clear_step g k m w hin hl
    exact ih (g.clearValueAt hst k false) h2 h1 (by rw [clearValueAt_stack]; exact hst)

/-- **Evaluations never touch held values or inputs** (no entry is overwritten, the input set
is unchanged). -/
theorem eval_keeps_held (ho : StrictOrder lt) (hr : Ranked env lt) {s : St} (g : GI env lt s)
    (hi : Idle s) (n m : Node) (w : Val) (hl : lookup s.data m = some w) :
    lookup (evalTop env n s).2.data m = some w ∧ (evalTop env n s).2.inputs = s.inputs :=
  ⟨(g.topCall ho hr hi.1 hi.2 n).2.2.2 m w hl, (evalTop_keeps env n s).2⟩

/-- **An assigned value is what the cells returns for those arguments regardless of its
formula**, and it is served without running any formula. -/
theorem assigned_value_returned {s : St} (g : GI env lt s) (hi : Idle s) (n : Node) (v : Val)
    (hc : env.cached n.1 = true) (hv : ¬ (v = .none ∧ env.allowNone n.1 = false)) :
    evalTop env n (s.setValue env n v).1 = (.ok v, (s.setValue env n v).1) := by
  apply C01.held_never_reexecuted_top env n _ v hc
  rw [set_value_exact g hi n n v hv]; simp

/-- **Every other held value is served without its formula running again.** -/
theorem survivor_served_without_running {s : St} (g : GI env lt s) (hi : Idle s) (n m : Node) (v w : Val)
    (hc : env.cached m.1 = true) (hv : ¬ (v = .none ∧ env.allowNone n.1 = false)) (hmn : m ≠ n)
    (hnr : ¬ Reach s.ge (.elem n) (.elem m)) (hl : lookup s.data m = some w) :
    evalTop env m (s.setValue env n v).1 = (.ok w, (s.setValue env n v).1) := by
  apply C01.held_never_reexecuted_top env m _ w hc
  rw [set_value_exact g hi n m v hv]; simp [hmn, hnr, hl]

/-! Non-vacuity on the program of C08: after evaluating `c3()` (which depends on `c0(1)` through
the uncached `c1`), assigning `c0(1)` discards `c3()` and nothing else. -/
example : (lookup (run gEnv {} [.eval (3, []), .eval (0, [.int 7]), .set (0, [.int 1]) (.int 100)]).data
    (3, [])) = none ∧
    (lookup (run gEnv {} [.eval (3, []), .eval (0, [.int 7]), .set (0, [.int 1]) (.int 100)]).data
    (0, [.int 7])) = some (.int 17) := by decide

end MxModel.C06
