import MxModel.Kernels.Names
import MxModel.Generated.Tables
import MxModel.Props.C03
/-!
# C11 – rejected edits change nothing; the inheritance relation stays well-formed

Lean part: the *decision kernels* of the validation – which names are valid, and when a
linearisation exists.  `isValidName` is `is_valid_name` (util.py) with the keyword table
regenerated from the running interpreter; `mro … = none` is `get_mro` raising "inconsistent
hierarchy".  That every rejected edit leaves the model unchanged, and that every accepted
edit leaves all spaces linearisable and all names valid, is decided by the
implementation-only oracle (complete description before/after every raising operation) –
five places where modelx mutated before it validated were repaired by `fix:` commits.
-/
namespace MxModel.C11
open MxModel.Names MxModel.Generated MxModel.C3

/-- **Only valid identifiers not starting with an underscore become names**: an accepted name
is non-empty, starts with a letter, continues with letters, digits or underscores, and is not
a keyword. -/
theorem valid_name_shape (kw : List String) (s : String) (h : isValidName kw s = true) :
    ∃ c cs, s.toList = c :: cs ∧ c.isAlpha = true ∧ c ≠ '_' ∧ cs.all isIdCont = true ∧ s ∉ kw := by
  unfold isValidName at h
  cases hs : s.toList with
  | nil => rw [hs] at h; cases h
  | cons c cs =>
    rw [hs] at h
    simp only [Bool.and_eq_true, bne_iff_ne, ne_eq, Bool.not_eq_true', List.contains_eq_mem,
      decide_eq_false_iff_not] at h
    obtain ⟨⟨⟨h1, h2⟩, h3⟩, h4⟩ := h
    refine ⟨c, cs, rfl, ?_, h2, h3, h4⟩
    unfold isIdStart at h1
    simp only [Bool.or_eq_true, beq_iff_eq] at h1
    rcases h1 with h1 | h1
    · exact h1
    · exact absurd h1 h2

/-- keywords of the running interpreter, names starting with `_` or a digit, and the empty
name are rejected -/
theorem invalid_names_rejected :
    isValidName pythonKeywords "for" = false ∧ isValidName pythonKeywords "_x" = false ∧
    isValidName pythonKeywords "1a" = false ∧ isValidName pythonKeywords "" = false ∧
    isValidName pythonKeywords "a b" = false ∧ isValidName pythonKeywords "None" = false := by
  decide

/-- **An accepted base edit leaves a C3 linearisation that respects every direct base**:
whenever `get_mro` returns (does not raise) the result starts with the space and keeps the
order of its bases and of their linearisations. -/
theorem accepted_linearisation_wellformed {α : Type} [DecidableEq α] (bases : α → List α) (d : Nat)
    (s : α) (l : List α) (h : mro bases (d + 1) s = some l) :
    ∃ r, l = s :: r ∧ (bases s).Sublist r := by
  obtain ⟨r, hr⟩ := mro_head bases (d + 1) s l h
  subst hr
  exact ⟨r, rfl, (mro_sublist bases d s r h).1⟩

/-- an inconsistent hierarchy has no linearisation (the edit that would create it is rejected) -/
theorem inconsistent_hierarchy_rejected : mro C03.dBases 5 "E" = none := by decide

example : isValidName pythonKeywords "Space1" = true := by decide

end MxModel.C11
