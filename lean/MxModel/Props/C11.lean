import MxModel.Kernels.Names
import MxModel.Generated.Tables
import MxModel.Props.C03
import MxModel.Proofs.StructMechLive
import MxModel.Proofs.StructMechBatch
/-!
# C11 – rejected edits change nothing; the inheritance relation stays well-formed

Lean part: the *decision kernels* of the validation – which names are valid, and when a
linearisation exists.  `isValidName` is `is_valid_name` (util.py) with the keyword table
regenerated from the running interpreter; `mro … = none` is `get_mro` raising "inconsistent
hierarchy".  That every rejected edit leaves the *implementation* unchanged is decided by the
implementation-only oracle (complete description before/after every raising operation) –
five places where modelx mutated before it validated were repaired by `fix:` commits.
For the mechanism model (`Struct/Mech.lean`, tied to the code edit by edit) the second half of
the property is a theorem: in every reachable state every direct base exists, every space has a
C3 linearisation and the base relation has no cycle (`reachable_has_linearisation`,
`reachable_bases_exist`, `base_relation_acyclic`, from the invariant `SM.Inv` preserved by all
twelve operations).  Calls that create several cells at once (`new_cells_from_pandas` etc., a loop of single
creations in the code) are modelled in `Struct/MechBatch.lean`: the atomic call that checks everything up
front equals the loop on every reachable state (`batch_accepted_equals_sequence`), refuses exactly when the
loop would stop (`batch_refused_iff_sequence_refused`), and the loop leaves created cells behind when it
stops half-way (`loop_refused_halfway_differs`).
-/
namespace MxModel.C11
open MxModel.Names MxModel.Generated MxModel.C3

/-- **Only valid identifiers not starting with an underscore become names**: an accepted name
is non-empty, starts with a letter, continues with letters, digits or underscores, and is not
a keyword. -/
theorem valid_name_shape (kw : List String) (s : String) (h : isValidName kw s = true) :
    ∃ c cs, s.toList = c :: cs ∧ c.isAlpha = true ∧ c ≠ '_' ∧ cs.all isIdCont = true ∧ s ∉ kw := by
  unfold isValidName at h
  cases hs : s.toList with
  | nil => rw [hs] at h; cases h
  | cons c cs =>
    rw [hs] at h
    simp only [Bool.and_eq_true, bne_iff_ne, ne_eq, Bool.not_eq_true', List.contains_eq_mem,
      decide_eq_false_iff_not] at h
    obtain ⟨⟨⟨h1, h2⟩, h3⟩, h4⟩ := h
    refine ⟨c, cs, rfl, ?_, h2, h3, h4⟩
    unfold isIdStart at h1
    simp only [Bool.or_eq_true, beq_iff_eq] at h1
    rcases h1 with h1 | h1
    · exact h1
    · exact absurd h1 h2

/-- keywords of the running interpreter, names starting with `_` or a digit, and the empty
name are rejected -/
theorem invalid_names_rejected :
    isValidName pythonKeywords "for" = false ∧ isValidName pythonKeywords "_x" = false ∧
    isValidName pythonKeywords "1a" = false ∧ isValidName pythonKeywords "" = false ∧
    isValidName pythonKeywords "a b" = false ∧ isValidName pythonKeywords "None" = false := by
  decide

/-- **An accepted base edit leaves a C3 linearisation that respects every direct base**:
whenever `get_mro` returns (does not raise) the result starts with the space and keeps the
order of its bases and of their linearisations. -/
theorem accepted_linearisation_wellformed {α : Type} [DecidableEq α] (bases : α → List α) (d : Nat)
    (s : α) (l : List α) (h : mro bases (d + 1) s = some l) :
    ∃ r, l = s :: r ∧ (bases s).Sublist r := by
  obtain ⟨r, hr⟩ := mro_head bases (d + 1) s l h
  subst hr
  exact ⟨r, rfl, (mro_sublist bases d s r h).1⟩

/-- an inconsistent hierarchy has no linearisation (the edit that would create it is rejected) -/
theorem inconsistent_hierarchy_rejected : mro C03.dBases 5 "E" = none := by decide

example : isValidName pythonKeywords "Space1" = true := by decide

/-! ## The mechanism: rejected edits change nothing, accepted edits keep the inheritance relation well-formed -/

section mechanism
open MxModel.SM

/-- **A rejected edit changes nothing** (mechanism model).  NOTE what this is: a fact about the
step function - `apply` returns `none` without a state and `step` returns the state it was given - true
of ANY `apply`.  The model has no intermediate states, so a path of the code that mutates and then raises
cannot be expressed in it; that the CODE validates before it mutates is decided by the before/after
oracle of this check on the real code (nine such paths were repaired in /repo, the last four - 178dea2, c332e11, c933412,
49b981c - found by the review of this very statement).  What the model contributes is the explicit refusal criterion: `refused_iff` below, with
`SM.St.accepts` spelled out operation by operation (`Proofs/StructMechEffect.lean`), compared with the
code's accept/refuse by the `smech` correspondence. -/
theorem rejected_edit_changes_nothing (kw : List String) (st : St) (op : Op)
    (h : (st.step kw op).2 = false) : (st.step kw op).1 = st := by
  unfold St.step at h ⊢
  cases hop : st.apply kw op with
  | none => rfl
  | some st' => rw [hop] at h; cases h

/-- **When an edit is rejected**: exactly when the explicit criterion `accepts` fails (each of the
twelve operations has one; e.g. `newCells`: the space exists, the name the cells gets is a valid name and
`_can_add` passes for the space and every sub space) -/
theorem refused_iff (kw : List String) (st : St) (op : Op) :
    (st.step kw op).2 = false ↔ st.accepts kw op = false := by
  rw [← apply_isSome]
  unfold St.step
  cases st.apply kw op <;> simp

/-- **Only valid identifiers not starting with an underscore ever become names**: in every state
reachable by any sequence of operations every component of every space id and every cells and reference
name (defined or derived) is a valid name.  (Not claimed for model-level references: `model.name = value`
tests no name in the code - `ModelImpl.set_attr` - and the property speaks of spaces and cells.)  (`new_cells` with an invalid
explicit name does not raise: the cells gets the name of its formula or an automatic one, which is the
name that is checked - `SM.St.cellsName`.) -/
theorem reachable_names_valid (kw : List String) (ops : List Op) :
    (∀ q ∈ (St.run kw {} ops).ids, ∀ c ∈ q, isValidName kw c = true) ∧
    (∀ a q n, ((St.run kw {} ops).mem a q n).isSome = true → isValidName kw n = true) := by
  have h := run_invN kw ops
  exact ⟨h.names.ids, fun a q n hm => h.names.mems h.toInv a q n hm⟩

/-- **Every accepted edit leaves a C3 linearisation for every space**: in every state reachable by
any sequence of operations, `get_mro` of every space returns (it starts with the space). -/
theorem reachable_has_linearisation (kw : List String) (ops : List Op) (q : Path) :
    ∃ r, (St.run kw {} ops).mro q = some (q :: r) :=
  ⟨_, (run_inv kw ops).wf.mro_all q⟩

/-- every direct base of every space of a reachable state is a space of that state -/
theorem reachable_bases_exist (kw : List String) (ops : List Op) (q b : Path)
    (h : b ∈ (St.run kw {} ops).basesOf q) : b ∈ (St.run kw {} ops).ids :=
  (run_inv kw ops).wf.bases q b h

/-- **…and the base relation acyclic**: no space of a reachable state is reachable from itself
along direct-base relations. -/
theorem base_relation_acyclic (kw : List String) (ops : List Op) (q : Path) :
    ¬ BaseReach (St.run kw {} ops) q q :=
  (run_inv kw ops).wf.acyclic q

/-- the linearisation has no duplicates, and every space reachable along base relations is in it -/
theorem linearisation_nodup_complete (kw : List String) (ops : List Op) (q : Path) :
    (q :: (St.run kw {} ops).tail q).Nodup ∧
    ∀ x, BaseReach (St.run kw {} ops) q x → x ∈ (St.run kw {} ops).tail q :=
  ⟨(run_inv kw ops).wf.tail_nodup q, fun _ hx => (run_inv kw ops).wf.reach_mem_tail hx⟩

/-- the ids of the spaces of a reachable state are distinct, non-empty, and every space's parent exists -/
theorem reachable_tree_wellformed (kw : List String) (ops : List Op) :
    (St.run kw {} ops).ids.Nodup ∧
    ∀ q ∈ (St.run kw {} ops).ids, q ≠ [] ∧ (q.dropLast = [] ∨ q.dropLast ∈ (St.run kw {} ops).ids) :=
  ⟨(run_inv kw ops).wf.nodup, (run_inv kw ops).wf.tree⟩

/-! Non-vacuity: a cyclic base edit, an edit leaving a sub space without linearisation (C3 is not
monotone under removal of a base) and an invalid name are refused; the state is what it was. -/
def chainOps : List Op := [.newSpace [] "A" [] [], .newSpace [] "B" [["A"]] [], .newCells ["A"] "f" "f" 1]

example : ((St.run pythonKeywords {} chainOps).step pythonKeywords (.addBases ["A"] [["B"]])).2 = false := by decide
/-- a cells cannot be given an invalid name: `new_cells(name="for")` does not raise, the cells is named after
its formula if that gives a valid name, else automatically (`Cells1`, ...), and is derived under that name -/
example : (St.run pythonKeywords {} (chainOps ++ [.newCells ["A"] "for" "for" 1])).mem .cells ["A"] "for" = none := by decide
example : (St.run pythonKeywords {} (chainOps ++ [.newCells ["A"] "for" "for" 1])).mem .cells ["B"] "Cells1"
    = some { derived := true, payload := 1 } := by decide
example : (St.run pythonKeywords {} (chainOps ++ [.newCells ["A"] "_x" "g" 1])).mem .cells ["A"] "g"
    = some { derived := false, payload := 1 } := by decide
example : (St.run pythonKeywords {} (chainOps ++ [.setRef ["B"] "Cells1" 0, .newCells ["A"] "" "<lambda>" 1,
    .newCells ["A"] "" "" 2])).cont .cells ["A"]
    = [("f", ⟨false, 1⟩), ("Cells2", ⟨false, 1⟩), ("Cells3", ⟨false, 2⟩)] := by decide
example : ((St.run pythonKeywords {} chainOps).step pythonKeywords (.newSpace [] "_x" [] [])).2 = false := by decide
example : ((St.run pythonKeywords {} chainOps).step pythonKeywords (.addBases ["B"] [["A"]])).2 = true := by decide
example : (St.run pythonKeywords {} chainOps).mro ["B"] = some [["B"], ["A"]] := by decide

/-- the history behind repair 75ec125: deleting the space `X` would leave `E` without a linearisation -/
def nonMonotoneOps : List Op := [
  .newSpace [] "X" [] [], .newSpace [] "Y" [] [], .newSpace [] "C" [] [],
  .newSpace [] "B1" [["X"], ["Y"]] [], .newSpace [] "B2" [["C"], ["X"]] [],
  .newSpace [] "D" [["B1"], ["B2"]] [], .newSpace [] "F" [["C"], ["Y"]] [], .newSpace [] "E" [["D"], ["F"]] []]

example : ((St.run [] {} nonMonotoneOps).step [] (.delSpace ["X"])).2 = false := by decide
example : ((St.run [] {} nonMonotoneOps).step [] (.removeBases ["B1"] [["X"]])).2 = false := by decide
example : (St.run [] {} nonMonotoneOps).mro ["E"] =
    some [["E"], ["D"], ["B1"], ["B2"], ["F"], ["C"], ["X"], ["Y"]] := by decide

/-! ## Calls that create several cells: all or nothing

`new_cells_from_pandas(df, cells=[...])` and its relatives run a loop of single `new_cells` calls
(`SM.St.newCellsLoop`; `SM.St.newCellsSeq` is the same without the half-way state).  The atomic call the API
should be is `SM.St.newCellsBatch`: every check (`SM.St.batchOk`: names pairwise distinct, and each passes
the checks of a single `new_cells`) is made in the state the call was given, then everything is created.
The theorems say that the two are the same function on every reachable state - so an implementation
may check up front exactly `batchOk` and nothing else - and that they differ only in what a refused call
leaves behind: the batch leaves the state it was given, the loop leaves the cells created so far. -/

/-- the state of the examples: spaces `A` and `B(A)`, cells `A.f` (derived in `B`) -/
def batchSt : St := St.run pythonKeywords {} chainOps

/-- **`new_cells` is its checks followed by an unchecked mutation**: the space exists, the name is valid and
`_can_add` passes, then `putCells` (put the cells, derive it in the sub spaces) -/
theorem new_cells_is_check_then_put (kw : List String) (st : St) (p : Path) (name : String) (v : Nat) :
    st.newCells kw p name v = if st.acceptsNewCells kw p name then some (st.putCells p name v) else none :=
  newCells_eq_put kw st p name v

example : batchSt.acceptsNewCells pythonKeywords ["A"] "g" = true ∧
    batchSt.acceptsNewCells pythonKeywords ["A"] "f" = false := by decide

/-- **A refused batch changes nothing.**  NOTE what this is: like `rejected_edit_changes_nothing`, a fact
about the type of `batchStep` - a refused call returns the state it was given - true of any
`newCellsBatch`.  The content is in the companions below: WHICH calls are refused
(`batch_refused_iff_sequence_refused`), that an accepted batch is the loop of the code
(`batch_accepted_equals_sequence`), and that the loop does NOT have this property
(`loop_refused_halfway_differs`). -/
theorem batch_refused_changes_nothing (kw : List String) (st : St) (p : Path) (es : List (String × Nat))
    (h : (st.batchStep kw p es).2 = false) : (st.batchStep kw p es).1 = st := by
  unfold St.batchStep at h ⊢
  cases hb : st.newCellsBatch kw p es with
  | none => rfl
  | some st' => rw [hb] at h; cases h

example : (batchSt.batchStep pythonKeywords ["A"] [("g", 1), ("f", 2)]).2 = false := by decide
example : (batchSt.batchStep pythonKeywords ["A"] [("g", 1), ("h", 2)]).2 = true := by decide

/-- **The atomic call and the loop of the code are the same function** (accept the same calls, build the
same state), in every state without a space of empty id.  The hypothesis is needed: `_can_add` with the
empty parent looks at child spaces and model-level references only, so in a state that had a space `[]`
the loop would create the same name twice (the example after the theorem); no reachable state has such a
space (`batch_accepted_equals_sequence`). -/
theorem batch_accepted_equals_sequence_partial (kw : List String) (st : St) (p : Path)
    (es : List (String × Nat)) (hroot : st.has [] = false) :
    st.newCellsBatch kw p es = st.newCellsSeq kw p es :=
  newCellsBatch_eq_seq kw p es st hroot

/-- the hypothesis of `batch_accepted_equals_sequence_partial` cannot be dropped -/
example :
    let st : St := { spaces := [{ id := [], bases := [], cells := [], refs := [] }] }
    (st.newCellsSeq [] [] [("a", 1), ("a", 2)]).isSome = true ∧
    (st.newCellsBatch [] [] [("a", 1), ("a", 2)]).isSome = false := by decide

/-- **The atomic call and the loop of the code are the same function on every reachable state**: for every
sequence of operations, every space and every list of names and formulas, checking everything up front
in the state of the call and then creating everything gives what the loop of single `new_cells` calls
gives - refused when the loop would stop (at the start or half-way), and otherwise the same state. -/
theorem batch_accepted_equals_sequence (kw : List String) (ops : List Op) (p : Path)
    (es : List (String × Nat)) :
    (St.run kw {} ops).newCellsBatch kw p es = (St.run kw {} ops).newCellsSeq kw p es :=
  newCellsBatch_eq_seq kw p es _ (run_no_root kw ops)

example : (batchSt.newCellsBatch pythonKeywords ["A"] [("g", 1), ("h", 2)]).map (fun s => s.cont .cells ["B"])
    = some [("f", ⟨true, 1⟩), ("g", ⟨true, 1⟩), ("h", ⟨true, 2⟩)] := by decide
example : (batchSt.newCellsSeq pythonKeywords ["A"] [("g", 1), ("h", 2)]).map (fun s => s.cont .cells ["B"])
    = some [("f", ⟨true, 1⟩), ("g", ⟨true, 1⟩), ("h", ⟨true, 2⟩)] := by decide

/-- the accepted case spelled out: when the up-front check passes, the loop goes through and builds all
the creations applied one after the other -/
theorem batch_accepted_sequence_accepted (kw : List String) (ops : List Op) (p : Path)
    (es : List (String × Nat)) (h : (St.run kw {} ops).batchOk kw p es = true) :
    (St.run kw {} ops).newCellsSeq kw p es = some ((St.run kw {} ops).putCellsAll p es) := by
  rw [← batch_accepted_equals_sequence]
  unfold St.newCellsBatch
  rw [h]; rfl

/-- **The batch refuses exactly the calls whose loop would stop** (at the first creation or after some
were made), in every state without a space of empty id -/
theorem batch_refused_iff_sequence_refused_partial (kw : List String) (st : St) (p : Path)
    (es : List (String × Nat)) (hroot : st.has [] = false) :
    st.newCellsBatch kw p es = none ↔ st.newCellsSeq kw p es = none := by
  rw [batch_accepted_equals_sequence_partial kw st p es hroot]

/-- **The batch refuses exactly the calls whose loop would stop**, in every reachable state; in terms of
the loop with its half-way state: exactly the calls for which the loop returns `false` -/
theorem batch_refused_iff_sequence_refused (kw : List String) (ops : List Op) (p : Path)
    (es : List (String × Nat)) :
    ((St.run kw {} ops).newCellsBatch kw p es = none ↔ (St.run kw {} ops).newCellsSeq kw p es = none) ∧
    ((St.run kw {} ops).newCellsBatch kw p es = none ↔ ((St.run kw {} ops).newCellsLoop kw p es).2 = false) := by
  rw [batch_accepted_equals_sequence, newCellsSeq_eq_loop]
  refine ⟨Iff.rfl, ?_⟩
  cases ((St.run kw {} ops).newCellsLoop kw p es).2 <;> simp

example : batchSt.newCellsBatch pythonKeywords ["A"] [("g", 1), ("f", 2)] = none ∧
    batchSt.newCellsSeq pythonKeywords ["A"] [("g", 1), ("f", 2)] = none := by decide
/-- a name given twice in one call: refused by both -/
example : batchSt.newCellsBatch pythonKeywords ["A"] [("g", 1), ("g", 2)] = none ∧
    batchSt.newCellsSeq pythonKeywords ["A"] [("g", 1), ("g", 2)] = none := by decide
/-- a name that a sub space uses for a reference, an invalid name, a space that does not exist -/
example : (St.run pythonKeywords {} (chainOps ++ [.setRef ["B"] "r" 0])).newCellsBatch pythonKeywords ["A"]
    [("g", 1), ("r", 2)] = none ∧
    batchSt.newCellsBatch pythonKeywords ["A"] [("g", 1), ("for", 2)] = none ∧
    batchSt.newCellsBatch pythonKeywords ["C"] [("g", 1)] = none := by decide

/-- **In an accepted batch every single creation is accepted where the loop makes it**: the k-th passes
the checks of `new_cells` in the state the first k creations left (and the loop builds `putCellsAll`) -/
theorem batch_accepted_each_accepted_partial (kw : List String) (st : St) (p : Path)
    (es : List (String × Nat)) (hroot : st.has [] = false) (h : st.batchOk kw p es = true) :
    ∀ (k : Nat) (hk : k < es.length), (st.putCellsAll p (es.take k)).acceptsNewCells kw p es[k].1 = true := by
  have hs : st.newCellsSeq kw p es = some (st.putCellsAll p es) := by
    rw [← batch_accepted_equals_sequence_partial kw st p es hroot]
    unfold St.newCellsBatch
    rw [h]; rfl
  exact (newCellsSeq_some kw p es st _ hs).2

/-- the same in every reachable state -/
theorem batch_accepted_each_accepted (kw : List String) (ops : List Op) (p : Path)
    (es : List (String × Nat)) (h : (St.run kw {} ops).batchOk kw p es = true) :
    ∀ (k : Nat) (hk : k < es.length),
      ((St.run kw {} ops).putCellsAll p (es.take k)).acceptsNewCells kw p es[k].1 = true :=
  batch_accepted_each_accepted_partial kw _ p es (run_no_root kw ops) h

example : batchSt.batchOk pythonKeywords ["A"] [("g", 1), ("h", 2)] = true ∧
    (batchSt.putCellsAll ["A"] [("g", 1)]).acceptsNewCells pythonKeywords ["A"] "h" = true := by decide

/-- **The loop of the code does not have the property**: whenever its first creation is accepted, the state
the loop leaves - also when it stops at a later creation and returns `false` - has the first cells, which
the state of the call did not have; so a call refused half-way has changed the model.  (The statement does
not need the refusal as a hypothesis; the refused case is the one of interest and the example below is one.
This is the defect the before/after oracle looks for in the code.) -/
theorem loop_refused_halfway_differs (kw : List String) (ops : List Op) (p : Path) (e : String × Nat)
    (es : List (String × Nat)) (hok : (St.run kw {} ops).acceptsNewCells kw p e.1 = true) :
    (((St.run kw {} ops).newCellsLoop kw p (e :: es)).1.mem .cells p e.1).isSome = true ∧
    (St.run kw {} ops).mem .cells p e.1 = none ∧
    ((St.run kw {} ops).newCellsLoop kw p (e :: es)).1 ≠ St.run kw {} ops :=
  loop_refused_differs kw _ p e es (run_no_root kw ops) hok

/-- the loop on a call whose second name clashes: refused, and `g` is there - in `A` and derived in `B` -/
example : (batchSt.newCellsLoop pythonKeywords ["A"] [("g", 1), ("f", 2)]).2 = false ∧
    (batchSt.newCellsLoop pythonKeywords ["A"] [("g", 1), ("f", 2)]).1.mem .cells ["A"] "g" = some ⟨false, 1⟩ ∧
    (batchSt.newCellsLoop pythonKeywords ["A"] [("g", 1), ("f", 2)]).1.mem .cells ["B"] "g" = some ⟨true, 1⟩ ∧
    batchSt.mem .cells ["A"] "g" = none ∧ batchSt.mem .cells ["B"] "g" = none := by decide
/-- the batch on the same call: refused, and the state is the one it was given -/
example : (batchSt.batchStep pythonKeywords ["A"] [("g", 1), ("f", 2)]).2 = false ∧
    (batchSt.batchStep pythonKeywords ["A"] [("g", 1), ("f", 2)]).1.mem .cells ["A"] "g" = none := by decide

/-! ### the calls that still create the space first

`import_module` / `new_space_from_module` create the space and look at the functions of the module afterwards
(`SM.St.newSpaceModule`, the `spacemodule` line of the `smech` driver - compared with the code call by call).
`new_space_from_pandas` (since /repo 3927bad) checks the names first (`SM.St.newSpaceBatch`). -/

/-- **The space-first call is not atomic** (known finding C11-import-module-space-first, as a statement about the
model of the code AS IT IS): when the space can be created and the module is then refused, the call reports a
refusal and returns the state WITH the new space - not the state it was given. -/
theorem space_first_refusal_leaves_space (kw : List String) (st st1 : St) (parent : Path) (name : String)
    (bases : List Path) (es : List (String × Nat))
    (h1 : st.newSpaceRefs kw parent name bases [] = some st1)
    (h2 : st1.moduleBatch kw (parent ++ [name]) es = none) :
    st.newSpaceModule kw parent name bases es = (st1, false) := by
  simp [St.newSpaceModule, h1, h2]

/-- a model-level reference `g`; a module with the functions `a` and `g` -/
def globalSt : St := St.run pythonKeywords {} (chainOps ++ [.setGlobal "g"])

example : (globalSt.newSpaceModule pythonKeywords [] "T" [["A"]] [("a", 1), ("g", 2)]).2 = false ∧
    (globalSt.newSpaceModule pythonKeywords [] "T" [["A"]] [("a", 1), ("g", 2)]).1.has ["T"] = true ∧
    globalSt.has ["T"] = false := by decide

/-- the names-first call refuses the same request without a trace; both accept the same good request -/
example : globalSt.newSpaceBatch pythonKeywords [] "T" [("a", 1), ("g", 2)] = none ∧
    (globalSt.newSpaceBatch pythonKeywords [] "T" [("a", 1), ("h", 2)]).isSome = true ∧
    (globalSt.newSpaceModule pythonKeywords [] "T" [["A"]] [("a", 1), ("h", 2)]).2 = true := by decide

/-- **A refused `new_cells_from_module` / `new_space_from_pandas` changes nothing** (by the type of the step, as
`batch_refused_changes_nothing`; that the CODE does what the model says is the `smech` correspondence) -/
theorem module_refused_changes_nothing (kw : List String) (st : St) (p : Path) (es : List (String × Nat))
    (h : (st.moduleStep kw p es).2 = false) : (st.moduleStep kw p es).1 = st := by
  unfold St.moduleStep at h ⊢
  cases hop : st.moduleBatch kw p es with
  | none => rfl
  | some st' => rw [hop] at h; cases h

example : (batchSt.moduleStep pythonKeywords ["B"] [("f", 5), ("h", 2)]).2 = true ∧
    (globalSt.moduleStep pythonKeywords ["A"] [("a", 1), ("g", 2)]).2 = false := by decide


end mechanism

end MxModel.C11
