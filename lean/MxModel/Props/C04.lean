import MxModel.Proofs.PathCodec
import MxModel.Proofs.DocQuote
import MxModel.Kernels.Dispatch
/-!
# C04 – Write/read round trip: the two codecs the serializer relies on

Property theorems only (helper lemmas are in `Proofs/PathCodec.lean`, `Proofs/DocQuote.lean`).

* `Kernels/PathCodec.lean` – `abs_to_rel` / `rel_to_abs` and the tuple forms of
  `modelx/core/util.py`, by which direct bases, object-valued references and the addresses of
  ItemSpace inputs are stored relative to the space that holds them.
* `Kernels/DocQuote.lean` – the un-escaped `'"""' + doc + '"""'` of the writer against
  Python's reading of a triple-quoted literal.

The whole-model round trip (space tree, formulas, flags, references, inputs, directory = zip,
write inert) is not a theorem; it is checked on the implementation (harness `c04.py`).
-/
namespace MxModel.C04
open MxModel.PathCodec MxModel.DocQuote MxModel.Dispatch MxModel.Generated

/-! ## Relative addresses -/

/-- **Tuple form, no precondition at all**: for every target and every namespace id tuple
(names and ItemSpace argument tuples in any mixture, either of them possibly empty) the
reader rebuilds exactly the target from what the writer stored.  `rel_to_abs_tuple` can
raise (`IndexError` on `()`, `ValueError` when the first element is not a run of dots) but
never on the writer's output. -/
theorem rel_abs_roundtrip_tuple (t ns : List Elem) :
    relToAbsTuple (absToRelTuple t ns) ns = .ok t := by
  have h1 := sharedLen_le_left t ns
  have h2 := sharedLen_le_right t ns
  simp only [absToRelTuple, relToAbsTuple, allDots_dotsStr, if_true]
  have hlen : (dotsStr (ns.length - sharedLen t ns + 1)).length = ns.length - sharedLen t ns + 1 := by
    simp [dotsStr]
  rw [hlen, pySliceTo_shared ns _ h2, take_sharedLen]
  have : t.length - (t.length - sharedLen t ns) = sharedLen t ns := by omega
  rw [this, List.take_append_drop]

/-- the relative form determines the target: two different objects never get the same
stored address in one space -/
theorem abs_to_rel_tuple_injective (t t' ns : List Elem)
    (h : absToRelTuple t ns = absToRelTuple t' ns) : t = t' := by
  have a := rel_abs_roundtrip_tuple t ns
  rw [h, rel_abs_roundtrip_tuple t' ns] at a
  exact (Except.ok.inj a).symm

/-- the first name of `t` that is not shared with `ns` (if any) is not the empty string -/
def FreshNameNonEmpty (t ns : List Char) : Prop :=
  ∀ w, ((splitDot t).drop (sharedLen (splitDot t) (splitDot ns))).head? = some w → w ≠ []

instance (t ns : List Char) : Decidable (FreshNameNonEmpty t ns) := by
  unfold FreshNameNonEmpty
  cases h : ((splitDot t).drop (sharedLen (splitDot t) (splitDot ns))).head? with
  | none => exact isTrue (by simp)
  | some w =>
    by_cases hw : w = []
    · exact isFalse (fun f => f w rfl hw)
    · exact isTrue (by intro w' e; cases e; exact hw)

/-- **String form**: `rel_to_abs(abs_to_rel(t, ns), ns) == t` for every namespace string and
every target whose first not-shared name is non-empty.  (The reader counts the leading dots
of the stored text; an empty name right after them would be swallowed.) -/
theorem rel_abs_roundtrip_partial (t ns : List Char) (h : FreshNameNonEmpty t ns) :
    relToAbs (absToRel t ns) ns = t := by
  simp only [absToRel, relToAbs]
  exact (roundtrip_core (splitDot t) (splitDot ns) _ (sharedLen_le_left _ _) (sharedLen_le_right _ _)
    (take_sharedLen _ _) (splitDot_dotfree t) h).trans (joinDot_splitDot t)

/-- …in particular for every dotted name modelx can produce (all names non-empty) and every
namespace -/
theorem rel_abs_roundtrip (t ns : List Char) (h : ValidDotted t) :
    relToAbs (absToRel t ns) ns = t :=
  rel_abs_roundtrip_partial t ns (fun w hw => h w (List.mem_of_mem_drop (List.mem_of_mem_head? hw)))

/-- the precondition is needed: `rel_to_abs(abs_to_rel("a.", "a"), "a") == "a"` -/
theorem rel_abs_roundtrip_full_fails : ¬ ∀ t ns : List Char, relToAbs (absToRel t ns) ns = t := by
  intro h
  have := h "a.".toList "a".toList
  revert this
  decide

/-! ## Documentation strings -/

/-- **The docstring codec is faithful exactly on `SafeDoc`**: what the reader gets from
`'"""' + doc + '"""'` is `doc` if and only if `doc` has no carriage return, no `"""`, does not
end in `"`, and every backslash stands in front of a character that means nothing after a
backslash.  Otherwise the written file either cannot be parsed as meant or yields another
text. -/
theorem doc_quote_roundtrip_partial (doc : List Ch) :
    readLit (writeDoc doc) = some doc ↔ SafeDoc doc := by
  rw [readLit_eq_some, lexLit_writeDoc]
  constructor
  · intro h
    have hcr : Ch.cr ∉ doc := scan_noCr _ (universalNl_noCr _) _ _ h
    have hcr' : Ch.cr ∉ doc ++ qqq := by simp [hcr]
    rw [universalNl_id _ hcr'] at h
    obtain ⟨a, b, c⟩ := scan_safe doc hcr h
    exact ⟨hcr, a, b, c⟩
  · rintro ⟨hcr, a, b, c⟩
    have hcr' : Ch.cr ∉ doc ++ qqq := by simp [hcr]
    rw [universalNl_id _ hcr']
    exact scan_of_safe doc ⟨a, b, c⟩

/-- the unrestricted statement is false of the code that exists; four concrete documentation
strings: `a"` and `a"""b` and `a\` (file no longer parses as meant), `a\nb` written with a
backslash (comes back with a line feed) -/
theorem doc_quote_full_fails : ¬ ∀ doc : List Ch, readLit (writeDoc doc) = some doc := by
  intro h
  have := h [.plain 'a', .q]
  revert this
  decide

theorem doc_ending_in_quote_unreadable : readLit (writeDoc [.plain 'a', .q]) = none := by decide
theorem doc_with_triple_quote_unreadable :
    readLit (writeDoc [.plain 'a', .q, .q, .q, .plain 'b']) = none := by decide
theorem doc_ending_in_backslash_unreadable : readLit (writeDoc [.plain 'a', .bs]) = none := by decide
theorem doc_with_escape_changed :
    readLit (writeDoc [.plain 'a', .bs, .en, .plain 'b']) = some [.plain 'a', .nl, .plain 'b'] := by decide
theorem doc_with_escaped_quote_changed :
    readLit (writeDoc [.plain 'a', .bs, .q]) = some [.plain 'a', .q] := by decide
theorem doc_with_carriage_return_changed :
    readLit (writeDoc [.plain 'a', .cr, .nl, .plain 'b']) = some [.plain 'a', .nl, .plain 'b'] := by decide

/-! ## Dispatch tables (regenerated from `serializer_6.py` on every run) -/

/-- every reference value finds an encoder: the last class of `EncoderSelector` accepts
everything (so `select` never returns `None`) -/
theorem every_value_has_an_encoder :
    ∃ e, encoderClasses.getLast? = some e ∧ e ∈ unconditionalClasses := by decide

/-- what an encoder writes is taken by the decoder made for it: for every encoder that tags
its output, the FIRST decoder accepting the tag has that tag as its `DECTYPE` (the catch-all
`LiteralDecoder` does not get in before it), and an untagged right-hand side (a literal)
falls through to the unconditional decoder. -/
theorem decoder_matches_encoder :
    ∀ e ∈ encoderTags, ∃ d, selectDecoder e.2 = some d ∧
      (if e.2 = "" then d.1 ∈ unconditionalClasses else d.2 = e.2) := by decide

/-- no deferred instruction is left behind: every name under which a parser files an
instruction is executed at parse time or in one of the phases of `_read_model_inner` -/
theorem every_instruction_is_executed :
    ∀ m ∈ instructionMethods, m ∈ atParseMethods ∨ (phaseOf m).isSome := by decide

/-- the order the round trip depends on: cells exist before bases are added, before their
inputs are loaded and before references (which may point at cells, also inherited ones) are
set; ItemSpace inputs come after the references (setting a reference deletes ItemSpaces). -/
theorem phases_in_dependency_order :
    phaseBefore "new_cells" "add_bases" = true ∧ phaseBefore "add_bases" "load_pickledata" = true ∧
    phaseBefore "add_bases" "set_ref" = true ∧ phaseBefore "add_bases" "__setattr__" = true ∧
    phaseBefore "set_ref" "_set_dynamic_inputs" = true ∧
    phaseBefore "__setattr__" "_set_dynamic_inputs" = true ∧
    phaseBefore "load_pickledata" "_set_dynamic_inputs" = true := by decide

/-! ## Non-vacuity -/

/-- two branches that diverge below the model and carry the same name again at the same depth
(`M.A.C.foo` seen from `M.B.C`): only the leading `M` is shared -/
example : absToRelTuple [.str "M".toList, .str "A".toList, .str "C".toList, .str "foo".toList]
      [.str "M".toList, .str "B".toList, .str "C".toList]
    = [.str "...".toList, .str "A".toList, .str "C".toList, .str "foo".toList] := by decide

example : relToAbsTuple [.str "...".toList, .str "A".toList, .str "C".toList, .str "foo".toList]
      [.str "M".toList, .str "B".toList, .str "C".toList]
    = .ok [.str "M".toList, .str "A".toList, .str "C".toList, .str "foo".toList] := by decide

example : String.ofList (absToRel "M.A.C".toList "M.B".toList) = "..A.C" := by decide
example : ValidDotted "M.A.C".toList := by decide
example : relToAbs (absToRel "M.A.C".toList "M.B".toList) "M.B".toList = "M.A.C".toList :=
  rel_abs_roundtrip _ _ (by decide)
/-- the reader accepts more than the writer produces: Python's negative slice -/
example : relToAbsTuple [.str ".....".toList, .str "x".toList]
      [.str "a".toList, .str "b".toList, .str "c".toList]
    = .ok [.str "a".toList, .str "b".toList, .str "x".toList] := by decide

example : SafeDoc [.q, .plain 'a', .q, .q, .nl, .bs, .plain 'd', .en] := by decide
example : readLit (writeDoc [.q, .plain 'a', .q, .q, .nl, .bs, .plain 'd', .en])
    = some [.q, .plain 'a', .q, .q, .nl, .bs, .plain 'd', .en] :=
  (doc_quote_roundtrip_partial _).mpr (by decide)

example : selectDecoder "Pickle" = some ("PickleDecoder", "Pickle") := by decide
example : selectDecoder "" = some ("LiteralDecoder", "") := by decide
example : phaseOf "_set_dynamic_inputs" = some 4 := by decide

end MxModel.C04
