import MxModel.Proofs.PathCodec
import MxModel.Proofs.DocQuote
import MxModel.Kernels.Dispatch
import MxModel.Proofs.SaveFiles
import MxModel.Proofs.SerialOrder
/-!
# C04 – Write/read round trip: the two codecs the serializer relies on

Property theorems only (helper lemmas are in `Proofs/PathCodec.lean`, `Proofs/DocQuote.lean`).

* `Kernels/PathCodec.lean` – `abs_to_rel` / `rel_to_abs` and the tuple forms of
  `modelx/core/util.py`, by which direct bases, object-valued references and the addresses of
  ItemSpace inputs are stored relative to the space that holds them.
* `Kernels/DocQuote.lean` – `quote_docstring` of `modelx/core/formula.py` (the writer of every
  documentation string since commit 2b72506) against Python's reading of a triple-quoted
  literal: tokenizer, escape decoder, universal newlines, the line re-join of a def's source.

* `Kernels/SaveFiles.lean` – one call of `write_model` / `zip_model` by file NAME: the backup
  rotation, the in-place directory writer, the build-aside-and-move archive writer.  Whatever a
  history of earlier writes left at the path, the target afterwards holds exactly the entries of
  this write (section "The save step" at the end).

The whole-model round trip (space tree, formulas, flags, references, inputs, directory = zip,
write inert) is not a theorem; it is checked on the implementation (harness `c04.py`, and
`c04hist.py` for histories of writes to one path).
-/
namespace MxModel.C04
open MxModel.PathCodec MxModel.DocQuote MxModel.Dispatch MxModel.Generated

/-! ## Relative addresses -/

/-- **Tuple form, no precondition at all**: for every target and every namespace id tuple
(names and ItemSpace argument tuples in any mixture, either of them possibly empty) the
reader rebuilds exactly the target from what the writer stored.  `rel_to_abs_tuple` can
raise (`IndexError` on `()`, `ValueError` when the first element is not a run of dots) but
never on the writer's output. -/
theorem rel_abs_roundtrip_tuple (t ns : List Elem) :
    relToAbsTuple (absToRelTuple t ns) ns = .ok t := by
  have h1 := sharedLen_le_left t ns
  have h2 := sharedLen_le_right t ns
  simp only [absToRelTuple, relToAbsTuple, allDots_dotsStr, if_true]
  have hlen : (dotsStr (ns.length - sharedLen t ns + 1)).length = ns.length - sharedLen t ns + 1 := by
    simp [dotsStr]
  rw [hlen, pySliceTo_shared ns _ h2, take_sharedLen]
  have : t.length - (t.length - sharedLen t ns) = sharedLen t ns := by omega
  rw [this, List.take_append_drop]

/-- the relative form determines the target: two different objects never get the same
stored address in one space -/
theorem abs_to_rel_tuple_injective (t t' ns : List Elem)
    (h : absToRelTuple t ns = absToRelTuple t' ns) : t = t' := by
  have a := rel_abs_roundtrip_tuple t ns
  rw [h, rel_abs_roundtrip_tuple t' ns] at a
  exact (Except.ok.inj a).symm

/-- the first name of `t` that is not shared with `ns` (if any) is not the empty string -/
def FreshNameNonEmpty (t ns : List Char) : Prop :=
  ∀ w, ((splitDot t).drop (sharedLen (splitDot t) (splitDot ns))).head? = some w → w ≠ []

instance (t ns : List Char) : Decidable (FreshNameNonEmpty t ns) := by
  unfold FreshNameNonEmpty
  cases h : ((splitDot t).drop (sharedLen (splitDot t) (splitDot ns))).head? with
  | none => exact isTrue (by simp)
  | some w =>
    by_cases hw : w = []
    · exact isFalse (fun f => f w rfl hw)
    · exact isTrue (by intro w' e; cases e; exact hw)

/-- **String form**: `rel_to_abs(abs_to_rel(t, ns), ns) == t` for every namespace string and
every target whose first not-shared name is non-empty.  (The reader counts the leading dots
of the stored text; an empty name right after them would be swallowed.) -/
theorem rel_abs_roundtrip_partial (t ns : List Char) (h : FreshNameNonEmpty t ns) :
    relToAbs (absToRel t ns) ns = t := by
  simp only [absToRel, relToAbs]
  exact (roundtrip_core (splitDot t) (splitDot ns) _ (sharedLen_le_left _ _) (sharedLen_le_right _ _)
    (take_sharedLen _ _) (splitDot_dotfree t) h).trans (joinDot_splitDot t)

/-- …in particular for every dotted name modelx can produce (all names non-empty) and every
namespace -/
theorem rel_abs_roundtrip (t ns : List Char) (h : ValidDotted t) :
    relToAbs (absToRel t ns) ns = t :=
  rel_abs_roundtrip_partial t ns (fun w hw => h w (List.mem_of_mem_drop (List.mem_of_mem_head? hw)))

/-- the precondition is needed: `rel_to_abs(abs_to_rel("a.", "a"), "a") == "a"` -/
theorem rel_abs_roundtrip_full_fails : ¬ ∀ t ns : List Char, relToAbs (absToRel t ns) ns = t := by
  intro h
  have := h "a.".toList "a".toList
  revert this
  decide

/-! ## Documentation strings -/

/-- **The docstring codec is faithful for EVERY string**: whatever the documentation string
is (quotes anywhere, backslashes, NUL, carriage returns, any line boundary, any other
character), the text `quote_docstring` produces, read as a file in text mode and then as a
Python literal, is exactly one triple-quoted string token whose value is the string. -/
theorem doc_quote_roundtrip (doc : List Char) : readLiteral (quoteDocstring doc) = some doc := by
  rw [readLiteral_eq_some]
  refine ⟨quoteBody 0 doc, ?_, dec_quoteBody doc 0⟩
  have h := lexLit_quoteDocstring doc []
  simpa [universalNl, nlAux] using h

/-- two different documentation strings are never written as the same text -/
theorem quote_docstring_injective (d d' : List Char) (h : quoteDocstring d = quoteDocstring d') :
    d = d' := by
  have a := doc_quote_roundtrip d
  rw [h, doc_quote_roundtrip d'] at a
  exact (Option.some.inj a).symm

/-- **The written literal is lexically one token, whatever follows it**: the tokenizer's
closing `"""` are the three quotes the writer put at the end (no quote of the documentation
string completes a run of three, and the closing quotes are not swallowed by a backslash or
joined by a trailing quote of the string), the token's body is what the writer put between
the quotes, and the text after the statement is left as it is. -/
theorem doc_quote_one_token (doc tail : List Char) :
    lexLit (quoteDocstring doc ++ tail) = some (quoteBody 0 doc, universalNl tail) :=
  lexLit_quoteDocstring doc tail

/-- …and it does not end earlier: on every proper prefix of the written body-and-closing-quotes
the tokenizer finds no end of the literal -/
theorem doc_quote_no_early_end (doc p s : List Char) (h : quoteBody 0 doc ++ qqq = p ++ s) (hs : s ≠ []) :
    scanTok 0 p = none := by
  cases hp : scanTok 0 p with
  | none => rfl
  | some tr =>
    obtain ⟨t, r⟩ := tr
    have h1 := scanTok_append 0 p t r s hp
    have h2 := scanTok_quoteBody doc 0 [] (by omega) (fun _ => rfl)
    rw [List.append_nil, h, h1] at h2
    simp only [Option.some.injEq, Prod.mk.injEq, List.append_eq_nil_iff] at h2
    exact absurd h2.2.2 hs

/-- **The written literal holds no character a source text does not keep**: no NUL, no
carriage return and none of the other characters at which `str.splitlines` splits a text –
only line feeds separate its lines. -/
theorem doc_quote_source_safe (doc : List Char) (x : Char) (h : x ∈ quoteDocstring doc) :
    x ∉ sourceUnsafe :=
  quoteDocstring_sourceSafe doc x h

/-- hence reading the file in text mode (universal newlines) does not alter it … -/
theorem doc_quote_newline_stable (doc : List Char) :
    universalNl (quoteDocstring doc) = quoteDocstring doc :=
  universalNl_noCr _ (quoteDocstring_noCr doc)

/-- … and neither does the line re-join `"\n".join(source.splitlines())` that `FunctionDefParser`
applies to the source of a def when a model is read (the `Formula` constructor cuts at `\r\n`, `\r`,
`\n` only since 067a1c5 – a coarser cut, for which the same holds): a docstring written by
`quote_docstring` (`set_doc`) inside a def whose text before it has no such character
either stays where it is, character for character. -/
theorem doc_quote_survives_line_rejoin (doc pre post : List Char)
    (hpre : ∀ x ∈ pre, x ∉ sourceUnsafe) (hpost : post ≠ []) :
    splitJoin false (pre ++ quoteDocstring doc ++ post)
      = pre ++ quoteDocstring doc ++ splitJoin false post := by
  rw [List.append_assoc, splitJoin_append_safe pre _ hpre (by simp [quoteDocstring, qqq]),
    splitJoin_append_safe _ _ (quoteDocstring_sourceSafe doc) hpost, List.append_assoc]

/-! ### Regression: the documentation strings that the un-escaped writer lost

(`'"""' + doc + '"""'` before 2b72506: the first three made the written model unreadable,
the last three came back changed; findings C04-doc-quote, C04-doc-backslash, C04-doc-cr) -/

theorem doc_ending_in_quote_readable :
    String.ofList (quoteDocstring "a\"".toList) = "\"\"\"a\\\"\"\"\"" ∧
    readLiteral (quoteDocstring "a\"".toList) = some "a\"".toList := by decide +kernel
theorem doc_with_triple_quote_readable :
    String.ofList (quoteDocstring "a\"\"\"b".toList) = "\"\"\"a\"\"\\\"b\"\"\"" ∧
    readLiteral (quoteDocstring "a\"\"\"b".toList) = some "a\"\"\"b".toList := by decide +kernel
theorem doc_ending_in_backslash_readable :
    String.ofList (quoteDocstring "a\\".toList) = "\"\"\"a\\\\\"\"\"" ∧
    readLiteral (quoteDocstring "a\\".toList) = some "a\\".toList := by decide +kernel
theorem doc_with_escape_unchanged :
    readLiteral (quoteDocstring "a\\nb".toList) = some "a\\nb".toList := by decide +kernel
theorem doc_with_escaped_quote_unchanged :
    readLiteral (quoteDocstring "a\\\"".toList) = some "a\\\"".toList := by decide +kernel
theorem doc_with_carriage_return_unchanged :
    String.ofList (quoteDocstring "a\r\nb".toList) = "\"\"\"a\\r\nb\"\"\"" ∧
    readLiteral (quoteDocstring "a\r\nb".toList) = some "a\r\nb".toList := by decide +kernel

/-- what the reader does with the text the OLD writer produced for these strings (the reader
did not change): unreadable, or another value -/
theorem unescaped_text_was_unreadable_or_changed :
    readLiteral "\"\"\"a\"\"\"\"".toList = none ∧ readLiteral "\"\"\"a\"\"\"b\"\"\"".toList = none ∧
    readLiteral "\"\"\"a\\\"\"\"".toList = none ∧
    readLiteral "\"\"\"a\\nb\"\"\"".toList = some "a\nb".toList ∧
    readLiteral "\"\"\"a\r\nb\"\"\"".toList = some "a\nb".toList := by decide +kernel

/-! ## Dispatch tables (regenerated from `serializer_6.py` on every run) -/

/-- the `condition` of every encoder and decoder class is, as source text, the one the dispatch
model (`Kernels/Dispatch.lean`) was written for -/
theorem conditions_as_modelled :
    encoderConditions = modelledEncoderConditions ∧ decoderConditions = modelledDecoderConditions := by
  decide +kernel

/-- every reference value finds an encoder: the last class of `EncoderSelector` accepts
everything (so `select` never returns `None`) -/
theorem every_value_has_an_encoder :
    ∃ e, encoderClasses.getLast? = some e ∧ encoderConditions.lookup e = some (alwaysCondition "(cls, ref, writer)") := by
  decide +kernel

/-- every right-hand side finds a decoder, whatever its tag -/
theorem decoder_selection_total (tag : String) : (selectDecoder tag).isSome = true := by
  unfold selectDecoder
  rw [List.find?_isSome]
  refine ⟨("LiteralDecoder", ""), by decide +kernel, ?_⟩
  have h : decoderConditions.lookup "LiteralDecoder" = some (alwaysCondition "(cls, node)") := by
    decide +kernel
  simp only [decoderAccepts, h, if_true]

/-- what an encoder writes is taken by the decoder made for it: for every encoder that tags its
output, the FIRST decoder accepting the tag has that tag as its `DECTYPE` (the catch-all does not
get in before it); an encoder that writes bare text is one whose `condition` admits values of the
literal types only, and bare text falls through to the unconditional decoder.  (An encoder for
which the translator finds no tag is an extraction problem, and would fail here too: its condition
is not the literal one.) -/
theorem decoder_matches_encoder :
    ∀ e ∈ encoderTags, ∃ d, selectDecoder e.2 = some d ∧
      (if e.2 = "" then encoderConditions.lookup e.1 = some literalCondition ∧
          decoderConditions.lookup d.1 = some (alwaysCondition "(cls, node)")
       else d.2 = e.2) := by decide +kernel

/-- a tag kept for files of older versions (`DECTYPE_COMPAT`) is not a tag any encoder writes or
any decoder has as its own: it never diverts what the current version writes -/
theorem compat_tags_do_not_compete :
    ∀ c ∈ decoderCompatTags, c.2 ∉ encoderTags.map (·.2) ∧ c.2 ∉ decoderTags.map (·.2) := by decide +kernel

/-- every type `LiteralEncoder` admits has a text form that `LiteralDecoder` reads back -/
theorem literal_types_have_a_text_form : ∀ t ∈ literalTypes, t ∈ textLiteralTypes := by decide +kernel

/-- the pickled values are read (`read_pickledata()`) before every phase that looks them up:
cells inputs, references (`restore()` of the Pickle/IOSpec/Interface decoders), ItemSpace inputs;
and parsing comes first -/
theorem pickledata_read_before_use :
    readerSteps.head? = some ("parse_dir", 0) ∧
    callBefore "read_pickledata" "load_pickledata" = true ∧
    callBefore "read_pickledata" "set_ref" = true ∧
    callBefore "read_pickledata" "__setattr__" = true ∧
    callBefore "read_pickledata" "_set_dynamic_inputs" = true := by decide +kernel

/-- no deferred instruction is left behind: every name under which a parser files an
instruction is executed at parse time or in one of the phases of `_read_model_inner` -/
theorem every_instruction_is_executed :
    ∀ m ∈ instructionMethods, m ∈ atParseMethods ∨ (phaseOf m).isSome := by decide

/-- the order the round trip depends on: cells exist before bases are added, before their
inputs are loaded and before references (which may point at cells, also inherited ones) are
set; ItemSpace inputs come after the references (setting a reference deletes ItemSpaces). -/
theorem phases_in_dependency_order :
    phaseBefore "new_cells" "add_bases" = true ∧ phaseBefore "add_bases" "load_pickledata" = true ∧
    phaseBefore "add_bases" "set_ref" = true ∧ phaseBefore "add_bases" "__setattr__" = true ∧
    phaseBefore "set_ref" "_set_dynamic_inputs" = true ∧
    phaseBefore "__setattr__" "_set_dynamic_inputs" = true ∧
    phaseBefore "load_pickledata" "_set_dynamic_inputs" = true := by decide

/-! ## Non-vacuity -/

/-- two branches that diverge below the model and carry the same name again at the same depth
(`M.A.C.foo` seen from `M.B.C`): only the leading `M` is shared -/
example : absToRelTuple [.str "M".toList, .str "A".toList, .str "C".toList, .str "foo".toList]
      [.str "M".toList, .str "B".toList, .str "C".toList]
    = [.str "...".toList, .str "A".toList, .str "C".toList, .str "foo".toList] := by decide

example : relToAbsTuple [.str "...".toList, .str "A".toList, .str "C".toList, .str "foo".toList]
      [.str "M".toList, .str "B".toList, .str "C".toList]
    = .ok [.str "M".toList, .str "A".toList, .str "C".toList, .str "foo".toList] := by decide

example : String.ofList (absToRel "M.A.C".toList "M.B".toList) = "..A.C" := by decide
example : ValidDotted "M.A.C".toList := by decide
example : relToAbs (absToRel "M.A.C".toList "M.B".toList) "M.B".toList = "M.A.C".toList :=
  rel_abs_roundtrip _ _ (by decide)
/-- the reader accepts more than the writer produces: Python's negative slice -/
example : relToAbsTuple [.str ".....".toList, .str "x".toList]
      [.str "a".toList, .str "b".toList, .str "c".toList]
    = .ok [.str "a".toList, .str "b".toList, .str "x".toList] := by decide

/-- a documentation string with every kind of character the writer treats specially: quotes
at the start, a run of seven, a backslash before a quote, every key of the escape table, a
non-ASCII character, quotes at the end -/
def nastyDoc : List Char :=
  "\"\"x\"\"\"\"\"\"\"y\\\"z\\".toList ++
  [Char.ofNat 0, '\r', '\n', Char.ofNat 0x0b, Char.ofNat 0x0c, Char.ofNat 0x1c, Char.ofNat 0x1d,
   Char.ofNat 0x1e, Char.ofNat 0x85, Char.ofNat 0x2028, Char.ofNat 0x2029, Char.ofNat 0xe9,
   Char.ofNat 0x1F600] ++ "\\n\"\"".toList

example : String.ofList (quoteDocstring nastyDoc) =
    "\"\"\"\"\"x\"\"\\\"\"\"\\\"\"y\\\\\"z\\\\\\x00\\r\n\\x0b\\x0c\\x1c\\x1d\\x1e\\x85\\u2028\\u2029é😀\\\\n\"\\\"\"\"\"" := by
  decide +kernel
example : readLiteral (quoteDocstring nastyDoc) = some nastyDoc := doc_quote_roundtrip _
example : readLiteral (quoteDocstring nastyDoc) = some nastyDoc := by decide +kernel
example : quoteDocstring "a".toList ≠ quoteDocstring "b".toList :=
  fun h => absurd (quote_docstring_injective _ _ h) (by decide +kernel)
example : lexLit (quoteDocstring nastyDoc ++ "\nx = 1\r\n".toList)
    = some (quoteBody 0 nastyDoc, "\nx = 1\n".toList) := doc_quote_one_token _ _
/-- the hypotheses of `doc_quote_no_early_end` are satisfiable, and a text that is not the
writer's does end early -/
example : scanTok 0 "a\\\"\"\"".toList = none :=
  doc_quote_no_early_end "a\"".toList "a\\\"\"\"".toList "\"".toList (by decide +kernel) (by decide +kernel)
example : scanTok 0 "a\"\"\"\"".toList = some ("a\"\"\"".toList, "\"".toList) := by decide +kernel
example : Char.ofNat 0x2028 ∈ nastyDoc ∧ Char.ofNat 0x2028 ∈ sourceUnsafe ∧
    Char.ofNat 0x2028 ∉ quoteDocstring nastyDoc := by decide +kernel
example : universalNl (quoteDocstring nastyDoc) = quoteDocstring nastyDoc := doc_quote_newline_stable _
/-- text-mode reading does alter a text that holds a carriage return as it is -/
example : universalNl "a\r\nb\rc".toList = "a\nb\nc".toList := by decide +kernel
example : splitJoin false ("def f(x):\n    ".toList ++ quoteDocstring nastyDoc ++ "\n    return x\n".toList)
    = "def f(x):\n    ".toList ++ quoteDocstring nastyDoc ++ "\n    return x".toList := by
  rw [doc_quote_survives_line_rejoin _ _ _ (by decide +kernel) (by decide +kernel)]; decide +kernel
/-- the line re-join does alter a text that holds such a character as it is -/
example : splitJoin false "a\x0cb\r\nc\n".toList = "a\nb\nc".toList := by decide +kernel
/-- the reader model beyond the writer's output: octal, `\x`, `\u`, `\U`, unknown escapes,
line continuation; a truncated `\x` is an error -/
example : readLiteral "\"\"\"\\101\\x41\\u0041\\U00000041\\d\\\n\\0\"\"\"".toList
    = some ("AAAA\\d".toList ++ [Char.ofNat 0]) := by decide +kernel
example : readLiteral "\"\"\"\\x4\"\"\"".toList = none := by decide +kernel

/-! ## The save step: the target after a write = exactly the entries of this write

`read_model` trusts files by existence (`_data/<cells>`, `_data/_dynamic_inputs`, `_data/data.pickle`,
`_data/iospecs.pickle`); the directory writer writes below the final path and removes nothing.  That a
model written over an earlier, larger version of itself is read back as the model it is therefore
rests on `_increment_backups` having emptied the path first - for EVERY prior content of the path and
its backups, both formats, `backup` on or off. -/

section SaveStep
open MxModel.SaveFiles

/-- **The target holds exactly this write.**  For every prior state of the path and its backup slots
(directories or archives with any entries, from any earlier writes), every `max_backups`, both
formats: the save succeeds and the path then holds the entries this write produced, each with this
write's content - no entry of an earlier write, none missing, none twice. -/
theorem save_target_exact (fs : FS) (maxB : Nat) (k : Kind) (g : Nat) (names : List String)
    (h : names.Nodup) :
    ∃ fs', save maxB k g names fs = some fs' ∧ fs' 0 = .node k (names.map (fun n => (n, g))) := by
  have h0 : incr fs maxB 0 0 = .absent := incr_start_absent fs maxB 0
  cases k with
  | dir =>
    refine ⟨(incr fs maxB 0).set 0 (.node .dir (writeAll g names [])), ?_, ?_⟩
    · simp [save, writer, writeDir, h0]
    · rw [FS.set_same, writeAll_fresh g names [] h (by intro _ _ x hx; cases hx)]
      simp
  | zip =>
    refine ⟨(incr fs maxB 0).set 0 (.node .zip (names.map (fun n => (n, g)))), ?_, ?_⟩
    · simp [save, writer, writeZip, h0]
    · rw [FS.set_same]

/-- every other slot is what the rotation made of it (the writers touch the path only) -/
theorem save_other_slots (fs fs' : FS) (maxB : Nat) (k : Kind) (g : Nat) (names : List String)
    (h : save maxB k g names fs = some fs') (i : Nat) (hi : i ≠ 0) : fs' i = incr fs maxB 0 i := by
  have h0 : incr fs maxB 0 0 = .absent := incr_start_absent fs maxB 0
  cases k with
  | dir =>
    simp [save, writer, writeDir, h0] at h
    subst h
    exact FS.set_other _ _ hi
  | zip =>
    simp [save, writer, writeZip, h0] at h
    subst h
    exact FS.set_other _ _ hi

/-- `backup=True`: an unbroken run of existing slots `path, _BAK1 .. _BAKj` (`j < max_backups`) moves up
by one: what was at the path is at `_BAK1`, what was at `_BAKn` is at `_BAKn+1` -/
theorem backups_shift (fs fs' : FS) (maxB : Nat) (k : Kind) (g : Nat) (names : List String)
    (h : save maxB k g names fs = some fs') (j : Nat) (hj : j < maxB)
    (hex : ∀ i, i ≤ j → fs i ≠ .absent) : fs' (j + 1) = fs j := by
  rw [save_other_slots fs fs' maxB k g names h (j + 1) (by omega)]
  exact incr_shift fs maxB 0 j (Nat.zero_le _) (by omega) (fun i _ b => hex i b)

/-- `backup=False` (`max_backups = 0`): no backup slot changes -/
theorem no_backup_keeps_other_slots (fs fs' : FS) (k : Kind) (g : Nat) (names : List String)
    (h : save 0 k g names fs = some fs') (i : Nat) (hi : i ≠ 0) : fs' i = fs i := by
  rw [save_other_slots fs fs' 0 k g names h i hi]
  exact incr_beyond fs 0 0 i (by omega)

/-- nothing beyond `_BAK<max_backups>` is ever touched (or created) -/
theorem nothing_beyond_max_backups (fs fs' : FS) (maxB : Nat) (k : Kind) (g : Nat) (names : List String)
    (h : save maxB k g names fs = some fs') (i : Nat) (hi : maxB < i) : fs' i = fs i := by
  rw [save_other_slots fs fs' maxB k g names h i (by omega)]
  exact incr_beyond fs maxB 0 i (by omega)

/-- the rotation stops at the first missing slot: backups behind a gap stay where they are -/
theorem backups_behind_a_gap_stay (fs fs' : FS) (maxB : Nat) (k : Kind) (g : Nat) (names : List String)
    (h : save maxB k g names fs = some fs') (gap i : Nat) (hg : fs gap = .absent) (hi : gap < i) :
    fs' i = fs i := by
  rw [save_other_slots fs fs' maxB k g names h i (by omega)]
  exact incr_stops_at_gap fs maxB 0 gap i (Nat.zero_le _) hg hi

/-- adequacy of modelling `Path.rename` as overwriting: when `_increment_backups` renames slot `nth`
to `nth + 1`, the deeper call has left `nth + 1` free and has not touched `nth` -/
theorem rename_target_free (fs : FS) (fuel nth : Nat) :
    incr fs fuel (nth + 1) (nth + 1) = .absent ∧ incr fs fuel (nth + 1) nth = fs nth :=
  ⟨incr_start_absent fs fuel (nth + 1), incr_below fs fuel (nth + 1) nth (by omega)⟩

/-- **Histories**: after every write of any history of writes to one path (any mixture of formats and
backup settings, names pairwise different within a write) the path holds exactly that write -/
theorem after_every_write_of_a_history (ws : List Write) (h : ∀ w ∈ ws, w.names.Nodup)
    (i : Nat) (hi : i < ws.length) :
    ∃ fs', (run ws)[i]? = some (some fs') ∧
      fs' 0 = .node ws[i].kind (ws[i].names.map (fun n => (n, i))) := by
  suffices H : ∀ (ws : List Write) (g : Nat) (fs : FS), (∀ w ∈ ws, w.names.Nodup) →
      ∀ (i : Nat) (hi : i < ws.length), ∃ fs', (runFrom g fs ws)[i]? = some (some fs') ∧
        fs' 0 = .node ws[i].kind (ws[i].names.map (fun n => (n, g + i))) by
    simpa [run] using H ws 0 FS.empty h i hi
  intro ws
  induction ws with
  | nil => intro g fs _ i hi; cases hi
  | cons w ws ih =>
    intro g fs hnd i hi
    obtain ⟨fs1, e1, e2⟩ := save_target_exact fs w.maxB w.kind g w.names (hnd w (List.mem_cons_self ..))
    cases i with
    | zero => exact ⟨fs1, by simp [runFrom, e1], by simpa using e2⟩
    | succ i =>
      obtain ⟨fs', a, b⟩ := ih (g + 1) fs1 (fun w' hw => hnd w' (List.mem_cons_of_mem _ hw)) i
        (by simpa using hi)
      refine ⟨fs', by simp [runFrom, e1, a], ?_⟩
      have : g + (i + 1) = g + 1 + i := by omega
      simpa [this] using b

/-- the directory writer alone does not have the property: an entry of the old tree that this write
does not produce survives a write in place (any old entry, any names) ... -/
theorem write_in_place_keeps_other_entries (fs fs' : FS) (g : Nat) (names : List String)
    (old : List Entry) (x : Entry) (hfs : fs 0 = .node .dir old) (hx : x ∈ old) (hn : x.1 ∉ names)
    (h : writeDir g names fs = some fs') : ∃ es, fs' 0 = .node .dir es ∧ x ∈ es := by
  simp [writeDir, hfs] at h
  subst h
  exact ⟨_, FS.set_same _ _ _, writeAll_keeps g x names old hx hn⟩

/-- ... so "the target holds exactly this write" is false of the writer without the removal that
`_increment_backups` performs: the stale `_data/foo` of a cells whose input was withdrawn is still
there, and the reader would load it -/
theorem write_in_place_full_fails :
    ¬ ∀ (fs : FS) (g : Nat) (names : List String), names.Nodup →
        ∃ fs', writeDir g names fs = some fs' ∧ fs' 0 = .node .dir (names.map (fun n => (n, g))) := by
  intro H
  obtain ⟨fs', e1, e2⟩ := H (FS.empty.set 0 (.node .dir [("S/__init__.py", 0), ("S/_data/foo", 0)])) 1
    ["S/__init__.py"] (by decide)
  obtain ⟨es, e3, e4⟩ := write_in_place_keeps_other_entries _ fs' 1 ["S/__init__.py"] _ ("S/_data/foo", 0)
    (FS.set_same _ _ _) (by decide) (by decide) e1
  rw [e2] at e3
  injection e3 with _ e5
  subst e5
  revert e4
  decide

/-- non-vacuity.  A directory holding an earlier, larger version (an input file of `foo`, the pickle
table, an input log); the model is written again after the input was withdrawn. -/
def olderLarger : FS :=
  (FS.empty.set 0 (.node .dir [("__init__.py", 0), ("S/__init__.py", 0), ("S/_data/foo", 0),
    ("_data/data.pickle", 0), ("_input_log.txt", 0)])).set 1 (.node .zip [("__init__.py", 7)])

example : (save 0 .dir 1 ["__init__.py", "S/__init__.py"] olderLarger).map (fun fs => (fs 0, fs 1, fs 2))
    = some (.node .dir [("__init__.py", 1), ("S/__init__.py", 1)], .node .zip [("__init__.py", 7)], .absent) := by
  decide +kernel
example : (save 3 .zip 1 ["__init__.py", "S/__init__.py"] olderLarger).map (fun fs => (fs 0, fs 1 = olderLarger 0, fs 2, fs 3))
    = some (.node .zip [("__init__.py", 1), ("S/__init__.py", 1)], True, .node .zip [("__init__.py", 7)], .absent) := by
  simp [save, writer, writeZip, incr, olderLarger, FS.set, FS.empty]
/-- the writer alone, on the same state: the three stale entries are still there -/
example : (writeDir 1 ["__init__.py", "S/__init__.py"] olderLarger).map (fun fs => fs 0)
    = some (.node .dir [("__init__.py", 1), ("S/__init__.py", 1), ("S/_data/foo", 0),
        ("_data/data.pickle", 0), ("_input_log.txt", 0)]) := by
  decide +kernel
/-- a history: directory, archive over it with a backup, directory over that without -/
example : ((run [⟨.dir, 3, ["a", "b"]⟩, ⟨.zip, 3, ["a"]⟩, ⟨.dir, 0, ["a", "c"]⟩]).map
      (fun o => o.map (fun fs => (fs 0, fs 1))))
    = [some (.node .dir [("a", 0), ("b", 0)], .absent),
       some (.node .zip [("a", 1)], .node .dir [("a", 0), ("b", 0)]),
       some (.node .dir [("a", 2), ("c", 2)], .node .dir [("a", 0), ("b", 0)])] := by
  decide +kernel

end SaveStep

example : selectDecoder "Pickle" = some ("PickleDecoder", "Pickle") := by decide +kernel
example : selectDecoder "" = some ("LiteralDecoder", "") := by decide +kernel
example : selectDecoder "DataSpec" = some ("IOSpecDecoder", "IOSpec") := by decide +kernel
example : selectDecoder "NoSuchTag" = some ("LiteralDecoder", "") := by decide +kernel
example : callStep "read_pickledata" = some 3 ∧ methodStep "load_pickledata" = some 4 := by decide
example : phaseOf "_set_dynamic_inputs" = some 4 := by decide

/-! ## The writer and the reader: `read (write m) = m`

`Kernels/Serial.lean` is `ModelWriter` at the level of statements: a model description `MDesc` (name,
documentation, `allow_none`, references of the model; per space: documentation, `allow_none`, direct bases,
parameter formula, defined cells with formula text / flags / documentation / input values, defined references
with value kind and mode, inputs inside ItemSpaces, child spaces) is written to one `__init__.py` per space -
the list of logical statements `SpaceEncoder` / `CellsEncoder` / `RefViewEncoder` emit - plus the `_data`
files by name and pickle ids.  `Kernels/SerialRead.lean` is `ModelReader`: `ParserSelector` / `DecoderSelector`
in the order of `Generated.parserClasses` / `decoderClasses`, the look-ahead of the cells parsers, the
deferred instructions executed in the phases of `Generated.readerPhases`, with the checks of the real
`add_bases` / `set_ref` that can fail.  A reordering of the selectors or of the phases in `serializer_6.py`
changes the regenerated tables and these theorems are re-checked against it.

`WellFormed` is what every model built through the API satisfies (unique names per container, valid names,
bases and targets of object-valued references exist, a lambda text starts with `lambda`).  `Hk` excludes the
recorded findings of C04, one named hypothesis each (`Kernels/SerialWF.lean`); below, every one of them is
shown to be needed by a kernel-checked witness. -/

section SerialRoundTrip
open MxModel.Serial

/-- **Write/read round trip, every model description of any size and depth.**  Reading what the writer
wrote succeeds and gives back the description: same space tree, direct bases, parameter formulas, cells
(formula text, `allow_none`, cached flag, documentation), references (value, mode, object-valued references
pointing at the same paths), documentation strings, input values including those inside ItemSpaces.
`_partial`: the hypotheses `Hk` are the known findings C04-refmode-noninterface, -derived-input,
-def-text-outside-node, -doc-section-marker, -ref-override-order, -relref-override-order and -bases-order. -/
theorem read_write_round_trip_partial (m : MDesc) (hwf : WellFormed m) (hk : Hk m) :
    Serial.read (Serial.write m) = .ok m :=
  read_write m hwf hk

/-- the `log_input` option adds a file the reader never opens -/
theorem read_write_round_trip_log_input_partial (m : MDesc) (hwf : WellFormed m) (hk : Hk m) :
    Serial.read (writeWith true m) = .ok m := by
  have h := read_write m hwf hk
  unfold Serial.read parseModel at h ⊢
  simpa [Serial.write, writeWith, Dir.init, Dir.data, Dir.subs, Dir.depth] using h

/-- two descriptions that are written to the same files are the same description -/
theorem write_injective_partial (m m' : MDesc) (hwf : WellFormed m) (hk : Hk m) (hwf' : WellFormed m')
    (hk' : Hk m') (h : Serial.write m = Serial.write m') : m = m' := by
  have a := read_write m hwf hk
  rw [h, read_write m' hwf' hk'] at a
  exact (Except.ok.inj a).symm

/-- a written model that is read and written again gives the same files -/
theorem write_read_write_partial (m m' : MDesc) (hwf : WellFormed m) (hk : Hk m)
    (h : Serial.read (Serial.write m) = .ok m') : Serial.write m' = Serial.write m := by
  rw [read_write m hwf hk] at h
  rw [Except.ok.inj h]

/-- **which files exist**: exactly one `__init__.py` for the model and one per space, at the path of the
space, in tree order; below `_data/`: the model's pickle tables, and per space one file per cells that holds
input values and `_dynamic_inputs` if an ItemSpace holds one - nothing else (the entry names
`Kernels/SaveFiles.lean` speaks about). -/
theorem files_of_write (logInput : Bool) (m : MDesc) :
    (writeWith logInput m).initPaths [] = [] :: spacesPaths [] m.spaces ∧
    (writeWith logInput m).dataPaths [] =
      (modelData m).map (fun d => (([] : Serial.Path), d.1)) ++
        (infosOfL [] m.spaces).flatMap (fun e => (dataNames e.2).map (fun n => (own e, n))) ∧
    (writeWith logInput m).other = fSystem :: (if logInput then [fInputLog] else []) := by
  refine ⟨?_, ?_, rfl⟩
  · simp [writeWith, Dir.initPaths, initPathsL_writeSpaces]
  · simp [writeWith, Dir.dataPaths, dataPathsL_writeSpaces]

/-- `data.pickle` exists exactly when some value is pickled, and then lists exactly the ids in use -/
theorem pickle_table_of_write (m : MDesc) :
    pickleTable (Serial.write m).data = pickleIds m := pickleTable_modelData m

/-! ### a concrete model: two spaces, a base, lambda and def cells, object-valued references in two modes, a
pickled input value, an input inside an ItemSpace, a child space -/

def exFoo : CellsD := ⟨"foo".toList, .lambda "lambda x: x + 1".toList, some true, false, some "doc of foo".toList,
  [("1".toList, "2".toList)]⟩
def exBar : CellsD := ⟨"bar".toList, .defn "def bar(x):\n    return 2 * x".toList "def bar(x):\n    return 2 * x".toList,
  none, true, none, []⟩
def exA : SpaceD := .mk ⟨"A".toList, some "space A".toList, some false, none, [], [exFoo, exBar],
  [⟨"k".toList, .literal "3".toList, .auto⟩, ⟨"p".toList, .pickled "7".toList, .auto⟩], [], []⟩ []
def exC : SpaceD := .mk ⟨"C".toList, none, none, none, [], [],
  [⟨"u".toList, .interface ["B".toList], .relative⟩], [], []⟩ []
def exB : SpaceD := .mk ⟨"B".toList, none, none, some (.lambda "lambda i: None".toList), [["A".toList]], [],
  [⟨"t".toList, .interface ["A".toList, "foo".toList], .absolute⟩],
  [⟨[.key "9".toList, .str "foo".toList], "1".toList, "2".toList⟩], []⟩ [exC]
def exModel : MDesc := ⟨"M".toList, some "the model".toList, false, [("gk".toList, .literal "5".toList)], [exA, exB]⟩

example : WellFormed exModel := by decide +kernel
example : Hk exModel := by decide +kernel
example : Serial.read (Serial.write exModel) = .ok exModel :=
  read_write_round_trip_partial exModel (by decide +kernel) (by decide +kernel)
/-- the same by evaluation of writer and reader -/
example : Serial.read (Serial.write exModel) = .ok exModel := by decide +kernel
example : Serial.read (writeWith true exModel) = .ok exModel :=
  read_write_round_trip_log_input_partial exModel (by decide +kernel) (by decide +kernel)
example : ((Serial.write exModel).initPaths []).length = 4 := by decide +kernel
example : (Serial.write exModel).initPaths [] = [[], ["A".toList], ["B".toList], ["B".toList, "C".toList]] :=
  (files_of_write false exModel).1
example : (Serial.write exModel).dataPaths [] =
    [([], "data.pickle".toList), (["A".toList], "foo".toList), (["B".toList], "_dynamic_inputs".toList)] := by
  decide +kernel
example : pickleTable (Serial.write exModel).data = ["7", "1", "2", "1", "2", "9"].map String.toList := by
  decide +kernel
/-- the hypotheses of `write_injective_partial` hold for two different descriptions, and their files differ -/
example : Serial.write exModel ≠ Serial.write { exModel with allowNone := true } := fun h => by
  have := write_injective_partial exModel { exModel with allowNone := true } (by decide +kernel)
    (by decide +kernel) (by decide +kernel) (by decide +kernel) h
  revert this; decide +kernel
example : Serial.write exModel = Serial.write exModel :=
  write_read_write_partial exModel exModel (by decide +kernel) (by decide +kernel) (by decide +kernel)
/-- the statements of `B/__init__.py` as the model writes them -/
example : (Serial.write exModel).subs.map (fun d => d.init.map List.length) = [some 15, some 7] := by
  decide +kernel

/-! ### every hypothesis of `Hk` is needed (the recorded findings, in the model) -/

def exSpace (name : String) (bases : List Serial.Path) (refs : List RefD) (kids : List SpaceD := []) : SpaceD :=
  .mk ⟨name.toList, none, none, none, bases, [], refs, [], []⟩ kids

/-- what a witness has to show: well-formed, all OTHER hypotheses hold, and the round trip fails -/
def RoundTripFails (m : MDesc) : Prop := WellFormed m ∧ Serial.read (Serial.write m) ≠ .ok m

/-- C04-refmode-noninterface: `set_ref("k", 3, "absolute")` comes back `auto` -/
def exRefMode : MDesc := ⟨"M".toList, none, false, [], [exSpace "A" [] [⟨"k".toList, .literal "3".toList, .absolute⟩]]⟩
theorem refmode_noninterface_full_statement_fails :
    ¬ ∀ m, WellFormed m → NoDerivedInputs m → DefTextIsNode m → NoMarkerInText m → NoBasesOrderConflict m →
      NoRefOverrideOrder m → NoRelRefOverrideOrder m → Serial.read (Serial.write m) = .ok m := fun h =>
  absurd (h exRefMode (by decide +kernel) (by decide +kernel) (by decide +kernel) (by decide +kernel)
    (by decide +kernel) (by decide +kernel) (by decide +kernel)) (by decide +kernel)
example : ¬ RefModesWritten exRefMode := by decide +kernel
example : Serial.read (Serial.write exRefMode) =
    .ok ⟨"M".toList, none, false, [], [exSpace "A" [] [⟨"k".toList, .literal "3".toList, .auto⟩]]⟩ := by decide +kernel

/-- C04-derived-input: an input value of an inherited cells is not written -/
def exDerivedInput : MDesc := ⟨"M".toList, none, false, [],
  [.mk ⟨"A".toList, none, none, none, [], [⟨"foo".toList, .lambda "lambda x: x".toList, none, true, none, []⟩], [], [], []⟩ [],
   .mk ⟨"B".toList, none, none, none, [["A".toList]], [], [], [], [("foo".toList, [("1".toList, "2".toList)])]⟩ []]⟩
theorem derived_input_full_statement_fails :
    ¬ ∀ m, WellFormed m → RefModesWritten m → DefTextIsNode m → NoMarkerInText m → NoBasesOrderConflict m →
      NoRefOverrideOrder m → NoRelRefOverrideOrder m → Serial.read (Serial.write m) = .ok m := fun h =>
  absurd (h exDerivedInput (by decide +kernel) (by decide +kernel) (by decide +kernel) (by decide +kernel)
    (by decide +kernel) (by decide +kernel) (by decide +kernel)) (by decide +kernel)
example : ¬ NoDerivedInputs exDerivedInput := by decide +kernel

/-- C04-def-text-outside-node: a comment line after the last statement of a `def` is dropped -/
def exDefText : MDesc := ⟨"M".toList, none, false, [],
  [.mk ⟨"A".toList, none, none, none, [],
    [⟨"dd".toList, .defn "def dd(x):\n    return x\n# c\n".toList "def dd(x):\n    return x\n".toList, none, true, none, []⟩],
    [], [], []⟩ []]⟩
theorem def_text_outside_node_full_statement_fails :
    ¬ ∀ m, WellFormed m → RefModesWritten m → NoDerivedInputs m → NoMarkerInText m → NoBasesOrderConflict m →
      NoRefOverrideOrder m → NoRelRefOverrideOrder m → Serial.read (Serial.write m) = .ok m := fun h =>
  absurd (h exDefText (by decide +kernel) (by decide +kernel) (by decide +kernel) (by decide +kernel)
    (by decide +kernel) (by decide +kernel) (by decide +kernel)) (by decide +kernel)
example : ¬ DefTextIsNode exDefText := by decide +kernel

/-- C04-doc-section-marker: the divider line followed by `# Cells` inside a space's documentation moves the
space's `_allow_none` into the cells section, where it is ignored -/
def exMarker : MDesc := ⟨"M".toList, none, false, [],
  [.mk ⟨"A".toList, some ("first\n".toList ++ dividerLine ++ "\n# Cells\nlast".toList), some true, none, [], [], [], [], []⟩ []]⟩
theorem doc_section_marker_full_statement_fails :
    ¬ ∀ m, WellFormed m → RefModesWritten m → NoDerivedInputs m → DefTextIsNode m → NoBasesOrderConflict m →
      NoRefOverrideOrder m → NoRelRefOverrideOrder m → Serial.read (Serial.write m) = .ok m := fun h =>
  absurd (h exMarker (by decide +kernel) (by decide +kernel) (by decide +kernel) (by decide +kernel)
    (by decide +kernel) (by decide +kernel) (by decide +kernel)) (by decide +kernel)
example : ¬ NoMarkerInText exMarker := by decide +kernel
example : (Serial.read (Serial.write exMarker)).map (fun r => r.spaces.map (fun s => s.info.allowNone)) = .ok [none] := by
  decide +kernel

/-- C04-bases-order (found with this model): `S0; S1(S0); S2(S1, S4); S3(S2, S4, S0); S4(S0)` has a C3
linearisation for every space, but not while `S4` is still without its base - and the reader adds the bases in
tree order -/
def exBasesOrder : MDesc := ⟨"M".toList, none, false, [],
  [exSpace "S0" [] [], exSpace "S1" [["S0".toList]] [], exSpace "S2" [["S1".toList], ["S4".toList]] [],
   exSpace "S3" [["S2".toList], ["S4".toList], ["S0".toList]] [], exSpace "S4" [["S0".toList]] []]⟩
theorem bases_order_full_statement_fails :
    ¬ ∀ m, WellFormed m → RefModesWritten m → NoDerivedInputs m → DefTextIsNode m → NoMarkerInText m →
      NoRefOverrideOrder m → NoRelRefOverrideOrder m → Serial.read (Serial.write m) = .ok m := fun h =>
  absurd (h exBasesOrder (by decide +kernel) (by decide +kernel) (by decide +kernel) (by decide +kernel)
    (by decide +kernel) (by decide +kernel) (by decide +kernel)) (by decide +kernel)
example : ¬ NoBasesOrderConflict exBasesOrder := by decide +kernel
example : Serial.read (Serial.write exBasesOrder) = .error .basesOrder := by decide +kernel
/-- the complete graph is fine: every space has a linearisation -/
example : allMro (ctxOf exBasesOrder) (baseDefs exBasesOrder) = true := by decide +kernel
/-- and with `S4` before `S3` in the tree the same model is read back -/
example : Hk ⟨"M".toList, none, false, [],
  [exSpace "S0" [] [], exSpace "S1" [["S0".toList]] [], exSpace "S2" [["S1".toList], ["S4".toList]] [],
   exSpace "S4" [["S0".toList]] [], exSpace "S3" [["S2".toList], ["S4".toList], ["S0".toList]] []]⟩ := by
  decide +kernel

/-- C04-ref-override-order: `A(B)`, both define `k`, `A` first in the tree: `B.k` is created while the sub
space `A` already has the name -/
def exRefOverride : MDesc := ⟨"M".toList, none, false, [],
  [exSpace "A" [["B".toList]] [⟨"k".toList, .literal "1".toList, .auto⟩], exSpace "B" [] [⟨"k".toList, .literal "2".toList, .auto⟩]]⟩
theorem ref_override_order_full_statement_fails :
    ¬ ∀ m, WellFormed m → RefModesWritten m → NoDerivedInputs m → DefTextIsNode m → NoMarkerInText m →
      NoBasesOrderConflict m → NoRelRefOverrideOrder m → Serial.read (Serial.write m) = .ok m := fun h =>
  absurd (h exRefOverride (by decide +kernel) (by decide +kernel) (by decide +kernel) (by decide +kernel)
    (by decide +kernel) (by decide +kernel) (by decide +kernel)) (by decide +kernel)
example : ¬ NoRefOverrideOrder exRefOverride := by decide +kernel
example : Serial.read (Serial.write exRefOverride) = .error .refConflict := by decide +kernel
/-- the base first: fine -/
example : Hk ⟨"M".toList, none, false, [],
  [exSpace "B" [] [⟨"k".toList, .literal "2".toList, .auto⟩], exSpace "A" [["B".toList]] [⟨"k".toList, .literal "1".toList, .auto⟩]]⟩ := by
  decide +kernel

/-- C04-relref-override-order: `A.k` is a `relative` reference to `Z` (outside `A`), `B(A)` overrides `k`,
`A` first in the tree: `A.k` is created while `B` has no definition of its own yet -/
def exRelRef : MDesc := ⟨"M".toList, none, false, [],
  [exSpace "A" [] [⟨"k".toList, .interface ["Z".toList], .relative⟩],
   exSpace "B" [["A".toList]] [⟨"k".toList, .literal "2".toList, .auto⟩], exSpace "Z" [] []]⟩
theorem relref_override_order_full_statement_fails :
    ¬ ∀ m, WellFormed m → RefModesWritten m → NoDerivedInputs m → DefTextIsNode m → NoMarkerInText m →
      NoBasesOrderConflict m → NoRefOverrideOrder m → Serial.read (Serial.write m) = .ok m := fun h =>
  absurd (h exRelRef (by decide +kernel) (by decide +kernel) (by decide +kernel) (by decide +kernel)
    (by decide +kernel) (by decide +kernel) (by decide +kernel)) (by decide +kernel)
example : ¬ NoRelRefOverrideOrder exRelRef := by decide +kernel
example : Serial.read (Serial.write exRelRef) = .error .relRefConflict := by decide +kernel

/-- a closed form that implies `NoRefOverrideOrder`, whatever the order of the spaces in the tree: along the
lineage of every space (the space and its bases) every reference name has at most one definer -/
theorem no_ref_twice_in_lineage_suffices (m : MDesc) (hkeys : (refKeys m).Nodup)
    (h : noRefTwiceInLineage m = true) : NoRefOverrideOrder m :=
  refsPass_of_noRefTwice m hkeys h [] (refDefs m) rfl
example : (refKeys exModel).Nodup ∧ noRefTwiceInLineage exModel = true := by decide +kernel
example : NoRefOverrideOrder exModel := no_ref_twice_in_lineage_suffices exModel (by decide +kernel) (by decide +kernel)
/-- the witness of the finding has two definers of `k` in the lineage of `A` -/
example : noRefTwiceInLineage exRefOverride = false := by decide +kernel

/-- the full statement (no hypothesis beyond well-formedness) is false -/
theorem read_write_round_trip_full_statement_fails :
    ¬ ∀ m, WellFormed m → Serial.read (Serial.write m) = .ok m := fun h =>
  absurd (h exBasesOrder (by decide +kernel)) (by decide +kernel)

/-! ### the order of the source matters: what the theorems above rest on in the regenerated tables -/

/-- the selectors as the proofs use them (a reordering in `serializer_6.py` fails here first) -/
theorem selector_orders_as_modelled :
    parserOrder = [.docstring, .importFrom, .rename, .lambdaAssign, .attrAssign, .refAssign, .spaceFuncDef,
      .cellsFuncDef] ∧
    decoderOrder = [.interface, .iospec, .module, .pickle, .literal] ∧ phaseChecks = true ∧
    (Op.dynInput [] [] []).phase = some 4 ∧ (Op.setRef [] (.literal []) []).phase = some 3 ∧
    (Op.addBases []).phase = some 1 :=
  ⟨parserOrder_eq, decoderOrder_eq, phaseChecks_eq, phase_dynInput _ _ _, phase_setRef _ _ _, phase_addBases _⟩

end SerialRoundTrip

end MxModel.C04
