import MxModel.Proofs.PathCodec
import MxModel.Proofs.DocQuote
import MxModel.Kernels.Dispatch
/-!
# C04 – Write/read round trip: the two codecs the serializer relies on

Property theorems only (helper lemmas are in `Proofs/PathCodec.lean`, `Proofs/DocQuote.lean`).

* `Kernels/PathCodec.lean` – `abs_to_rel` / `rel_to_abs` and the tuple forms of
  `modelx/core/util.py`, by which direct bases, object-valued references and the addresses of
  ItemSpace inputs are stored relative to the space that holds them.
* `Kernels/DocQuote.lean` – `quote_docstring` of `modelx/core/formula.py` (the writer of every
  documentation string since commit 2b72506) against Python's reading of a triple-quoted
  literal: tokenizer, escape decoder, universal newlines, the line re-join of a def's source.

The whole-model round trip (space tree, formulas, flags, references, inputs, directory = zip,
write inert) is not a theorem; it is checked on the implementation (harness `c04.py`).
-/
namespace MxModel.C04
open MxModel.PathCodec MxModel.DocQuote MxModel.Dispatch MxModel.Generated

/-! ## Relative addresses -/

/-- **Tuple form, no precondition at all**: for every target and every namespace id tuple
(names and ItemSpace argument tuples in any mixture, either of them possibly empty) the
reader rebuilds exactly the target from what the writer stored.  `rel_to_abs_tuple` can
raise (`IndexError` on `()`, `ValueError` when the first element is not a run of dots) but
never on the writer's output. -/
theorem rel_abs_roundtrip_tuple (t ns : List Elem) :
    relToAbsTuple (absToRelTuple t ns) ns = .ok t := by
  have h1 := sharedLen_le_left t ns
  have h2 := sharedLen_le_right t ns
  simp only [absToRelTuple, relToAbsTuple, allDots_dotsStr, if_true]
  have hlen : (dotsStr (ns.length - sharedLen t ns + 1)).length = ns.length - sharedLen t ns + 1 := by
    simp [dotsStr]
  rw [hlen, pySliceTo_shared ns _ h2, take_sharedLen]
  have : t.length - (t.length - sharedLen t ns) = sharedLen t ns := by omega
  rw [this, List.take_append_drop]

/-- the relative form determines the target: two different objects never get the same
stored address in one space -/
theorem abs_to_rel_tuple_injective (t t' ns : List Elem)
    (h : absToRelTuple t ns = absToRelTuple t' ns) : t = t' := by
  have a := rel_abs_roundtrip_tuple t ns
  rw [h, rel_abs_roundtrip_tuple t' ns] at a
  exact (Except.ok.inj a).symm

/-- the first name of `t` that is not shared with `ns` (if any) is not the empty string -/
def FreshNameNonEmpty (t ns : List Char) : Prop :=
  ∀ w, ((splitDot t).drop (sharedLen (splitDot t) (splitDot ns))).head? = some w → w ≠ []

instance (t ns : List Char) : Decidable (FreshNameNonEmpty t ns) := by
  unfold FreshNameNonEmpty
  cases h : ((splitDot t).drop (sharedLen (splitDot t) (splitDot ns))).head? with
  | none => exact isTrue (by simp)
  | some w =>
    by_cases hw : w = []
    · exact isFalse (fun f => f w rfl hw)
    · exact isTrue (by intro w' e; cases e; exact hw)

/-- **String form**: `rel_to_abs(abs_to_rel(t, ns), ns) == t` for every namespace string and
every target whose first not-shared name is non-empty.  (The reader counts the leading dots
of the stored text; an empty name right after them would be swallowed.) -/
theorem rel_abs_roundtrip_partial (t ns : List Char) (h : FreshNameNonEmpty t ns) :
    relToAbs (absToRel t ns) ns = t := by
  simp only [absToRel, relToAbs]
  exact (roundtrip_core (splitDot t) (splitDot ns) _ (sharedLen_le_left _ _) (sharedLen_le_right _ _)
    (take_sharedLen _ _) (splitDot_dotfree t) h).trans (joinDot_splitDot t)

/-- …in particular for every dotted name modelx can produce (all names non-empty) and every
namespace -/
theorem rel_abs_roundtrip (t ns : List Char) (h : ValidDotted t) :
    relToAbs (absToRel t ns) ns = t :=
  rel_abs_roundtrip_partial t ns (fun w hw => h w (List.mem_of_mem_drop (List.mem_of_mem_head? hw)))

/-- the precondition is needed: `rel_to_abs(abs_to_rel("a.", "a"), "a") == "a"` -/
theorem rel_abs_roundtrip_full_fails : ¬ ∀ t ns : List Char, relToAbs (absToRel t ns) ns = t := by
  intro h
  have := h "a.".toList "a".toList
  revert this
  decide

/-! ## Documentation strings -/

/-- **The docstring codec is faithful for EVERY string**: whatever the documentation string
is (quotes anywhere, backslashes, NUL, carriage returns, any line boundary, any other
character), the text `quote_docstring` produces, read as a file in text mode and then as a
Python literal, is exactly one triple-quoted string token whose value is the string. -/
theorem doc_quote_roundtrip (doc : List Char) : readLiteral (quoteDocstring doc) = some doc := by
  rw [readLiteral_eq_some]
  refine ⟨quoteBody 0 doc, ?_, dec_quoteBody doc 0⟩
  have h := lexLit_quoteDocstring doc []
  simpa [universalNl, nlAux] using h

/-- two different documentation strings are never written as the same text -/
theorem quote_docstring_injective (d d' : List Char) (h : quoteDocstring d = quoteDocstring d') :
    d = d' := by
  have a := doc_quote_roundtrip d
  rw [h, doc_quote_roundtrip d'] at a
  exact (Option.some.inj a).symm

/-- **The written literal is lexically one token, whatever follows it**: the tokenizer's
closing `"""` are the three quotes the writer put at the end (no quote of the documentation
string completes a run of three, and the closing quotes are not swallowed by a backslash or
joined by a trailing quote of the string), the token's body is what the writer put between
the quotes, and the text after the statement is left as it is. -/
theorem doc_quote_one_token (doc tail : List Char) :
    lexLit (quoteDocstring doc ++ tail) = some (quoteBody 0 doc, universalNl tail) :=
  lexLit_quoteDocstring doc tail

/-- …and it does not end earlier: on every proper prefix of the written body-and-closing-quotes
the tokenizer finds no end of the literal -/
theorem doc_quote_no_early_end (doc p s : List Char) (h : quoteBody 0 doc ++ qqq = p ++ s) (hs : s ≠ []) :
    scanTok 0 p = none := by
  cases hp : scanTok 0 p with
  | none => rfl
  | some tr =>
    obtain ⟨t, r⟩ := tr
    have h1 := scanTok_append 0 p t r s hp
    have h2 := scanTok_quoteBody doc 0 [] (by omega) (fun _ => rfl)
    rw [List.append_nil, h, h1] at h2
    simp only [Option.some.injEq, Prod.mk.injEq, List.append_eq_nil_iff] at h2
    exact absurd h2.2.2 hs

/-- **The written literal holds no character a source text does not keep**: no NUL, no
carriage return and none of the other characters at which `str.splitlines` splits a text –
only line feeds separate its lines. -/
theorem doc_quote_source_safe (doc : List Char) (x : Char) (h : x ∈ quoteDocstring doc) :
    x ∉ sourceUnsafe :=
  quoteDocstring_sourceSafe doc x h

/-- hence reading the file in text mode (universal newlines) does not alter it … -/
theorem doc_quote_newline_stable (doc : List Char) :
    universalNl (quoteDocstring doc) = quoteDocstring doc :=
  universalNl_noCr _ (quoteDocstring_noCr doc)

/-- … and neither does the line re-join `"\n".join(source.splitlines())` that the `Formula`
constructor and `FunctionDefParser` apply to the source of a def: a docstring written by
`quote_docstring` (`set_doc`) inside a def whose text before it has no such character
either stays where it is, character for character. -/
theorem doc_quote_survives_line_rejoin (doc pre post : List Char)
    (hpre : ∀ x ∈ pre, x ∉ sourceUnsafe) (hpost : post ≠ []) :
    splitJoin false (pre ++ quoteDocstring doc ++ post)
      = pre ++ quoteDocstring doc ++ splitJoin false post := by
  rw [List.append_assoc, splitJoin_append_safe pre _ hpre (by simp [quoteDocstring, qqq]),
    splitJoin_append_safe _ _ (quoteDocstring_sourceSafe doc) hpost, List.append_assoc]

/-! ### Regression: the documentation strings that the un-escaped writer lost

(`'"""' + doc + '"""'` before 2b72506: the first three made the written model unreadable,
the last three came back changed; findings C04-doc-quote, C04-doc-backslash, C04-doc-cr) -/

theorem doc_ending_in_quote_readable :
    String.ofList (quoteDocstring "a\"".toList) = "\"\"\"a\\\"\"\"\"" ∧
    readLiteral (quoteDocstring "a\"".toList) = some "a\"".toList := by decide +kernel
theorem doc_with_triple_quote_readable :
    String.ofList (quoteDocstring "a\"\"\"b".toList) = "\"\"\"a\"\"\\\"b\"\"\"" ∧
    readLiteral (quoteDocstring "a\"\"\"b".toList) = some "a\"\"\"b".toList := by decide +kernel
theorem doc_ending_in_backslash_readable :
    String.ofList (quoteDocstring "a\\".toList) = "\"\"\"a\\\\\"\"\"" ∧
    readLiteral (quoteDocstring "a\\".toList) = some "a\\".toList := by decide +kernel
theorem doc_with_escape_unchanged :
    readLiteral (quoteDocstring "a\\nb".toList) = some "a\\nb".toList := by decide +kernel
theorem doc_with_escaped_quote_unchanged :
    readLiteral (quoteDocstring "a\\\"".toList) = some "a\\\"".toList := by decide +kernel
theorem doc_with_carriage_return_unchanged :
    String.ofList (quoteDocstring "a\r\nb".toList) = "\"\"\"a\\r\nb\"\"\"" ∧
    readLiteral (quoteDocstring "a\r\nb".toList) = some "a\r\nb".toList := by decide +kernel

/-- what the reader does with the text the OLD writer produced for these strings (the reader
did not change): unreadable, or another value -/
theorem unescaped_text_was_unreadable_or_changed :
    readLiteral "\"\"\"a\"\"\"\"".toList = none ∧ readLiteral "\"\"\"a\"\"\"b\"\"\"".toList = none ∧
    readLiteral "\"\"\"a\\\"\"\"".toList = none ∧
    readLiteral "\"\"\"a\\nb\"\"\"".toList = some "a\nb".toList ∧
    readLiteral "\"\"\"a\r\nb\"\"\"".toList = some "a\nb".toList := by decide +kernel

/-! ## Dispatch tables (regenerated from `serializer_6.py` on every run) -/

/-- every reference value finds an encoder: the last class of `EncoderSelector` accepts
everything (so `select` never returns `None`) -/
theorem every_value_has_an_encoder :
    ∃ e, encoderClasses.getLast? = some e ∧ e ∈ unconditionalClasses := by decide

/-- what an encoder writes is taken by the decoder made for it: for every encoder that tags
its output, the FIRST decoder accepting the tag has that tag as its `DECTYPE` (the catch-all
`LiteralDecoder` does not get in before it), and an untagged right-hand side (a literal)
falls through to the unconditional decoder. -/
theorem decoder_matches_encoder :
    ∀ e ∈ encoderTags, ∃ d, selectDecoder e.2 = some d ∧
      (if e.2 = "" then d.1 ∈ unconditionalClasses else d.2 = e.2) := by decide

/-- no deferred instruction is left behind: every name under which a parser files an
instruction is executed at parse time or in one of the phases of `_read_model_inner` -/
theorem every_instruction_is_executed :
    ∀ m ∈ instructionMethods, m ∈ atParseMethods ∨ (phaseOf m).isSome := by decide

/-- the order the round trip depends on: cells exist before bases are added, before their
inputs are loaded and before references (which may point at cells, also inherited ones) are
set; ItemSpace inputs come after the references (setting a reference deletes ItemSpaces). -/
theorem phases_in_dependency_order :
    phaseBefore "new_cells" "add_bases" = true ∧ phaseBefore "add_bases" "load_pickledata" = true ∧
    phaseBefore "add_bases" "set_ref" = true ∧ phaseBefore "add_bases" "__setattr__" = true ∧
    phaseBefore "set_ref" "_set_dynamic_inputs" = true ∧
    phaseBefore "__setattr__" "_set_dynamic_inputs" = true ∧
    phaseBefore "load_pickledata" "_set_dynamic_inputs" = true := by decide

/-! ## Non-vacuity -/

/-- two branches that diverge below the model and carry the same name again at the same depth
(`M.A.C.foo` seen from `M.B.C`): only the leading `M` is shared -/
example : absToRelTuple [.str "M".toList, .str "A".toList, .str "C".toList, .str "foo".toList]
      [.str "M".toList, .str "B".toList, .str "C".toList]
    = [.str "...".toList, .str "A".toList, .str "C".toList, .str "foo".toList] := by decide

example : relToAbsTuple [.str "...".toList, .str "A".toList, .str "C".toList, .str "foo".toList]
      [.str "M".toList, .str "B".toList, .str "C".toList]
    = .ok [.str "M".toList, .str "A".toList, .str "C".toList, .str "foo".toList] := by decide

example : String.ofList (absToRel "M.A.C".toList "M.B".toList) = "..A.C" := by decide
example : ValidDotted "M.A.C".toList := by decide
example : relToAbs (absToRel "M.A.C".toList "M.B".toList) "M.B".toList = "M.A.C".toList :=
  rel_abs_roundtrip _ _ (by decide)
/-- the reader accepts more than the writer produces: Python's negative slice -/
example : relToAbsTuple [.str ".....".toList, .str "x".toList]
      [.str "a".toList, .str "b".toList, .str "c".toList]
    = .ok [.str "a".toList, .str "b".toList, .str "x".toList] := by decide

/-- a documentation string with every kind of character the writer treats specially: quotes
at the start, a run of seven, a backslash before a quote, every key of the escape table, a
non-ASCII character, quotes at the end -/
def nastyDoc : List Char :=
  "\"\"x\"\"\"\"\"\"\"y\\\"z\\".toList ++
  [Char.ofNat 0, '\r', '\n', Char.ofNat 0x0b, Char.ofNat 0x0c, Char.ofNat 0x1c, Char.ofNat 0x1d,
   Char.ofNat 0x1e, Char.ofNat 0x85, Char.ofNat 0x2028, Char.ofNat 0x2029, Char.ofNat 0xe9,
   Char.ofNat 0x1F600] ++ "\\n\"\"".toList

example : String.ofList (quoteDocstring nastyDoc) =
    "\"\"\"\"\"x\"\"\\\"\"\"\\\"\"y\\\\\"z\\\\\\x00\\r\n\\x0b\\x0c\\x1c\\x1d\\x1e\\x85\\u2028\\u2029é😀\\\\n\"\\\"\"\"\"" := by
  decide +kernel
example : readLiteral (quoteDocstring nastyDoc) = some nastyDoc := doc_quote_roundtrip _
example : readLiteral (quoteDocstring nastyDoc) = some nastyDoc := by decide +kernel
example : quoteDocstring "a".toList ≠ quoteDocstring "b".toList :=
  fun h => absurd (quote_docstring_injective _ _ h) (by decide +kernel)
example : lexLit (quoteDocstring nastyDoc ++ "\nx = 1\r\n".toList)
    = some (quoteBody 0 nastyDoc, "\nx = 1\n".toList) := doc_quote_one_token _ _
/-- the hypotheses of `doc_quote_no_early_end` are satisfiable, and a text that is not the
writer's does end early -/
example : scanTok 0 "a\\\"\"\"".toList = none :=
  doc_quote_no_early_end "a\"".toList "a\\\"\"\"".toList "\"".toList (by decide +kernel) (by decide +kernel)
example : scanTok 0 "a\"\"\"\"".toList = some ("a\"\"\"".toList, "\"".toList) := by decide +kernel
example : Char.ofNat 0x2028 ∈ nastyDoc ∧ Char.ofNat 0x2028 ∈ sourceUnsafe ∧
    Char.ofNat 0x2028 ∉ quoteDocstring nastyDoc := by decide +kernel
example : universalNl (quoteDocstring nastyDoc) = quoteDocstring nastyDoc := doc_quote_newline_stable _
/-- text-mode reading does alter a text that holds a carriage return as it is -/
example : universalNl "a\r\nb\rc".toList = "a\nb\nc".toList := by decide +kernel
example : splitJoin false ("def f(x):\n    ".toList ++ quoteDocstring nastyDoc ++ "\n    return x\n".toList)
    = "def f(x):\n    ".toList ++ quoteDocstring nastyDoc ++ "\n    return x".toList := by
  rw [doc_quote_survives_line_rejoin _ _ _ (by decide +kernel) (by decide +kernel)]; decide +kernel
/-- the line re-join does alter a text that holds such a character as it is -/
example : splitJoin false "a\x0cb\r\nc\n".toList = "a\nb\nc".toList := by decide +kernel
/-- the reader model beyond the writer's output: octal, `\x`, `\u`, `\U`, unknown escapes,
line continuation; a truncated `\x` is an error -/
example : readLiteral "\"\"\"\\101\\x41\\u0041\\U00000041\\d\\\n\\0\"\"\"".toList
    = some ("AAAA\\d".toList ++ [Char.ofNat 0]) := by decide +kernel
example : readLiteral "\"\"\"\\x4\"\"\"".toList = none := by decide +kernel

example : selectDecoder "Pickle" = some ("PickleDecoder", "Pickle") := by decide
example : selectDecoder "" = some ("LiteralDecoder", "") := by decide
example : phaseOf "_set_dynamic_inputs" = some 4 := by decide

end MxModel.C04
