import MxModel.Struct.Namespace
import MxModel.Generated.Tables
/-!
# C12 – the visible namespace equals the containers, with the documented precedence

The namespace of a space is a chain of maps searched in order.  The order is regenerated
from modelx/core/space.py on every run (`Generated.namespaceOrder` = the `map_ids` of the
namespace `ImplChainMap`; `userRefsOrder` / `dynRefsOrder` = the maps of `refs` in
`UserSpaceImpl._init_refs` / `DynamicSpaceImpl._init_refs`), so the precedence theorems
below are re-checked against what the code says now.
Name *uniqueness* across the containers after every edit is decided by the
implementation-only oracle of the check (and two defects found by it were repaired); it is
not a Lean theorem.
-/
namespace MxModel.C12
open MxModel.Struct MxModel.Generated

variable {β : Type}

/-- **The visible names are exactly the names in the containers**: a name resolves iff some
map of the chain has it. -/
theorem visible_iff_in_some_container (chain : List (String × NMap β)) (x : String) :
    (chainFind chain x).isSome ↔ x ∈ chainKeys chain := by
  induction chain with
  | nil => simp [chainFind, chainKeys]
  | cons e rest ih =>
    obtain ⟨nm, m⟩ := e
    have hfind : ∀ (m : NMap β), (m.find x).isSome ↔ x ∈ m.map (·.1) := by
      intro m
      induction m with
      | nil => simp [NMap.find]
      | cons kv tl ihm =>
        obtain ⟨k, v⟩ := kv
        simp only [NMap.find]
        split
        · rename_i h; subst h; simp
        · rename_i h
          simp only [List.map_cons, List.mem_cons]
          rw [ihm]
          constructor
          · exact Or.inr
          · rintro (h' | h')
            · exact absurd h'.symm h
            · exact h'
    simp only [chainFind, chainKeys, List.flatMap_cons, List.mem_append]
    cases hm : m.find x with
    | some v =>
      simp only [Option.isSome_some, true_iff]
      left; exact (hfind m).mp (by rw [hm]; rfl)
    | none =>
      simp only []
      rw [ih]
      constructor
      · exact Or.inr
      · rintro (h | h)
        · have := (hfind m).mpr h; rw [hm] at this; cases this
        · exact h

/-- **Precedence**: a name found in an earlier map of the chain is resolved there, whatever
the later maps hold. -/
theorem earlier_map_wins (pre : List (String × NMap β)) (nm : String) (m : NMap β)
    (post : List (String × NMap β)) (x : String) (v : β)
    (hpre : ∀ e ∈ pre, e.2.find x = none) (hm : m.find x = some v) :
    chainFind (pre ++ (nm, m) :: post) x = some (nm, v) := by
  induction pre with
  | nil => simp [chainFind, hm]
  | cons e rest ih =>
    obtain ⟨n0, m0⟩ := e
    have h0 : m0.find x = none := hpre (n0, m0) (by simp)
    simp only [List.cons_append, chainFind, h0]
    exact ih (fun e he => hpre e (by simp [he]))

/-- position of a map in an order table -/
def pos (order : List String) (k : String) : Nat := order.findIdx (· == k)

/-- **The code's chain orders give the documented precedence** (checked against the tables
regenerated from /repo): cells before references before child spaces; in a static space own
(incl. derived) references before the special names before model-level references; in a
dynamic space arguments first, and the base's references before model-level ones. -/
theorem code_precedence :
    pos namespaceOrder "cells" < pos namespaceOrder "refs" ∧
    pos namespaceOrder "refs" < pos namespaceOrder "spaces" ∧
    pos userRefsOrder "own_refs" < pos userRefsOrder "global_refs" ∧
    pos userRefsOrder "sys_refs" < pos userRefsOrder "global_refs" ∧
    pos dynRefsOrder "allargs" < pos dynRefsOrder "own_refs" ∧
    pos dynRefsOrder "own_refs" < pos dynRefsOrder "dynbase_refs" ∧
    pos dynRefsOrder "dynbase_refs" < pos dynRefsOrder "global_refs" ∧
    namespaceOrder.length = 3 ∧ userRefsOrder.length = 3 ∧ dynRefsOrder.length = 5 := by
  decide

/-- hence a space-level reference shadows a model-level one of the same name -/
theorem space_level_shadows_model_level (own sys glob : NMap β) (x : String) (v : β)
    (h : own.find x = some v) :
    chainFind [("own_refs", own), ("sys_refs", sys), ("global_refs", glob)] x = some ("own_refs", v) :=
  earlier_map_wins [] "own_refs" own _ x v (by simp) h

/-! Non-vacuity -/
example : chainFind [("cells", [("f", 1)]), ("refs", [("f", 2), ("y", 3)]), ("spaces", [("X", 4)])] "f"
    = some ("cells", 1) := by decide
example : chainFind [("cells", [("f", 1)]), ("refs", [("f", 2), ("y", 3)]), ("spaces", [("X", 4)])] "y"
    = some ("refs", 3) := by decide

end MxModel.C12
