import MxModel.Struct.Namespace
import MxModel.Generated.Tables
import MxModel.Proofs.StructMechLive
import MxModel.Proofs.StructMechNamespace
import MxModel.Proofs.StructMechRenameSpace
/-!
# C12 – the visible namespace equals the containers, with the documented precedence

The namespace of a space is a chain of maps searched in order.  The order is regenerated
from modelx/core/space.py on every run (`Generated.namespaceOrder` = the `map_ids` of the
namespace `ImplChainMap`; `userRefsOrder` / `dynRefsOrder` = the maps of `refs` in
`UserSpaceImpl._init_refs` / `DynamicSpaceImpl._init_refs`), so the precedence theorems
below are re-checked against what the code says now.
Name *uniqueness* across the containers after every edit is decided for the implementation by
the oracle of the check; for the mechanism model (`Struct/Mech.lean`, tied to the code edit by edit)
it is a theorem: `reachable_names_unique` and `reachable_containers_disjoint` hold in every
reachable state (part `Disj` of the invariant `SM.Inv`).  What is *not* an invariant – and not
claimed by the property – is disjointness of model-level references and the members of a space:
`model.x = v` makes no check against members (`global_may_shadow_member`); a space-level name
takes precedence (`space_level_shadows_model_level`).
-/
namespace MxModel.C12
open MxModel.Struct MxModel.Generated

variable {β : Type}

/-- **The visible names are exactly the names in the containers**: a name resolves iff some
map of the chain has it. -/
theorem visible_iff_in_some_container (chain : List (String × NMap β)) (x : String) :
    (chainFind chain x).isSome ↔ x ∈ chainKeys chain := by
  induction chain with
  | nil => simp [chainFind, chainKeys]
  | cons e rest ih =>
    obtain ⟨nm, m⟩ := e
    have hfind : ∀ (m : NMap β), (m.find x).isSome ↔ x ∈ m.map (·.1) := by
      intro m
      induction m with
      | nil => simp [NMap.find]
      | cons kv tl ihm =>
        obtain ⟨k, v⟩ := kv
        simp only [NMap.find]
        split
        · rename_i h; subst h; simp
        · rename_i h
          simp only [List.map_cons, List.mem_cons]
          rw [ihm]
          constructor
          · exact Or.inr
          · rintro (h' | h')
            · exact absurd h'.symm h
            · exact h'
    simp only [chainFind, chainKeys, List.flatMap_cons, List.mem_append]
    cases hm : m.find x with
    | some v =>
      simp only [Option.isSome_some, true_iff]
      left; exact (hfind m).mp (by rw [hm]; rfl)
    | none =>
      simp only []
      rw [ih]
      constructor
      · exact Or.inr
      · rintro (h | h)
        · have := (hfind m).mpr h; rw [hm] at this; cases this
        · exact h

/-- **Precedence**: a name found in an earlier map of the chain is resolved there, whatever
the later maps hold. -/
theorem earlier_map_wins (pre : List (String × NMap β)) (nm : String) (m : NMap β)
    (post : List (String × NMap β)) (x : String) (v : β)
    (hpre : ∀ e ∈ pre, e.2.find x = none) (hm : m.find x = some v) :
    chainFind (pre ++ (nm, m) :: post) x = some (nm, v) := by
  induction pre with
  | nil => simp [chainFind, hm]
  | cons e rest ih =>
    obtain ⟨n0, m0⟩ := e
    have h0 : m0.find x = none := hpre (n0, m0) (by simp)
    simp only [List.cons_append, chainFind, h0]
    exact ih (fun e he => hpre e (by simp [he]))

/-- position of a map in an order table -/
def pos (order : List String) (k : String) : Nat := order.findIdx (· == k)

/-- **The code's chain orders give the documented precedence** (checked against the tables
regenerated from /repo): cells before references before child spaces; in a static space own
(incl. derived) references before the special names before model-level references; in a
dynamic space arguments first, and the base's references before model-level ones. -/
theorem code_precedence :
    pos namespaceOrder "cells" < pos namespaceOrder "refs" ∧
    pos namespaceOrder "refs" < pos namespaceOrder "spaces" ∧
    pos userRefsOrder "own_refs" < pos userRefsOrder "global_refs" ∧
    pos userRefsOrder "sys_refs" < pos userRefsOrder "global_refs" ∧
    pos dynRefsOrder "allargs" < pos dynRefsOrder "own_refs" ∧
    pos dynRefsOrder "own_refs" < pos dynRefsOrder "dynbase_refs" ∧
    pos dynRefsOrder "dynbase_refs" < pos dynRefsOrder "global_refs" ∧
    namespaceOrder.length = 3 ∧ userRefsOrder.length = 3 ∧ dynRefsOrder.length = 5 := by
  decide

/-- hence a space-level reference shadows a model-level one of the same name -/
theorem space_level_shadows_model_level (own sys glob : NMap β) (x : String) (v : β)
    (h : own.find x = some v) :
    chainFind [("own_refs", own), ("sys_refs", sys), ("global_refs", glob)] x = some ("own_refs", v) :=
  earlier_map_wins [] "own_refs" own _ x v (by simp) h

/-! Non-vacuity -/
example : chainFind [("cells", [("f", 1)]), ("refs", [("f", 2), ("y", 3)]), ("spaces", [("X", 4)])] "f"
    = some ("cells", 1) := by decide
example : chainFind [("cells", [("f", 1)]), ("refs", [("f", 2), ("y", 3)]), ("spaces", [("X", 4)])] "y"
    = some ("refs", 3) := by decide

/-! ## The mechanism: names are unique per space in every reachable state -/

section mechanism
open MxModel.SM

/-- **Member names are unique within a container**: in every reachable state no space has two
cells, or two references, of one name; and no two spaces have the same id. -/
theorem reachable_names_unique (kw : List String) (ops : List Op) :
    (St.run kw {} ops).ids.Nodup ∧
    ∀ s ∈ (St.run kw {} ops).spaces, (s.cells.map (·.1)).Nodup ∧ (s.refs.map (·.1)).Nodup := by
  have hinv := run_inv kw ops
  generalize St.run kw {} ops = st at hinv
  refine ⟨hinv.wf.nodup, ?_⟩
  intro s hs
  have hf := find_of_mem st hinv.wf.nodup s hs
  have h1 := hinv.wf.keys .cells s.id
  have h2 := hinv.wf.keys .refs s.id
  unfold St.cont at h1 h2
  rw [hf] at h1 h2
  exact ⟨h1, h2⟩

/-- **In every space a name denotes at most one thing among its cells, its own references and
its child spaces; the same holds for the spaces and references of the model** – in every state
reachable by any sequence of operations, including member creation in a base of a space that uses
the name for another kind (`newCells`, `setRef`, `renameCells` check every sub space) and
`addBases` / `newSpace` with bases whose members clash (`noConflict`). -/
theorem reachable_containers_disjoint (kw : List String) (ops : List Op) (q : Path) (n : String) :
    ¬ (((St.run kw {} ops).mem .cells q n).isSome = true ∧ ((St.run kw {} ops).mem .refs q n).isSome = true) ∧
    (n ∈ (St.run kw {} ops).childNames q →
      (St.run kw {} ops).mem .cells q n = none ∧ (St.run kw {} ops).mem .refs q n = none) ∧
    (n ∈ (St.run kw {} ops).globals → n ∉ (St.run kw {} ops).childNames []) := by
  have hd := (run_inv kw ops).disj
  refine ⟨?_, hd.child q n, hd.glob n⟩
  rintro ⟨h1, h2⟩
  rw [hd.cr q n h1] at h2
  cases h2

/-- `kindOf` (what a name is in the namespace of a space, searched in the code's order cells,
references - own and model-level -, child spaces) in every reachable state: the containers of the
space are disjoint, so the order only matters where a *model-level* reference is involved - it is
shadowed by a cells of the name, and it shadows a child space of the name (`global_may_shadow_child`) -/
theorem kind_well_defined (kw : List String) (ops : List Op) (q : Path) (n : String) :
    ((St.run kw {} ops).kindOf q n = some .cells ↔ ((St.run kw {} ops).mem .cells q n).isSome = true) ∧
    ((St.run kw {} ops).kindOf q n = some .ref ↔
      (St.run kw {} ops).mem .cells q n = none ∧
        (((St.run kw {} ops).mem .refs q n).isSome = true ∨ n ∈ (St.run kw {} ops).globals)) ∧
    ((St.run kw {} ops).kindOf q n = some .space ↔
      n ∈ (St.run kw {} ops).childNames q ∧ n ∉ (St.run kw {} ops).globals) ∧
    ((St.run kw {} ops).kindOf q n = none ↔
      (St.run kw {} ops).mem .cells q n = none ∧ (St.run kw {} ops).mem .refs q n = none ∧
        n ∉ (St.run kw {} ops).childNames q ∧ n ∉ (St.run kw {} ops).globals) := by
  have hd := (run_inv kw ops).disj
  generalize St.run kw {} ops = st at hd
  have hchild := hd.child q n
  unfold St.kindOf
  cases hc : st.mem .cells q n with
  | some m =>
    have : n ∉ st.childNames q := fun h => by rw [(hchild h).1] at hc; cases hc
    simp [this]
  | none =>
    cases hr : st.mem .refs q n with
    | some m =>
      have : n ∉ st.childNames q := fun h => by rw [(hchild h).2] at hr; cases hr
      simp [this]
    | none =>
      by_cases hg : n ∈ st.globals
      · simp [hg]
      · by_cases hch : n ∈ st.childNames q
        · simp [hg, hch]
        · simp [hg, hch]

/-- what is *not* an invariant (and not claimed): a model-level reference may bear the name of a
member of a space – `ModelImpl.set_attr` checks top-level spaces only; the space-level name wins -/
theorem global_may_shadow_member :
    let st := St.run [] {} [.newSpace [] "A" [] [], .newCells ["A"] "x" "x" 1, .setGlobal "x"]
    "x" ∈ st.globals ∧ (st.mem .cells ["A"] "x").isSome = true ∧ st.kindOf ["A"] "x" = some .cells := by
  decide

/-- ... and a model-level reference may bear the name of a child space of a *nested* space
(`setGlobal` looks at top-level spaces only): the namespace of the space then resolves the name to the
reference, the child space cannot be reached by name from its parent.  The property's "space-level
names take precedence" holds for cells and own references, not for child spaces. -/
theorem global_may_shadow_child :
    let st := St.run [] {} [.newSpace [] "A" [] [], .newSpace ["A"] "K" [] [], .setGlobal "K"]
    "K" ∈ st.globals ∧ "K" ∈ st.childNames ["A"] ∧ st.kindOf ["A"] "K" = some .ref := by
  decide

/-! Non-vacuity: requests for a second kind of thing of one name are refused – in the space itself,
from a base (a cells `x` in a base of a space with reference `x`), through `addBases`, and the
case repaired by 8550727 (a reference named like a child space, with a model-level reference). -/
def clashOps : List Op := [
  .newSpace [] "A" [] [], .newSpace [] "B" [["A"]] [], .setRef ["B"] "x" 1, .newSpace ["A"] "y" [] [],
  .newSpace [] "C" [] [], .newCells ["C"] "x" "x" 2, .setGlobal "y"]

example : ((St.run [] {} clashOps).step [] (.newCells ["B"] "x" "x" 3)).2 = false := by decide
example : ((St.run [] {} clashOps).step [] (.newCells ["A"] "x" "x" 3)).2 = false := by decide
example : ((St.run [] {} clashOps).step [] (.addBases ["B"] [["C"]])).2 = false := by decide
example : ((St.run [] {} clashOps).step [] (.setRef ["A"] "y" 3)).2 = false := by decide
example : ((St.run [] {} clashOps).step [] (.newCells ["A"] "z" "z" 3)).2 = true := by decide
example : (St.run [] {} (clashOps ++ [.newCells ["A"] "z" "z" 3])).mem .cells ["B"] "z"
    = some { derived := true, payload := 3 } := by decide

/-! references handed to `new_space(refs=...)`: refused as a whole when a name is that of a cells the
new space derives (`C` has the cells `x`) or not a valid name; an own reference overrides an inherited
one and may bear the name of a model-level reference -/
example : ((St.run [] {} clashOps).step [] (.newSpace [] "S" [["C"]] [("x", 1)])).2 = false := by decide
example : ((St.run [] {} clashOps).step [] (.newSpace [] "S" [["C"]] [("w", 1), ("x", 1)])).1.has ["S"] = false := by decide
example : ((St.run ["for"] {} clashOps).step ["for"] (.newSpace [] "S" [] [("for", 1)])).2 = false := by decide
example : ((St.run [] {} clashOps).step [] (.newSpace [] "S" [] [("_a", 1)])).2 = false := by decide
example : (St.run [] {} (clashOps ++ [.newSpace [] "S" [["B"]] [("x", 7), ("y", 8)]])).mem .refs ["S"] "x"
    = some { derived := false, payload := 7 } := by decide

/-! ## The visible namespace of every reachable state

`SM.St.namespaceIn` (Struct/MechNamespace.lean) builds, for a space `q` of a state of the mechanism
model, the chain of maps `BaseSpaceImpl.__init__` / `UserSpaceImpl._init_refs` build: the cells of `q`,
its references (own ones - defined or derived -, the special names `_self`, `_space`, `_model`, the
model-level ones), its child spaces, flattened in the order of the two regenerated tables.  Formula
globals, attribute access and `dir()` of the implementation all read that one chain (`namespace`), so
the model has one namespace per space; that the three views of the implementation agree with each
other is decided by the check's oracle, not here.  Parameters (the `allargs` map) exist only in
dynamic spaces (`Kernels/ItemSpace.lean`, `C07.chain_order`). -/

/-- the namespace of the space `q`, in the order of the tables regenerated from space.py -/
def namespaceOf (st : St) (q : SM.Path) : List (String × NMap Denot) :=
  st.namespaceIn namespaceOrder userRefsOrder q

/-- with the order the source has now: cells, own references, special names, model-level references,
child spaces -/
theorem namespaceOf_eq (st : St) (q : SM.Path) : namespaceOf st q = st.codeChain q := by
  unfold namespaceOf namespaceOrder userRefsOrder
  exact namespaceIn_code st q

/-- **The visible names are exactly the cells, the references and the child spaces**: after every
sequence of operations, a name resolves in the namespace of `q` iff it is a cells of `q`, a reference of
`q` (defined there or derived), one of the three special names, a model-level reference, or a child
space of `q` - nothing else is visible, and nothing of these is invisible. -/
theorem visible_names_are_exactly_the_members (kw : List String) (ops : List Op) (q : SM.Path) (n : String) :
    (chainFind (namespaceOf (St.run kw {} ops) q) n).isSome = true ↔
      (((St.run kw {} ops).mem .cells q n).isSome = true ∨ ((St.run kw {} ops).mem .refs q n).isSome = true ∨
        n ∈ sysNames ∨ n ∈ (St.run kw {} ops).globals ∨ n ∈ (St.run kw {} ops).childNames q) := by
  rw [namespaceOf_eq]
  exact chain_visible_iff _ q n

/-- **What a visible name denotes** (the precedence the chain really has): a cells of the space; else a
reference of the space; else a special name; else a model-level reference; else a child space.  So a
space-level cells or reference takes precedence over a model-level reference of the same name, and a
model-level reference takes precedence over a CHILD SPACE of the same name. -/
theorem name_resolution (kw : List String) (ops : List Op) (q : SM.Path) (n : String) :
    chainFind (namespaceOf (St.run kw {} ops) q) n =
      match (St.run kw {} ops).mem .cells q n with
      | some m => some ("cells", .cells m)
      | none =>
        match (St.run kw {} ops).mem .refs q n with
        | some m => some ("own_refs", .ownRef m)
        | none =>
          if n ∈ sysNames then some ("sys_refs", .sys)
          else if n ∈ (St.run kw {} ops).globals then some ("global_refs", .global)
          else if n ∈ (St.run kw {} ops).childNames q then some ("spaces", .child)
          else none := by
  rw [namespaceOf_eq]
  exact chain_resolution _ q n

/-- **Each visible name has one meaning, up to the two documented shadowings.**  After every sequence of
operations, when the lookup of `n` in the namespace of `q` stops at the map `mapName`, every OTHER map of
the chain that also holds `n` is
* the model-level references, and the lookup stopped at a cells, an own reference or a special name of the
  space (the space-level name takes precedence, as the property says; `model._self = 1` is accepted by the
  code - model-level names are not checked - and every space still resolves `_self` to itself), or
* the child spaces, and the lookup stopped at a model-level reference (the child space LOSES - the
  property's "space-level ones taking precedence" does not hold for child spaces, in the code as in the
  model: `global_may_shadow_child`; impossible at top level, `reachable_containers_disjoint`).
In particular the cells, the own references, the special names and the child spaces of a space never
share a name, so among them the first match is the only match. -/
theorem each_visible_name_has_one_meaning (kw : List String) (ops : List Op) (q : SM.Path) (n : String)
    (mapName : String) (d : Denot)
    (hf : chainFind (namespaceOf (St.run kw {} ops) q) n = some (mapName, d)) :
    ∀ e ∈ namespaceOf (St.run kw {} ops) q, e.1 ≠ mapName → (e.2.find n).isSome = true →
      (e.1 = "global_refs" ∧ (mapName = "cells" ∨ mapName = "own_refs" ∨ mapName = "sys_refs")) ∨
      (e.1 = "spaces" ∧ mapName = "global_refs") := by
  rw [namespaceOf_eq] at hf ⊢
  exact chain_other_matches (run_invN kw ops) q n mapName d hf

/-- the space's own containers and the special names are pairwise disjoint in every reachable state
(a model-level reference may bear a special name: `ModelImpl.set_attr` tests no name) -/
theorem space_level_names_disjoint (kw : List String) (ops : List Op) (q : SM.Path) (n : String) :
    ¬ (((St.run kw {} ops).mem .cells q n).isSome = true ∧ ((St.run kw {} ops).mem .refs q n).isSome = true) ∧
    ¬ (((St.run kw {} ops).mem .cells q n).isSome = true ∧ n ∈ sysNames) ∧
    ¬ (((St.run kw {} ops).mem .refs q n).isSome = true ∧ n ∈ sysNames) ∧
    ¬ (((St.run kw {} ops).mem .cells q n).isSome = true ∧ n ∈ (St.run kw {} ops).childNames q) ∧
    ¬ (((St.run kw {} ops).mem .refs q n).isSome = true ∧ n ∈ (St.run kw {} ops).childNames q) ∧
    ¬ (n ∈ sysNames ∧ n ∈ (St.run kw {} ops).childNames q) :=
  space_level_disjoint (run_invN kw ops) q n

/-- **A refused name is never visible**: after every sequence of operations every name visible in the
namespace of any space is a valid name (an identifier that is no keyword and does not start with an
underscore), one of the three special names, or a model-level reference - whatever names the operations
asked for.  Model-level references are the exception because the code never refuses their names:
`model.name = value` (`EditableParent.__setattr__` -> `ModelImpl.set_attr`) has no `is_valid_name` test,
so `model._x = 1` is accepted and `_x` is visible in every space (`unchecked_model_level_name_is_visible`).
For every name that is no model-level reference the statement has its full strength. -/
theorem refused_names_never_visible (kw : List String) (ops : List Op) (q : SM.Path) (n : String)
    (hbad : Names.isValidName kw n = false) (hs : n ∉ sysNames) (hg : n ∉ (St.run kw {} ops).globals) :
    chainFind (namespaceOf (St.run kw {} ops) q) n = none := by
  rw [namespaceOf_eq]
  cases hf : chainFind ((St.run kw {} ops).codeChain q) n with
  | none => rfl
  | some r =>
    rcases visible_valid (run_invN kw ops) q n (by rw [hf]; rfl) with h | h | h
    · rw [hbad] at h; cases h
    · exact absurd h hs
    · exact absurd h hg

/-- the same as a classification of everything visible: a valid name, a special name, or a model-level
reference -/
theorem visible_names_are_valid_special_or_model_level (kw : List String) (ops : List Op) (q : SM.Path) (n : String)
    (hv : (chainFind (namespaceOf (St.run kw {} ops) q) n).isSome = true) :
    Names.isValidName kw n = true ∨ n ∈ sysNames ∨ n ∈ (St.run kw {} ops).globals := by
  rw [namespaceOf_eq] at hv
  exact visible_valid (run_invN kw ops) q n hv

/-- **the names of model-level references are not checked** (the behaviour of the code): every name that is
not the name of a top-level space is accepted by `model.name = value`, valid or not, and is then visible in
the namespace of every space -/
theorem unchecked_model_level_name_is_visible (kw : List String) (ops : List Op) (n : String) (q : SM.Path)
    (hn : n ∉ (St.run kw {} ops).childNames []) :
    ((St.run kw {} ops).step kw (.setGlobal n)).2 = true ∧
    (chainFind (namespaceOf ((St.run kw {} ops).step kw (.setGlobal n)).1 q) n).isSome = true := by
  have hacc : ((St.run kw {} ops).apply kw (.setGlobal n)).isSome = true := by
    rw [apply_isSome]
    simp only [St.accepts, St.acceptsSetGlobal, Bool.not_eq_true', List.contains_eq_mem, decide_eq_false_iff_not]
    exact hn
  unfold St.step
  cases hop : (St.run kw {} ops).apply kw (.setGlobal n) with
  | none => rw [hop] at hacc; cases hacc
  | some st' =>
    refine ⟨rfl, ?_⟩
    rw [namespaceOf_eq]
    have := (apply_spec kw _ st' (run_inv kw ops).wf.keys (.setGlobal n) hop).2 n
    exact global_visible st' q n (this.mpr (Or.inr rfl))

/-- the name test the mechanism's own checks use (`St.kindOf`: `_can_add`, `new_ref`, `set_attr`) is the
lookup in this chain - for every name but the three special ones, which are no valid names -/
theorem mechanism_checks_read_the_namespace (kw : List String) (ops : List Op) (q : SM.Path) (n : String)
    (hs : n ∉ sysNames) :
    (St.run kw {} ops).kindOf q n = (chainFind (namespaceOf (St.run kw {} ops) q) n).map (fun r => r.2.kind) := by
  rw [namespaceOf_eq]
  exact kindOf_eq_chain _ q n hs

/-! Non-vacuity: the state of `clashOps` plus a cells and a derived reference; the two shadowings. -/
def nsOps : List Op := clashOps ++ [.newCells ["A"] "z" "z" 3, .setRef ["A"] "w" 5, .setGlobal "z", .setGlobal "u"]

example : (namespaceOf (St.run [] {} nsOps) ["B"]).map (fun e => (e.1, e.2.map (·.1))) =
    [("cells", ["z"]), ("own_refs", ["x", "w"]), ("sys_refs", ["_self", "_space", "_model"]),
     ("global_refs", ["y", "z", "u"]), ("spaces", [])] := by decide
-- `z`: a (derived) cells of `B` and a model-level reference: the cells wins
example : chainFind (namespaceOf (St.run [] {} nsOps) ["B"]) "z" = some ("cells", .cells ⟨true, 3⟩) := by decide
-- `y`: a child space of `A` and a model-level reference: the reference wins
example : chainFind (namespaceOf (St.run [] {} nsOps) ["A"]) "y" = some ("global_refs", .global) := by decide
example : ("spaces", [("y", Denot.child)]) ∈ namespaceOf (St.run [] {} nsOps) ["A"] := by decide
-- `u`: only a model-level reference; `w`: derived in `B`; `_space`; an unused name
example : chainFind (namespaceOf (St.run [] {} nsOps) ["B"]) "u" = some ("global_refs", .global) := by decide
example : chainFind (namespaceOf (St.run [] {} nsOps) ["B"]) "w" = some ("own_refs", .ownRef ⟨true, 5⟩) := by decide
example : chainFind (namespaceOf (St.run [] {} nsOps) ["B"]) "_space" = some ("sys_refs", .sys) := by decide
example : chainFind (namespaceOf (St.run [] {} nsOps) ["B"]) "v" = none := by decide
-- a refused name: the request is made, nothing becomes visible
example : chainFind (namespaceOf (St.run ["for"] {} (nsOps ++ [.setRef ["A"] "for" 1, .setRef ["A"] "_p" 1])) ["A"]) "for" = none :=
  refused_names_never_visible ["for"] _ ["A"] "for" (by decide) (by decide) (by decide)
-- ... but a model-level reference `_x` (and a keyword, and a special name) IS accepted and visible in every space,
-- as in the code (`model._x = 1`); `_self` still resolves to the space
example : ((St.run ["for"] {} nsOps).step ["for"] (.setGlobal "_x")).2 = true := by decide
example : chainFind (namespaceOf (St.run ["for"] {} (nsOps ++ [.setGlobal "_x", .setGlobal "for", .setGlobal "_self"])) ["B"]) "_x"
    = some ("global_refs", .global) := by decide
example : chainFind (namespaceOf (St.run ["for"] {} (nsOps ++ [.setGlobal "_x", .setGlobal "for", .setGlobal "_self"])) ["A"]) "for"
    = some ("global_refs", .global) := by decide
example : chainFind (namespaceOf (St.run ["for"] {} (nsOps ++ [.setGlobal "_x", .setGlobal "for", .setGlobal "_self"])) ["A"]) "_self"
    = some ("sys_refs", .sys) := by decide
example := unchecked_model_level_name_is_visible ["for"] nsOps "_x" ["B"] (by decide)
-- the name of a top-level space is refused
example : ((St.run [] {} nsOps).step [] (.setGlobal "A")).2 = false := by decide

/-! ## `rename_space` (`space.rename(name)`)

`SM.St.renameSpace` (Struct/MechRename.lean; in the `smech` correspondence the line `renamespace`): refused
for an invalid name and when `_can_add(parent, name, UserSpaceImpl)` says no; otherwise every path at or
below the renamed space is relabelled in every place the state holds a path (ids = the tree of containers,
direct bases = the node ids of the inheritance graph, keys of the name counters).  Histories of the twelve
operations and renames: `SM.OpR`, `SM.St.runR`. -/

/-- **`rename_space` keeps names unique and valid**: in every state reachable by any history of the twelve
operations AND renames of spaces - no two spaces with one id; no two cells / references of one name in a
space; a name is at most one of cells, reference, child space in a space (and a model-level reference is
no top-level space); every component of every id is a valid name; and every direct base is the id of a
space (the node ids of the inheritance graph are paths of the tree). -/
theorem rename_space_keeps_names_unique_and_valid (kw : List String) (ops : List OpR) :
    (St.runR kw {} ops).ids.Nodup ∧
    (∀ s ∈ (St.runR kw {} ops).spaces, (s.cells.map (·.1)).Nodup ∧ (s.refs.map (·.1)).Nodup) ∧
    (∀ q n, ¬ (((St.runR kw {} ops).mem .cells q n).isSome = true ∧ ((St.runR kw {} ops).mem .refs q n).isSome = true) ∧
      (n ∈ (St.runR kw {} ops).childNames q →
        (St.runR kw {} ops).mem .cells q n = none ∧ (St.runR kw {} ops).mem .refs q n = none) ∧
      (n ∈ (St.runR kw {} ops).globals → n ∉ (St.runR kw {} ops).childNames [])) ∧
    (∀ q ∈ (St.runR kw {} ops).ids, ∀ c ∈ q, Names.isValidName kw c = true) ∧
    (∀ q b, b ∈ (St.runR kw {} ops).basesOf q → b ∈ (St.runR kw {} ops).ids) := by
  have hN := runR_invN kw ops
  have hinv := hN.toInv
  generalize St.runR kw {} ops = st at hN hinv
  refine ⟨hinv.wf.nodup, ?_, ?_, hN.names.ids, hinv.wf.bases⟩
  · intro s hs
    have hf := find_of_mem st hinv.wf.nodup s hs
    have h1 := hinv.wf.keys .cells s.id
    have h2 := hinv.wf.keys .refs s.id
    unfold St.cont at h1 h2
    rw [hf] at h1 h2
    exact ⟨h1, h2⟩
  · intro q n
    refine ⟨?_, hinv.disj.child q n, hinv.disj.glob n⟩
    rintro ⟨h1, h2⟩
    rw [hinv.disj.cr q n h1] at h2
    cases h2

/-- **a refused `rename_space` changes nothing**, and it is refused exactly when the code refuses: the
path is no space, the name is invalid, or the parent cannot add a space of the name -/
theorem refused_rename_changes_nothing (kw : List String) (st : St) (p : SM.Path) (new : String) :
    ((st.stepR kw (.renameSpace p new)).2 = false → (st.stepR kw (.renameSpace p new)).1 = st) ∧
    ((st.stepR kw (.renameSpace p new)).2 = false ↔
      (p = [] ∨ st.has p = false ∨ Names.isValidName kw new = false ∨ st.canAdd p.dropLast new .space = false)) := by
  unfold St.stepR
  rw [applyR_renameSpace]
  unfold St.renameSpace
  by_cases h1 : p = []
  · simp [h1]
  · cases h2 : st.has p with
    | false => simp [h1]
    | true =>
      cases h3 : Names.isValidName kw new with
      | false => simp [h1]
      | true =>
        cases h4 : st.canAdd p.dropLast new .space with
        | false => simp [h1]
        | true => simp [h1]

/-! Non-vacuity: `A`, `A.A` (a nested space bearing its parent's name, with a cells), `T` with base `A.A`;
`A.A` is renamed to `B` (accepted: `T`'s base and derived cells follow); refused: its own name, the name of a
cells of the parent, an invalid name, the name of another top-level space; a top-level rename moves the subtree. -/

def aaOps : List OpR := [
  .op (.newSpace [] "A" [] []), .op (.newCells ["A"] "g" "g" 2),
  .op (.newSpace ["A"] "A" [] []), .op (.newCells ["A", "A"] "f" "f" 1),
  .op (.newSpace [] "T" [["A", "A"]] [])]

example : (St.runR [] {} aaOps).ids = [["A"], ["A", "A"], ["T"]] := by decide
example : ((St.runR [] {} aaOps).stepR [] (.renameSpace ["A", "A"] "B")).2 = true := by decide
example : (St.runR [] {} (aaOps ++ [.renameSpace ["A", "A"] "B"])).ids = [["A"], ["A", "B"], ["T"]] := by decide
example : (St.runR [] {} (aaOps ++ [.renameSpace ["A", "A"] "B"])).basesOf ["T"] = [["A", "B"]] := by decide
example : (St.runR [] {} (aaOps ++ [.renameSpace ["A", "A"] "B"])).mem .cells ["T"] "f"
    = some { derived := true, payload := 1 } := by decide
example : ((St.runR [] {} aaOps).stepR [] (.renameSpace ["A", "A"] "A")).2 = false := by decide
example : ((St.runR [] {} aaOps).stepR [] (.renameSpace ["A", "A"] "g")).2 = false := by decide
example : ((St.runR [] {} aaOps).stepR [] (.renameSpace ["A", "A"] "_x")).2 = false := by decide
example : ((St.runR [] {} aaOps).stepR [] (.renameSpace ["A"] "T")).2 = false := by decide
example : ((St.runR [] {} aaOps).stepR [] (.renameSpace ["A"] "C")).1.ids = [["C"], ["C", "A"], ["T"]] := by decide
example := rename_space_keeps_names_unique_and_valid [] (aaOps ++ [.renameSpace ["A", "A"] "B"])
example := (refused_rename_changes_nothing [] (St.runR [] {} aaOps) ["A", "A"] "g").1 (by decide)

/-- **negative witness (seeded change C12-mutG)**: relabelling the FIRST component that equals the old name,
instead of the component at the position of the renamed space, is not the model's rename on `A.A`, and
breaks the invariant: `T`'s direct base becomes `B.A`, which is the id of no space (graph node ids are no
longer the paths of the tree) -/
theorem first_component_relabelling_breaks_invariant :
    ((St.runR [] {} aaOps).renameSpaceFirst ["A", "A"] "B").basesOf ["T"] = [["B", "A"]] ∧
    ((St.runR [] {} aaOps).stepR [] (.renameSpace ["A", "A"] "B")).1.basesOf ["T"] = [["A", "B"]] ∧
    ¬ Inv ((St.runR [] {} aaOps).renameSpaceFirst ["A", "A"] "B") := by
  refine ⟨by decide, by decide, ?_⟩
  intro h
  have := h.wf.bases ["T"] ["B", "A"] (by decide)
  revert this
  decide

end mechanism

end MxModel.C12
