import MxModel.Proofs.BackupGen
import MxModel.Proofs.IOSessionLoad
import MxModel.Proofs.BackupSeq
import MxModel.Proofs.BackupSession
import MxModel.Proofs.BackupPolicy
import MxModel.Generated.Tables
/-!
# C14 – Saving never loses the last good save; failed saves and loads leave no residue

Property theorems only (helper lemmas: `Proofs/Backup*.lean`; model: `Kernels/Backup.lean`).
Slot `0` is the model path, slot `n` is `<path>_BAK<n>`; `save maxB sv k fs` is the state
after a save (`sv`: format, generation, sizes given by the environment) whose `k`-th primitive
file operation raises – for *every* `k`, so also "no fault" (`k ≥` length of the plan).
`maxB` is `DEFAULT_MAX_BACKUPS` as it stands in `/repo` now (`Generated/Tables.lean`).

A fault is an index `k` into the save's primitives together with the way the environment fails
(`sv.pol`): an `OSError` or a `PermissionError`, once or persistently (every further attempt at
the same operation fails too) – section (6).

Three statements are false of the code as it is and are kept visible as
`*_partial` + `*_full_statement_fails`:
* `zipfile.ZipFile.__init__` swallows an `OSError` of its `open` and retries with a truncating
  file mode; `ziputil` re-opens the temporary archive for every member, so such an error makes
  the save move an archive that lacks members into place and report success
  (`no_partial_archive_partial`, `successful_save_partial`, `zip_full_statement_fails`) – and
  that is the only such case: `success_complete_unless_transient_reopen`.  (Before 14fa119 there
  was a second one, `ziputil.copy_file`'s GH82 loop trying again after a `PermissionError` of
  the archive's *close*: `retry_after_failed_close_full_statement_fails` is about that old rule.)
* a *directory* save is written in place, so a second consecutive failure pushes the last
  complete copy to `_BAK2` (`latest_at_front_partial`, `latest_at_front_full_statement_fails`);
* a failed load does not undo the parse-time renaming of an existing model of the same name
  (`failed_load_registry_unchanged_partial`, `failed_load_full_statement_fails`).
-/
namespace MxModel.C14
open MxModel.Backup MxModel.Registry MxModel.Generated

/-- `max_backups` of `write_model(..., backup=True)` -/
abbrev maxB : Nat := defaultMaxBackups

/-- backups are on: at least one backup generation is kept (fails to check if the constant
in `/repo` becomes 0) -/
theorem backups_on : 2 ≤ maxB := by decide

/-! ## (1) one save, interrupted at any primitive operation -/

/-- The most recent complete copy survives at the path or at the first backup: for every
pre-state, both formats, every interruption point `k` (rotation unlink/rmdir/rename, `mkdir`,
each file write, pickle dump, archive, move, clean-up – or none). -/
theorem single_fault_safe (fs : FS) (sv : Save) (k : Nat) (c : Kind) (g : Nat)
    (h : fs 0 = .good c g) :
    (save maxB sv k fs).1 0 = .good c g ∨ (save maxB sv k fs).1 1 = .good c g :=
  save_moves_one maxB sv k fs 0 _ (by intro hc; cases hc) (by decide) h

/-- More generally every slot's content sinks by at most one slot per save (so nothing but the
oldest generation is ever discarded), whatever fails. -/
theorem copy_moves_at_most_one_slot (fs : FS) (sv : Save) (k i : Nat) (s : Slot)
    (hs : s ≠ .absent) (hi : i < maxB) (h : fs i = s) :
    (save maxB sv k fs).1 i = s ∨ (save maxB sv k fs).1 (i + 1) = s :=
  save_moves_one maxB sv k fs i s hs hi h

/-- the trigger-free faults: not a transient error at a re-opening of the temporary archive
(where `zipfile` would swallow it and truncate the archive) – see `notTruncating_iff` -/
def NotTruncating (fs : FS) (sv : Save) (k : Nat) : Prop :=
  faultKind sv.pol (plan maxB sv fs) k ≠ .truncates

instance (fs : FS) (sv : Save) (k : Nat) : Decidable (NotTruncating fs sv k) := by
  unfold NotTruncating; exact inferInstance

/-- A save that reported success has put the new generation at the path and the previous
content of the path at the first backup. -/
theorem successful_save_partial (fs : FS) (sv : Save) (k : Nat) (hk : NotTruncating fs sv k)
    (hdone : (save maxB sv k fs).2 = true) :
    (save maxB sv k fs).1 0 = .good sv.kind sv.g ∧
      (fs 0 ≠ .absent → (save maxB sv k fs).1 1 = fs 0) := by
  obtain ⟨m, _, _, hm3, heq⟩ := save_done maxB sv k fs hk hdone
  rw [heq]
  refine ⟨by simp, ?_⟩
  intro h0
  have hm : 1 ≤ m := by
    rcases Nat.lt_or_ge 0 m with h | h
    · exact h
    · have : m = 0 := by omega
      subst this
      exact absurd (hm3 (by decide)) h0
  rw [set_other _ _ (by omega)]
  simp only [shift]
  rw [if_neg (by omega), if_pos ⟨by omega, hm⟩]

/-! ## (2) generations are kept in order -/

/-- After any number of successful saves (formats mixed at will) from an empty location, slot
`j ≤ max` holds the `j`-th newest generation and nothing else exists: `path` = newest,
`_BAK1.._BAK3` = the three before it, in order. -/
theorem generations_in_order (svs : List Save) (j : Nat) :
    (runOk maxB FS.empty svs) j =
      if j ≤ maxB then copyOf svs.reverse j else Slot.absent := by
  have h0 : Holds maxB [] FS.empty := by
    intro j; simp [FS.empty, copyOf]
  have := runOk_holds maxB svs [] FS.empty h0 j
  simpa using this

/-- Whatever fails, in whatever sequence: along `path, _BAK1, _BAK2, …` the generation numbers
of what is there (complete or not) strictly decrease. -/
theorem order_preserved_under_faults (h : List (Save × Nat)) (g0 : Nat) (fs : FS)
    (ho : Ordered fs) (hb : Below g0 fs) (hg : GensIncrease g0 h) :
    Ordered (runHist maxB fs h) :=
  runHist_ordered maxB h g0 fs ho hb hg

/-! ## (3) a zip destination never holds a partially written archive -/

/-- the trigger-free histories: no fault is at a re-opening of the temporary archive -/
def NoTruncatingFault (fs : FS) (h : List (Save × Nat)) : Prop := noTruncation maxB fs h = true

instance (fs : FS) (h : List (Save × Nat)) : Decidable (NoTruncatingFault fs h) := by
  unfold NoTruncatingFault; exact inferInstance

/-- No sequence of saves of either format, with faults anywhere else, creates a partial *file*
in any slot. -/
theorem no_partial_archive_partial (h : List (Save × Nat)) (fs : FS) (h0 : NoPartialZip fs)
    (hk : NoTruncatingFault fs h) : NoPartialZip (runHist maxB fs h) :=
  runHist_noPartialZip maxB h fs h0 hk

/-- A zip save, interrupted anywhere else, leaves the path absent, as it was, or complete. -/
theorem zip_path_never_partial_partial (fs : FS) (sv : Save) (hz : sv.kind = .zip) (k : Nat)
    (hk : NotTruncating fs sv k) (h : (fs 0).isPart = false) :
    ((save maxB sv k fs).1 0).isPart = false :=
  zip_save_pathWhole maxB (by decide) sv hz k fs hk h

/-- the witness: a zip save over an existing zip save; the `OSError` hits the third opening of
the temporary archive (index 5: one rename, then `create t create t reopen …`) -/
def zipWitnessFs : FS := fun j => if j = 0 then .good .zip 1 else .absent
def zipWitnessSave : Save :=
  { kind := .zip, g := 2, pre := [.plain, .create, .plain, .create, .plain, .reopen, .plain], n2 := 2 }

/-- The full statements are false of the code: the save reports success, and the path holds an
archive that is not a complete copy (the previous copy is intact at `_BAK1`). -/
theorem zip_full_statement_fails :
    ¬ (∀ (fs : FS) (sv : Save) (k : Nat), NoPartialZip fs → NoPartialZip (save maxB sv k fs).1) ∧
    ¬ (∀ (fs : FS) (sv : Save) (k : Nat), (save maxB sv k fs).2 = true →
        (save maxB sv k fs).1 0 = .good sv.kind sv.g) := by
  constructor
  · intro H
    have h0 : NoPartialZip zipWitnessFs := by
      intro j g
      simp only [zipWitnessFs]
      split <;> intro hc <;> cases hc
    exact H zipWitnessFs zipWitnessSave 6 h0 0 2 (by decide)
  · intro H
    have := H zipWitnessFs zipWitnessSave 6 (by decide)
    revert this
    decide

/-! ## (4) sequences of failing saves -/

/-- What does hold after two (or `n ≤ max`) consecutive saves that fail anywhere: the copy is
not lost, it has sunk by at most one slot per save. -/
theorem copy_survives_failed_saves (h : List (Save × Nat)) (fs : FS) (c : Kind) (g : Nat)
    (h0 : fs 0 = .good c g) (hlen : h.length ≤ maxB) :
    ∃ j, j ≤ h.length ∧ (runHist maxB fs h) j = .good c g := by
  obtain ⟨j, _, hj, hgood⟩ :=
    runHist_copy_survives maxB (.good c g) (by intro hc; cases hc) h fs 0 h0 (by omega)
  exact ⟨j, by omega, hgood⟩

theorem two_failed_saves_keep_copy (fs : FS) (sv1 sv2 : Save) (k1 k2 : Nat) (c : Kind) (g : Nat)
    (h0 : fs 0 = .good c g) :
    (runHist maxB fs [(sv1, k1), (sv2, k2)]) 0 = .good c g ∨
    (runHist maxB fs [(sv1, k1), (sv2, k2)]) 1 = .good c g ∨
    (runHist maxB fs [(sv1, k1), (sv2, k2)]) 2 = .good c g := by
  obtain ⟨j, hj, hgood⟩ := copy_survives_failed_saves [(sv1, k1), (sv2, k2)] fs c g h0 backups_on
  simp only [List.length_cons, List.length_nil] at hj
  have : j = 0 ∨ j = 1 ∨ j = 2 := by omega
  rcases this with rfl | rfl | rfl
  · exact Or.inl hgood
  · exact Or.inr (Or.inl hgood)
  · exact Or.inr (Or.inr hgood)

/-- the trigger-free histories: every save starts from a state whose path is not partial
(i.e. no save follows a directory save that failed while writing) -/
def PathWholeAtEachStart (fs : FS) (h : List (Save × Nat)) : Prop := startsWhole maxB fs h = true

instance (fs : FS) (h : List (Save × Nat)) : Decidable (PathWholeAtEachStart fs h) := by
  unfold PathWholeAtEachStart; exact inferInstance

/-- The statement for sequences, where it holds: the most recent complete copy is at the path
or at the first backup after every sequence of saves and faults in which no save starts from
a partial path. -/
theorem latest_at_front_partial (h : List (Save × Nat)) (g0 : Nat) (fs : FS)
    (ho : Ordered fs) (hb : Below g0 fs) (hg : GensIncrease g0 h)
    (hl : LatestAtFront fs) (hk : PathWholeAtEachStart fs h) :
    LatestAtFront (runHist maxB fs h) :=
  latest_of_front (runHist_front maxB (by decide) h fs (front_of_latest hl) hk)
    (runHist_ordered maxB h g0 fs ho hb hg)

/-- the witness: generation 1 saved as a directory … -/
def witnessFs : FS := fun j => if j = 0 then .good .dir 1 else .absent
/-- … then two directory saves, each failing at its second file operation -/
def witnessHist : List (Save × Nat) :=
  [({ kind := .dir, g := 2, body := plainBody 3 }, 3), ({ kind := .dir, g := 3, body := plainBody 3 }, 4)]

/-- The full statement is false of the code: two consecutive failed *directory* saves leave the
last complete copy at `_BAK2`, with `path` and `_BAK1` both partial. -/
theorem latest_at_front_full_statement_fails :
    ¬ ∀ (h : List (Save × Nat)) (g0 : Nat) (fs : FS), Ordered fs → Below g0 fs →
        GensIncrease g0 h → LatestAtFront fs → LatestAtFront (runHist maxB fs h) := by
  intro H
  have hgen : ∀ j a, (witnessFs j).gen = some a → j = 0 ∧ a = 1 := by
    intro j a ha
    simp only [witnessFs] at ha
    split at ha
    · rename_i hj; simp only [Slot.gen] at ha; cases ha; exact ⟨hj, rfl⟩
    · cases ha
  have ho : Ordered witnessFs := by
    intro i j a b hij _ hb
    have := (hgen j b hb).1
    omega
  have hb : Below 2 witnessFs := by
    intro i a ha
    have := (hgen i a ha).2
    omega
  have hl : LatestAtFront witnessFs := by
    intro j c g hj
    have := hgen j g (by rw [hj]; rfl)
    exact ⟨0, by decide, .dir, 1, rfl, by omega⟩
  have hres := H witnessHist 2 witnessFs ho hb ⟨by decide, by decide, trivial⟩ hl 2 .dir 1
    (by decide)
  obtain ⟨i, hi, c', g', hgood, _⟩ := hres
  have h0 : runHist maxB witnessFs witnessHist 0 = .part .dir 3 := by decide
  have h1 : runHist maxB witnessFs witnessHist 1 = .part .dir 2 := by decide
  have : i = 0 ∨ i = 1 := by omega
  rcases this with rfl | rfl
  · rw [h0] at hgood; cases hgood
  · rw [h1] at hgood; cases hgood

/-! ## (5) the session after a failed save or load -/

/-- After a save or a load that fails anywhere (or succeeds) both `serializing` flags are
reset, and a save never touches the registry. -/
theorem failed_io_resets_flags (kw : List String) (s : Session) (name : String) (ph : SavePhase)
    (f : LoadFail) (h1 : s.serializing = false) (h2 : s.ioSerializing = false) :
    (sessSave s ph).serializing = false ∧ (sessSave s ph).ioSerializing = false ∧
    (sessSave s ph).reg = s.reg ∧
    (sessLoad kw s name f).serializing = false ∧ (sessLoad kw s name f).ioSerializing = false := by
  refine ⟨?_, ?_, ?_, rfl, rfl⟩ <;> cases ph <;> first | rfl | exact h1 | exact h2

/-- No half-loaded model stays registered, no model is dropped: after a load that fails at any
point the registered model identities are exactly those from before. -/
theorem failed_load_no_new_model (kw : List String) (r : Reg) (h : RegInv r) (name : String)
    (f : LoadFail) (hf : f ≠ .nowhere) (j : Nat) :
    j ∈ ids (loadReg kw r name f).models ↔ j ∈ ids r.models :=
  loadReg_failed_ids kw r h name f hf j

/-- the registry stays well-formed (unique names, each key maps to the model of that name) -/
theorem load_keeps_registry_wellformed (kw : List String) (r : Reg) (h : RegInv r) (name : String)
    (f : LoadFail) : RegInv (loadReg kw r name f) := by
  cases f with
  | beforeNew => exact h
  | rootSource =>
    simp only [loadReg, newModel_none_eq]
    exact close_inv (afterNew_inv kw h) _
  | afterRename => exact readModel_inv kw h name true
  | nowhere => exact readModel_inv kw h name false

/-- No residue at all – same names, same models, same order – provided no model of the name
stored in the file was registered. -/
theorem failed_load_registry_unchanged_partial (kw : List String) (r : Reg) (h : RegInv r)
    (name : String) (f : LoadFail) (hf : f ≠ .nowhere) (hname : name ∉ keys r) :
    (loadReg kw r name f).models = r.models :=
  loadReg_failed_models kw r h name f hf hname

/-- The full statement is false of the code: with a model of that name registered, a load that
fails after the root source was parsed leaves that model renamed to `<name>_BAK1`. -/
theorem failed_load_full_statement_fails :
    ¬ ∀ (kw : List String) (r : Reg) (name : String) (f : LoadFail), RegInv r → f ≠ .nowhere →
        keys (loadReg kw r name f) = keys r := by
  intro H
  have h0 : RegInv ({} : Reg) := ⟨by simp, by simp [mkeys], by simp [ids], by simp⟩
  have := H [] (newModel [] {} (some "A")).1 "A" .afterRename (newModel_inv [] h0 _)
    (by intro hc; cases hc)
  revert this
  decide +kernel

/-! ## (6) errors that persist; errors of the class a retry handler absorbs -/

/-- An error that persists is never turned into a truncated archive: `zipfile`'s file-mode
retry and `copy_file`'s loop run out of attempts and let it escape. -/
theorem persistent_fault_not_truncating (fs : FS) (sv : Save) (k : Nat)
    (hp : sv.pol.persist = true) : NotTruncating fs sv k :=
  faultKind_persist_ne_truncates sv.pol hp _ k

/-- The statement at full strength for errors that persist (either class, any primitive): a
save that reports success although an operation kept failing has put the complete new
generation at the path and the previous content of the path at the first backup. -/
theorem persistent_fault_success_complete (fs : FS) (sv : Save) (k : Nat)
    (hp : sv.pol.persist = true) (hdone : (save maxB sv k fs).2 = true) :
    (save maxB sv k fs).1 0 = .good sv.kind sv.g ∧
      (fs 0 ≠ .absent → (save maxB sv k fs).1 1 = fs 0) :=
  successful_save_partial fs sv k (persistent_fault_not_truncating fs sv k hp) hdone

/-- … and a zip destination is never left partial by it. -/
theorem persistent_fault_zip_path_never_partial (fs : FS) (sv : Save) (hz : sv.kind = .zip)
    (k : Nat) (hp : sv.pol.persist = true) (h : (fs 0).isPart = false) :
    ((save maxB sv k fs).1 0).isPart = false :=
  zip_path_never_partial_partial fs sv hz k (persistent_fault_not_truncating fs sv k hp) h

/-- The only operation whose persistent failure a save survives is the `os.rename` inside
`shutil.move` (which copies instead): a persistent error at any other primitive makes the save
raise – in particular no retry loop ends by carrying on as if the operation had happened. -/
theorem persistent_fault_raises (fs : FS) (sv : Save) (k : Nat) (hp : sv.pol.persist = true)
    (hk : k < (plan maxB sv fs).length) (hm : ∀ g, (plan maxB sv fs)[k]? ≠ some (.move g)) :
    (save maxB sv k fs).2 = false := by
  rcases faultKind_persist sv.pol hp (plan maxB sv fs) k with h | ⟨_, g, hg⟩
  · exact save_raises maxB sv k fs h hk
  · exact absurd hg (hm g)

/-- A transient `PermissionError` at an operation under a handler for it (an `unlink`/`rmdir`
of `TemporaryDirectory.cleanup`) is absorbed without trace: the save is the uninterrupted save. -/
theorem transient_permission_error_absorbed (fs : FS) (sv : Save) (k : Nat)
    (hperm : sv.pol.exc = .perm) (honce : sv.pol.persist = false)
    (hg : (plan maxB sv fs)[k]? = some (.tmp .guarded)) :
    save maxB sv k fs = save maxB sv (plan maxB sv fs).length fs := by
  apply save_retried
  rw [faultKind_guarded _ _ _ hg, if_pos ⟨hperm, honce⟩]

/-- An error of any other class at such an operation interrupts the save. -/
theorem guarded_other_error_raises (fs : FS) (sv : Save) (k : Nat) (hos : sv.pol.exc = .os)
    (hg : (plan maxB sv fs)[k]? = some (.tmp .guarded)) :
    (save maxB sv k fs).2 = false := by
  have hk : k < (plan maxB sv fs).length := by
    rcases Nat.lt_or_ge k (plan maxB sv fs).length with h | h
    · exact h
    · rw [List.getElem?_eq_none h] at hg; cases hg
  have hne : ¬ (sv.pol.exc = .perm ∧ sv.pol.persist = false) := by
    intro hc; rw [hos] at hc; cases hc.1
  apply save_raises maxB sv k fs _ hk
  rw [faultKind_guarded _ _ _ hg, if_neg hne]

/-- An error of *every* class and persistence at an operation nobody guards ends the save – since
14fa119 that is what `ZipFile.write` and the close inside `copy_file` are (as every write of a
member or of an IO data file always was). -/
theorem unguarded_error_raises (fs : FS) (sv : Save) (k : Nat)
    (hg : (plan maxB sv fs)[k]? = some (.tmp .plain)) : (save maxB sv k fs).2 = false := by
  have hk : k < (plan maxB sv fs).length := by
    rcases Nat.lt_or_ge k (plan maxB sv fs).length with h | h
    · exact h
    · rw [List.getElem?_eq_none h] at hg; cases hg
  exact save_raises maxB sv k fs (faultKind_plain _ _ _ hg) hk

/-- what the hypothesis of the `_partial` statements excludes, spelled out: a *transient* error
at a *re-opening* of the temporary archive – nothing else, for every error class -/
theorem notTruncating_iff (fs : FS) (sv : Save) (k : Nat) :
    NotTruncating fs sv k ↔
      ¬ ((plan maxB sv fs)[k]? = some (.tmp .reopen) ∧ sv.pol.persist = false) := by
  unfold NotTruncating
  rw [Ne, faultKind_truncates_iff]

/-- Success ⇒ complete, for every fault policy and every primitive but that one case: the
statement `retry_after_failed_close_full_statement_fails` refutes for the old rule holds now. -/
theorem success_complete_unless_transient_reopen (fs : FS) (sv : Save) (k : Nat)
    (hr : ¬ ((plan maxB sv fs)[k]? = some (.tmp .reopen) ∧ sv.pol.persist = false))
    (hdone : (save maxB sv k fs).2 = true) :
    (save maxB sv k fs).1 0 = .good sv.kind sv.g ∧
      (fs 0 ≠ .absent → (save maxB sv k fs).1 1 = fs 0) :=
  successful_save_partial fs sv k ((notTruncating_iff fs sv k).mpr hr) hdone

/-- … and a zip path is never left partial, for every fault policy, but for that one case. -/
theorem zip_path_never_partial_unless_transient_reopen (fs : FS) (sv : Save) (hz : sv.kind = .zip)
    (k : Nat) (hr : ¬ ((plan maxB sv fs)[k]? = some (.tmp .reopen) ∧ sv.pol.persist = false))
    (h : (fs 0).isPart = false) : ((save maxB sv k fs).1 0).isPart = false :=
  zip_path_never_partial_partial fs sv hz k ((notTruncating_iff fs sv k).mpr hr) h

/-! ### the rule of the code before 14fa119 (fixed finding
`C14-copyfile-retry-after-failed-close-drops-members`) -/

/-- the witness: a zip save of a model with one IO data file over an existing zip save, as the
code before 14fa119 performed it (`ZipFile.write` and the close inside `copy_file`'s loop:
`guarded`, `guardedClose`); the transient `PermissionError` hits the close (index 10: one
rename, then `t c t c t r t r guarded guardedClose`) -/
def retryWitnessSave : Save :=
  { kind := .zip, g := 2, n2 := 2, pol := { exc := .perm },
    pre := [.plain, .create, .plain, .create, .plain, .reopen, .plain, .reopen, .guarded,
            .guardedClose] }

/-- With the rule of the code before 14fa119 the full statement fails also when no error is at
a (re-)opening of the archive: the retry after a failed close made the save report success with
an archive that is not a complete copy at the path (the previous copy intact at `_BAK1`). -/
theorem retry_after_failed_close_full_statement_fails :
    ¬ (∀ (fs : FS) (sv : Save) (k : Nat),
        (plan maxB sv fs)[k]? ≠ some (.tmp .reopen) → (saveOld maxB sv k fs).2 = true →
        (saveOld maxB sv k fs).1 0 = .good sv.kind sv.g) := by
  intro H
  have := H zipWitnessFs retryWitnessSave 10 (by decide) (by decide)
  revert this
  decide

/-- the two rules differ at that close only -/
theorem old_rule_differs_at_close_only (fs : FS) (sv : Save) (k : Nat)
    (h : (plan maxB sv fs)[k]? ≠ some (.tmp .guardedClose)) :
    saveOld maxB sv k fs = save maxB sv k fs :=
  saveOld_eq maxB sv k fs h

/-! ## Non-vacuity: concrete, non-trivial instances -/

/-- four generations present; the fifth save (directory) fails at its last-but-one operation -/
def demoFs : FS := fun j =>
  if j = 0 then .good .dir 4 else if j = 1 then .good .zip 3 else if j = 2 then .good .dir 2
  else if j = 3 then .good .dir 1 else .absent

def demoSave : Save := { kind := .dir, g := 5, nrm := 4, body := plainBody 3 }

-- the plan: 4 × rm of `_BAK3`, three renames, `make_root`, four writes
example : (plan maxB demoSave demoFs).length = 12 := by decide
-- interrupted inside the `rmtree` of the oldest generation: everything else untouched
example : (save maxB demoSave 2 demoFs).1 0 = .good .dir 4 ∧
    (save maxB demoSave 2 demoFs).1 3 = .part .dir 1 := by decide
-- interrupted while writing: previous copy at `_BAK1`, path partial, oldest generation gone
example : (save maxB demoSave 10 demoFs).1 0 = .part .dir 5 ∧
    (save maxB demoSave 10 demoFs).1 1 = .good .dir 4 ∧
    (save maxB demoSave 10 demoFs).1 3 = .good .dir 2 ∧
    (save maxB demoSave 10 demoFs).2 = false := by decide
-- `single_fault_safe` applies to it
example : (save maxB demoSave 10 demoFs).1 0 = .good .dir 4 ∨
    (save maxB demoSave 10 demoFs).1 1 = .good .dir 4 :=
  single_fault_safe demoFs demoSave 10 .dir 4 (by decide)
-- uninterrupted
example : (save maxB demoSave 12 demoFs) = (save maxB demoSave 99 demoFs) ∧
    (save maxB demoSave 12 demoFs).2 = true ∧
    (save maxB demoSave 12 demoFs).1 0 = .good .dir 5 ∧
    (save maxB demoSave 12 demoFs).1 1 = .good .dir 4 := by
  refine ⟨?_, by decide, by decide, by decide⟩
  have h := successful_save_partial demoFs demoSave 12 (by decide) (by decide)
  have h' := successful_save_partial demoFs demoSave 99 (by decide) (by decide)
  rfl

-- six successful saves, formats mixed: the last four generations, in order, nothing at `_BAK4`
def demoSaves : List Save :=
  [{ kind := .dir, g := 1 }, { kind := .zip, g := 2, pre := [.create, .plain], n2 := 1 }, { kind := .dir, g := 3, body := plainBody 2 },
   { kind := .dir, g := 4 }, { kind := .zip, g := 5 }, { kind := .dir, g := 6, nrm := 3 }]

example : (runOk maxB FS.empty demoSaves) 0 = .good .dir 6 ∧
    (runOk maxB FS.empty demoSaves) 1 = .good .zip 5 ∧
    (runOk maxB FS.empty demoSaves) 2 = .good .dir 4 ∧
    (runOk maxB FS.empty demoSaves) 3 = .good .dir 3 ∧
    (runOk maxB FS.empty demoSaves) 4 = .absent := by
  refine ⟨?_, ?_, ?_, ?_, ?_⟩ <;> rw [generations_in_order] <;> decide

-- a zip save interrupted just before the move: the path is simply absent, `_BAK1` complete
def demoZip : Save := { kind := .zip, g := 2, pre := [.plain, .create, .plain, .plain, .plain], n2 := 2 }
example : (save maxB demoZip 5 witnessFs).1 0 = .absent ∧
    (save maxB demoZip 5 witnessFs).1 1 = .good .dir 1 ∧
    (save maxB demoZip 5 witnessFs).2 = false ∧
    -- an `OSError` of the `os.rename` inside `shutil.move` makes it copy instead
    (save maxB demoZip 6 witnessFs).1 0 = .good .zip 2 ∧
    NotTruncating witnessFs demoZip 5 := by
  decide
-- an `OSError` at the creation of the archive is retried by `zipfile`: the save just succeeds
example : save maxB demoZip 2 witnessFs = save maxB demoZip 99 witnessFs ∧
    (save maxB demoZip 2 witnessFs).2 = true := by
  constructor
  · have h := successful_save_partial witnessFs demoZip 2 (by decide) (by decide)
    rfl
  · decide
-- the truncation witness in full
example : (save maxB zipWitnessSave 6 zipWitnessFs).2 = true ∧
    (save maxB zipWitnessSave 6 zipWitnessFs).1 0 = .part .zip 2 ∧
    (save maxB zipWitnessSave 6 zipWitnessFs).1 1 = .good .zip 1 ∧
    ¬ NotTruncating zipWitnessFs zipWitnessSave 6 := by decide

-- the two-failure witness in full: `path` and `_BAK1` partial, the last complete copy at `_BAK2`
example : runHist maxB witnessFs witnessHist 0 = .part .dir 3 ∧
    runHist maxB witnessFs witnessHist 1 = .part .dir 2 ∧
    runHist maxB witnessFs witnessHist 2 = .good .dir 1 ∧
    ¬ PathWholeAtEachStart witnessFs witnessHist := by decide
-- … and a failed directory save followed by a successful one is inside the hypothesis
example : PathWholeAtEachStart witnessFs [({ kind := .dir, g := 2 }, 0), ({ kind := .zip, g := 3 }, 9)] := by
  decide

-- consequence of the same defect: four failed directory saves in a row push the last complete
-- copy out of the chain; the fifth rotation deletes it (nothing complete is left anywhere)
def lostHist : List (Save × Nat) :=
  [({ kind := .dir, g := 2, body := plainBody 3 }, 3), ({ kind := .dir, g := 3, body := plainBody 3 }, 4),
   ({ kind := .dir, g := 4, body := plainBody 3 }, 5), ({ kind := .dir, g := 5, nrm := 2, body := plainBody 3 }, 7)]
example : (runHist maxB witnessFs (lostHist.take 3)) 3 = .good .dir 1 ∧
    (runHist maxB witnessFs lostHist 0).isGood = false ∧
    (runHist maxB witnessFs lostHist 1).isGood = false ∧
    (runHist maxB witnessFs lostHist 2).isGood = false ∧
    (runHist maxB witnessFs lostHist 3).isGood = false ∧
    (runHist maxB witnessFs lostHist 4).isGood = false := by decide

-- the registry witness: model `A` exists, loading a file that defines `A` fails late
example : keys (loadReg [] (newModel [] {} (some "A")).1 "A" .afterRename) = ["A_BAK1"] := by
  decide +kernel
-- … fails while the root source is read: nothing changes
example : keys (loadReg [] (newModel [] {} (some "A")).1 "A" .rootSource) = ["A"] := by
  decide +kernel

-- fault policies on a zip save of a model with one IO data file (`ioSave`: … the re-opening for the
-- IO file at 8, `ZipFile.write` at 9, the close at 10, the move at 11, two clean-up operations)
def ioSave : Save :=
  { kind := .zip, g := 2, n2 := 2, pol := { exc := .perm },
    pre := [.plain, .create, .plain, .create, .plain, .reopen, .plain, .reopen, .plain, .plain] }
def ioSavePersist : Save := { ioSave with pol := { exc := .perm, persist := true } }
example : (plan maxB ioSave zipWitnessFs).length = 14 ∧
    (plan maxB ioSave zipWitnessFs)[8]? = some (.tmp .reopen) ∧
    (plan maxB ioSave zipWitnessFs)[9]? = some (.tmp .plain) ∧
    (plan maxB ioSave zipWitnessFs)[12]? = some (.tmp .guarded) := by decide
-- a PermissionError (transient or persistent) at `ZipFile.write` / the close inside copy_file: the
-- save raises, the path is absent (never a partial archive), the previous copy is at `_BAK1`
example : (save maxB ioSave 9 zipWitnessFs).2 = false ∧
    (save maxB ioSave 10 zipWitnessFs).2 = false ∧
    (save maxB ioSave 10 zipWitnessFs).1 0 = .absent ∧
    (save maxB ioSave 10 zipWitnessFs).1 1 = .good .zip 1 ∧
    (save maxB ioSavePersist 9 zipWitnessFs).2 = false :=
  ⟨unguarded_error_raises zipWitnessFs ioSave 9 (by decide),
   unguarded_error_raises zipWitnessFs ioSave 10 (by decide), by decide, by decide,
   unguarded_error_raises zipWitnessFs ioSavePersist 9 (by decide)⟩
-- a PermissionError that persists at the opening inside the loop: all attempts fail, the save raises,
-- nothing is truncated
example : (save maxB ioSavePersist 8 zipWitnessFs).2 = false ∧
    (save maxB ioSavePersist 8 zipWitnessFs).1 0 = .absent ∧
    (save maxB ioSavePersist 8 zipWitnessFs).1 1 = .good .zip 1 ∧
    NotTruncating zipWitnessFs ioSavePersist 8 := by
  have h8 : (plan maxB ioSavePersist zipWitnessFs)[8]? = some (.tmp .reopen) := by decide
  refine ⟨persistent_fault_raises zipWitnessFs ioSavePersist 8 rfl (by decide)
    (by intro g; rw [h8]; intro hc; cases hc), ?_, ?_, ?_⟩ <;> decide
-- a transient one there is the known `zipfile` case, the one thing `notTruncating_iff` excludes
example : ¬ NotTruncating zipWitnessFs ioSave 8 ∧ NotTruncating zipWitnessFs ioSave 9 ∧
    NotTruncating zipWitnessFs ioSave 10 := by
  refine ⟨?_, ?_, ?_⟩ <;> rw [notTruncating_iff] <;> decide
-- success ⇒ complete applies to every absorbed error but that one: the rename inside `shutil.move`
-- (persistent), the clean-up (transient PermissionError)
example : (save maxB ioSavePersist 11 zipWitnessFs).2 = true ∧
    (save maxB ioSavePersist 11 zipWitnessFs).1 0 = .good .zip 2 :=
  ⟨by decide, (persistent_fault_success_complete zipWitnessFs ioSavePersist 11 rfl (by decide)).1⟩
example : (save maxB ioSave 12 zipWitnessFs).1 0 = .good .zip 2 :=
  (success_complete_unless_transient_reopen zipWitnessFs ioSave 12 (by decide) (by decide)).1
example : save maxB ioSave 12 zipWitnessFs = save maxB ioSave 14 zipWitnessFs :=
  transient_permission_error_absorbed zipWitnessFs ioSave 12 rfl rfl (by decide)
-- a plain OSError in the clean-up is not absorbed
example : (save maxB { ioSave with pol := {} } 12 zipWitnessFs).2 = false :=
  guarded_other_error_raises zipWitnessFs { ioSave with pol := {} } 12 rfl (by decide)
-- the old rule's witness in full; under the present rule the same fault just ends the save
example : (saveOld maxB retryWitnessSave 10 zipWitnessFs).2 = true ∧
    (saveOld maxB retryWitnessSave 10 zipWitnessFs).1 0 = .part .zip 2 ∧
    (saveOld maxB retryWitnessSave 10 zipWitnessFs).1 1 = .good .zip 1 ∧
    (save maxB retryWitnessSave 10 zipWitnessFs).2 = false ∧
    (save maxB retryWitnessSave 10 zipWitnessFs).1 0 = .absent ∧
    saveOld maxB retryWitnessSave 9 zipWitnessFs = save maxB retryWitnessSave 9 zipWitnessFs :=
  ⟨by decide, by decide, by decide, by decide, by decide,
   old_rule_differs_at_close_only zipWitnessFs retryWitnessSave 9 (by decide)⟩
-- directory format with IO data: openpyxl's `ZipFile(path, "w")` of a workbook below the path
-- (index 4 of the plan) absorbs a transient error, not a persistent one
def demoDirIO : Save := { kind := .dir, g := 2, body := [none, none, some .create, none, some .plain, none] }
example : (save maxB demoDirIO 4 zipWitnessFs).2 = true ∧
    (save maxB demoDirIO 4 zipWitnessFs).1 0 = .good .dir 2 ∧
    (save maxB { demoDirIO with pol := { persist := true } } 4 zipWitnessFs).2 = false ∧
    (save maxB { demoDirIO with pol := { persist := true } } 4 zipWitnessFs).1 0 = .part .dir 2 ∧
    (save maxB { demoDirIO with pol := { persist := true } } 4 zipWitnessFs).1 1 = .good .zip 1 := by
  decide

/-! ## A failed load in the session-wide IOManager (`Kernels/IOSession.lean`)

`ModelReader.read_model` (f95f7ad): the unpicklers register specs and file objects before the values are bound;
when the load fails the half-read model is closed, the specs read are deleted and the file objects that were not
registered when the load began are removed - BY IDENTITY. -/

/-- **The clean-up of a failed load leaves the others alone**: a file object that was registered when the load
began (`snapshot`), none of whose specs the load read and none of whose values the half-read model references
(the values of a load are new objects), is in the registry afterwards as it was - identity, key, all specs;
whatever its group: another model's, or the session-wide group of absolute paths. -/
theorem failed_load_cleanup_leaves_others (ops : List IOSession.Op) (m : Nat) (snapshot read : List Nat)
    (io : IOSession.Io) (hio : io ∈ (IOSession.run {} ops).ios)
    (hsnap : snapshot.contains io.iid = true)
    (hread : ∀ s ∈ io.specs, read.contains s.sid = false)
    (hval : ∀ s ∈ io.specs, IOSession.boundIn (IOSession.run {} ops).refs m s.val = false) :
    io ∈ (IOSession.cleanup (IOSession.run {} ops) m snapshot read).ios :=
  IOSession.cleanup_keeps _ m snapshot read (IOSession.reachable_inv ops).det io hio hsnap hread hval

/-- **…and removes what the load created**: every file object left was registered when the load began and holds
none of the specs the load read. -/
theorem failed_load_cleanup_removes_created (st : IOSession.St) (m : Nat) (snapshot read : List Nat) :
    ∀ io ∈ (IOSession.cleanup st m snapshot read).ios,
      snapshot.contains io.iid = true ∧ ∀ s ∈ io.specs, read.contains s.sid = false :=
  IOSession.cleanup_removes st m snapshot read

/-- a whole failed load (a relative csv, a relative module, a csv under an absolute path, one value already bound)
next to two models with external files: the registry of file objects, the references and `iospecs` of the others
are exactly what they were; the same load succeeding registers three file objects -/
example :
    let items : List IOSession.Item := [⟨"S.df", ⟨false, "d.csv"⟩, false, none, 10, true⟩,
      ⟨".mod", ⟨false, "m.py"⟩, false, none, 11, false⟩, ⟨"S.e", ⟨true, "z/e.csv"⟩, false, none, 12, false⟩]
    (IOSession.load IOSession.demo items false).1.ios = IOSession.demo.ios ∧
    (IOSession.load IOSession.demo items false).2 = .loadFailed ∧
    IOSession.specsOf (IOSession.load IOSession.demo items false).1 0 = IOSession.specsOf IOSession.demo 0 ∧
    (IOSession.load IOSession.demo items true).1.ios.length = IOSession.demo.ios.length + 3 := by
  decide +kernel

/-- a load of a save whose external file is in use by an open model (C18-absolute-io-shared) fails at the
unpickler and is cleaned up the same way -/
example :
    (IOSession.load IOSession.demo [⟨"S.df", ⟨false, "d.csv"⟩, false, none, 10, true⟩,
      ⟨"S.e", ⟨true, "x/b.csv"⟩, false, none, 12, true⟩] true).1.ios = IOSession.demo.ios := by decide +kernel

/-- **C14-mutG is not the code**: a clean-up that selects the entries by `not group or group == io_group`
deletes the external file object of a model that has nothing to do with the load -/
example :
    let half := (IOSession.readSpecs (IOSession.run IOSession.demo [.newModel]) 2
      [⟨"S.df", ⟨false, "d.csv"⟩, false, none, 10, false⟩] []).1
    IOSession.specsOf (IOSession.cleanupMutG half 2) 0 ≠ IOSession.specsOf IOSession.demo 0 ∧
    IOSession.specsOf (IOSession.cleanup half 2 (IOSession.demo.ios.map (·.iid)) [4]) 0
      = IOSession.specsOf IOSession.demo 0 := by decide +kernel

/-- **A failed load leaves the io state of the session exactly as it was** - after EVERY history, for EVERY list of
entries a saved model may hold (relative and absolute paths, files already in use, some values already bound when the
failure strikes): the registry of file objects `IOManager.ios` is the same list (identities, keys, specs, order), and
every model of the session keeps its references and its `iospecs`. -/
theorem failed_load_restores_session (ops : List IOSession.Op) (items : List IOSession.Item) :
    let st := IOSession.run {} ops
    (IOSession.load st items false).1.ios = st.ios ∧
    ∀ m', m' ≠ st.nextModel →
      (IOSession.load st items false).1.refs.filter (fun r => r.model == m') =
        st.refs.filter (fun r => r.model == m') ∧
      IOSession.specsOf (IOSession.load st items false).1 m' = IOSession.specsOf st m' :=
  IOSession.failed_load_restores (IOSession.reachable_inv ops) items

end MxModel.C14
