import MxModel.Proofs.ExprBind
/-!
# The specification of `bindKey` (argument binding of the exec layer), for every signature

`bindKey a dflt pos kw` (Exec/Expr.lean; used by `Expr.callK`, by the driver's `eval` / `set` /
`clearat` and by `evalSpelled`) is characterised completely:

* `Binds a dflt pos kw` – what Python requires of a spelling (`inspect.Signature.bind` for
  positional-or-keyword parameters): no surplus positional argument, no repeated keyword, every
  keyword names a parameter that has no positional argument, every parameter without a default is
  supplied;
* `canonKey a dflt pos kw` – the fully positional key: the positional arguments, then for every
  remaining parameter its keyword argument, else its default (the LAST `dflt.length` parameters
  have one: parameter `i` has the default `dflt[i + dflt.length - a]`);
* **`bindKey_iff`**: `bindKey a dflt pos kw = some key ↔ Binds a dflt pos kw ∧ key = canonKey a dflt pos kw`;
* `bindKey_perm` (keyword order is irrelevant), `bindKey_canonical` (the fully positional spelling
  of the bound key binds to that key), `bindKey_eq_none_iff`.

No hypothesis on the signature (`dflt.length ≤ a` is not needed: surplus defaults at the front are
never looked at).
-/
namespace MxModel.Exec

/-- the keyword argument given for parameter `i` -/
def kwVal (kw : List (Nat × Val)) (i : Nat) : Option Val := (kw.find? (fun e => e.1 == i)).map (·.2)

/-- what Python requires of a spelling for a callee with `a` positional-or-keyword parameters of which
the last `dflt.length` have defaults -/
structure Binds (a : Nat) (dflt pos : List Val) (kw : List (Nat × Val)) : Prop where
  /-- no surplus positional argument -/
  noSurplus : pos.length ≤ a
  /-- no keyword twice -/
  kwDistinct : (kw.map (·.1)).Nodup
  /-- every keyword names a parameter, and not one that already has a positional argument -/
  kwKnown : ∀ e ∈ kw, pos.length ≤ e.1 ∧ e.1 < a
  /-- every parameter without a default is supplied -/
  supplied : ∀ i, pos.length ≤ i → i + dflt.length < a → i ∈ kw.map (·.1)

/-- the value of parameter `i` under a spelling -/
def canonSlot (a : Nat) (dflt pos : List Val) (kw : List (Nat × Val)) (i : Nat) : Val :=
  if i < pos.length then pos[i]?.getD .none
  else match kwVal kw i with
    | some v => v
    | none => dflt[i + dflt.length - a]?.getD .none

/-- the element a spelling denotes: one value per parameter -/
def canonKey (a : Nat) (dflt pos : List Val) (kw : List (Nat × Val)) : Key :=
  (List.range a).map (canonSlot a dflt pos kw)

theorem distinctNats_iff : ∀ (l : List Nat), distinctNats l = true ↔ l.Nodup
  | [] => by simp [distinctNats]
  | x :: xs => by
    simp only [distinctNats, Bool.and_eq_true, Bool.not_eq_true', List.nodup_cons, distinctNats_iff xs]
    constructor
    · rintro ⟨h1, h2⟩
      exact ⟨by simpa using h1, h2⟩
    · rintro ⟨h1, h2⟩
      exact ⟨by simpa using h1, h2⟩

theorem kwVal_isSome_iff (kw : List (Nat × Val)) (i : Nat) : (kwVal kw i).isSome ↔ i ∈ kw.map (·.1) := by
  unfold kwVal
  rw [Option.isSome_map, List.find?_isSome]
  simp only [beq_iff_eq, List.mem_map]

theorem kwVal_eq_some_iff : ∀ (kw : List (Nat × Val)) (i : Nat) (v : Val), (kw.map (·.1)).Nodup →
    (kwVal kw i = some v ↔ (i, v) ∈ kw)
  | [], i, v, _ => by simp [kwVal]
  | (j, w) :: kw, i, v, hnd => by
    have hnd' := List.nodup_cons.mp hnd
    have ih := kwVal_eq_some_iff kw i v hnd'.2
    unfold kwVal at ih ⊢
    by_cases hji : j = i
    · subst hji
      simp only [List.find?_cons, beq_self_eq_true, Option.map_some, Option.some.injEq, List.mem_cons,
        Prod.mk.injEq, true_and]
      constructor
      · intro h; exact Or.inl h.symm
      · rintro (h | h)
        · exact h.symm
        · exact absurd (List.mem_map.mpr ⟨(j, v), h, rfl⟩) hnd'.1
    · have : ((j, w).1 == i) = false := by simpa using hji
      simp only [List.find?_cons, this, List.mem_cons, Prod.mk.injEq]
      rw [ih]
      constructor
      · intro h; exact Or.inr h
      · rintro (h | h)
        · exact absurd h.1.symm hji
        · exact h

/-- is parameter `i` given a value? -/
def slotGiven (a : Nat) (dflt pos : List Val) (kw : List (Nat × Val)) (i : Nat) : Bool :=
  decide (i < pos.length) || (kwVal kw i).isSome || decide (a ≤ i + dflt.length)

theorem bindSlot_eq (a : Nat) (dflt pos : List Val) (kw : List (Nat × Val)) (i : Nat) (hi : i < a) :
    bindSlot a dflt pos kw i =
      if slotGiven a dflt pos kw i then some (canonSlot a dflt pos kw i) else none := by
  unfold bindSlot canonSlot slotGiven kwVal
  by_cases h1 : i < pos.length
  · simp [h1]
  · simp only [h1, if_false, decide_false, Bool.false_or]
    cases hf : kw.find? (fun e => e.1 == i) with
    | some e => simp
    | none =>
      simp only [Option.map_none, Option.isSome_none, Bool.false_or, decide_eq_true_eq]
      by_cases h2 : a ≤ i + dflt.length
      · have h3 : i + dflt.length - a < dflt.length := by omega
        simp [h2, List.getElem?_eq_getElem h3]
      · simp [h2]

theorem bindSlots_eq (a : Nat) (dflt pos : List Val) (kw : List (Nat × Val)) :
    ∀ (is : List Nat), (∀ i ∈ is, i < a) →
      bindSlots a dflt pos kw is =
        if is.all (slotGiven a dflt pos kw) then some (is.map (canonSlot a dflt pos kw)) else none
  | [], _ => by simp [bindSlots]
  | i :: is, h => by
    have hi : i < a := h i (by simp)
    have ih := bindSlots_eq a dflt pos kw is (fun j hj => h j (by simp [hj]))
    simp only [bindSlots, bindSlot_eq a dflt pos kw i hi, ih, List.all_cons, List.map_cons]
    by_cases h1 : slotGiven a dflt pos kw i = true
    · by_cases h2 : is.all (slotGiven a dflt pos kw) = true
      · simp [h1, h2]
      · simp [h1, h2]
    · simp [h1]

/-- **The specification of `bindKey`, for every signature and every spelling**: it binds exactly the
spellings Python accepts, and the bound key is the fully positional one with the keyword values and
the trailing defaults filled in. -/
theorem bindKey_iff (a : Nat) (dflt pos : List Val) (kw : List (Nat × Val)) (key : Key) :
    bindKey a dflt pos kw = some key ↔ Binds a dflt pos kw ∧ key = canonKey a dflt pos kw := by
  unfold bindKey
  by_cases h1 : a < pos.length
  · simp only [h1, if_true]
    constructor
    · intro h; cases h
    · rintro ⟨hb, _⟩; exact absurd hb.noSurplus (by omega)
  · simp only [h1, if_false]
    by_cases h2 : distinctNats (kw.map (·.1)) = true
    · simp only [h2, Bool.not_true, Bool.false_eq_true, if_false]
      have hnd := (distinctNats_iff _).mp h2
      by_cases h3 : kw.any (fun e => decide (e.1 < pos.length) || decide (a ≤ e.1)) = true
      · simp only [h3, if_true]
        constructor
        · intro h; cases h
        · rintro ⟨hb, _⟩
          obtain ⟨e, he, hp⟩ := List.any_eq_true.mp h3
          have := hb.kwKnown e he
          simp only [Bool.or_eq_true, decide_eq_true_eq] at hp
          omega
      · simp only [h3, Bool.false_eq_true, if_false]
        have hkn : ∀ e ∈ kw, pos.length ≤ e.1 ∧ e.1 < a := by
          intro e he
          have : ¬ (decide (e.1 < pos.length) || decide (a ≤ e.1)) = true := fun hp =>
            h3 (List.any_eq_true.mpr ⟨e, he, hp⟩)
          simp only [Bool.or_eq_true, decide_eq_true_eq, not_or] at this
          omega
        rw [bindSlots_eq a dflt pos kw (List.range a) (fun i hi => by simpa using hi)]
        by_cases h4 : (List.range a).all (slotGiven a dflt pos kw) = true
        · simp only [h4, if_true, Option.some.injEq]
          have hsup : ∀ i, pos.length ≤ i → i + dflt.length < a → i ∈ kw.map (·.1) := by
            intro i hi hd
            have := List.all_eq_true.mp h4 i (by simp; omega)
            unfold slotGiven at this
            simp only [Bool.or_eq_true, decide_eq_true_eq] at this
            rcases this with (h | h) | h
            · omega
            · exact (kwVal_isSome_iff kw i).mp h
            · omega
          constructor
          · intro h; exact ⟨⟨by omega, hnd, hkn, hsup⟩, h.symm⟩
          · rintro ⟨_, h⟩; exact h.symm
        · simp only [h4, Bool.false_eq_true, if_false]
          constructor
          · intro h; cases h
          · rintro ⟨hb, _⟩
            exfalso
            apply h4
            apply List.all_eq_true.mpr
            intro i hi
            have hia : i < a := by simpa using hi
            unfold slotGiven
            simp only [Bool.or_eq_true, decide_eq_true_eq]
            by_cases hp : i < pos.length
            · exact Or.inl (Or.inl hp)
            · by_cases hd : a ≤ i + dflt.length
              · exact Or.inr hd
              · exact Or.inl (Or.inr ((kwVal_isSome_iff kw i).mpr (hb.supplied i (by omega) (by omega))))
    · simp only [h2, Bool.not_false, if_true]
      constructor
      · intro h; cases h
      · rintro ⟨hb, _⟩
        exact absurd ((distinctNats_iff _).mpr hb.kwDistinct) h2

/-- a spelling is refused (`TypeError`) exactly when Python refuses it -/
theorem bindKey_eq_none_iff (a : Nat) (dflt pos : List Val) (kw : List (Nat × Val)) :
    bindKey a dflt pos kw = none ↔ ¬ Binds a dflt pos kw := by
  constructor
  · intro h hb
    have := (bindKey_iff a dflt pos kw _).mpr ⟨hb, rfl⟩
    rw [h] at this; cases this
  · intro h
    cases hk : bindKey a dflt pos kw with
    | none => rfl
    | some key => exact absurd ((bindKey_iff a dflt pos kw key).mp hk).1 h

theorem bindKey_of_binds {a : Nat} {dflt pos : List Val} {kw : List (Nat × Val)} (hb : Binds a dflt pos kw) :
    bindKey a dflt pos kw = some (canonKey a dflt pos kw) :=
  (bindKey_iff a dflt pos kw _).mpr ⟨hb, rfl⟩

theorem Binds.perm {a : Nat} {dflt pos : List Val} {kw kw' : List (Nat × Val)} (hp : kw.Perm kw')
    (hb : Binds a dflt pos kw) : Binds a dflt pos kw' :=
  ⟨hb.noSurplus, (hp.map _).nodup_iff.mp hb.kwDistinct, fun e he => hb.kwKnown e (hp.mem_iff.mpr he),
    fun i hi hd => (hp.map _).mem_iff.mp (hb.supplied i hi hd)⟩

theorem kwVal_perm {kw kw' : List (Nat × Val)} (hp : kw.Perm kw') (hnd : (kw.map (·.1)).Nodup) (i : Nat) :
    kwVal kw i = kwVal kw' i := by
  have hnd' : (kw'.map (·.1)).Nodup := (hp.map _).nodup_iff.mp hnd
  cases h : kwVal kw i with
  | some v =>
    have := (kwVal_eq_some_iff kw i v hnd).mp h
    exact ((kwVal_eq_some_iff kw' i v hnd').mpr (hp.mem_iff.mp this)).symm
  | none =>
    cases h' : kwVal kw' i with
    | none => rfl
    | some v =>
      have := (kwVal_eq_some_iff kw' i v hnd').mp h'
      have := (kwVal_eq_some_iff kw i v hnd).mpr (hp.mem_iff.mpr this)
      rw [h] at this; cases this

theorem canonKey_perm {a : Nat} {dflt pos : List Val} {kw kw' : List (Nat × Val)} (hp : kw.Perm kw')
    (hnd : (kw.map (·.1)).Nodup) : canonKey a dflt pos kw = canonKey a dflt pos kw' := by
  unfold canonKey
  apply List.map_congr_left
  intro i _
  unfold canonSlot
  rw [kwVal_perm hp hnd i]

/-- **Keyword arguments in any order denote the same element** (and are refused alike). -/
theorem bindKey_perm (a : Nat) (dflt pos : List Val) {kw kw' : List (Nat × Val)} (hp : kw.Perm kw') :
    bindKey a dflt pos kw = bindKey a dflt pos kw' := by
  by_cases hb : Binds a dflt pos kw
  · rw [bindKey_of_binds hb, bindKey_of_binds (hb.perm hp), canonKey_perm hp hb.kwDistinct]
  · rw [(bindKey_eq_none_iff a dflt pos kw).mpr hb,
      (bindKey_eq_none_iff a dflt pos kw').mpr (fun hb' => hb (hb'.perm hp.symm))]

/-- **The fully positional spelling of the bound key denotes the same element.** -/
theorem bindKey_canonical (a : Nat) (dflt pos : List Val) (kw : List (Nat × Val)) (key : Key)
    (h : bindKey a dflt pos kw = some key) : bindKey a dflt key [] = some key := by
  have hl := bindKey_length a dflt pos kw key h
  subst hl
  exact bindKey_full dflt key

/-- the positional arguments are a prefix of the key, in order -/
theorem canonKey_pos (a : Nat) (dflt pos : List Val) (kw : List (Nat × Val)) (i : Nat) (hi : i < pos.length)
    (ha : i < a) : (canonKey a dflt pos kw)[i]? = pos[i]? := by
  unfold canonKey canonSlot
  simp [ha, hi]

/-- a parameter given by keyword has the keyword's value -/
theorem canonKey_kw (a : Nat) (dflt pos : List Val) (kw : List (Nat × Val)) (hb : Binds a dflt pos kw)
    (i : Nat) (v : Val) (hm : (i, v) ∈ kw) : (canonKey a dflt pos kw)[i]? = some v := by
  have hk := hb.kwKnown (i, v) hm
  have hv := (kwVal_eq_some_iff kw i v hb.kwDistinct).mpr hm
  unfold canonKey canonSlot
  have : ¬ i < pos.length := by have := hk.1; simp at this; omega
  simp [hk.2, this, hv]

/-- a parameter left out has its default: the LAST defaults belong to the LAST parameters -/
theorem canonKey_default (a : Nat) (dflt pos : List Val) (kw : List (Nat × Val)) (i : Nat) (ha : i < a)
    (hp : pos.length ≤ i) (hk : i ∉ kw.map (·.1)) (hd : a ≤ i + dflt.length) :
    (canonKey a dflt pos kw)[i]? = dflt[i + dflt.length - a]? := by
  have hv : kwVal kw i = none := by
    cases h : kwVal kw i with
    | none => rfl
    | some v => exact absurd ((kwVal_isSome_iff kw i).mp (by simp [h])) hk
  have h3 : i + dflt.length - a < dflt.length := by omega
  unfold canonKey canonSlot
  have : ¬ i < pos.length := by omega
  simp [ha, this, hv, List.getElem?_eq_getElem h3]

/-! Non-vacuity: `rate(t, base=100, step=10)` – `rate(3, step=5)`, `rate(step=5, t=3)` bind, to the key
`(3, 100, 5)`; `rate(base=1)` does not (no value for `t`). -/
private def vj (i : Int) : Val := .int i
example : Binds 3 [vj 100, vj 10] [vj 3] [(2, vj 5)] ∧ canonKey 3 [vj 100, vj 10] [vj 3] [(2, vj 5)] = [vj 3, vj 100, vj 5] ∧
    canonKey 3 [vj 100, vj 10] [] [(2, vj 5), (0, vj 3)] = [vj 3, vj 100, vj 5] := by
  refine ⟨⟨by decide, by decide, by decide, ?_⟩, by decide, by decide⟩
  intro i hi hd
  simp only [List.length_cons, List.length_nil] at hi hd
  omega
example : ¬ Binds 3 [vj 100, vj 10] [] [(1, vj 1)] := fun h => by
  have := h.supplied 0 (by simp) (by simp)
  simp at this

end MxModel.Exec
