import MxModel.Proofs.ExecCertTop
import MxModel.Proofs.ExecLog
import MxModel.Proofs.ExecHeld
import MxModel.Proofs.Reach
import MxModel.Proofs.ExecKeep
/-!
# Value assignment with the recalculation option on (`St.setValueRecalc`)

`set_value_from_key` with `System._recalc_dependents = True` = the lazy assignment (`St.setValue`)
followed by one top-level evaluation per former leaf dependent (`St.recalcTargets` over
`St.startNodesFrom`, taken before the clearing).

* `mem_startNodesFrom` – which elements are recomputed: the dependents of `n` (other than `n`) without
  dependents of their own;
* `recalcTargets_ci` – the loop keeps the certificate invariant `CI`, changes no held value (`Ext`), and
  executes only elements that held nothing when it started;
* `recalcTargets_held` – when no recomputation fails, every target holds a value afterwards;
* `inpOf_recalcTargets` – the inputs (elements and values) are those of the lazy assignment.
-/
namespace MxModel.Exec

variable {env : Env} {lt : Node → Node → Prop}

/-! ### the former leaf dependents -/

/-- **the targets of the recalculation**: the elements computed, directly or transitively, from `n`
(other than `n` itself) from which nothing else was computed -/
theorem mem_startNodesFrom {s : St} (hedge : ∀ x y, (x, y) ∈ s.ge → y ∈ s.gn) (n t : Node) :
    t ∈ s.startNodesFrom n ↔
      GNode.elem n ∈ s.gn ∧ Reach s.ge (.elem n) (.elem t) ∧ t ≠ n ∧ ∀ y, (GNode.elem t, y) ∉ s.ge := by
  unfold St.startNodesFrom
  by_cases hn : GNode.elem n ∈ s.gn
  · have hc : s.gn.contains (.elem n) = true := by simpa using hn
    simp only [hc, if_true, mem_elemsOf, List.mem_filter, descs_iff s hedge _ _ hn, hn, true_and]
    constructor
    · rintro ⟨⟨hr, hne⟩, hs⟩
      refine ⟨hr, ?_, ?_⟩
      · intro h; subst h; simp at hne
      · intro y hy
        have hm := (mem_succsOf s.ge _ _).mpr hy
        rw [List.isEmpty_iff] at hs
        rw [hs] at hm; cases hm
    · rintro ⟨hr, hne, hs⟩
      refine ⟨⟨hr, ?_⟩, ?_⟩
      · simp only [bne_iff_ne, ne_eq, GNode.elem.injEq]; exact hne
      · rw [List.isEmpty_iff]
        apply List.eq_nil_iff_forall_not_mem.mpr
        intro y hy
        exact hs y ((mem_succsOf s.ge _ _).mp hy)
  · have hc : s.gn.contains (.elem n) = false := by simpa using hn
    simp [hn]

/-! ### the loop -/

theorem recalcTargets_keeps (env : Env) : ∀ (ts : List Node) (s : St), Keeps s (St.recalcTargets env ts s).2
  | [], s => Keeps.refl s
  | t :: ts, s => by
    simp only [St.recalcTargets]
    split
    · exact (evalTop_keeps env t s).trans (recalcTargets_keeps env ts _)
    · exact evalTop_keeps env t s

/-- when no recomputation fails every target holds a value afterwards (no invariant needed) -/
theorem recalcTargets_held (env : Env) : ∀ (ts : List Node) (s : St),
    (St.recalcTargets env ts s).1 = .ok → ∀ t ∈ ts, env.cached t.1 = true →
      (lookup (St.recalcTargets env ts s).2.data t).isSome = true
  | [], _, _, t, ht, _ => by cases ht
  | t0 :: ts, s, hok, t, ht, hc => by
    simp only [St.recalcTargets] at hok ⊢
    cases hr : (evalTop env t0 s).1 with
    | formulaError e tb => simp [hr] at hok
    | ok w =>
      simp only [hr] at hok ⊢
      rcases List.mem_cons.mp ht with rfl | ht'
      · have h1 := evalTop_ok_held env t s w hc hr
        exact (recalcTargets_keeps env ts _).1 t (by rw [h1]; rfl)
      · exact recalcTargets_held env ts _ hok t ht' hc

/-- a failure is the failure of one target's top-level evaluation; the targets before it were evaluated
and returned; the targets after it were not evaluated -/
theorem recalcTargets_failed (env : Env) : ∀ (ts : List Node) (s : St) (t : Node) (e : Err) (tb : List Node),
    (St.recalcTargets env ts s).1 = .failed t e tb →
      ∃ pre post s0, ts = pre ++ t :: post ∧ (St.recalcTargets env pre s).1 = .ok ∧
        s0 = (St.recalcTargets env pre s).2 ∧ (evalTop env t s0).1 = .formulaError e tb ∧
        (St.recalcTargets env ts s).2 = (evalTop env t s0).2
  | [], s, t, e, tb, h => by simp [St.recalcTargets] at h
  | t0 :: ts, s, t, e, tb, h => by
    simp only [St.recalcTargets] at h ⊢
    cases hr : (evalTop env t0 s).1 with
    | formulaError e' tb' =>
      simp only [hr, RecalcRes.failed.injEq] at h ⊢
      obtain ⟨rfl, rfl, rfl⟩ := h
      exact ⟨[], ts, s, rfl, rfl, rfl, hr, rfl⟩
    | ok w =>
      simp only [hr] at h ⊢
      obtain ⟨pre, post, s0, h1, h2, h3, h4, h5⟩ := recalcTargets_failed env ts _ t e tb h
      refine ⟨t0 :: pre, post, s0, by rw [h1]; rfl, ?_, ?_, h4, h5⟩
      · simp only [St.recalcTargets, hr]; exact h2
      · simp only [St.recalcTargets, hr]; exact h3

theorem ext_unheld {s s' : St} (hx : Ext s s') {m : Node} (h : lookup s'.data m = none) : lookup s.data m = none := by
  cases hl : lookup s.data m with
  | none => rfl
  | some v => rw [hx m v hl] at h; cases h

/-- **the loop keeps the certificates, changes no held value, and executes only what held nothing** -/
theorem recalcTargets_ci (ho : StrictOrder lt) (hr : Ranked env lt) (hnc : NoCatchEnv env) :
    ∀ (ts : List Node) (s : St), (∀ t ∈ ts, env.alive t.1 = true) → CI env lt s →
      CI env lt (St.recalcTargets env ts s).2 ∧ Ext s (St.recalcTargets env ts s).2 ∧
      ∃ new, (St.recalcTargets env ts s).2.log = new ++ s.log ∧
        ∀ m ∈ new, env.cached m.1 = true → lookup s.data m = none
  | [], s, _, h => ⟨h, Ext.refl s, [], rfl, fun m hm => by cases hm⟩
  | t :: ts, s, hal, h => by
    have hci1 : CI env lt (evalTop env t s).2 := evalTop_ci ho hr hnc t (hal t (by simp)) h
    have hx1 : Ext s (evalTop env t s).2 := (h.gi.topCall ho hr h.quiet.stack h.quiet.idx t).2.2.2
    obtain ⟨new1, _, hl1, hn1, _⟩ := evalTop_log ho hr h.gi h.quiet.stack h.quiet.idx t
    simp only [St.recalcTargets]
    split
    · obtain ⟨hci2, hx2, new2, hl2, hn2⟩ :=
        recalcTargets_ci ho hr hnc ts (evalTop env t s).2 (fun u hu => hal u (by simp [hu])) hci1
      refine ⟨hci2, hx1.trans hx2, new2 ++ new1, by rw [hl2, hl1, List.append_assoc], ?_⟩
      intro m hm hc
      rcases List.mem_append.mp hm with hm | hm
      · exact ext_unheld hx1 (hn2 m hm hc)
      · exact hn1 m hm hc
    · exact ⟨hci1, hx1, new1, hl1, hn1⟩

theorem inpOf_of_ext {s s' : St} (hx : Ext s s') (hi : s'.inputs = s.inputs)
    (hheld : ∀ m ∈ s.inputs, (lookup s.data m).isSome = true) : inpOf s' = inpOf s := by
  funext m
  unfold inpOf
  rw [hi]
  split
  · rename_i hm
    have := hheld m hm
    cases hl : lookup s.data m with
    | none => rw [hl] at this; cases this
    | some v => exact hx m v hl
  · rfl

/-- the inputs after the loop – which elements, which values – are those before it -/
theorem inpOf_recalcTargets (ho : StrictOrder lt) (hr : Ranked env lt) (hnc : NoCatchEnv env)
    (ts : List Node) {s : St} (hal : ∀ t ∈ ts, env.alive t.1 = true) (h : CI env lt s) :
    inpOf (St.recalcTargets env ts s).2 = inpOf s :=
  inpOf_of_ext (recalcTargets_ci ho hr hnc ts s hal h).2.1 (recalcTargets_keeps env ts s).2 h.gi.inputsHeld

/-! ### the assignment -/

theorem setValue_accepted (s : St) (n : Node) (v : Val) (hv : ¬ (v = .none ∧ env.allowNone n.1 = false)) :
    (s.setValue env n v).2 = none := by
  unfold St.setValue
  have hcond : (decide (v = Val.none) && !env.allowNone n.1) = false := by
    cases h1 : decide (v = Val.none) <;> cases h2 : env.allowNone n.1 <;> simp_all
  simp only [hcond, Bool.false_eq_true, if_false]

theorem setValue_refused (s : St) (n : Node) (v : Val) (hv : v = .none ∧ env.allowNone n.1 = false) :
    s.setValue env n v = (s, some .noneNotAllowed) := by
  unfold St.setValue
  simp [hv.1, hv.2]

theorem setValue_mem_inputs (s : St) (n : Node) (v : Val) (hv : ¬ (v = .none ∧ env.allowNone n.1 = false)) :
    n ∈ (s.setValue env n v).1.inputs := by
  unfold St.setValue
  have hcond : (decide (v = Val.none) && !env.allowNone n.1) = false := by
    cases h1 : decide (v = Val.none) <;> cases h2 : env.allowNone n.1 <;> simp_all
  simp only [hcond, Bool.false_eq_true, if_false]
  split
  · rename_i hcn; simpa using hcn
  · simp

theorem setValue_log (s : St) (n : Node) (v : Val) : (s.setValue env n v).1.log = s.log := by
  unfold St.setValue
  split
  · rfl
  · simp only []
    have h1 : (s.clearValueAt n true).log = s.log := by
      unfold St.clearValueAt St.clearWithDescs St.dropValues St.rgRemoveReferred St.removeNodes
      repeat' split
      all_goals rfl
    have h2 : ∀ s2 : St, (s2.addNode (.elem n)).log = s2.log := by
      intro s2; unfold St.addNode; split <;> rfl
    rw [h2]; exact h1

/-- **definitional unfolding made explicit**: an accepted recalculating assignment is the lazy
assignment followed by the loop over the former leaf dependents, taken BEFORE the clearing -/
theorem setValueRecalc_eq (s : St) (n : Node) (v : Val) (hv : ¬ (v = .none ∧ env.allowNone n.1 = false)) :
    s.setValueRecalc env n v =
      ((St.recalcTargets env (s.startNodesFrom n) (s.setValue env n v).1).2,
       (St.recalcTargets env (s.startNodesFrom n) (s.setValue env n v).1).1) := by
  unfold St.setValueRecalc
  rw [setValue_accepted s n v hv]

theorem setValueRecalc_refused (s : St) (n : Node) (v : Val) (hv : v = .none ∧ env.allowNone n.1 = false) :
    s.setValueRecalc env n v = (s, .refused .noneNotAllowed) := by
  unfold St.setValueRecalc
  rw [setValue_refused s n v hv]

/-- the targets are graph nodes, hence elements of cells that exist and are cached -/
theorem startNodes_alive {s : St} (h : CI env lt s) (n t : Node) (ht : t ∈ s.startNodesFrom n) :
    env.alive t.1 = true ∧ env.cached t.1 = true ∧ (lookup s.data t).isSome = true := by
  have hm := (mem_startNodesFrom (fun x y hxy => (h.gi.edgeNodes x y hxy).2) n t).mp ht
  have hgn : GNode.elem t ∈ s.gn := by
    obtain ⟨y, hy⟩ := hm.2.1.pred (by intro h'; cases h'; exact hm.2.2.1 rfl)
    exact (h.gi.edgeNodes _ _ hy).2
  refine ⟨h.alive.nodes _ hgn, h.gi.elemCached t hgn, ?_⟩
  rcases h.gi.nodesHeld t hgn with h' | h'
  · exact h'
  · rw [h.quiet.stack] at h'; cases h'

end MxModel.Exec
