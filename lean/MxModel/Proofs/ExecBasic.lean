import MxModel.Exec.Mech
/-! Elementary facts about the cache association list and about which state fields each
primitive of the mechanism touches. -/
namespace MxModel.Exec

@[simp] theorem lookup_nil (n : Node) : lookup [] n = none := rfl

theorem lookup_cons (m : Node) (v : Val) (d : List (Node × Val)) (n : Node) :
    lookup ((m, v) :: d) n = if m = n then some v else lookup d n := rfl

theorem lookup_filter_ne (d : List (Node × Val)) (n m : Node) (h : m ≠ n) :
    lookup (d.filter (fun e => e.1 != n)) m = lookup d m := by
  induction d with
  | nil => rfl
  | cons e rest ih =>
    obtain ⟨k, v⟩ := e
    by_cases hk : k = n
    · subst hk
      have : ((k, v).1 != k) = false := by simp
      simp only [List.filter, this, lookup_cons, ih]
      simp [Ne.symm h]
    · have : ((k, v).1 != n) = true := by simp [hk]
      simp only [List.filter, this, lookup_cons, ih]

theorem lookup_insert (d : List (Node × Val)) (n : Node) (v : Val) (m : Node) :
    lookup (insert d n v) m = if n = m then some v else lookup d m := by
  unfold insert
  rw [lookup_cons]
  split
  · rfl
  · rename_i h; exact lookup_filter_ne d n m (Ne.symm h)

/-- the part of the state that values and the depth flag live in -/
structure SameCache (s s' : St) : Prop where
  data : s'.data = s.data
  inputs : s'.inputs = s.inputs
  hit : s'.hit = s.hit

theorem SameCache.refl (s : St) : SameCache s s := ⟨rfl, rfl, rfl⟩
theorem SameCache.trans {a b c : St} (h1 : SameCache a b) (h2 : SameCache b c) : SameCache a c :=
  ⟨h2.data.trans h1.data, h2.inputs.trans h1.inputs, h2.hit.trans h1.hit⟩

theorem sameCache_addNode (s : St) (a : GNode) : SameCache s (s.addNode a) := by
  unfold St.addNode; split <;> exact ⟨rfl, rfl, rfl⟩

theorem sameCache_addEdge (s : St) (a b : GNode) : SameCache s (s.addEdge a b) := by
  unfold St.addEdge
  have h := (sameCache_addNode s a).trans (sameCache_addNode (s.addNode a) b)
  simp only []
  split
  · exact h
  · exact ⟨h.data, h.inputs, h.hit⟩

theorem sameCache_removeNode (s : St) (a : GNode) : SameCache s (s.removeNode a) := ⟨rfl, rfl, rfl⟩

theorem sameCache_push (env : Env) (s : St) (n : Node) : SameCache s (s.push env n) := ⟨rfl, rfl, rfl⟩

theorem sameCache_hitEdge (s : St) (n : Node) : SameCache s (s.hitEdge n) := by
  unfold St.hitEdge; split
  · exact sameCache_addEdge _ _ _
  · exact SameCache.refl s

theorem sameCache_noteRead (s : St) (a : Bool) (r : RefId) : SameCache s (s.noteRead a r) := by
  unfold St.noteRead; split <;> exact ⟨rfl, rfl, rfl⟩

theorem sameCache_newExc (s : St) : SameCache s s.newExc := ⟨rfl, rfl, rfl⟩

theorem sameCache_rollback (s : St) (n : Node) : SameCache s (s.rollback n) := ⟨rfl, rfl, rfl⟩

/-- `drainRefs` touches only `refstack` and `rg` -/
structure DrainSame (s s' : St) : Prop where
  data : s'.data = s.data
  inputs : s'.inputs = s.inputs
  gn : s'.gn = s.gn
  ge : s'.ge = s.ge
  stack : s'.stack = s.stack
  idx : s'.idx = s.idx
  rolledback : s'.rolledback = s.rolledback
  curExc : s'.curExc = s.curExc
  excStack : s'.excStack = s.excStack
  hit : s'.hit = s.hit
  log : s'.log = s.log
  excCount : s'.excCount = s.excCount

theorem drainSame (env : Env) (s : St) (n : Node) : DrainSame s (s.drainRefs env n) := by
  unfold St.drainRefs
  split
  · exact ⟨rfl, rfl, rfl, rfl, rfl, rfl, rfl, rfl, rfl, rfl, rfl, rfl⟩
  · split <;> exact ⟨rfl, rfl, rfl, rfl, rfl, rfl, rfl, rfl, rfl, rfl, rfl, rfl⟩

theorem sameCache_pop (env : Env) (s : St) (n : Node) : SameCache s (s.pop env n) := by
  unfold St.pop
  have h1 : SameCache s s.dropFrame := ⟨rfl, rfl, rfl⟩
  have h2 : SameCache s.dropFrame (s.dropFrame.popEdge env n) := by
    unfold St.popEdge
    split
    · exact sameCache_addEdge _ _ _
    · split
      · exact sameCache_addNode _ _
      · exact SameCache.refl _
  have h3 : SameCache (s.dropFrame.popEdge env n) ((s.dropFrame.popEdge env n).drainRefs env n) := by
    unfold St.drainRefs
    split
    · exact ⟨rfl, rfl, rfl⟩
    · split <;> exact ⟨rfl, rfl, rfl⟩
  exact (h1.trans h2).trans h3

/-! ### `keepExc` touches only the exception identity -/

/-- everything except `curExc` / `excStack` is the same -/
structure ExcOnly (s s' : St) : Prop where
  data : s'.data = s.data
  inputs : s'.inputs = s.inputs
  gn : s'.gn = s.gn
  ge : s'.ge = s.ge
  rg : s'.rg = s.rg
  stack : s'.stack = s.stack
  idx : s'.idx = s.idx
  refstack : s'.refstack = s.refstack
  rolledback : s'.rolledback = s.rolledback
  excCount : s'.excCount = s.excCount
  hit : s'.hit = s.hit
  log : s'.log = s.log

@[simp] theorem keepExc_fst (s : St) (p : Res × St) : (keepExc s p).1 = p.1 := by
  unfold keepExc; split <;> rfl

theorem keepExc_excOnly (s : St) (p : Res × St) : ExcOnly p.2 (keepExc s p).2 := by
  unfold keepExc; split <;> exact ⟨rfl, rfl, rfl, rfl, rfl, rfl, rfl, rfl, rfl, rfl, rfl, rfl⟩

theorem keepExc_err (s : St) (p : Res × St) (e : Err) (h : p.1 = .err e) : keepExc s p = p := by
  unfold keepExc; rw [h]

theorem keepExc_ok (s : St) (p : Res × St) (v : Val) (h : p.1 = .ok v) :
    (keepExc s p).2 = { p.2 with curExc := s.curExc, excStack := s.excStack } := by
  unfold keepExc; rw [h]

theorem ExcOnly.sameCache {s s' : St} (h : ExcOnly s s') : SameCache s s' := ⟨h.data, h.inputs, h.hit⟩

end MxModel.Exec
