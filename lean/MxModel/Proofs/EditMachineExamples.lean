import MxModel.Proofs.EditMachineWF
/-!
# Admissible histories from source-level conditions; the example model

`admissible_of_sources`: for sources that are `NsNoCatch`, `NsScoped` and call nothing, EVERY history
is admissible – the regime hypotheses of the history theorems are then properties of the sources.

The example (`eP`, `eOps`): `Base.f = y * 2`, `Base.y = 1`, `Sub(Base)` overriding `y = 10`;
`Sub.f()` is 20 and `Base.f()` is 2; `Base.f` is redefined as `y * 3`; `Sub.f()` is 30.
-/
namespace MxModel.Edit
open MxModel.Exec MxModel.C02 MxModel.SM

theorem alloc_step (P : Params) (w : W) (op : Op) (h : AllocOK w.tabs w.sm) :
    AllocOK (step P w op).tabs (step P w op).sm := by
  cases op with
  | struct o =>
    simp only [step]
    split
    · cases hop : w.sm.apply P.kw o with
      | none => exact h
      | some st' => exact allocOK_grow w.tabs st' h.slots
    · exact h
  | eval q n key => simp only [step]; split <;> exact h
  | setValue q n key v => simp only [step]; split <;> exact h
  | clearAt q n key => exact h
  | clear q n => exact h
  | clearAll q n => exact h

theorem slots_step (P : Params) (w : W) (op : Op) : (step P w op).tabs.slots = w.tabs.slots := by
  cases op with
  | struct o =>
    simp only [step]
    split
    · cases hop : w.sm.apply P.kw o with
      | none => rfl
      | some st' => rfl
    · rfl
  | eval q n key => simp only [step]; split <;> rfl
  | setValue q n key v => simp only [step]; split <;> rfl
  | clearAt q n key => rfl
  | clear q n => rfl
  | clearAll q n => rfl

theorem slots_run (P : Params) : ∀ (ops : List Op) (w : W), (run P w ops).tabs.slots = w.tabs.slots := by
  intro ops
  induction ops with
  | nil => intro w; rfl
  | cons op rest ih =>
    intro w
    show (run P (step P w op) rest).tabs.slots = _
    rw [ih, slots_step]

/-- no attribute slot declared: every name is a plain name -/
theorem qualOf_none_of_no_slots (t : Tabs) (h : t.slots = []) (q : Path) (x : String) : qualOf t q x = none := by
  simp [qualOf, h]

theorem admissible_of_sources (P : Params) (lt : Node → Node → Prop)
    (hnc : ∀ v key, NsNoCatch (P.srcOf v key)) (hsc : ∀ v key, NsScoped (P.srcOf v key))
    (hcalls : ∀ v key, NsNoCalls (P.srcOf v key)) :
    ∀ (ops : List Op) (w : W), AllocOK w.tabs w.sm → w.tabs.slots = [] → Admissible P lt w ops := by
  intro ops
  induction ops with
  | nil => intro w _ _; trivial
  | cons op rest ih =>
    intro w ha hs
    have ha' := alloc_step P w op ha
    have hs' : (step P w op).tabs.slots = [] := by rw [slots_step, hs]
    exact ⟨wf_envOf P _ _ lt ha' hs' hnc hsc (ranked_envOf_noCalls P _ _ lt hcalls), ih _ ha' hs'⟩

/-! ## the example -/

/-- `… * k` applied to what the name `y` gave -/
def mulK (k : Int) : Option Val → SProg
  | some (.int v) => .ret (.int (v * k))
  | some .none => .raise (.user 3)
  | none => .raise (.user 4)

/-- payload 0: `def f(): return y * 2`; every other payload `k`: `return y * 3`.  Reference payloads
are their values. -/
def eP : Params where
  srcOf := fun v _ =>
    if v = 0 then SProg.readN "y" (mulK 2) (.raise (.user 3)) (.raise (.user 4))
    else SProg.readN "y" (mulK 3) (.raise (.user 3)) (.raise (.user 4))
  valOf := fun v => .int v
  flagOf := fun _ => true
  anOf := fun _ => false
  maxdepth := 50
  kw := []

def eOps : List Op := [
  .struct (.newSpace [] "Base" [] []),
  .struct (.newCells ["Base"] "f" "f" 0),
  .struct (.setRef ["Base"] "y" 1),
  .struct (.newSpace [] "Sub" [["Base"]] []),
  .struct (.setRef ["Sub"] "y" 10),
  .eval ["Sub"] "f" [],
  .eval ["Base"] "f" [],
  .struct (.setFormula ["Base"] "f" 1),
  .eval ["Sub"] "f" []]

theorem mulK_ok (k : Int) (o : Option Val) : NsNoCatch (mulK k o) ∧ NsScoped (mulK k o) ∧ NsNoCalls (mulK k o) := by
  cases o with
  | none => exact ⟨nsNoCatch_raise _, nsScoped_raise _, nsNoCalls_raise _⟩
  | some v =>
    cases v with
    | int i => exact ⟨nsNoCatch_ret _, nsScoped_ret _, nsNoCalls_ret _⟩
    | none => exact ⟨nsNoCatch_raise _, nsScoped_raise _, nsNoCalls_raise _⟩

theorem eP_noCatch (v : Nat) (key : Key) : NsNoCatch (eP.srcOf v key) := by
  simp only [eP]
  split <;> exact nsNoCatch_readN _ _ _ _ (fun o => (mulK_ok _ o).1) (nsNoCatch_raise _) (nsNoCatch_raise _)

theorem eP_scoped (v : Nat) (key : Key) : NsScoped (eP.srcOf v key) := by
  simp only [eP]
  split <;> exact nsScoped_readN _ _ _ _ (fun o => (mulK_ok _ o).2.1) (nsScoped_raise _) (nsScoped_raise _)

theorem eP_noCalls (v : Nat) (key : Key) : NsNoCalls (eP.srcOf v key) := by
  simp only [eP]
  split <;> exact nsNoCalls_readN _ _ _ _ (fun o => (mulK_ok _ o).2.2) (nsNoCalls_raise _) (nsNoCalls_raise _)

/-- every history over the example's sources is admissible -/
theorem eP_admissible (ops : List Op) : Admissible eP idLt {} ops :=
  admissible_of_sources eP idLt eP_noCatch eP_scoped eP_noCalls ops {} allocOK_empty rfl

theorem eOps_admissible : Admissible eP idLt {} eOps := eP_admissible eOps

/-- a history with deletions: `Base.f` is deleted after `Sub.f()` was evaluated; then `Sub` is
given a cells `f` of its own, `Base` is deleted as a whole -/
def dOps : List Op := [
  .struct (.newSpace [] "Base" [] []),
  .struct (.newCells ["Base"] "f" "f" 0),
  .struct (.setRef ["Base"] "y" 1),
  .struct (.newSpace [] "Sub" [["Base"]] []),
  .eval ["Sub"] "f" [],
  .struct (.delCells ["Base"] "f"),
  .struct (.newCells ["Base"] "f" "f" 1),
  .eval ["Sub"] "f" [],
  .struct (.delSpace ["Base"])]

theorem dOps_admissible : Admissible eP idLt {} dOps := eP_admissible dOps

end MxModel.Edit
