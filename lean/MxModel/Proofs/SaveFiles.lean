import MxModel.Kernels.SaveFiles
/-! Helper lemmas for the save step by file name (`Kernels/SaveFiles.lean`); theorems in `Props/C04.lean`. -/
namespace MxModel.SaveFiles

@[simp] theorem FS.set_same (fs : FS) (i : Nat) (s : Node) : (fs.set i s) i = s := by
  simp [FS.set]

theorem FS.set_other (fs : FS) {i j : Nat} (s : Node) (h : j ≠ i) : (fs.set i s) j = fs j := by
  simp [FS.set, h]

/-- the rotation that starts at `nth` touches no slot below `nth` -/
theorem incr_below (fs : FS) : ∀ (fuel nth j : Nat), j < nth → incr fs fuel nth j = fs j := by
  intro fuel
  induction fuel with
  | zero =>
    intro nth j h
    unfold incr
    split
    · rfl
    · exact FS.set_other _ _ (by omega)
  | succ fuel ih =>
    intro nth j h
    unfold incr
    split
    · rfl
    · simp only []
      rw [FS.set_other _ _ (by omega), FS.set_other _ _ (by omega)]
      exact ih (nth + 1) j (by omega)

/-- the slot the rotation starts at is free afterwards -/
theorem incr_start_absent (fs : FS) : ∀ (fuel nth : Nat), incr fs fuel nth nth = .absent := by
  intro fuel nth
  cases fuel with
  | zero =>
    unfold incr
    split
    · assumption
    · exact FS.set_same _ _ _
  | succ fuel =>
    unfold incr
    split
    · assumption
    · exact FS.set_same _ _ _

/-- no slot beyond `nth + fuel` (= `max_backups`) is touched -/
theorem incr_beyond (fs : FS) : ∀ (fuel nth j : Nat), nth + fuel < j → incr fs fuel nth j = fs j := by
  intro fuel
  induction fuel with
  | zero =>
    intro nth j h
    unfold incr
    split
    · rfl
    · exact FS.set_other _ _ (by omega)
  | succ fuel ih =>
    intro nth j h
    unfold incr
    split
    · rfl
    · simp only []
      rw [FS.set_other _ _ (by omega), FS.set_other _ _ (by omega)]
      exact ih (nth + 1) j (by omega)

/-- an unbroken run of existing slots `nth .. j` moves up by one -/
theorem incr_shift (fs : FS) : ∀ (fuel nth j : Nat), nth ≤ j → j < nth + fuel →
    (∀ i, nth ≤ i → i ≤ j → fs i ≠ .absent) → incr fs fuel nth (j + 1) = fs j := by
  intro fuel
  induction fuel with
  | zero => intro nth j h1 h2; omega
  | succ fuel ih =>
    intro nth j h1 h2 hex
    have hn : fs nth ≠ .absent := hex nth (Nat.le_refl _) h1
    unfold incr
    rw [if_neg hn]
    rw [FS.set_other _ _ (by omega)]
    by_cases hj : j = nth
    · subst hj
      rw [FS.set_same]
      exact incr_below fs fuel (j + 1) j (by omega)
    · rw [FS.set_other _ _ (by omega)]
      exact ih (nth + 1) j (by omega) (by omega) (fun i a b => hex i (by omega) b)

/-- the rotation stops at the first missing slot: nothing behind a gap moves -/
theorem incr_stops_at_gap (fs : FS) : ∀ (fuel nth k j : Nat), nth ≤ k → fs k = .absent → k < j →
    incr fs fuel nth j = fs j := by
  intro fuel
  induction fuel with
  | zero =>
    intro nth k j h1 h2 h3
    unfold incr
    split
    · rfl
    · exact FS.set_other _ _ (by omega)
  | succ fuel ih =>
    intro nth k j h1 h2 h3
    unfold incr
    split
    · rfl
    · rename_i hn
      have : nth ≠ k := by
        intro e; subst e; exact hn h2
      simp only []
      rw [FS.set_other _ _ (by omega), FS.set_other _ _ (by omega)]
      exact ih (nth + 1) k j (by omega) h2 h3

theorem upsert_fresh (e : Entry) : ∀ (es : List Entry), (∀ x ∈ es, x.1 ≠ e.1) → upsert e es = es ++ [e] := by
  intro es
  induction es with
  | nil => intro _; rfl
  | cons x xs ih =>
    intro h
    have hx : x.1 ≠ e.1 := h x (List.mem_cons_self ..)
    simp only [upsert, if_neg hx, List.cons_append]
    rw [ih (fun y hy => h y (List.mem_cons_of_mem _ hy))]

/-- writing names that are pairwise different and not yet there appends them in order -/
theorem writeAll_fresh (g : Nat) : ∀ (names : List String) (old : List Entry), names.Nodup →
    (∀ n ∈ names, ∀ x ∈ old, x.1 ≠ n) → writeAll g names old = old ++ names.map (fun n => (n, g)) := by
  intro names
  induction names with
  | nil => intro old _ _; simp [writeAll]
  | cons n ns ih =>
    intro old hnd hfresh
    have hn : ∀ x ∈ old, x.1 ≠ (n, g).1 := fun x hx => hfresh n (List.mem_cons_self ..) x hx
    have hnd' := List.nodup_cons.mp hnd
    show writeAll g ns (upsert (n, g) old) = _
    rw [upsert_fresh (n, g) old hn, ih (old ++ [(n, g)]) hnd'.2]
    · simp [List.append_assoc]
    · intro m hm x hx
      rcases List.mem_append.mp hx with h | h
      · exact hfresh m (List.mem_cons_of_mem _ hm) x h
      · have : x = (n, g) := by simpa using h
        subst this
        intro e
        have e' : n = m := e
        exact hnd'.1 (e' ▸ hm)

/-- an entry that this write does not produce survives a write in place -/
theorem upsert_keeps (e x : Entry) : ∀ (es : List Entry), x ∈ es → x.1 ≠ e.1 → x ∈ upsert e es := by
  intro es
  induction es with
  | nil => intro h; cases h
  | cons y ys ih =>
    intro h hne
    simp only [upsert]
    split
    · rename_i hy
      rcases List.mem_cons.mp h with h | h
      · subst h; exact absurd hy hne
      · exact List.mem_cons_of_mem _ h
    · rcases List.mem_cons.mp h with h | h
      · subst h; exact List.mem_cons_self ..
      · exact List.mem_cons_of_mem _ (ih h hne)

theorem writeAll_keeps (g : Nat) (x : Entry) : ∀ (names : List String) (old : List Entry),
    x ∈ old → x.1 ∉ names → x ∈ writeAll g names old := by
  intro names
  induction names with
  | nil => intro old h _; simpa [writeAll] using h
  | cons n ns ih =>
    intro old h hn
    show x ∈ writeAll g ns (upsert (n, g) old)
    have h1 : x.1 ≠ n := fun e => hn (by simp [e])
    exact ih _ (upsert_keeps (n, g) x old h h1) (fun m => hn (List.mem_cons_of_mem _ m))

end MxModel.SaveFiles
