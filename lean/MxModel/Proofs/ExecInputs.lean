import MxModel.Proofs.ExecCertRunOps
/-!
# User inputs and the reference graph

`RgNoInputs s`: no element that holds a user-assigned value is a reader in the reference graph.
An edge `(r, n)` enters the reference graph when the frame of the cached element `n` is popped – `n`
was executing, so it held nothing and was no input; assignments clear the element first.  The
invariant holds in every reachable state of the thirteen-operation language (`run_rgNoInputs`).

From it: `clear_attr_referrers(r)` – part of every reference edit – never removes an input, and
neither does the namespace notification (`clear_all_values(clear_input=False)`): `kept_input_*`.
(This is the defect class of the repair 87e96f6.)
-/
namespace MxModel.Exec

def RgNoInputs (s : St) : Prop := ∀ e ∈ s.rg, e.2 ∉ s.inputs

/-! ### through an evaluation -/

structure RN (s : St) : Prop where
  rg : RgNoInputs s
  held : ∀ m ∈ s.inputs, (lookup s.data m).isSome = true

theorem RN.of_same {s s' : St} (h : RN s) (hrg : s'.rg = s.rg) (hin : s'.inputs = s.inputs)
    (hk : ∀ m, (lookup s.data m).isSome = true → (lookup s'.data m).isSome = true) : RN s' :=
  ⟨fun e he => by rw [hin]; exact h.rg e (hrg ▸ he), fun m hm => hk m (h.held m (hin ▸ hm))⟩

theorem RN.of_data {s s' : St} (h : RN s) (hrg : s'.rg = s.rg) (hin : s'.inputs = s.inputs)
    (hd : s'.data = s.data) : RN s' :=
  h.of_same hrg hin (fun m hm => by rw [hd]; exact hm)

def CalleeRN (f : Node → St → Res × St) : Prop :=
  ∀ n s, RN s → RN (f n s).2 ∧ (f n s).2.inputs = s.inputs

def EvalRN (env : Env) (ef : Node → St → Res × St) : Prop :=
  ∀ n s, RN s → (env.cached n.1 = true → n ∉ s.inputs) → RN (ef n s).2 ∧ (ef n s).2.inputs = s.inputs

variable {env : Env}

theorem runBody_rn (f : Node → St → Res × St) (hf : CalleeRN f) :
    ∀ (p : Prog) (s : St), RN s → RN (runBody env f p s).2 ∧ (runBody env f p s).2.inputs = s.inputs := by
  intro p
  induction p with
  | ret v => intro s h; exact ⟨h, rfl⟩
  | raise e => intro s h; exact ⟨h.of_data rfl rfl rfl, rfl⟩
  | reraise e => intro s h; exact ⟨h, rfl⟩
  | read a r k ih =>
    intro s h
    simp only [runBody]
    have hsc := sameCache_noteRead s (a && (env.refs r).isSome) r
    have hrg : (s.noteRead (a && (env.refs r).isSome) r).rg = s.rg := by unfold St.noteRead; split <;> rfl
    obtain ⟨h1, h2⟩ := ih _ _ (h.of_data hrg hsc.inputs hsc.data)
    exact ⟨h1, h2.trans hsc.inputs⟩
  | call n k ih =>
    intro s h
    simp only [runBody]
    obtain ⟨h1, h2⟩ := hf n s h
    obtain ⟨h3, h4⟩ := ih _ _ h1
    exact ⟨h3, h4.trans h2⟩

theorem evalNode_rn (ef : Node → St → Res × St) (hef : EvalRN env ef) : CalleeRN (evalNode env ef) := by
  intro n s h
  have hkeep : ∀ p : Res × St, RN p.2 ∧ p.2.inputs = s.inputs →
      RN (keepExc s p).2 ∧ (keepExc s p).2.inputs = s.inputs := by
    intro p hp
    have ho := keepExc_excOnly s p
    exact ⟨hp.1.of_data ho.rg ho.inputs ho.data, ho.inputs.trans hp.2⟩
  unfold evalNode
  split
  · split
    · rename_i hc
      cases hl : lookup s.data n with
      | some v =>
        have hsc := sameCache_hitEdge s n
        exact ⟨h.of_data (rg_hitEdge s n) hsc.inputs hsc.data, hsc.inputs⟩
      | none =>
        refine hkeep _ (hef n s h (fun _ hin => ?_))
        have := h.held n hin
        rw [hl] at this; cases this
    · rename_i hc
      exact hkeep _ (hef n s h (fun h' => absurd h' hc))
  · exact ⟨h.of_data rfl rfl rfl, rfl⟩

theorem mem_rg_pop (s : St) (n : Node) (e : RefId × Node) (he : e ∈ (s.pop env n).rg) :
    e ∈ s.rg ∨ (env.cached n.1 = true ∧ e.2 = n) := by
  unfold St.pop at he
  have h1 : (s.dropFrame.popEdge env n).rg = s.rg := by
    unfold St.popEdge; split
    · exact rg_addEdge _ _ _
    · split
      · exact rg_addNode _ _
      · rfl
  generalize s.dropFrame.popEdge env n = s1 at he h1
  unfold St.drainRefs at he
  split at he
  · rename_i hc
    simp only [List.mem_append, List.mem_filter] at he
    rcases he with he | ⟨he, _⟩
    · exact Or.inl (h1 ▸ he)
    · rw [mem_eraseDups, List.mem_map] at he
      obtain ⟨r, _, rfl⟩ := he
      exact Or.inr ⟨hc, rfl⟩
  · split at he <;> exact Or.inl (h1 ▸ he)

theorem RN.pop {s : St} (h : RN s) (n : Node) (hn : env.cached n.1 = true → n ∉ s.inputs) :
    RN (s.pop env n) ∧ (s.pop env n).inputs = s.inputs := by
  have hsc := sameCache_pop env s n
  refine ⟨⟨?_, fun m hm => by rw [hsc.data]; exact h.held m (hsc.inputs ▸ hm)⟩, hsc.inputs⟩
  intro e he
  rw [hsc.inputs]
  rcases mem_rg_pop s n e he with h1 | ⟨hc, h2⟩
  · exact h.rg e h1
  · rw [h2]; exact hn hc

theorem runN_rn : ∀ d, EvalRN env (runN env d) := by
  intro d
  induction d with
  | zero => intro n s h _; exact ⟨h.of_data rfl rfl rfl, rfl⟩
  | succ d ih =>
    intro n s h hn
    have hb := runBody_rn (env := env) _ (evalNode_rn _ ih) (env.formula n) (s.push env n)
      (h.of_data rfl rfl rfl)
    simp only [runN]
    generalize runBody env (evalNode env (runN env d)) (env.formula n) (s.push env n) = p at hb
    obtain ⟨r, s1⟩ := p
    simp only [] at hb ⊢
    obtain ⟨h1, hi1⟩ := hb
    have hi1' : s1.inputs = s.inputs := hi1
    cases r with
    | err e => exact ⟨h1.of_data rfl rfl rfl, hi1'⟩
    | ok v =>
      simp only []
      split
      · split
        · exact ⟨h1.of_data rfl rfl rfl, hi1'⟩
        · have h2 : RN ({ s1 with data := insert s1.data n v } : St) :=
            h1.of_same rfl rfl (fun m hm => by
              show (lookup (insert s1.data n v) m).isSome = true
              rw [lookup_insert]; split
              · rfl
              · exact hm)
          obtain ⟨h3, h4⟩ := h2.pop n (fun hc => by show n ∉ s1.inputs; rw [hi1']; exact hn hc)
          exact ⟨h3, h4.trans hi1'⟩
      · obtain ⟨h3, h4⟩ := h1.pop n (fun hc => by rw [hi1']; exact hn hc)
        exact ⟨h3, h4.trans hi1'⟩

theorem evalTop_rgNoInputs (n : Node) (s : St) (h : RgNoInputs s)
    (hheld : ∀ m ∈ s.inputs, (lookup s.data m).isSome = true) : RgNoInputs (evalTop env n s).2 := by
  unfold evalTop
  cases hl : (if env.cached n.1 = true then lookup s.data n else none) with
  | some v => exact h
  | none =>
    simp only []
    have := runN_rn (env := env) (env.maxdepth + 1) n s ⟨h, hheld⟩ (fun hc hin => by
      simp only [hc, if_true] at hl
      have := hheld n hin
      rw [hl] at this; cases this)
    generalize runN env (env.maxdepth + 1) n s = p at this
    obtain ⟨r, s1⟩ := p
    cases r <;> exact this.1.rg

/-! ### through the clearing routines -/

theorem RgNoInputs.of_clr {s s' : St} {R : List GNode} {D : RefId × Node → Prop} (h : RgNoInputs s)
    (hc : Clr s R D s') : RgNoInputs s' :=
  fun e he hin => h e (hc.rgSub e he) ((hc.mem_inputs _).mp hin).1

/-- what the survival of inputs needs of a state -/
structure InpInv (env : Env) (s : St) : Prop where
  noPreds : ∀ a m, (a, GNode.elem m) ∈ s.ge → m ∉ s.inputs
  rgNo : RgNoInputs s
  edgeOK : EdgeOK s
  inpCached : ∀ m ∈ s.inputs, env.cached m.1 = true

theorem InpInv.of_clr {s s' : St} {R : List GNode} {D : RefId × Node → Prop} (h : InpInv env s)
    (hc : Clr s R D s') : InpInv env s' :=
  ⟨fun a m he hin => h.noPreds a m ((hc.mem_ge _).mp he).1 ((hc.mem_inputs _).mp hin).1,
   h.rgNo.of_clr hc, hc.edgeOK h.edgeOK, fun m hm => h.inpCached m ((hc.mem_inputs _).mp hm).1⟩

theorem InpInv.of_ci {lt : Node → Node → Prop} {s : St} (h : CI env lt s) (hr : RgNoInputs s) : InpInv env s :=
  ⟨h.gi.inputsNoPreds, hr, h.gi.edgeOK, fun m hm => (h.gi.heldNodes m (h.gi.inputsHeld m hm)).2⟩

/-- an input is a descendant of nothing but itself -/
theorem InpInv.not_reach {s : St} (h : InpInv env s) (a : GNode) (m : Node) (hin : m ∈ s.inputs)
    (hne : a ≠ .elem m) : ¬ Reach s.ge a (.elem m) := by
  intro hr
  obtain ⟨y, hy⟩ := hr.pred (fun h' => hne h'.symm)
  exact h.noPreds y m hy hin

/-- the namespace notification keeps every input -/
theorem kept_input_notifyAll {s : St} (h : InpInv env s) (L : List CellId) (m : Node) (hin : m ∈ s.inputs) :
    Kept s (s.notifyAll env L) (.elem m) := by
  refine kept_notifyAll env s h.edgeOK L _ ?_
  intro c' _ a ha
  refine h.not_reach a m hin ?_
  rintro rfl
  rcases ha with ⟨_, n, hn, _, _, hni⟩ | ⟨hc, _, hcell⟩
  · cases hn; exact hni hin
  · have := h.inpCached m hin
    simp only [GNode.cell] at hcell
    rw [hcell, hc] at this; cases this

theorem kept_clearAttrReferrers (s : St) (he : EdgeOK s) (r : RefId) (x : GNode)
    (hx : ∀ n, (r, n) ∈ s.rg → ¬ Reach s.ge (.elem n) x) : Kept s (s.clearAttrReferrers r) x := by
  unfold St.clearAttrReferrers
  generalize hreaders : (s.rg.filter (fun e => e.1 == r)).map (·.2) = readers
  have hrd : ∀ n, n ∈ readers → (r, n) ∈ s.rg := by
    intro n hn
    rw [← hreaders] at hn
    simp only [List.mem_map, List.mem_filter, beq_iff_eq] at hn
    obtain ⟨e, ⟨he', h1⟩, h2⟩ := hn
    obtain ⟨a, b⟩ := e; simp only [] at h1 h2; subst h1; subst h2; exact he'
  simp only []
  have h0 : Kept s ({ s with rg := s.rg.filter (fun e => e.1 != r && !readers.contains e.2) } : St) x :=
    ⟨id, fun _ _ => ⟨rfl, Iff.rfl⟩⟩
  refine h0.trans ?_
  refine kept_fold (fun s n => s.clearWithDescs n) (fun _ n a => a = .elem n)
    (fun s n x _ h => kept_clearWithDescs s n x (h _ rfl))
    (fun s n he => by obtain ⟨R, h, _⟩ := clr_clearWithDescs s (fun _ => False) he n; exact ⟨R, h⟩)
    (fun _ _ _ _ _ _ h => h) readers _ x he ?_
  rintro n hn a rfl
  exact hx n (hrd n hn)

theorem kept_input_clearAttrReferrers {s : St} (h : InpInv env s) (r : RefId) (m : Node) (hin : m ∈ s.inputs) :
    Kept s (s.clearAttrReferrers r) (.elem m) := by
  refine kept_clearAttrReferrers s h.edgeOK r _ ?_
  intro n hn
  refine h.not_reach _ m hin ?_
  intro heq; cases heq
  exact h.rgNo _ hn hin

theorem kept_input_delRef {s : St} (h : InpInv env s) (r : RefId) (m : Node) (hin : m ∈ s.inputs) :
    Kept s (s.delRef env r) (.elem m) := by
  unfold St.delRef
  have k1 : Kept s (s.notifyObservers env r) (.elem m) := kept_input_notifyAll h (env.observers r) m hin
  obtain ⟨R, hc, _⟩ := clr_notifyObservers env s (fun _ => False) h.edgeOK r
  exact k1.trans (kept_input_clearAttrReferrers (h.of_clr hc) r m (((k1.data m rfl).2).mpr hin))

theorem kept_input_setRef {s : St} (h : InpInv env s) (r : RefId) (m : Node) (hin : m ∈ s.inputs) :
    Kept s (s.setRef env r) (.elem m) := by
  unfold St.setRef
  split
  · unfold St.changeRef St.newRef
    have k1 := kept_input_delRef h r m hin
    obtain ⟨R1, c1, _⟩ := clr_delRef env s h.edgeOK r
    have h1 := h.of_clr c1
    have i1 := ((k1.data m rfl).2).mpr hin
    have k2 : Kept (s.delRef env r) ((s.delRef env r).notifyObservers env r) (.elem m) :=
      kept_input_notifyAll h1 (env.observers r) m i1
    obtain ⟨R2, c2, _⟩ := clr_notifyObservers env (s.delRef env r) (fun _ => False) h1.edgeOK r
    have h2 := h1.of_clr c2
    have i2 := ((k2.data m rfl).2).mpr i1
    exact (k1.trans k2).trans (kept_input_clearAttrReferrers h2 r m i2)
  · exact kept_input_notifyAll h (env.observers r) m hin

/-- `clear_obj` of ANOTHER cells keeps the input -/
theorem kept_input_clearObj {s : St} (h : InpInv env s) (c : CellId) (m : Node) (hin : m ∈ s.inputs)
    (hne : m.1 ≠ c) : Kept s (s.clearObj c) (.elem m) := by
  refine kept_clearObj s c _ ?_
  intro a _ hac
  refine h.not_reach a m hin ?_
  rintro rfl
  exact hne hac

theorem kept_input_delCell {s : St} (h : InpInv env s) (c : CellId) (m : Node) (hin : m ∈ s.inputs)
    (hne : m.1 ≠ c) : Kept s (s.delCell env c) (.elem m) := by
  unfold St.delCell
  rw [notifySiblings_eq]
  have k1 := kept_input_clearObj h c m hin hne
  obtain ⟨R1, c1, _, _⟩ := clr_clearObj s (fun _ => False) h.edgeOK c
  exact k1.trans (kept_input_notifyAll (h.of_clr c1) _ m (((k1.data m rfl).2).mpr hin))

theorem kept_input_newCell {s : St} (h : InpInv env s) (c : CellId) (m : Node) (hin : m ∈ s.inputs) :
    Kept s (s.newCell env c) (.elem m) := by
  unfold St.newCell
  rw [notifySiblings_eq]
  exact kept_input_notifyAll h _ m hin

end MxModel.Exec

/-! ### every reachable state -/
namespace MxModel.C02
open MxModel.Exec

theorem step_rgNoInputs {lt : Node → Node → Prop} (st : Env × St) (op : Op) (h : CI st.1 lt st.2)
    (hr : RgNoInputs st.2) : RgNoInputs (step st op).2 := by
  obtain ⟨env, s⟩ := st
  have he := h.gi.edgeOK
  cases op with
  | eval n =>
    simp only [step]
    split
    · exact evalTop_rgNoInputs n s hr h.gi.inputsHeld
    · exact hr
  | setValue n v =>
    simp only [step]
    split
    · obtain ⟨R, hc, _⟩ := clr_clearValueAt s (fun _ => False) he n true
      have h1 := hr.of_clr hc
      have hci := clearValueAt_ci h n true
      have hun := clearValueAt_unheld h.gi n
      unfold St.setValue
      split
      · exact hr
      · simp only []
        generalize s.clearValueAt n true = s1 at h1 hci hun
        have hrg : (({ s1 with data := insert s1.data n v } : St).addNode (.elem n)).rg = s1.rg := rg_addNode _ _
        have hin : (({ s1 with data := insert s1.data n v } : St).addNode (.elem n)).inputs = s1.inputs :=
          (sameCache_addNode _ _).inputs
        intro e hee hmem
        have he1 : e ∈ s1.rg := hrg ▸ hee
        have hmem' : e.2 ∈ s1.inputs ∨ e.2 = n := by
          simp only [hin] at hmem
          split at hmem
          · exact Or.inl hmem
          · simpa using hmem
        rcases hmem' with hm | hm
        · exact h1 e he1 hm
        · have := hci.rgHeld e he1
          rw [hm, hun] at this; cases this
    · exact hr
  | clearAt n => obtain ⟨R, hc, _⟩ := clr_clearValueAt s (fun _ => False) he n true; exact hr.of_clr hc
  | clear c => obtain ⟨R, hc, _⟩ := clr_clearAllValues s (fun _ => False) he c false; exact hr.of_clr hc
  | clearAll c => obtain ⟨R, hc, _⟩ := clr_clearAllValues s (fun _ => False) he c true; exact hr.of_clr hc
  | setRef r v => obtain ⟨R, D, hc, _, _⟩ := clr_setRef env s he r; exact hr.of_clr hc
  | delRef r =>
    simp only [step]
    split
    · obtain ⟨R, hc, _⟩ := clr_delRef env s he r; exact hr.of_clr hc
    · exact hr
  | setFormula c f =>
    simp only [step]
    split
    · obtain ⟨R, hc, _, _⟩ := clr_clearObj s (fun _ => False) he c; exact hr.of_clr hc
    · exact hr
  | setCached c b =>
    simp only [step]
    split
    · exact hr
    · obtain ⟨R, hc, _, _⟩ := clr_clearObj s (fun _ => False) he c; exact hr.of_clr hc
  | delCell c =>
    simp only [step]
    split
    · obtain ⟨R1, R2, _, _, hc, _, _⟩ := delCell_clr (env := env) s he c; exact hr.of_clr hc
    · exact hr
  | newCell c f b an =>
    simp only [step]
    split
    · exact hr
    · obtain ⟨R, hc, _⟩ := clr_notifyAll env s (fun _ => False) he (env.siblings c); exact hr.of_clr hc
  | maxdepth k => exact hr
  | admin a => exact hr

/-- **in every reachable state no input is a reader in the reference graph** -/
theorem run_rgNoInputs (lt : Node → Node → Prop) (ho : StrictOrder lt) : ∀ (ops : List Op) (st : Env × St),
    WF st.1 lt → CI st.1 lt st.2 → RgNoInputs st.2 → Admissible lt st ops → RgNoInputs (run st ops).2 := by
  intro ops
  induction ops with
  | nil => intro st _ _ hr _; exact hr
  | cons op rest ih =>
    intro st hw h hr hadm
    exact ih (step st op) hadm.1 (step_ci lt ho st op hw h) (step_rgNoInputs st op h hr) hadm.2

end MxModel.C02
