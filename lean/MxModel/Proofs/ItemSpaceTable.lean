import MxModel.Kernels.ItemSpace
/-! Invariant of the table of dynamic spaces and its preservation by every operation (C07). -/
namespace MxModel.ItemSpace

/-- what holds of every table modelx can reach -/
structure Inv (t : Table) : Prop where
  addrNodup : (t.live.map (·.addr)).Nodup
  implNodup : (t.live.map (·.impl)).Nodup
  implLt : ∀ e ∈ t.live, e.impl < t.nextImpl
  cached : ∀ e ∈ t.live, (e.addr, e.handle) ∈ t.cache
  cacheKeys : (t.cache.map (·.1)).Nodup
  cacheVals : (t.cache.map (·.2)).Nodup
  cacheLt : ∀ c ∈ t.cache, c.2 < t.nextHandle

/-- one or several primitive steps: the invariant is kept, no interface is forgotten, and
implementations are never re-used -/
structure Evolves (t t' : Table) : Prop where
  inv : Inv t → Inv t'
  cache : ∀ c ∈ t.cache, c ∈ t'.cache
  next : t.nextImpl ≤ t'.nextImpl

theorem Evolves.refl (t : Table) : Evolves t t := ⟨id, fun _ h => h, Nat.le_refl _⟩

theorem Evolves.trans {a b c : Table} (h1 : Evolves a b) (h2 : Evolves b c) : Evolves a c :=
  ⟨fun h => h2.inv (h1.inv h), fun x hx => h2.cache x (h1.cache x hx), Nat.le_trans h1.next h2.next⟩

theorem inv_empty : Inv {} :=
  ⟨by simp, by simp, by simp, by simp, by simp, by simp, by simp⟩

/-! ### deletion -/

theorem evolves_filter (t : Table) (p : Entry → Bool) :
    Evolves t { t with live := t.live.filter p } := by
  refine ⟨fun h => ?_, fun _ hc => hc, Nat.le_refl _⟩
  exact
    { addrNodup := (h.addrNodup).sublist (List.Sublist.map _ List.filter_sublist)
      implNodup := (h.implNodup).sublist (List.Sublist.map _ List.filter_sublist)
      implLt := fun e he => h.implLt e (List.mem_filter.mp he).1
      cached := fun e he => h.cached e (List.mem_filter.mp he).1
      cacheKeys := h.cacheKeys
      cacheVals := h.cacheVals
      cacheLt := h.cacheLt }

theorem evolves_clear (t : Table) : Evolves t { t with live := [] } := by
  refine ⟨fun h => ?_, fun _ hc => hc, Nat.le_refl _⟩
  exact ⟨by simp, by simp, by simp, by simp, h.cacheKeys, h.cacheVals, h.cacheLt⟩

theorem evolves_deleteAt (t : Table) (a : Addr) : Evolves t (deleteAt t a) := evolves_filter t _

theorem evolves_deleteAll : ∀ (l : List Addr) (t : Table), Evolves t (deleteAll t l)
  | [], t => Evolves.refl t
  | a :: as, t => (evolves_deleteAt t a).trans (evolves_deleteAll as (deleteAt t a))

theorem deleteAt_sub (t : Table) (a : Addr) : ∀ e ∈ (deleteAt t a).live, e ∈ t.live :=
  fun _ he => (List.mem_filter.mp he).1

theorem deleteAll_sub : ∀ (l : List Addr) (t : Table), ∀ e ∈ (deleteAll t l).live, e ∈ t.live
  | [], _, _, he => he
  | a :: as, t, e, he => deleteAt_sub t a e (deleteAll_sub as (deleteAt t a) e he)

/-- an entry that survives `deleteAll` lies below none of the deleted addresses -/
theorem deleteAll_spared : ∀ (l : List Addr) (t : Table), ∀ e ∈ (deleteAll t l).live, ∀ a ∈ l,
    ¬ (e.addr.root = a.root ∧ a.dkey.isPrefixOf e.addr.dkey = true)
  | [], _, _, _, _, ha => by cases ha
  | b :: bs, t, e, he, a, ha => by
    rcases List.mem_cons.mp ha with rfl | ha
    · have := deleteAll_sub bs (deleteAt t a) e he
      have hf := (List.mem_filter.mp this).2
      intro hc
      simp [hc.1, hc.2] at hf
    · exact deleteAll_spared bs (deleteAt t b) e he a ha

theorem evolves_clearItems (t : Table) (a : Addr) : Evolves t (clearItems t a) := evolves_deleteAll _ t

theorem evolves_clearAll (defs : Defs) (t : Table) (a : Addr) : Evolves t (clearAll defs t a) := by
  unfold clearAll
  split
  · split
    · exact Evolves.refl t
    · exact evolves_filter t _
  · exact evolves_filter t _

theorem evolves_clearSubsRootItems (t : Table) (b : SId) : Evolves t (clearSubsRootItems t b) :=
  evolves_deleteAll _ t

theorem evolves_nsChange (t : Table) (b : SId) : Evolves t (nsChange t b) :=
  (evolves_clearItems t _).trans (evolves_clearSubsRootItems _ b)

theorem evolves_dynRefsChange (t : Table) (b : SId) : Evolves t (dynRefsChange t b) := evolves_deleteAll _ t

theorem evolves_applyEdit (t : Table) (k : EditKind) (b : SId) : Evolves t (applyEdit t k b) := by
  cases k <;> simp only [applyEdit]
  · exact (evolves_nsChange t b).trans (evolves_clearSubsRootItems _ b)
  · exact evolves_clearSubsRootItems t b
  · exact (evolves_clearSubsRootItems t b).trans (evolves_nsChange _ b)
  · exact evolves_nsChange t b
  · exact evolves_nsChange t b
  · exact evolves_nsChange t b
  · exact (evolves_nsChange t b).trans (evolves_dynRefsChange _ b)
  · exact (evolves_nsChange t b).trans (evolves_dynRefsChange _ b)
  · exact (evolves_nsChange t b).trans (evolves_dynRefsChange _ b)
  · exact (evolves_clearItems t _).trans (evolves_clearSubsRootItems _ b)
  · exact evolves_clear t

theorem evolves_foldl_nsChange : ∀ (l : List SDef) (t : Table),
    Evolves t (l.foldl (fun t x => nsChange t x.id) t)
  | [], t => Evolves.refl t
  | x :: xs, t => (evolves_nsChange t x.id).trans (evolves_foldl_nsChange xs _)

theorem evolves_foldl_clearItems : ∀ (l : List SDef) (t : Table),
    Evolves t (l.foldl (fun t x => clearItems (clearSubsRootItems t x.id) ⟨x.id, []⟩) t)
  | [], t => Evolves.refl t
  | x :: xs, t => ((evolves_clearSubsRootItems t x.id).trans (evolves_clearItems _ _)).trans
      (evolves_foldl_clearItems xs _)

theorem evolves_delSpace (defs : Defs) (t : Table) (d : SDef) : Evolves t (delSpace defs t d).2 := by
  unfold delSpace
  dsimp only
  split
  · exact ((evolves_nsChange t _).trans (evolves_foldl_nsChange _ _)).trans (evolves_foldl_clearItems _ _)
  · exact (evolves_foldl_nsChange _ _).trans (evolves_foldl_clearItems _ _)

/-! ### creation -/

theorem cacheGet_mem {c : List (Addr × Nat)} {a : Addr} {h : Nat} (hg : cacheGet c a = some h) : (a, h) ∈ c := by
  induction c with
  | nil => cases hg
  | cons x rest ih =>
    obtain ⟨k, v⟩ := x
    unfold cacheGet at hg
    split at hg
    · rename_i hk; cases hg; subst hk; exact List.mem_cons_self
    · exact List.mem_cons_of_mem _ (ih hg)

theorem cacheGet_none {c : List (Addr × Nat)} {a : Addr} (hg : cacheGet c a = none) : a ∉ c.map (·.1) := by
  induction c with
  | nil => simp
  | cons x rest ih =>
    obtain ⟨k, v⟩ := x
    unfold cacheGet at hg
    split at hg
    · cases hg
    · rename_i hk
      simp only [List.map_cons, List.mem_cons, not_or]
      exact ⟨fun c => hk c.symm, ih hg⟩

theorem evolves_addEntry (t : Table) (a : Addr) (base : SId) (isItem : Bool) (sig : Option Sig)
    (sel : Option Path) : Evolves t (addEntry t a base isItem sig sel) := by
  unfold addEntry
  split
  · exact Evolves.refl t
  · rename_i hany
    have hfresh : a ∉ t.live.map (·.addr) := by
      intro hc
      obtain ⟨e, he, rfl⟩ := List.mem_map.mp hc
      exact hany (List.any_eq_true.mpr ⟨e, he, by simp⟩)
    split
    · rename_i h hg
      refine ⟨fun hi => ?_, fun _ hc => hc, Nat.le_succ _⟩
      exact
        { addrNodup := by
            simp only [List.map_append, List.map_cons, List.map_nil]
            exact List.nodup_append.mpr ⟨hi.addrNodup, by simp, by
              intro x hx y hy; simp at hy; subst hy; intro hxy; subst hxy; exact hfresh hx⟩
          implNodup := by
            simp only [List.map_append, List.map_cons, List.map_nil]
            refine List.nodup_append.mpr ⟨hi.implNodup, by simp, ?_⟩
            intro x hx y hy; simp at hy; subst hy; intro hxy; subst hxy
            obtain ⟨e, he, hex⟩ := List.mem_map.mp hx
            have := hi.implLt e he
            omega
          implLt := by
            intro e he
            rcases List.mem_append.mp he with he | he
            · exact Nat.lt_succ_of_lt (hi.implLt e he)
            · simp at he; subst he; exact Nat.lt_succ_self _
          cached := by
            intro e he
            rcases List.mem_append.mp he with he | he
            · exact hi.cached e he
            · simp at he; subst he; exact cacheGet_mem hg
          cacheKeys := hi.cacheKeys
          cacheVals := hi.cacheVals
          cacheLt := hi.cacheLt }
    · rename_i hg
      refine ⟨fun hi => ?_, fun _ hc => List.mem_append_left _ hc, Nat.le_succ _⟩
      exact
        { addrNodup := by
            simp only [List.map_append, List.map_cons, List.map_nil]
            exact List.nodup_append.mpr ⟨hi.addrNodup, by simp, by
              intro x hx y hy; simp at hy; subst hy; intro hxy; subst hxy; exact hfresh hx⟩
          implNodup := by
            simp only [List.map_append, List.map_cons, List.map_nil]
            refine List.nodup_append.mpr ⟨hi.implNodup, by simp, ?_⟩
            intro x hx y hy; simp at hy; subst hy; intro hxy; subst hxy
            obtain ⟨e, he, hex⟩ := List.mem_map.mp hx
            have := hi.implLt e he
            omega
          implLt := by
            intro e he
            rcases List.mem_append.mp he with he | he
            · exact Nat.lt_succ_of_lt (hi.implLt e he)
            · simp at he; subst he; exact Nat.lt_succ_self _
          cached := by
            intro e he
            rcases List.mem_append.mp he with he | he
            · exact List.mem_append_left _ (hi.cached e he)
            · simp at he; subst he; simp
          cacheKeys := by
            simp only [List.map_append, List.map_cons, List.map_nil]
            refine List.nodup_append.mpr ⟨hi.cacheKeys, by simp, ?_⟩
            intro x hx y hy; simp at hy; subst hy; intro hxy; subst hxy
            exact cacheGet_none hg hx
          cacheVals := by
            simp only [List.map_append, List.map_cons, List.map_nil]
            refine List.nodup_append.mpr ⟨hi.cacheVals, by simp, ?_⟩
            intro x hx y hy; simp at hy; subst hy; intro hxy; subst hxy
            obtain ⟨c, hc, hcx⟩ := List.mem_map.mp hx
            have := hi.cacheLt c hc
            rw [hcx] at this
            exact Nat.lt_irrefl _ this
          cacheLt := by
            intro c hc
            rcases List.mem_append.mp hc with hc | hc
            · exact Nat.lt_succ_of_lt (hi.cacheLt c hc)
            · simp at hc; subst hc; exact Nat.lt_succ_self _ }

theorem evolves_addChildren (item : Addr) (base : Path) : ∀ (ds : List SDef) (t : Table),
    Evolves t (addChildren t item base ds)
  | [], t => Evolves.refl t
  | _ :: ds, t => (evolves_addEntry t _ _ _ _ _).trans (evolves_addChildren item base ds _)

theorem evolves_createItem (defs : Defs) (t : Table) (a : Addr) (base : SDef) :
    Evolves t (createItem defs t a base) :=
  (evolves_addEntry t _ _ _ _ _).trans (evolves_addChildren _ _ _ _)

/-! ### the operations of a history -/

theorem getItem_table (defs : Defs) (t : Table) (p : Addr) (args : List Val) (kw : KwArgs) :
    (getItem defs t p args kw).1 = t ∨ ∃ a base, (getItem defs t p args kw).1 = createItem defs t a base := by
  unfold getItem
  dsimp only
  repeat' split
  all_goals first | (left; rfl) | (right; exact ⟨_, _, rfl⟩)

theorem evolves_getItem (defs : Defs) (t : Table) (p : Addr) (args : List Val) (kw : KwArgs) :
    Evolves t (getItem defs t p args kw).1 := by
  rcases getItem_table defs t p args kw with h | ⟨a, base, h⟩
  · rw [h]; exact Evolves.refl t
  · rw [h]; exact evolves_createItem _ _ _ _

theorem clearAt_table (defs : Defs) (t : Table) (p : Addr) (args : List Val) (kw : KwArgs) :
    (clearAt defs t p args kw).1 = t ∨ ∃ a, (clearAt defs t p args kw).1 = deleteAt t a := by
  unfold clearAt
  dsimp only
  repeat' split
  all_goals first | (left; rfl) | (right; exact ⟨_, rfl⟩)

theorem evolves_clearAt (defs : Defs) (t : Table) (p : Addr) (args : List Val) (kw : KwArgs) :
    Evolves t (clearAt defs t p args kw).1 := by
  rcases clearAt_table defs t p args kw with h | ⟨a, h⟩
  · rw [h]; exact Evolves.refl t
  · rw [h]; exact evolves_deleteAt _ _

theorem evolves_delItem (t : Table) (p : Addr) (key : Key) : Evolves t (delItem t p key).1 := by
  unfold delItem
  dsimp only
  split
  · exact evolves_deleteAt _ _
  · exact Evolves.refl t

theorem evolves_walk (defs : Defs) : ∀ (chain : List ChainSeg) (t : Table) (a : Addr),
    Evolves t (walk defs t a chain).1
  | [], t, a => by simp [walk]; exact Evolves.refl t
  | .call args kw :: rest, t, a => by
    unfold walk
    split
    · exact Evolves.refl t
    · split
      · exact Evolves.refl t
      · have hg := evolves_getItem defs t a args kw
        generalize getItem defs t a args kw = r at hg
        obtain ⟨t', res⟩ := r
        cases res with
        | ok e => exact hg.trans (evolves_walk defs rest t' e.addr)
        | typeError => exact hg
        | keyError => exact hg
        | formulaError => exact hg
        | noNode => exact hg
  | .child n :: rest, t, a => by
    unfold walk
    split
    · split
      · exact evolves_walk defs rest t _
      · exact Evolves.refl t
    · split
      · exact evolves_walk defs rest t _
      · exact Evolves.refl t

theorem evolves_step (w : World) (op : Op) : Evolves w.tbl (step w op).1.tbl := by
  cases op with
  | newSpace path sig sel =>
    simp only [step]
    split
    · exact Evolves.refl _
    · dsimp only
      split
      · exact evolves_applyEdit _ _ _
      · exact Evolves.refl _
  | setParam path sig sel =>
    simp only [step]
    split
    · exact Evolves.refl _
    · dsimp only; exact evolves_applyEdit _ _ _
  | delSpace path =>
    simp only [step]
    split
    · exact Evolves.refl _
    · dsimp only; exact evolves_delSpace _ _ _
  | edit k path =>
    simp only [step]
    split
    · exact Evolves.refl _
    · dsimp only; exact evolves_applyEdit _ _ _
  | item root chain =>
    simp only [step]
    split
    · exact Evolves.refl _
    · dsimp only; exact evolves_walk _ _ _ _
  | clearAt root chain args kw =>
    simp only [step]
    split
    · exact Evolves.refl _
    · rename_i a _
      have hw := evolves_walk w.defs chain w.tbl a
      generalize walk w.defs w.tbl a chain = r at hw
      obtain ⟨t, res⟩ := r
      cases res <;> first | exact hw | exact hw.trans (evolves_clearAt _ _ _ _ _)
  | delItem root chain key =>
    simp only [step]
    split
    · exact Evolves.refl _
    · rename_i a _
      have hw := evolves_walk w.defs chain w.tbl a
      generalize walk w.defs w.tbl a chain = r at hw
      obtain ⟨t, res⟩ := r
      cases res <;> first | exact hw | exact hw.trans (evolves_delItem _ _ _)
  | clearItems root chain =>
    simp only [step]
    split
    · exact Evolves.refl _
    · rename_i a _
      have hw := evolves_walk w.defs chain w.tbl a
      generalize walk w.defs w.tbl a chain = r at hw
      obtain ⟨t, res⟩ := r
      cases res <;> first | exact hw | exact hw.trans (evolves_clearItems _ _)
  | clearAll root chain =>
    simp only [step]
    split
    · exact Evolves.refl _
    · rename_i a _
      have hw := evolves_walk w.defs chain w.tbl a
      generalize walk w.defs w.tbl a chain = r at hw
      obtain ⟨t, res⟩ := r
      cases res <;> first | exact hw | exact hw.trans (evolves_clearAll _ _ _)

theorem evolves_run : ∀ (ops : List Op) (w : World), Evolves w.tbl (run w ops).tbl
  | [], w => Evolves.refl _
  | op :: rest, w => by
    simp only [run, List.foldl_cons]
    exact (evolves_step w op).trans (evolves_run rest _)

/-! ### consequences of the invariant -/

theorem nodup_map_inj {α β : Type} (f : α → β) : ∀ {l : List α}, (l.map f).Nodup →
    ∀ {x y : α}, x ∈ l → y ∈ l → f x = f y → x = y
  | [], _, _, _, hx, _, _ => by cases hx
  | a :: l, hn, x, y, hx, hy, hxy => by
    simp only [List.map_cons, List.nodup_cons] at hn
    rcases List.mem_cons.mp hx with hxa | hxl
    · rcases List.mem_cons.mp hy with hya | hyl
      · rw [hxa, hya]
      · rw [hxa] at hxy
        exact absurd (show f a ∈ List.map f l from List.mem_map.mpr ⟨y, hyl, hxy.symm⟩) hn.1
    · rcases List.mem_cons.mp hy with hya | hyl
      · rw [hya] at hxy
        exact absurd (show f a ∈ List.map f l from List.mem_map.mpr ⟨x, hxl, hxy⟩) hn.1
      · exact nodup_map_inj f hn.2 hxl hyl hxy

theorem inv_impl_inj {t : Table} (h : Inv t) {e1 e2 : Entry} (h1 : e1 ∈ t.live) (h2 : e2 ∈ t.live)
    (hi : e1.impl = e2.impl) : e1 = e2 :=
  nodup_map_inj _ h.implNodup h1 h2 hi

theorem inv_addr_inj {t : Table} (h : Inv t) {e1 e2 : Entry} (h1 : e1 ∈ t.live) (h2 : e2 ∈ t.live)
    (hi : e1.addr = e2.addr) : e1 = e2 :=
  nodup_map_inj _ h.addrNodup h1 h2 hi

theorem cache_handle_inj {t : Table} (h : Inv t) {a1 a2 : Addr} {x : Nat} (h1 : (a1, x) ∈ t.cache)
    (h2 : (a2, x) ∈ t.cache) : a1 = a2 := by
  have := nodup_map_inj _ h.cacheVals h1 h2 rfl
  exact (Prod.mk.inj this).1

theorem findLive_some {t : Table} {a : Addr} {e : Entry} (h : findLive t a = some e) : e ∈ t.live ∧ e.addr = a := by
  unfold findLive at h
  exact ⟨List.mem_of_find?_eq_some h, by simpa using List.find?_some h⟩

end MxModel.ItemSpace
