import MxModel.Proofs.SerialFlat
/-! Executing the scheduled instructions of a written description: every check passes and no ItemSpace is
deleted (`run_write`). -/
namespace MxModel.Serial
open MxModel.PathCodec MxModel.Generated

theorem runE_append {σ α : Type} (f : σ → α → Except Err σ) (s s' : σ) (l l' : List α)
    (h : runE f s l = .ok s') : runE f s (l ++ l') = runE f s' l' := by
  induction l generalizing s with
  | nil => simp only [runE] at h; cases h; rfl
  | cons a as ih =>
    simp only [runE, List.cons_append] at h ⊢
    cases hf : f s a with
    | error e => rw [hf] at h; cases h
    | ok s1 => rw [hf] at h; simp only; exact ih s1 h

theorem dropFor_noDyn (ctx : Ctx) (st : RState) (p : Path) (h : st.dynSeen = []) : dropFor ctx st p = st := by
  cases st
  simp_all [dropFor]

/-! ## phases without checks that can fail: the first one -/

theorem step_phase0 (ctx : Ctx) (st : RState) (e : Path × Op) (hd : st.dynSeen = [])
    (h : e.2.phase = some 0) : step ctx st e = .ok st := by
  obtain ⟨p, o⟩ := e
  cases o with
  | setDoc _ => rfl
  | setFormula _ => simp [step, dropFor_noDyn ctx st p hd]
  | setAllowNone _ => rfl
  | newCells _ _ => simp [step, dropFor_noDyn ctx st p hd]
  | cellsDoc _ _ => rfl
  | cellsAllowNone _ _ => rfl
  | cellsCached _ _ => rfl
  | addBases b => rw [show (Op.addBases b).phase = some 1 from phase_addBases b] at h; cases h
  | loadPickle c es => rw [show (Op.loadPickle c es).phase = some 2 from phase_loadPickle c es] at h; cases h
  | setAttr x v => rw [show (Op.setAttr x v).phase = some 3 from phase_setAttr x v] at h; cases h
  | setRef x v m => rw [show (Op.setRef x v m).phase = some 3 from phase_setRef x v m] at h; cases h
  | dynInput r k v => rw [show (Op.dynInput r k v).phase = some 4 from phase_dynInput r k v] at h; cases h

theorem run_phase0 (ctx : Ctx) (st : RState) (l : List (Path × Op)) (hd : st.dynSeen = [])
    (h : ∀ e ∈ l, e.2.phase = some 0) : runE (step ctx) st l = .ok st := by
  induction l with
  | nil => rfl
  | cons e rest ih =>
    simp only [runE, step_phase0 ctx st e hd (h e (by simp))]
    exact ih (fun e' he' => h e' (by simp [he']))

/-! ## adding the bases -/

def basesOp (model : Name) (e : Path × List Path) : Path × Op := (e.1, Op.addBases (e.2.map (dotted model)))

theorem resolveBases_dotted (ctx : Ctx) (hmodel : validName ctx.model = true) (bs : List Path)
    (h : ∀ b ∈ bs, ctx.spaces.contains b = true ∧ b.all validName = true) :
    resolveBases ctx (bs.map (dotted ctx.model)) = .ok bs := by
  have := mapE_map_ok (fun b => match resolveBase ctx.model b with
        | some q => if ctx.spaces.contains q then Except.ok q else Except.error Err.noBase
        | none => Except.error Err.noBase) (dotted ctx.model) id bs (by
      intro b hb
      have hm : b ∈ ctx.spaces := by simpa using (h b hb).1
      simp [resolveBase_dotted ctx.model b hmodel (h b hb).2, hm])
  rw [List.map_id] at this
  exact this

theorem run_bases (ctx : Ctx) (hmodel : validName ctx.model = true) (l : BaseRel) (st : RState)
    (hd : st.dynSeen = [])
    (hok : ∀ e ∈ l, ∀ b ∈ e.2, ctx.spaces.contains b = true ∧ b.all validName = true)
    (hpass : basesPass ctx st.bases l = true) :
    runE (step ctx) st (l.map (basesOp ctx.model)) = .ok { st with bases := st.bases ++ l } := by
  induction l generalizing st with
  | nil => cases st; simp [runE]
  | cons e rest ih =>
    simp only [basesPass, Bool.and_eq_true] at hpass
    simp only [List.map_cons, runE]
    have hstep : step ctx st (basesOp ctx.model e) = .ok { st with bases := st.bases ++ [e] } := by
      obtain ⟨p, bs⟩ := e
      show stepBases ctx st p (bs.map (dotted ctx.model)) = _
      unfold stepBases
      rw [resolveBases_dotted ctx hmodel bs (hok (p, bs) (by simp))]
      simp only [hpass.1, if_true]
      rw [dropFor_noDyn]
      exact hd
    rw [hstep]
    simp only
    rw [ih { st with bases := st.bases ++ [e] } hd (fun e' he' => hok e' (by simp [he'])) hpass.2]
    simp

/-! ## input values -/

/-- the pickle ids instruction `o` looks up -/
def opIds : Op → List Id
  | .loadPickle _ es => es.flatMap (fun e => [e.1, e.2])
  | .setAttr _ v => decodedIds v
  | .setRef _ v _ => decodedIds v
  | .dynInput rel k v => [k, v] ++ rel.flatMap elemIds
  | _ => []

theorem step_phase2 (ctx : Ctx) (st : RState) (e : Path × Op) (h : e.2.phase = some 2)
    (hids : ∀ x ∈ opIds e.2, ctx.pickle.contains x = true) : step ctx st e = .ok st := by
  obtain ⟨p, o⟩ := e
  cases o with
  | loadPickle c es =>
    have : es.all (fun e => ctx.pickle.contains e.1 && ctx.pickle.contains e.2) = true := by
      simp only [List.all_eq_true, Bool.and_eq_true]
      intro x hx
      constructor
      · exact hids x.1 (by simp only [opIds, List.mem_flatMap]; exact ⟨x, hx, by simp⟩)
      · exact hids x.2 (by simp only [opIds, List.mem_flatMap]; exact ⟨x, hx, by simp⟩)
    simp only [step, this, if_true]
  | setDoc d => rw [show (Op.setDoc d).phase = some 0 from phase_setDoc d] at h; cases h
  | setFormula f => rw [show (Op.setFormula f).phase = some 0 from phase_setFormula f] at h; cases h
  | setAllowNone v => rw [show (Op.setAllowNone v).phase = some 0 from phase_setAllowNone v] at h; cases h
  | newCells n f => rw [show (Op.newCells n f).phase = some 0 from phase_newCells n f] at h; cases h
  | cellsDoc c d => rw [show (Op.cellsDoc c d).phase = some 0 from phase_cellsDoc c d] at h; cases h
  | cellsAllowNone c v =>
    rw [show (Op.cellsAllowNone c v).phase = some 0 from phase_cellsAllowNone c v] at h; cases h
  | cellsCached c b => rw [show (Op.cellsCached c b).phase = some 0 from phase_cellsCached c b] at h; cases h
  | addBases b => rw [show (Op.addBases b).phase = some 1 from phase_addBases b] at h; cases h
  | setAttr x v => rw [show (Op.setAttr x v).phase = some 3 from phase_setAttr x v] at h; cases h
  | setRef x v m => rw [show (Op.setRef x v m).phase = some 3 from phase_setRef x v m] at h; cases h
  | dynInput r k v => rw [show (Op.dynInput r k v).phase = some 4 from phase_dynInput r k v] at h; cases h

theorem run_phase2 (ctx : Ctx) (st : RState) (l : List (Path × Op)) (h : ∀ e ∈ l, e.2.phase = some 2)
    (hids : ∀ e ∈ l, ∀ x ∈ opIds e.2, ctx.pickle.contains x = true) : runE (step ctx) st l = .ok st := by
  induction l with
  | nil => rfl
  | cons e rest ih =>
    simp only [runE, step_phase2 ctx st e (h e (by simp)) (hids e (by simp))]
    exact ih (fun e' he' => h e' (by simp [he'])) (fun e' he' => hids e' (by simp [he']))

/-! ## ItemSpace inputs -/

theorem run_dyn (ctx : Ctx) (st : RState) (l : List (Path × DynInput))
    (hids : ∀ e ∈ l, ∀ x ∈ opIds (dynOpOf ctx.model e.1 e.2), ctx.pickle.contains x = true) :
    ∃ st', runE (step ctx) st (l.map (fun e => (e.1, dynOpOf ctx.model e.1 e.2))) = .ok st' ∧
      st'.dropped = st.dropped := by
  induction l generalizing st with
  | nil => exact ⟨st, rfl, rfl⟩
  | cons e rest ih =>
    have hstep : step ctx st (e.1, dynOpOf ctx.model e.1 e.2) = .ok { st with dynSeen := st.dynSeen ++ [e.1] } := by
      have h := hids e (by simp)
      simp only [dynOpOf, opIds] at h
      have h1 := h e.2.key (by simp)
      have h2 := h e.2.val (by simp)
      have h3 : ((absToRelTuple (idt ctx.model e.1 ++ e.2.addr) (idt ctx.model e.1)).flatMap elemIds).all
          ctx.pickle.contains = true := by
        simp only [List.all_eq_true]
        intro x hx
        exact h x (by simp only [List.mem_append]; exact Or.inr hx)
      simp only [step, dynOpOf, h1, h2, h3, dynAddr_roundtrip, Bool.and_self, Bool.not_true, Bool.false_eq_true,
        if_false]
    obtain ⟨st', hrun, hdrop⟩ := ih { st with dynSeen := st.dynSeen ++ [e.1] }
      (fun e' he' => hids e' (by simp [he']))
    exact ⟨st', by simp only [List.map_cons, runE, hstep, hrun], hdrop⟩

/-! ## references -/

/-- the instruction filed for reference definition `e` -/
def refOpAt (model : Name) (e : Path × RefD) : Path × Op :=
  (e.1, refOpOf (e.1 == []) model e.1 (e.2.name, e.2.val, e.2.mode.text))

def gRef (ctx : Ctx) (bs : BaseRel) (done : List (Path × Name)) (p : Path) (r : RefD) : Bool :=
  p == [] || !refConflict ctx bs done p r.name

def gRel (ctx : Ctx) (bs : BaseRel) (done : List (Path × Name)) (p : Path) (r : RefD) : Bool :=
  p == [] || (match relTarget r with
    | some t => !relConflict ctx bs done p r.name t
    | none => true)

theorem decodedIds_decodedOf (model : Name) (owner : Path) (v : RefVal) :
    decodedIds (decodedOf model owner v) = refValIds v := by
  cases v <;> rfl

theorem step_ref (ctx : Ctx) (st : RState) (e : Path × RefD) (hd : st.dynSeen = [])
    (hids : ∀ x ∈ refValIds e.2.val, ctx.pickle.contains x = true)
    (hwf : refValWF ctx st.bases e.2.val = true)
    (h1 : gRef ctx st.bases st.done e.1 e.2 = true) (h2 : gRel ctx st.bases st.done e.1 e.2 = true) :
    step ctx st (refOpAt ctx.model e) = .ok { st with done := st.done ++ [(e.1, e.2.name)] } := by
  obtain ⟨p, name, val, mode⟩ := e
  have hidsb : (!(decodedIds (decodedOf ctx.model p val)).all ctx.pickle.contains) = false := by
    rw [decodedIds_decodedOf]
    simp only [Bool.not_eq_false', List.all_eq_true]
    exact hids
  simp only [gRef, gRel, Bool.or_eq_true, beq_iff_eq, Bool.not_eq_true'] at h1 h2
  have hdrop : ∀ s : RState, s.dynSeen = [] → dropFor ctx s p = s := fun s hs => dropFor_noDyn ctx s p hs
  by_cases hp : p = []
  · subst hp
    cases val <;>
      simp_all [refOpAt, refOpOf, step, stepRef, decodedOf, isInterface, resolveRel_roundtrip, refValWF,
        decodedIds, dropFor_noDyn]
  · have hpb : (p == []) = false := beq_eq_false_iff_ne.mpr hp
    have h1' : refConflict ctx st.bases st.done p name = false := by
      rcases h1 with h | h
      · exact absurd h hp
      · exact h
    cases val with
    | interface tgt =>
      have h2' : (mode = Mode.relative → relConflict ctx st.bases st.done p name tgt = false) := by
        intro hm
        subst hm
        rcases h2 with h | h
        · exact absurd h hp
        · simpa [relTarget] using h
      simp only [refValWF] at hwf
      simp only [refOpAt, refOpOf, hpb, isInterface, Bool.not_false, Bool.and_self, if_true, step, decodedOf,
        mode_parse_text, stepRef, decodedIds, List.all_nil, Bool.not_true, Bool.false_eq_true, if_false,
        resolveRel_roundtrip, hwf, hp, h1']
      cases mode <;> simp_all [dropFor_noDyn]
    | literal t =>
      simp_all [refOpAt, refOpOf, step, stepRef, decodedOf, isInterface, decodedIds, dropFor_noDyn]
    | pickled id =>
      simp_all [refOpAt, refOpOf, step, stepRef, decodedOf, isInterface, decodedIds, dropFor_noDyn]
    | module n =>
      simp_all [refOpAt, refOpOf, step, stepRef, decodedOf, isInterface, decodedIds, dropFor_noDyn]
    | iospec v s =>
      simp_all [refOpAt, refOpOf, step, stepRef, decodedOf, isInterface, decodedIds, dropFor_noDyn]

theorem run_refs (ctx : Ctx) (l : List (Path × RefD)) (st : RState) (hd : st.dynSeen = [])
    (hids : ∀ e ∈ l, ∀ x ∈ refValIds e.2.val, ctx.pickle.contains x = true)
    (hwf : ∀ e ∈ l, refValWF ctx st.bases e.2.val = true)
    (h1 : refsPass (gRef ctx st.bases) st.done l = true) (h2 : refsPass (gRel ctx st.bases) st.done l = true) :
    runE (step ctx) st (l.map (refOpAt ctx.model)) =
      .ok { st with done := st.done ++ l.map (fun e => (e.1, e.2.name)) } := by
  induction l generalizing st with
  | nil => cases st; simp [runE]
  | cons e rest ih =>
    simp only [refsPass, Bool.and_eq_true] at h1 h2
    simp only [List.map_cons, runE,
      step_ref ctx st e hd (hids e (by simp)) (hwf e (by simp)) h1.1 h2.1]
    rw [ih { st with done := st.done ++ [(e.1, e.2.name)] } hd (fun e' he' => hids e' (by simp [he']))
      (fun e' he' => hwf e' (by simp [he'])) h1.2 h2.2]
    simp

end MxModel.Serial
