import MxModel.Kernels.IOSession
/-! Helper lemmas for the session-level IOSpec kernel (`Kernels/IOSession.lean`); the property theorems are in
`Props/C19.lean`, `Props/C14.lean`, `Props/C18.lean`. -/
namespace MxModel.IOSession

/-! ## lists -/

theorem find?_filter_of_imp {α} (p q : α → Bool) (l : List α) (h : ∀ x ∈ l, p x = true → q x = true) :
    (l.filter q).find? p = l.find? p := by
  induction l with
  | nil => rfl
  | cons a rest ih =>
    have ih' := ih (fun x hx => h x (List.mem_cons_of_mem _ hx))
    by_cases hq : q a = true
    · simp [List.filter_cons, hq, List.find?_cons, ih']
    · have hp : p a = false := by
        cases hpa : p a with
        | false => rfl
        | true => exact absurd (h a (List.mem_cons_self) hpa) hq
      simp [List.filter_cons, hq, List.find?_cons, hp, ih']

theorem mem_of_mem_dedup {a : Nat} : ∀ {l : List Nat}, a ∈ dedup l → a ∈ l
  | [], h => by simp [dedup] at h
  | b :: rest, h => by
    simp only [dedup, List.mem_cons, List.mem_filter] at h
    rcases h with h | ⟨h, _⟩
    · exact h ▸ List.mem_cons_self
    · exact List.mem_cons_of_mem _ (mem_of_mem_dedup h)

theorem mem_dedup_of_mem {a : Nat} : ∀ {l : List Nat}, a ∈ l → a ∈ dedup l
  | [], h => by simp at h
  | b :: rest, h => by
    simp only [dedup, List.mem_cons, List.mem_filter]
    by_cases hab : a = b
    · exact Or.inl hab
    · rcases List.mem_cons.1 h with h | h
      · exact absurd h hab
      · exact Or.inr ⟨mem_dedup_of_mem h, by simpa using hab⟩

theorem mem_valuesOf {st : St} {m v : Nat} : v ∈ valuesOf st m ↔ boundIn st.refs m v = true := by
  constructor
  · intro h
    have h := mem_of_mem_dedup h
    simp only [List.mem_map, List.mem_filter] at h
    rcases h with ⟨r, ⟨hr, hm⟩, hv⟩
    simp only [boundIn, List.any_eq_true]
    exact ⟨r, hr, by simp [hv]; simpa using hm⟩
  · intro h
    simp only [boundIn, List.any_eq_true] at h
    rcases h with ⟨r, hr, h⟩
    simp only [Bool.and_eq_true, beq_iff_eq] at h
    apply mem_dedup_of_mem
    simp only [List.mem_map, List.mem_filter]
    exact ⟨r, ⟨hr, by simp [h.1]⟩, h.2⟩

/-! ## `dropSids` -/

theorem dropSids_eq_some {d : List Nat} {io io' : Io} (h : Io.dropSids d io = some io') :
    io' = { io with specs := io.specs.filter (fun s => !d.contains s.sid) } ∧
    (io.specs ≠ [] → io'.specs ≠ []) := by
  unfold Io.dropSids at h
  split at h
  · split at h
    · simp at h
    · rename_i hne
      simp only [Option.some.injEq] at h
      subst h
      refine ⟨rfl, fun _ => ?_⟩
      simpa [List.isEmpty_iff] using hne
  · rename_i hno
    simp only [Option.some.injEq] at h
    subst h
    have : io.specs.filter (fun s => !d.contains s.sid) = io.specs := by
      apply List.filter_eq_self.2
      intro s hs
      have := hno
      simp only [List.any_eq_true, not_exists, not_and] at this
      have := this s hs
      simp only [List.contains_eq_mem, decide_eq_true_eq] at this
      simp [this]
    refine ⟨?_, fun h => h⟩
    rw [this]

theorem dropSids_untouched {d : List Nat} {io : Io} (h : ∀ s ∈ io.specs, d.contains s.sid = false) :
    Io.dropSids d io = some io := by
  unfold Io.dropSids
  have : io.specs.any (fun s => d.contains s.sid) = false := by
    rw [List.any_eq_false]
    intro s hs
    rw [h s hs]
    simp
  simp only [this, Bool.false_eq_true, ↓reduceIte]

theorem dropSids_none {d : List Nat} {io : Io} (h : Io.dropSids d io = none) :
    io.specs.filter (fun s => !d.contains s.sid) = [] := by
  unfold Io.dropSids at h
  split at h
  · split at h
    · rename_i he
      simpa [List.isEmpty_iff] using he
    · simp at h
  · simp at h

theorem findVal_some {l : List Io} {v : Nat} {f : Found} (h : findVal l v = some f) :
    ∃ io ∈ l, f.spec ∈ io.specs ∧ f.spec.val = v ∧ f.group = io.group ∧ f.path = io.path := by
  induction l with
  | nil => simp [findVal] at h
  | cons io rest ih =>
    unfold findVal at h
    split at h
    · rename_i s hs
      simp only [Option.some.injEq] at h
      subst h
      have hm := List.mem_of_find?_eq_some hs
      have hp := List.find?_some hs
      exact ⟨io, List.mem_cons_self, hm, by simpa using hp, rfl, rfl⟩
    · rcases ih h with ⟨io', hio, r⟩
      exact ⟨io', List.mem_cons_of_mem _ hio, r⟩

/-- deleting specs whose value is not `v` does not change what is found for `v` -/
theorem findVal_dropSids (d : List Nat) (v : Nat) (l : List Io)
    (h : ∀ io ∈ l, ∀ s ∈ io.specs, d.contains s.sid = true → s.val ≠ v) :
    findVal (l.filterMap (Io.dropSids d)) v = findVal l v := by
  induction l with
  | nil => rfl
  | cons io rest ih =>
    have ih' := ih (fun x hx => h x (List.mem_cons_of_mem _ hx))
    have hf : (io.specs.filter (fun s => !d.contains s.sid)).find? (fun s => s.val == v)
        = io.specs.find? (fun s => s.val == v) := by
      apply find?_filter_of_imp
      intro s hs hv
      cases hc : d.contains s.sid with
      | false => rfl
      | true => exact absurd (by simpa using hv) (h io List.mem_cons_self s hs hc)
    cases hd : Io.dropSids d io with
    | none =>
      have he := dropSids_none hd
      rw [he] at hf
      simp only [List.filterMap_cons, hd]
      rw [ih']
      simp only [findVal]
      rw [← hf]
      simp
    | some io' =>
      have := (dropSids_eq_some hd).1
      subst this
      simp only [List.filterMap_cons, hd, findVal, hf]
      rw [ih']

theorem dropSids_group {d : List Nat} {io io' : Io} (h : Io.dropSids d io = some io') : io'.group = io.group := by
  rw [(dropSids_eq_some h).1]

theorem filter_filterMap_dropSids (d : List Nat) (g : Option Nat) (l : List Io) :
    (l.filterMap (Io.dropSids d)).filter (inGroup g) = (l.filter (inGroup g)).filterMap (Io.dropSids d) := by
  induction l with
  | nil => rfl
  | cons io rest ih =>
    cases hd : Io.dropSids d io with
    | none =>
      by_cases hg : inGroup g io = true
      · simp [List.filterMap_cons, hd, List.filter_cons, hg, ih]
      · simp [List.filterMap_cons, hd, List.filter_cons, hg, ih]
    | some io' =>
      have hgr : inGroup g io' = inGroup g io := by simp [inGroup, dropSids_group hd]
      by_cases hg : inGroup g io = true
      · simp [List.filterMap_cons, hd, List.filter_cons, hg, hgr, ih]
      · simp [List.filterMap_cons, hd, List.filter_cons, hg, hgr, ih]

theorem view_delSids (st : St) (d : List Nat) (g : Nat) :
    view (delSids st d).ios g = (view st.ios g).filterMap (Io.dropSids d) := by
  simp [view, delSids, filter_filterMap_dropSids, List.filterMap_append]

theorem mem_view {ios : List Io} {g : Nat} {io : Io} :
    io ∈ view ios g ↔ io ∈ ios ∧ (io.group = some g ∨ io.group = none) := by
  simp only [view, List.mem_append, List.mem_filter, inGroup, beq_iff_eq]
  constructor
  · rintro (⟨h, hg⟩ | ⟨h, hg⟩)
    · exact ⟨h, Or.inl hg⟩
    · exact ⟨h, Or.inr hg⟩
  · rintro ⟨h, hg | hg⟩
    · exact Or.inl ⟨h, hg⟩
    · exact Or.inr ⟨h, hg⟩

/-- what `Model.iospecs` lists: specs of files of the model's group or of the session-wide group, whose value the
model references -/
theorem mem_specsOf {st : St} {m : Nat} {f : Found} (h : f ∈ specsOf st m) :
    ∃ io ∈ st.ios, (io.group = some m ∨ io.group = none) ∧ f.spec ∈ io.specs ∧
      f.group = io.group ∧ f.path = io.path ∧ boundIn st.refs m f.spec.val = true := by
  simp only [specsOf, List.mem_filterMap] at h
  rcases h with ⟨v, hv, hl⟩
  rcases findVal_some hl with ⟨io, hio, hs, hval, hg, hp⟩
  rcases mem_view.1 hio with ⟨hio', hgr⟩
  exact ⟨io, hio', hgr, hs, hg, hp, by rw [hval]; exact mem_valuesOf.1 hv⟩

/-- identities of specs: one identity, one value, one group -/
def SidDet (st : St) : Prop :=
  ∀ io ∈ st.ios, ∀ s ∈ io.specs, ∀ io' ∈ st.ios, ∀ s' ∈ io'.specs, s.sid = s'.sid →
    s.val = s'.val ∧ io.group = io'.group

/-- the named hypothesis (negation of the recorded finding C18-absolute-io-shared for the pair `m`, `m'`): no file
object of the session-wide group holds a spec whose value `m` references and a spec whose value `m'` references
(the same spec included: one object referenced from both models) -/
def AbsPrivate (st : St) (m m' : Nat) : Prop :=
  ∀ io ∈ st.ios, io.group = none → ∀ s ∈ io.specs, ∀ s' ∈ io.specs,
    boundIn st.refs m s.val = true → boundIn st.refs m' s'.val = true → False

/-- the specs `del_all_spec` of `m` deletes, seen from another model: none in a file of its group, none in a
session-wide file it uses -/
theorem closed_sids_foreign {st : St} {m m' : Nat} (hne : m ≠ m') (hdet : SidDet st) (hpriv : AbsPrivate st m m')
    {io : Io} (hio : io ∈ st.ios)
    (huse : io.group = some m' ∨ (io.group = none ∧ ∃ s' ∈ io.specs, boundIn st.refs m' s'.val = true))
    {s : Spec} (hs : s ∈ io.specs) :
    ((specsOf st m).map (·.spec.sid)).contains s.sid = false := by
  cases hc : ((specsOf st m).map (·.spec.sid)).contains s.sid with
  | false => rfl
  | true =>
    exfalso
    simp only [List.contains_eq_mem, List.mem_map, decide_eq_true_eq] at hc
    rcases hc with ⟨f, hf, hsid⟩
    rcases mem_specsOf hf with ⟨io0, hio0, hg0, hs0, _, _, hb⟩
    have := hdet io0 hio0 f.spec hs0 io hio s hs hsid
    rcases huse with hg | ⟨hg, s', hs', hb'⟩
    · rcases hg0 with h0 | h0
      · rw [h0, hg] at this; exact hne (by simpa using this.2)
      · rw [h0, hg] at this; simp at this
    · rw [this.1] at hb
      exact hpriv io hio hg s hs s' hs' hb hb'

theorem filterMap_dropSids_id {d : List Nat} {l : List Io}
    (h : ∀ io ∈ l, ∀ s ∈ io.specs, d.contains s.sid = false) : l.filterMap (Io.dropSids d) = l := by
  induction l with
  | nil => rfl
  | cons io rest ih =>
    simp only [List.filterMap_cons, dropSids_untouched (h io List.mem_cons_self)]
    rw [ih (fun x hx => h x (List.mem_cons_of_mem _ hx))]

theorem mem_filterMap_dropSids_of_untouched {d : List Nat} {l : List Io} {io : Io} (hio : io ∈ l)
    (h : ∀ s ∈ io.specs, d.contains s.sid = false) : io ∈ l.filterMap (Io.dropSids d) :=
  List.mem_filterMap.2 ⟨io, hio, dropSids_untouched h⟩

theorem filterMap_congr' {α β} {f g : α → Option β} {l : List α} (h : ∀ a ∈ l, f a = g a) :
    l.filterMap f = l.filterMap g := by
  induction l with
  | nil => rfl
  | cons a rest ih =>
    simp only [List.filterMap_cons, h a List.mem_cons_self]
    rw [ih (fun x hx => h x (List.mem_cons_of_mem _ hx))]

theorem specsOf_congr {a b : St} (hr : a.refs = b.refs) (hi : a.ios = b.ios) (m : Nat) :
    specsOf a m = specsOf b m := by
  have hl : lookup a m = lookup b m := by funext v; simp [lookup, hi]
  simp [specsOf, valuesOf, hr, hl]

theorem specsOf_delSids (st : St) (d : List Nat) (m' : Nat)
    (h : ∀ v, boundIn st.refs m' v = true → ∀ io ∈ view st.ios m', ∀ s ∈ io.specs,
      d.contains s.sid = true → s.val ≠ v) :
    specsOf (delSids st d) m' = specsOf st m' := by
  unfold specsOf
  have hv : valuesOf (delSids st d) m' = valuesOf st m' := rfl
  rw [hv]
  apply filterMap_congr'
  intro v hvm
  unfold lookup
  rw [view_delSids]
  exact findVal_dropSids d v _ (h v (mem_valuesOf.1 hvm))

/-- closing `m`, seen from another model `m'` -/
theorem closeModel_frame (st : St) (m m' : Nat) (hne : m ≠ m') (hdet : SidDet st) (hpriv : AbsPrivate st m m') :
    specsOf (closeModel st m) m' = specsOf st m' ∧
    (closeModel st m).ios.filter (inGroup (some m')) = st.ios.filter (inGroup (some m')) ∧
    (∀ io ∈ st.ios, io.group = none → (∃ s ∈ io.specs, boundIn st.refs m' s.val = true) →
      io ∈ (closeModel st m).ios) ∧
    (closeModel st m).refs = st.refs := by
  unfold closeModel
  split
  · refine ⟨?_, ?_, ?_, rfl⟩
    · refine (specsOf_congr (b := delSids st ((specsOf st m).map (·.spec.sid))) rfl rfl m').trans ?_
      apply specsOf_delSids
      intro v hb io hio s hs hc heq
      rcases mem_view.1 hio with ⟨hio', hg⟩
      have huse : io.group = some m' ∨ (io.group = none ∧ ∃ s' ∈ io.specs, boundIn st.refs m' s'.val = true) := by
        rcases hg with hg | hg
        · exact Or.inl hg
        · exact Or.inr ⟨hg, s, hs, by rw [heq]; exact hb⟩
      rw [closed_sids_foreign hne hdet hpriv hio' huse hs] at hc
      exact absurd hc (by simp)
    · show (delSids st ((specsOf st m).map (·.spec.sid))).ios.filter (inGroup (some m')) = _
      simp only [delSids]
      rw [filter_filterMap_dropSids]
      apply filterMap_dropSids_id
      intro io hio s hs
      simp only [List.mem_filter, inGroup, beq_iff_eq] at hio
      exact closed_sids_foreign hne hdet hpriv hio.1 (Or.inl hio.2) hs
    · intro io hio hg hex
      show io ∈ (delSids st ((specsOf st m).map (·.spec.sid))).ios
      simp only [delSids]
      apply mem_filterMap_dropSids_of_untouched hio
      intro s hs
      exact closed_sids_foreign hne hdet hpriv hio (Or.inr ⟨hg, hex⟩) hs
  · exact ⟨rfl, rfl, fun io hio _ _ => hio, rfl⟩

/-- one spec per value in the view of `m`: a spec of a file `m` sees, whose value `m` references, is the spec
`get_spec_from_value` finds for that value (false after `new_pandas` twice for one object: trigger of C18) -/
def OneSpecPerValue (st : St) (m : Nat) : Prop :=
  ∀ io ∈ view st.ios m, ∀ s ∈ io.specs, boundIn st.refs m s.val = true →
    ∃ f, lookup st m s.val = some f ∧ f.spec = s

/-- every spec filed under the model is referenced by the model -/
def GroupReferenced (st : St) (m : Nat) : Prop :=
  ∀ io ∈ st.ios, io.group = some m → ∀ s ∈ io.specs, boundIn st.refs m s.val = true

def NoEmptyIo (st : St) : Prop := ∀ io ∈ st.ios, io.specs ≠ []

theorem closeModel_releases (st : St) (m : Nat) (hopen : st.opened.contains m = true)
    (hone : OneSpecPerValue st m) (href : GroupReferenced st m) (hne : NoEmptyIo st) :
    ∀ io ∈ (closeModel st m).ios, io.group ≠ some m ∧
      (io.group = none → ∀ s ∈ io.specs, boundIn (closeModel st m).refs m s.val = false) := by
  have hdel : ∀ io ∈ view st.ios m, ∀ s ∈ io.specs, boundIn st.refs m s.val = true →
      ((specsOf st m).map (·.spec.sid)).contains s.sid = true := by
    intro io hio s hs hb
    rcases hone io hio s hs hb with ⟨f, hf, hfs⟩
    simp only [List.contains_eq_mem, List.mem_map, decide_eq_true_eq]
    refine ⟨f, ?_, by rw [hfs]⟩
    simp only [specsOf, List.mem_filterMap]
    exact ⟨s.val, mem_valuesOf.2 hb, hf⟩
  unfold closeModel
  simp only [hopen, ↓reduceIte]
  intro io' hio'
  have hio' : io' ∈ (delSids st ((specsOf st m).map (·.spec.sid))).ios := hio'
  simp only [delSids, List.mem_filterMap] at hio'
  rcases hio' with ⟨io, hio, hd⟩
  rcases dropSids_eq_some hd with ⟨heq, hnonempty⟩
  have hspecs : io'.specs = io.specs.filter (fun s => !((specsOf st m).map (·.spec.sid)).contains s.sid) := by
    rw [heq]
  have hgrp : io'.group = io.group := by rw [heq]
  constructor
  · intro hg
    rw [hgrp] at hg
    have hall : io'.specs = [] := by
      rw [hspecs, List.filter_eq_nil_iff]
      intro s hs
      have := hdel io (mem_view.2 ⟨hio, Or.inl hg⟩) s hs (href io hio hg s hs)
      rw [this]
      simp
    exact hnonempty (hne io hio) hall
  · intro hg s hs
    rw [hgrp] at hg
    rw [hspecs, List.mem_filter] at hs
    show boundIn st.refs m s.val = false
    cases hb : boundIn st.refs m s.val with
    | false => rfl
    | true =>
      have := hdel io (mem_view.2 ⟨hio, Or.inr hg⟩) s hs.1 hb
      rw [this] at hs
      simp at hs

/-! ## The clean-up of a failed load -/

/-- a file object that was registered when the load began, none of whose specs the load read and none of whose
values the half-read model references, survives the clean-up as it is -/
theorem cleanup_keeps (st : St) (m : Nat) (snapshot read : List Nat) (hdet : SidDet st)
    (io : Io) (hio : io ∈ st.ios) (hsnap : snapshot.contains io.iid = true)
    (hread : ∀ s ∈ io.specs, read.contains s.sid = false)
    (hval : ∀ s ∈ io.specs, boundIn st.refs m s.val = false) :
    io ∈ (cleanup st m snapshot read).ios := by
  have h1 : io ∈ (closeModel st m).ios := by
    unfold closeModel
    split
    · show io ∈ (delSids st ((specsOf st m).map (·.spec.sid))).ios
      simp only [delSids]
      apply mem_filterMap_dropSids_of_untouched hio
      intro s hs
      cases hc : ((specsOf st m).map (·.spec.sid)).contains s.sid with
      | false => rfl
      | true =>
        exfalso
        simp only [List.contains_eq_mem, List.mem_map, decide_eq_true_eq] at hc
        rcases hc with ⟨f, hf, hsid⟩
        rcases mem_specsOf hf with ⟨io0, hio0, _, hs0, _, _, hb⟩
        have := (hdet io0 hio0 f.spec hs0 io hio s hs hsid).1
        rw [this, hval s hs] at hb
        exact absurd hb (by simp)
    · exact hio
  simp only [cleanup, List.mem_filter, delSids]
  exact ⟨mem_filterMap_dropSids_of_untouched h1 hread, hsnap⟩

/-- nothing else survives: what is left was registered when the load began and holds none of the specs read -/
theorem cleanup_removes (st : St) (m : Nat) (snapshot read : List Nat) :
    ∀ io ∈ (cleanup st m snapshot read).ios,
      snapshot.contains io.iid = true ∧ ∀ s ∈ io.specs, read.contains s.sid = false := by
  intro io hio
  simp only [cleanup, List.mem_filter, delSids, List.mem_filterMap] at hio
  rcases hio with ⟨⟨io0, _, hd⟩, hsnap⟩
  refine ⟨hsnap, ?_⟩
  intro s hs
  rw [(dropSids_eq_some hd).1] at hs
  simp only [List.mem_filter] at hs
  simpa using hs.2

instance (st : St) : Decidable (SidDet st) := by unfold SidDet; infer_instance
instance (st : St) (m m' : Nat) : Decidable (AbsPrivate st m m') := by unfold AbsPrivate; infer_instance
instance (st : St) (m : Nat) : Decidable (OneSpecPerValue st m) := by unfold OneSpecPerValue; infer_instance
instance (st : St) (m : Nat) : Decidable (GroupReferenced st m) := by unfold GroupReferenced; infer_instance
instance (st : St) : Decidable (NoEmptyIo st) := by unfold NoEmptyIo; infer_instance

/-- two models, each with a csv inside its folder and a csv under an absolute path of its own -/
def demo : St := run {} [.newModel, .newModel,
  .newSpec 0 "S.a" ⟨false, "a.csv"⟩ false none 1, .newSpec 0 "S.b" ⟨true, "x/b.csv"⟩ false none 2,
  .newSpec 1 "S.a" ⟨false, "a.csv"⟩ false none 3, .newSpec 1 "S.b" ⟨true, "y/b.csv"⟩ false none 4]

/-- C18-absolute-io-shared: two models keep sheets in ONE external workbook -/
def sharedPath : St := run {} [.newModel, .newModel,
  .newSpec 0 "S.a" ⟨true, "x/book.xlsx"⟩ true (some "s0") 1,
  .newSpec 1 "S.a" ⟨true, "x/book.xlsx"⟩ true (some "s1") 2]

/-- the same object referenced from two models, with an external file -/
def sharedValue : St := run {} [.newModel, .newModel,
  .newSpec 0 "S.a" ⟨true, "x/a.csv"⟩ false none 1, .bind 1 "S.a" 1]

end MxModel.IOSession
