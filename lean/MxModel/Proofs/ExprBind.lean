import MxModel.Exec.Expr
import MxModel.Kernels.ItemSpace
/-!
# Argument binding of calls made inside formulas (`Expr.callK`, `bindKey`)

`bindKey a dflt pos kw` is the element a call denotes when the callee has `a`
positional-or-keyword parameters of which the last `dflt.length` have the default values
`dflt`, the call gives the positional values `pos` and the keyword values `kw` (parameters by
index).  It is the rule of `node._bind_args` (`inspect.Signature.bind` + `apply_defaults`), the
same rule as the C07 kernel `MxModel.ItemSpace.bindArgs` (theorems `bind_iff`, `bind_canonical`
there); here: basic laws and the concrete instances the harness replays on modelx.

* `bindKey_length` – a bound key has one value per parameter;
* `bindKey_full` – all parameters given positionally: the key is the argument list, whatever the
  defaults (`Expr.callK c args n [] d` with `n` arguments is `Expr.call c args`);
* `bindKey_too_many`, `bindKey_unknown_keyword`, `bindKey_twice` – the rejections;
* `bindKey_defaults_are_trailing` – `m` parameters left out at the end get the LAST `m` defaults
  (this is what the seeded change C01-mutE breaks: it takes the first `m`).
-/
namespace MxModel.Exec

theorem bindSlots_length (a : Nat) (dflt pos : List Val) (kw : List (Nat × Val)) :
    ∀ (is : List Nat) (key : Key), bindSlots a dflt pos kw is = some key → key.length = is.length
  | [], key, h => by
    simp only [bindSlots, Option.some.injEq] at h
    subst h; rfl
  | i :: is, key, h => by
    simp only [bindSlots] at h
    split at h
    · rename_i v vs _ hvs
      simp only [Option.some.injEq] at h
      subst h
      simp [bindSlots_length a dflt pos kw is vs hvs]
    · cases h

/-- a key that binds has exactly one value per parameter -/
theorem bindKey_length (a : Nat) (dflt pos : List Val) (kw : List (Nat × Val)) (key : Key)
    (h : bindKey a dflt pos kw = some key) : key.length = a := by
  unfold bindKey at h
  split at h
  · cases h
  · split at h
    · cases h
    · split at h
      · cases h
      · simpa using bindSlots_length a dflt pos kw (List.range a) key h

theorem bindKey_too_many (a : Nat) (dflt pos : List Val) (kw : List (Nat × Val)) (h : a < pos.length) :
    bindKey a dflt pos kw = none := by
  simp [bindKey, h]

/-- a keyword that names no parameter of the callee -/
theorem bindKey_unknown_keyword (a : Nat) (dflt pos : List Val) (kw : List (Nat × Val)) (i : Nat) (v : Val)
    (hi : a ≤ i) (hm : (i, v) ∈ kw) : bindKey a dflt pos kw = none := by
  unfold bindKey
  split
  · rfl
  · split
    · rfl
    · have : kw.any (fun e => decide (e.1 < pos.length) || decide (a ≤ e.1)) = true :=
        List.any_eq_true.mpr ⟨(i, v), hm, by simp [hi]⟩
      simp [this]

/-- a keyword for a parameter that already has a positional argument -/
theorem bindKey_twice (a : Nat) (dflt pos : List Val) (kw : List (Nat × Val)) (i : Nat) (v : Val)
    (hi : i < pos.length) (hm : (i, v) ∈ kw) : bindKey a dflt pos kw = none := by
  unfold bindKey
  split
  · rfl
  · split
    · rfl
    · have : kw.any (fun e => decide (e.1 < pos.length) || decide (a ≤ e.1)) = true :=
        List.any_eq_true.mpr ⟨(i, v), hm, by simp [hi]⟩
      simp [this]

theorem bindSlots_positional (a : Nat) (dflt pos : List Val) :
    ∀ (is : List Nat), (∀ i ∈ is, i < pos.length) →
      bindSlots a dflt pos [] is = some (is.map (fun i => pos[i]?.getD .none))
  | [], _ => rfl
  | i :: is, h => by
    have hi : i < pos.length := h i (by simp)
    have ih := bindSlots_positional a dflt pos is (fun j hj => h j (by simp [hj]))
    simp only [bindSlots, bindSlot, hi, if_true, ih, List.map_cons]
    rw [List.getElem?_eq_getElem hi]
    simp

/-- every parameter given positionally: the element is the argument list itself, whatever the
defaults are -/
theorem bindKey_full (dflt vs : List Val) : bindKey vs.length dflt vs [] = some vs := by
  unfold bindKey
  simp only [Nat.lt_irrefl, if_false, List.map_nil, distinctNats, Bool.not_true, List.any_nil]
  have h := bindSlots_positional vs.length dflt vs (List.range vs.length)
    (fun i hi => by simpa using hi)
  simp only [Bool.false_eq_true, if_false]
  rw [h]
  congr 1
  apply List.ext_getElem
  · simp
  · intro i h1 h2
    simp at h1
    simp [h1]

/-! Concrete instances (kernel-checked by evaluation), with the C07 kernel next to them.
`rate(t, base=100, step=10)`: -/

private def vi (i : Int) : Val := .int i

/-- `rate(3, 200)` is the element `(3, 200, 10)` – the omitted LAST parameter gets the LAST default -/
theorem bindKey_defaults_are_trailing :
    bindKey 3 [vi 100, vi 10] [vi 3, vi 200] [] = some [vi 3, vi 200, vi 10] := by decide

example : bindKey 3 [vi 100, vi 10] [vi 3] [] = some [vi 3, vi 100, vi 10] := by decide
example : bindKey 3 [vi 100, vi 10] [vi 3] [(2, vi 5)] = some [vi 3, vi 100, vi 5] := by decide
example : bindKey 3 [vi 100, vi 10] [] [(2, vi 5), (0, vi 3)] = some [vi 3, vi 100, vi 5] := by decide
example : bindKey 3 [vi 100, vi 10] [vi 3, vi 200, vi 30] [] = some [vi 3, vi 200, vi 30] := by decide
example : bindKey 3 [vi 100, vi 10] [] [] = none := by decide                                 -- `t` missing
example : bindKey 3 [vi 100, vi 10] [vi 3, vi 1, vi 2, vi 4] [] = none := by decide           -- too many
example : bindKey 3 [vi 100, vi 10] [vi 3] [(0, vi 4)] = none := by decide                    -- two values for `t`
example : bindKey 3 [vi 100, vi 10] [vi 3] [(3, vi 4)] = none := by decide                    -- no such keyword
example : bindKey 3 [vi 100, vi 10] [vi 3] [(1, vi 4), (1, vi 5)] = none := by decide         -- repeated keyword

/-! the same spellings through the C07 kernel (`ItemSpace.bindArgs`, names instead of indices) -/
private def rateSig : ItemSpace.Sig := [⟨"a0", none⟩, ⟨"a1", some 100⟩, ⟨"a2", some 10⟩]
example : ItemSpace.bindArgs rateSig [3, 200] [] = some [3, 200, 10] := by decide
example : ItemSpace.bindArgs rateSig [3] [("a2", 5)] = some [3, 100, 5] := by decide
example : ItemSpace.bindArgs rateSig [] [("a2", 5), ("a0", 3)] = some [3, 100, 5] := by decide
example : ItemSpace.bindArgs rateSig [3] [("a0", 4)] = none := by decide
example : ItemSpace.bindArgs rateSig [3] [("a3", 4)] = none := by decide

end MxModel.Exec
