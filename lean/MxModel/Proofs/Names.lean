import MxModel.Kernels.Names
import Std.Data.String.ToNat
/-! `AutoNamer.get_next` always returns a name that is not in `existing`. -/
namespace MxModel.Names

theorem cand_inj (pre base : String) {j k : Nat} (h : cand pre base j = cand pre base k) :
    j = k := by
  unfold cand at h
  have h2 : (toString j : String) = toString k := by
    have := congrArg String.toList h
    simp only [String.toList_append] at this
    have := List.append_cancel_left this
    exact String.toList_inj.mp this
  exact Nat.repr_inj.mp h2

theorem nextName_spec (existing : List String) (pre base : String) :
    ∀ (fuel last : Nat),
      (nextName existing pre base fuel last).2 =
          cand pre base (nextName existing pre base fuel last).1 ∧
      last < (nextName existing pre base fuel last).1 ∧
      (nextName existing pre base fuel last).1 ≤ last + fuel + 1 ∧
      (∀ j, last < j → j < (nextName existing pre base fuel last).1 →
          cand pre base j ∈ existing) ∧
      ((nextName existing pre base fuel last).1 ≤ last + fuel →
          (nextName existing pre base fuel last).2 ∉ existing) := by
  intro fuel
  induction fuel with
  | zero =>
    intro last
    simp only [nextName]
    refine ⟨trivial, by omega, by omega, ?_, ?_⟩
    · intro j h1 h2; omega
    · intro h; omega
  | succ f ih =>
    intro last
    simp only [nextName]
    split
    · rename_i hmem
      obtain ⟨h1, h2, h3, h4, h5⟩ := ih (last + 1)
      refine ⟨h1, by omega, by omega, ?_, ?_⟩
      · intro j hj1 hj2
        by_cases hj : j = last + 1
        · subst hj; simpa using hmem
        · exact h4 j (by omega) hj2
      · intro h; exact h5 (by omega)
    · rename_i hmem
      refine ⟨rfl, by omega, by omega, ?_, ?_⟩
      · intro j h1 h2; omega
      · intro _; simpa using hmem

/-- The fuel `existing.length` is enough: the returned name is fresh. -/
theorem getNext_fresh (existing : List String) (pre base : String) (last : Nat) :
    (getNext existing pre base last).2 ∉ existing := by
  unfold getNext
  obtain ⟨h1, h2, h3, h4, h5⟩ := nextName_spec existing pre base existing.length last
  by_cases hk : (nextName existing pre base existing.length last).1 ≤ last + existing.length
  · exact h5 hk
  · -- all `existing.length` earlier candidates are in `existing`; a further one cannot be
    intro hmem
    have hk' : (nextName existing pre base existing.length last).1 = last + existing.length + 1 := by
      omega
    let l : List String := (List.range (existing.length + 1)).map (fun j => cand pre base (last + 1 + j))
    have hnd : l.Nodup := by
      simp only [l, List.Nodup, List.pairwise_map]
      refine List.Pairwise.imp ?_ (List.nodup_range (n := existing.length + 1))
      intro a b hne hab
      have := cand_inj pre base hab
      omega
    have hsub : l ⊆ existing := by
      intro x hx
      simp only [l, List.mem_map, List.mem_range] at hx
      obtain ⟨j, hj, rfl⟩ := hx
      by_cases hjl : j = existing.length
      · subst hjl
        rw [h1, hk'] at hmem
        have : last + 1 + existing.length = last + existing.length + 1 := by omega
        rw [this]; exact hmem
      · exact h4 (last + 1 + j) (by omega) (by omega)
    have := List.Nodup.length_le_of_subset hnd hsub
    simp only [l, List.length_map, List.length_range] at this
    omega

theorem getNext_is_cand (existing : List String) (pre base : String) (last : Nat) :
    (getNext existing pre base last).2 = cand pre base (getNext existing pre base last).1 :=
  (nextName_spec existing pre base existing.length last).1

theorem getNext_gt (existing : List String) (pre base : String) (last : Nat) :
    last < (getNext existing pre base last).1 :=
  (nextName_spec existing pre base existing.length last).2.1

end MxModel.Names
