import MxModel.Proofs.ExecCertRun
/-!
# Evaluation maintains the certificates (T1), part 2: `_eval_formula` and top-level calls

`runN_cert`: when the formula of a cached element returns, the trace its body produced –
pending until then – becomes the certificate of the stored value: the edges to it are in the
graph already (added by `hitEdge` / `pop` of its callees with the `idx` rule), `pop` turns the
pending attribute-path reads of its frame (including those handed up by uncached callees) into
reference-graph edges, and the new entry is the youngest of the cache.  A failed element is
rolled back without touching anything a certificate of a held element mentions.
-/
namespace MxModel.Exec

variable {env : Env} {lt : Node → Node → Prop}

/-! ### `pop` and `rollback`, field by field -/

theorem popEdge_rg (env : Env) (s : St) (n : Node) : (s.popEdge env n).rg = s.rg := by
  unfold St.popEdge
  split
  · exact (sameC_addEdge_data s _ _).2.2.1
  · split
    · unfold St.addNode; split <;> rfl
    · rfl

theorem pop_ge (env : Env) (s : St) (n : Node) (e : GNode × GNode) :
    e ∈ (s.pop env n).ge ↔ e ∈ s.ge ∨ ∃ t, s.dropFrame.edgeTarget = some t ∧
      e = ((if env.cached n.1 then GNode.elem n else GNode.obj n.1), GNode.elem t) := by
  unfold St.pop
  rw [(drainSame env _ n).ge]
  unfold St.popEdge
  cases ht : s.dropFrame.edgeTarget with
  | some t =>
    simp only [mem_addEdge_ge, Option.some.injEq, exists_eq_left']
    rfl
  | none =>
    simp only [reduceCtorEq, false_and, exists_false, or_false]
    split
    · rw [addNode_ge]; rfl
    · rfl

theorem pop_rg_mono (env : Env) (s : St) (n : Node) : ∀ e ∈ s.rg, e ∈ (s.pop env n).rg := by
  intro e he
  unfold St.pop
  exact drainRefs_rg_mono env _ n e (by rw [popEdge_rg]; exact he)

theorem pop_rg_cached (env : Env) (s : St) (n : Node) (hc : env.cached n.1 = true) (r : RefId)
    (hr : r ∈ (takeRefs s.refstack s.stack.dropLast.length).1) : (r, n) ∈ (s.pop env n).rg := by
  unfold St.pop
  refine drainRefs_cached_rg env _ n hc r ?_
  have h1 := frameSame_popEdge env s.dropFrame n
  rw [h1.stack, h1.refstack]
  exact hr

theorem pop_refstack_uncached (env : Env) (s : St) (n : Node) (hc : env.cached n.1 = false)
    (hne : s.stack.dropLast ≠ []) (r : RefId)
    (hr : r ∈ (takeRefs s.refstack s.stack.dropLast.length).1) :
    (s.stack.dropLast.length - 1, r) ∈ (s.pop env n).refstack := by
  unfold St.pop
  have h1 := frameSame_popEdge env s.dropFrame n
  have := drainRefs_uncached_refstack env (s.dropFrame.popEdge env n) n hc
    (by rw [h1.stack]; exact hne) r (by rw [h1.stack, h1.refstack]; exact hr)
  rw [h1.stack] at this
  exact this

/-! ### the last step of `_eval_formula` -/

structure FinRel (s1 fin : St) (n : Node) : Prop where
  unheld : lookup s1.data n = none
  data : fin.data = s1.data ∨ ∃ v, fin.data = insert s1.data n v
  ge : ∀ e ∈ s1.ge, e.1 ≠ GNode.elem n → e.2 ≠ GNode.elem n → e ∈ fin.ge
  rg : ∀ e ∈ s1.rg, e ∈ fin.rg
  inputs : fin.inputs = s1.inputs
  /-- the last step adds no edge into a held element -/
  geIn : ∀ a k, Held s1 k → (a, GNode.elem k) ∈ fin.ge → (a, GNode.elem k) ∈ s1.ge

theorem FinRel.lookup_ne {s1 fin : St} {n : Node} (h : FinRel s1 fin n) (m : Node) (hmn : m ≠ n) :
    lookup fin.data m = lookup s1.data m := by
  rcases h.data with hd | ⟨v, hd⟩
  · rw [hd]
  · rw [hd, lookup_insert, if_neg (Ne.symm hmn)]

theorem FinRel.presH {s1 fin : St} {n : Node} (h : FinRel s1 fin n) : PresH s1 fin := by
  have hne : ∀ m, Held s1 m → m ≠ n := by
    intro m hm hmn; subst hmn; unfold Held at hm; rw [h.unheld] at hm; cases hm
  refine ⟨?_, ?_, ?_, h.rg, h.geIn⟩
  · intro m v hl
    rw [h.lookup_ne m (hne m (by unfold Held; rw [hl]; rfl))]; exact hl
  · intro a b ha hb hlt
    rcases h.data with hd | ⟨v, hd⟩
    · rw [hd]; exact hlt
    · rw [hd, rank_insert_other _ _ _ _ h.unheld (hne a ha), rank_insert_other _ _ _ _ h.unheld (hne b hb)]
      exact hlt
  · intro a k hak ha hk
    refine h.ge _ hak ?_ ?_
    · intro h'; simp only [] at h'; subst h'; exact hne n ha rfl
    · intro h'; simp only [GNode.elem.injEq] at h'; exact hne k hk h'

theorem finish {s s1 fin : St} {n : Node} (hm : Mid env lt s) (hnone : lookup s.data n = none)
    (hnot : n ∉ s.stack) (hpost : Post env lt (s.push env n) s1) (hfr : FinRel s1 fin n)
    (hgi : GI env lt fin) (hstack : fin.stack = s.stack) (hidx : fin.idx = s.idx) (hbody : BodyRel s fin)
    (hnew : ∀ v, lookup fin.data n = some v → ∃ tr, Cert env fin n v tr)
    (hstackIn : ∀ a t, t ∈ s.stack → (a, GNode.elem t) ∈ fin.ge →
      (a, GNode.elem t) ∈ s.ge ∨ s.edgeTarget = some t) : Post env lt s fin := by
  have hsp : SameC s (s.push env n) := ⟨rfl, rfl, rfl, rfl⟩
  have hH : PresH s fin := ((PresH.of_sameC hsp).trans hpost.presH).trans hfr.presH
  have hinp : fin.inputs = s.inputs := hfr.inputs.trans hpost.inputs
  refine ⟨⟨hgi, by rw [hstack, hidx]; exact hm.idxok, by rw [hstack, hidx]; exact hm.len,
    hbody.refsBelow hm.refsBelow, ?_⟩, hidx, hH, ⟨hH.ext, hstack, ?_, ?_⟩, hinp, hbody, hstackIn⟩
  · refine CInv.presH hfr.presH hfr.inputs hpost.mid.certs ?_
    intro k v hl hl1 _
    by_cases hkn : k = n
    · subst hkn; exact hnew v hl
    · rw [hfr.lookup_ne k hkn, hl1] at hl; cases hl
  · intro a t ht hat ha
    have h1 := hpost.presP.edgesS a t (by simp [St.push, ht]) hat ha
    refine hfr.ge _ h1 ?_ ?_
    · intro h'; simp only [] at h'; subst h'
      have : Held s n := ha
      unfold Held at this; rw [hnone] at this; cases this
    · intro h'; simp only [GNode.elem.injEq] at h'; subst h'; exact hnot ht
  · obtain ⟨new, hnew', _⟩ := hbody.refs
    intro e he; rw [hnew']; exact List.mem_append_left _ he

/-- reads pending at the level of the finished frame are the ones `pop` takes -/
theorem pending_taken {s s1 : St} {n : Node} (hm : Mid env lt s) (hpost : Post env lt (s.push env n) s1)
    (r : RefId) (h : (s.stack.length, r) ∈ s1.refstack) :
    r ∈ (takeRefs s1.refstack s.stack.length).1 := by
  obtain ⟨new, hnew, hlev⟩ := hpost.body.refs
  have hnew' : s1.refstack = s.refstack ++ new := hnew
  rw [hnew'] at h ⊢
  refine mem_takeRefs_fst s.refstack new s.stack.length r hm.refsBelow ?_ h
  intro e he
  have := hlev e he
  simp only [St.push, List.length_append, List.length_singleton] at this
  omega

theorem runN_cert (ho : StrictOrder lt) (hr : Ranked env lt) (hnc : NoCatchEnv env) :
    ∀ d, EvalC env lt (runN env d) := by
  intro d
  induction d with
  | zero =>
    intro n s hm _ _
    refine ⟨Post.of_same (s' := (runN env 0 n s).2) hm ⟨rfl, rfl, rfl, rfl, rfl, rfl⟩ ⟨rfl, rfl, rfl, rfl⟩
      (BodyRel.of_frameSame ⟨rfl, rfl, rfl⟩), ?_⟩
    intro w hw; simp [runN] at hw
  | succ d ih =>
    intro n s hm hbelow hnone
    have hnot : n ∉ s.stack := fun h => ho.irrefl n (hbelow n h)
    have hG := runN_graph ho hr (d + 1) n s hm.gi hm.idxok hm.len hbelow hnone
    have hF := runN_frame env (d + 1) n s hm.refsBelow
    -- the state after the push
    have hsp : SameC s (s.push env n) := ⟨rfl, rfl, rfl, rfl⟩
    have hmp : Mid env lt (s.push env n) :=
      ⟨hm.gi.push n hnone, IdxOK.push hm.idxok hm.len n, by simp [St.push, hm.len],
       (by intro e he
           have := hm.refsBelow e he
           simp only [St.push, List.length_append, List.length_singleton]; omega),
       hm.certs.of_sameC hsp⟩
    have hb := runBody_cert ho (evalNode env (runN env d)) (evalNode_cert _ (runN_graph ho hr d) ih)
      s.stack n hbelow (env.formula n) (hnc n) (hr n) (s.push env n) hmp rfl
    simp only [runN] at hG hF ⊢
    generalize runBody env (evalNode env (runN env d)) (env.formula n) (s.push env n) = p at hG hF hb ⊢
    obtain ⟨res, s1⟩ := p
    simp only [] at hb hG hF ⊢
    obtain ⟨hpost, htrace⟩ := hb
    have hs1stack : s1.stack = s.stack ++ [n] := hpost.presP.stack
    have hs1idx : s1.idx = (s.push env n).idx := hpost.idx
    have hun1 : lookup s1.data n = none := hpost.mid.gi.stackUnheld n (by rw [hs1stack]; simp)
    have hdropS : s1.stack.dropLast = s.stack := by rw [hs1stack]; simp
    have hdropI : s1.idx.dropLast = s.idx := by rw [hs1idx]; simp [St.push]
    -- failure: roll back
    have hroll : ∀ s1x : St, s1x.data = s1.data → s1x.ge = s1.ge → s1x.rg = s1.rg → s1x.inputs = s1.inputs →
        FinRel s1 (s1x.rollback n) n := by
      intro s1x h1 h2 h3 h4
      refine ⟨hun1, Or.inl (by simp [St.rollback, St.removeNode, St.dropFrame, h1]), ?_,
        by intro e he; simp [St.rollback, St.removeNode, St.dropFrame, h3, he],
        by simp [St.rollback, St.removeNode, St.dropFrame, h4], ?_⟩
      · intro e he hn1 hn2
        simp only [St.rollback, St.removeNode, St.dropFrame, List.mem_filter, h2, Bool.and_eq_true, bne_iff_ne]
        exact ⟨he, hn1, hn2⟩
      · intro a k _ he
        simp only [St.rollback, St.removeNode, St.dropFrame, List.mem_filter, h2] at he
        exact he.1
    -- among the elements that were executing before, only the nearest cached caller may have got edges
    have hold : ∀ a t, t ∈ s.stack → (a, GNode.elem t) ∈ s1.ge →
        (a, GNode.elem t) ∈ s.ge ∨ (env.cached n.1 = false ∧ s.edgeTarget = some t) := by
      intro a t ht he
      rcases hpost.stackIn a t (by simp [St.push, ht]) he with h | h
      · exact Or.inl h
      · by_cases hc : env.cached n.1 = true
        · rw [edgeTarget_push_cached env s n hm.len hc] at h
          cases h; exact absurd ht hnot
        · have hc' : env.cached n.1 = false := by simpa using hc
          rw [edgeTarget_push_uncached env s n hm.len hm.idxok hc'] at h
          exact Or.inr ⟨hc', h⟩
    have hrollIn : ∀ s1x : St, s1x.ge = s1.ge → ∀ a t, t ∈ s.stack → (a, GNode.elem t) ∈ (s1x.rollback n).ge →
        (a, GNode.elem t) ∈ s.ge ∨ s.edgeTarget = some t := by
      intro s1x h2 a t ht he
      simp only [St.rollback, St.removeNode, St.dropFrame, List.mem_filter, h2] at he
      exact (hold a t ht he.1).imp id (fun h => h.2)
    -- the step `pop` adds one edge, into the nearest cached caller of the finished frame
    have hpopIn : ∀ s1x : St, s1x.ge = s1.ge → s1x.stack = s1.stack → s1x.idx = s1.idx →
        ∀ e, e ∈ (s1x.pop env n).ge → e ∈ s1.ge ∨ ∃ t, s.edgeTarget = some t ∧
          e = ((if env.cached n.1 then GNode.elem n else GNode.obj n.1), GNode.elem t) := by
      intro s1x h2 h3 h4 e he
      rcases (pop_ge env s1x n e).mp he with h | ⟨t, ht, h⟩
      · exact Or.inl (h2 ▸ h)
      · refine Or.inr ⟨t, ?_, h⟩
        rw [← ht]
        exact (edgeTarget_congr (s := s) (by simp [St.dropFrame, h3, hdropS]) (by simp [St.dropFrame, h4, hdropI])).symm
    have hnoNew : ∀ fin : St, fin.data = s1.data → ∀ v, lookup fin.data n = some v → ∃ tr, Cert env fin n v tr := by
      intro fin hd v hl; rw [hd, hun1] at hl; cases hl
    cases res with
    | err e =>
      simp only [] at hG hF ⊢
      obtain ⟨g', hst', hidx', _⟩ := hG
      refine ⟨finish hm hnone hnot hpost (hroll s1 rfl rfl rfl rfl) g' hst' hidx' hF
        (hnoNew _ (by simp [St.rollback, St.removeNode, St.dropFrame])) (hrollIn s1 rfl), ?_⟩
      intro w hw; cases hw
    | ok v =>
      simp only [] at hG hF ⊢
      by_cases hc : env.cached n.1 = true
      · simp only [hc, if_true] at hG hF ⊢
        by_cases hn : (decide (v = Val.none) && !env.allowNone n.1) = true
        · simp only [hn, if_true] at hG hF ⊢
          obtain ⟨g', hst', hidx', _⟩ := hG
          refine ⟨finish hm hnone hnot hpost (hroll s1.newExc rfl rfl rfl rfl) g' hst' hidx' hF
            (hnoNew _ (by simp [St.rollback, St.removeNode, St.dropFrame, St.newExc])) (hrollIn s1.newExc rfl), ?_⟩
          intro w hw; cases hw
        · simp only [hn, Bool.false_eq_true, if_false] at hG hF ⊢
          obtain ⟨g', hst', hidx', _⟩ := hG
          generalize hfin : ({ s1 with data := insert s1.data n v } : St).pop env n = fin at g' hst' hidx' hF ⊢
          have hdata : fin.data = insert s1.data n v := by
            rw [← hfin]; exact (sameCache_pop env _ n).data
          have hinputs : fin.inputs = s1.inputs := by
            rw [← hfin]; exact (sameCache_pop env _ n).inputs
          have hge : ∀ e ∈ s1.ge, e ∈ fin.ge := by
            intro e he; rw [← hfin]; exact (pop_ge env _ n e).mpr (Or.inl he)
          have hrg : ∀ e ∈ s1.rg, e ∈ fin.rg := by
            intro e he; rw [← hfin]; exact pop_rg_mono env _ n e he
          have hgeq := hpopIn ({ s1 with data := insert s1.data n v } : St) rfl rfl rfl
          rw [hfin] at hgeq
          simp only [hc, if_true] at hgeq
          have hunT : ∀ t, s.edgeTarget = some t → ¬ Held s1 t := by
            intro t ht hh
            unfold Held at hh
            rw [hpost.mid.gi.stackUnheld t (by rw [hs1stack]; simp [edgeTarget_mem s t ht])] at hh; cases hh
          have hfr : FinRel s1 fin n := ⟨hun1, Or.inr ⟨v, hdata⟩, fun e he _ _ => hge e he, hrg, hinputs, by
            intro a k hk he
            rcases hgeq _ he with h | ⟨t, ht, h⟩
            · exact h
            · cases h; exact absurd hk (hunT k ht)⟩
          have hlookn : lookup fin.data n = some v := by rw [hdata, lookup_insert]; simp
          have hT : (s.push env n).edgeTarget = some n := edgeTarget_push_cached env s n hm.len hc
          obtain ⟨tr, hrep, hpend, hnewin⟩ := htrace v rfl
          have hnogn : GNode.elem n ∉ s.gn := by
            intro h
            rcases hm.gi.nodesHeld n h with h' | h'
            · rw [hnone] at h'; cases h'
            · exact hnot h'
          have hcert : Cert env fin n v tr := by
            refine ⟨hrep, ?_, ?_, ?_⟩
            rotate_left 2
            · -- every edge into `n` was added while its body ran, by a recorded call
              intro a he
              rcases hgeq _ he with h | ⟨t, ht, h⟩
              · rcases hnewin a n hT h with h0 | h0
                · exact absurd (hm.gi.edgeNodes _ _ h0).2 hnogn
                · exact h0
              · cases h; exact absurd (edgeTarget_mem s n ht) hnot
            · intro hv
              subst hv
              cases ha : env.allowNone n.1 with
              | true => rfl
              | false => simp [ha] at hn
            · intro ev hm'
              have hp := hpend ev hm'
              cases ev with
              | read c a r x =>
                refine ⟨hp.1, ?_⟩
                intro ha hx
                have hin := pending_taken hm hpost r (hp.2 ha hx _ rfl)
                rw [← hfin]
                refine pop_rg_cached env _ n hc r ?_
                show r ∈ (takeRefs s1.refstack s1.stack.dropLast.length).1
                rw [hdropS]; exact hin
              | call m w =>
                obtain ⟨hlm, hedge⟩ := hp
                have hmn : m ≠ n := by intro h; subst h; rw [hun1] at hlm; cases hlm
                refine ⟨by rw [hfr.lookup_ne m hmn]; exact hlm, ?_, hge _ (hedge n hT)⟩
                rw [hdata, rank_insert_other _ _ _ _ hun1 hmn, rank_insert_self _ _ _ hun1]
                have := rank_le_length s1.data m
                omega
              | ucall m => exact hge _ (hp n hT)
          have hstackIn : ∀ a t, t ∈ s.stack → (a, GNode.elem t) ∈ fin.ge →
              (a, GNode.elem t) ∈ s.ge ∨ s.edgeTarget = some t := by
            intro a t ht he
            rcases hgeq _ he with h | ⟨t', ht', h⟩
            · exact (hold a t ht h).imp id (fun h => h.2)
            · cases h; exact Or.inr ht'
          refine ⟨finish hm hnone hnot hpost hfr g' hst' hidx' hF
            (fun v' hl => by rw [hlookn] at hl; cases hl; exact ⟨tr, hcert⟩) hstackIn, ?_⟩
          intro w hw
          cases hw
          left
          refine ⟨hc, ⟨hlookn, ?_⟩, ?_⟩
          · intro t ht
            rw [← hfin]
            refine (pop_ge env _ n _).mpr (Or.inr ⟨t, ?_, by simp [hc]⟩)
            rw [← ht]
            exact edgeTarget_congr (s := s) (by simp [St.dropFrame, hdropS]) (by simp [St.dropFrame, hdropI])
          · intro a t ht he
            rcases hgeq _ he with h | ⟨t', _, h⟩
            · rcases hold a t (edgeTarget_mem s t ht) h with h0 | h0
              · exact Or.inl h0
              · rw [hc] at h0; cases h0.1
            · cases h; exact Or.inr (Or.inl ⟨n, v, rfl, by simp⟩)
      · have hc' : env.cached n.1 = false := by simpa using hc
        simp only [hc', Bool.false_eq_true, if_false] at hG hF ⊢
        obtain ⟨g', hst', hidx', _⟩ := hG
        generalize hfin : s1.pop env n = fin at g' hst' hidx' hF ⊢
        have hdata : fin.data = s1.data := by rw [← hfin]; exact (sameCache_pop env _ n).data
        have hinputs : fin.inputs = s1.inputs := by rw [← hfin]; exact (sameCache_pop env _ n).inputs
        have hge : ∀ e ∈ s1.ge, e ∈ fin.ge := by
          intro e he; rw [← hfin]; exact (pop_ge env _ n e).mpr (Or.inl he)
        have hrg : ∀ e ∈ s1.rg, e ∈ fin.rg := by
          intro e he; rw [← hfin]; exact pop_rg_mono env _ n e he
        have hgeq := hpopIn s1 rfl rfl rfl
        rw [hfin] at hgeq
        simp only [hc', Bool.false_eq_true, if_false] at hgeq
        have hunT : ∀ t, s.edgeTarget = some t → ¬ Held s1 t := by
          intro t ht hh
          unfold Held at hh
          rw [hpost.mid.gi.stackUnheld t (by rw [hs1stack]; simp [edgeTarget_mem s t ht])] at hh; cases hh
        have hfr : FinRel s1 fin n := ⟨hun1, Or.inl hdata, fun e he _ _ => hge e he, hrg, hinputs, by
          intro a k hk he
          rcases hgeq _ he with h | ⟨t, ht, h⟩
          · exact h
          · cases h; exact absurd hk (hunT k ht)⟩
        have hstackIn : ∀ a t, t ∈ s.stack → (a, GNode.elem t) ∈ fin.ge →
            (a, GNode.elem t) ∈ s.ge ∨ s.edgeTarget = some t := by
          intro a t ht he
          rcases hgeq _ he with h | ⟨t', ht', h⟩
          · exact (hold a t ht h).imp id (fun h => h.2)
          · cases h; exact Or.inr ht'
        refine ⟨finish hm hnone hnot hpost hfr g' hst' hidx' hF (hnoNew fin hdata) hstackIn, ?_⟩
        intro w hw
        cases hw
        have hT : (s.push env n).edgeTarget = s.edgeTarget := edgeTarget_push_uncached env s n hm.len hm.idxok hc'
        obtain ⟨tr, hrep, hpend, hnewin⟩ := htrace v rfl
        right
        refine ⟨hc', tr, hrep, ?_, ?_, ?_⟩
        rotate_left 2
        · -- the edges the caller got: from the body of this frame (recorded in `tr`), and the object node
          intro a t ht he
          rcases hgeq _ he with h | ⟨t', _, h⟩
          · rw [hT] at hnewin
            exact (hnewin a t ht h).imp id (JustE.mono (fun ev hm => List.mem_cons_of_mem _ hm))
          · cases h; exact Or.inr (Or.inr ⟨n, rfl, by simp⟩)
        · intro ev hm'
          have hp := hpend ev hm'
          rw [hT] at hp
          cases ev with
          | read c a r x =>
            refine ⟨hp.1, ?_⟩
            intro ha hx l hl
            have hin := pending_taken hm hpost r (hp.2 ha hx _ rfl)
            unfold retLvl at hl
            split at hl
            · cases hl
            · rename_i hne
              cases hl
              rw [← hfin]
              have := pop_refstack_uncached env s1 n hc' (by rw [hdropS]; exact hne) r (by rw [hdropS]; exact hin)
              rw [hdropS] at this
              exact this
          | call m w => exact ⟨by rw [hdata]; exact hp.1, fun t ht => hge _ (hp.2 t ht)⟩
          | ucall m => exact fun t ht => hge _ (hp t ht)
        · intro t ht
          rw [← hfin]
          refine (pop_ge env _ n _).mpr (Or.inr ⟨t, ?_, by simp [hc']⟩)
          rw [← ht]
          exact edgeTarget_congr (s := s) (by simp [St.dropFrame, hdropS]) (by simp [St.dropFrame, hdropI])

end MxModel.Exec
