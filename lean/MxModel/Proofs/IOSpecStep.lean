import MxModel.Proofs.IOSpecUpdate
/-! Preservation of the invariant by the user-level operations and by `step`. -/
namespace MxModel.IOSpec

variable {ex : Spec → Prop}

/-- the invariant speaks about references, `_valid_to_refs`, specs and the counters only; specs may
be dropped -/
theorem rinv_frame {st st' : St} (h : RInvX ex st) (hr : st'.refs = st.refs) (hv : st'.v2r = st.v2r)
    (hn : st'.nextRid = st.nextRid) (hs : ∀ τ ∈ st'.specs, τ ∈ st.specs) (hsid : SidOK (sp st')) :
    RInvX ex st' := by
  refine ⟨?_, ?_, ?_, ?_, ?_, ?_, ?_, hsid⟩
  · rw [hr, hn]; exact h.ridLt
  · rw [hr]; exact h.refKey
  · rw [hr, hv]; exact h.entry
  · rw [hv]; exact h.keys
  · rw [hr]; intro σ hσ; exact h.specRef σ (hs σ hσ)
  · intro σ hσ τ hτ; exact h.specVal σ (hs σ hσ) τ (hs τ hτ)
  · intro σ hσ; exact h.specPandas σ (hs σ hσ)

/-! ### `update_value` -/

theorem rinv_rmUpdateValue {st : St} (h : RInv st) {m : Nat} {old new : Val}
    (hk6 : trigUpdateOnto st (.update m old new) = false) :
    RInv (rmUpdateValue st m old new).1 ∧
    ∀ σ ∈ st.specs, ∃ τ ∈ (rmUpdateValue st m old new).1.specs, τ.sid = σ.sid := by
  have hsid : SidOK (sp (rmUpdateValue st m old new).1) :=
    sidOK_strans (Q := fun _ _ => True) (strans_rmUpdateValue st m old new) h.sid
  unfold rmUpdateValue at hsid ⊢
  cases hl : alookup st.v2r (m, old) with
  | none => exact ⟨h, fun σ hσ => ⟨σ, hσ, rfl⟩⟩
  | some l =>
    simp only [hl] at hsid ⊢
    by_cases hnew : new.tracked = true
    · simp only [hnew, Bool.not_true, Bool.false_eq_true, if_false] at hsid ⊢
      have hE := h.entry m old
      rw [hl] at hE
      obtain ⟨e1, e2, e3, e4⟩ := hE
      have hk6' : old = new ∨ alookup st.v2r (m, new) = none := by
        simp only [trigUpdateOnto, Bool.and_eq_false_iff, bne_eq_false_iff_eq,
          Option.isSome_eq_false_iff, Option.isNone_iff_eq_none] at hk6
        exact hk6
      have hlsub : ∀ r ∈ l.reverse, r ∈ st.refs := by
        intro r hr; rw [List.mem_reverse] at hr; exact ((e4 r).mp hr).1
      have hlnd : l.reverse.Nodup := by
        simpa [List.Nodup, List.pairwise_reverse, ne_comm] using e2
      cases hg : getSpecFromValue st m old with
      | none =>
        simp only [hg] at hsid ⊢
        rw [updLoop_closed m old new l.reverse st [] h.ridLt h.refKey hlsub hlnd] at hsid ⊢
        exact ⟨rinv_after_update h hl hnew hk6' rfl rfl rfl (Or.inl ⟨hg, rfl⟩) hsid,
          fun σ hσ => ⟨σ, hσ, rfl⟩⟩
      | some σ0 =>
        simp only [hg] at hsid ⊢
        by_cases hp : new.isPandas = true
        · simp only [hp, Bool.not_true, Bool.false_eq_true, if_false] at hsid ⊢
          rw [updLoop_closed m old new l.reverse (setSpecVal st σ0 new) [] h.ridLt h.refKey hlsub hlnd]
            at hsid ⊢
          refine ⟨rinv_after_update h hl hnew hk6' rfl rfl rfl (Or.inr ⟨σ0, hg, hp, rfl⟩) hsid, ?_⟩
          intro σ hσ
          exact ⟨setValMap σ0.sid new σ, List.mem_map.mpr ⟨σ, hσ, rfl⟩, by simp⟩
        · simp only [hp, Bool.not_false, if_true]
          exact ⟨h, fun σ hσ => ⟨σ, hσ, rfl⟩⟩
    · simp only [hnew, Bool.not_false, if_true]
      exact ⟨h, fun σ hσ => ⟨σ, hσ, rfl⟩⟩

/-! ### attribute assignment -/

theorem rmChangeRef_ok {st : St} {o : Owner} {n : String} {prev : Ref} (v : Val)
    (hl : refLookup st.refs o n = some prev) : (rmChangeRef st o n v).2 = .ok () := by
  unfold rmChangeRef; simp only [hl]; split <;> rfl

/-- what `set_attr` does -/
theorem setAttr_cases (kw : List String) (st : St) (o : Owner) (n : String) (v : Val) :
    (∃ e, setAttr kw st o n v = (st, .error e) ∧ (e = .value ∨ e = .key ∨ e = .attribute)) ∨
    (∃ prev, refLookup st.refs o n = some prev ∧ setAttr kw st o n v = rmChangeRef st o n v) ∨
    (refLookup st.refs o n = none ∧ setAttr kw st o n v = (rmNewRef st o n v, .ok ())) ∨
    (o.space ≠ 0 ∧ cellsLookup st.cells o n = some true ∧ setAttr kw st o n v = (st, .ok ())) := by
  unfold setAttr
  by_cases ho : o.space = 0
  · simp only [ho, if_true]
    split
    · exact Or.inl ⟨_, rfl, Or.inr (Or.inl rfl)⟩
    · cases hl : refLookup st.refs o n with
      | some prev => exact Or.inr (Or.inl ⟨prev, rfl, rfl⟩)
      | none => exact Or.inr (Or.inr (Or.inl ⟨rfl, rfl⟩))
  · simp only [ho, if_false]
    split
    · exact Or.inl ⟨_, rfl, Or.inl rfl⟩
    · cases hl : refLookup st.refs o n with
      | some prev => exact Or.inr (Or.inl ⟨prev, rfl, rfl⟩)
      | none =>
        simp only
        split
        · exact Or.inr (Or.inr (Or.inl ⟨trivial, rfl⟩))
        · cases hc : cellsLookup st.cells o n with
          | none => exact Or.inr (Or.inr (Or.inl ⟨trivial, rfl⟩))
          | some b =>
            cases b with
            | true => exact Or.inr (Or.inr (Or.inr ⟨ho, rfl, rfl⟩))
            | false => exact Or.inl ⟨_, rfl, Or.inr (Or.inr rfl)⟩

/-- an assignment that succeeds keeps the invariant (also with a pending spec), removes a spec
only if afterwards no reference of the model is bound to the spec's value, and – unless the name is
a scalar cells – the parent now has a reference to `v` -/
theorem setAttr_ok_spec {kw : List String} {st : St} (h : RInvX ex st) {o : Owner} {n : String} {v : Val}
    (hok : (setAttr kw st o n v).2 = .ok ()) :
    RInvX ex (setAttr kw st o n v).1 ∧
    (∀ τ ∈ (setAttr kw st o n v).1.specs, τ ∈ st.specs) ∧
    ((o.space ≠ 0 ∧ cellsLookup st.cells o n = some true ∧ (setAttr kw st o n v).1 = st) ∨
      mkRef st o n v ∈ (setAttr kw st o n v).1.refs) ∧
    (∀ σ ∈ st.specs, σ ∉ (setAttr kw st o n v).1.specs →
        ∀ r ∈ (setAttr kw st o n v).1.refs, ¬ (r.owner.model = σ.group ∧ r.val = σ.val)) := by
  rcases setAttr_cases kw st o n v with ⟨e, he, _⟩ | ⟨prev, hl, he⟩ | ⟨hl, he⟩ | ⟨ho, hc, he⟩
  · rw [he] at hok; cases hok
  · rw [he]
    obtain ⟨c1, c2, c3, c4, c5⟩ := rmChangeRef_spec h v hl
    refine ⟨c2, c4, Or.inr (by rw [c3]; simp), ?_⟩
    intro σ hσ hgone
    obtain ⟨g1, g2, g3⟩ := c5 σ hσ hgone
    rw [g1, g2]; exact g3
  · rw [he]
    obtain ⟨n1, n2⟩ := refs_rmNewRef st o n v
    refine ⟨rinv_rmNewRef h v hl, by simp only; rw [n2]; exact fun τ hτ => hτ,
      Or.inr (by simp only; rw [n1]; simp), ?_⟩
    intro σ hσ hgone
    simp only at hgone; rw [n2] at hgone; exact absurd hσ hgone
  · rw [he]
    exact ⟨h, fun τ hτ => hτ, Or.inl ⟨ho, hc, rfl⟩, fun σ hσ hgone => absurd hσ hgone⟩

/-! ### `new_pandas` -/

/-- the spec `new_spec` builds -/
def mkSpec (st : St) (m : Nat) (path : String) (csv : Bool) (sheet : Option String) (data : Val) : Spec :=
  ⟨st.nextSid, m, path, ftOf st.specs m path csv, sheet, data⟩

/-- the state right after `new_spec` succeeded -/
def withSpec (st : St) (σ : Spec) : St :=
  { st with specs := insertSpec st.specs σ, nextSid := st.nextSid + 1 }

theorem newSpec_cases (st : St) (m : Nat) (path : String) (csv : Bool) (sheet : Option String) (data : Val) :
    (∃ e, newSpec st m path csv sheet data = (st, .error e)) ∨
    (data.isPandas = true ∧ canAdd (ioSpecs st.specs m path) sheet = true ∧
      newSpec st m path csv sheet data =
        (withSpec st (mkSpec st m path csv sheet data), .ok (mkSpec st m path csv sheet data))) := by
  unfold newSpec
  by_cases hp : data.isPandas = true
  · simp only [hp, Bool.not_true, Bool.false_eq_true, if_false]
    by_cases hc : canAdd (ioSpecs st.specs m path) sheet = true
    · simp only [hc, if_true]
      exact Or.inr ⟨trivial, trivial, rfl⟩
    · simp only [hc]
      exact Or.inl ⟨_, rfl⟩
  · simp only [hp, Bool.not_false, if_true]
    exact Or.inl ⟨_, rfl⟩

theorem rinv_withSpec {st : St} (h : RInv st) {m : Nat} {path : String} {csv : Bool}
    {sheet : Option String} {data : Val}
    (hk2 : getSpecFromValue st m data = none) (hp : data.isPandas = true)
    (hc : canAdd (ioSpecs st.specs m path) sheet = true) :
    RInvX (· = mkSpec st m path csv sheet data) (withSpec st (mkSpec st m path csv sheet data)) := by
  have hsid : SidOK (sp (withSpec st (mkSpec st m path csv sheet data))) :=
    sidOK_strans (Q := fun _ _ => True) (STrans.add st.specs st.nextSid m path csv sheet data hc trivial) h.sid
  refine ⟨h.ridLt, h.refKey, h.entry, h.keys, ?_, ?_, ?_, hsid⟩
  · intro σ hσ hne
    have : σ ∈ insertSpec st.specs (mkSpec st m path csv sheet data) := hσ
    rw [mem_insertSpec] at this
    rcases this with rfl | hσ
    · exact absurd rfl hne
    · exact h.specRef σ hσ id
  · intro σ hσ τ hτ hg hv
    have h1 : σ ∈ insertSpec st.specs (mkSpec st m path csv sheet data) := hσ
    have h2 : τ ∈ insertSpec st.specs (mkSpec st m path csv sheet data) := hτ
    rw [mem_insertSpec] at h1 h2
    rcases h1 with rfl | h1 <;> rcases h2 with rfl | h2
    · rfl
    · exact absurd ⟨hg.symm, hv.symm⟩ (getSpec_none hk2 τ h2)
    · exact absurd ⟨hg, hv⟩ (getSpec_none hk2 σ h1)
    · exact h.specVal σ h1 τ h2 hg hv
  · intro σ hσ
    have h1 : σ ∈ insertSpec st.specs (mkSpec st m path csv sheet data) := hσ
    rw [mem_insertSpec] at h1
    rcases h1 with rfl | h1
    · exact hp
    · exact h.specPandas σ h1

theorem rinv_of_pending {st : St} {σ : Spec} (h : RInvX (· = σ) st)
    (hr : σ ∈ st.specs → ∃ r ∈ st.refs, r.owner.model = σ.group ∧ r.val = σ.val) : RInv st := by
  refine ⟨h.ridLt, h.refKey, h.entry, h.keys, ?_, h.specVal, h.specPandas, h.sid⟩
  intro τ hτ _
  by_cases he : τ = σ
  · subst he; exact hr hτ
  · exact h.specRef τ hτ he

theorem setAttr_error {kw : List String} {st : St} {o : Owner} {n : String} {v : Val} {e : Rej}
    (he : (setAttr kw st o n v).2 = .error e) :
    setAttr kw st o n v = (st, .error e) ∧ (e = .value ∨ e = .key ∨ e = .attribute) := by
  rcases setAttr_cases kw st o n v with ⟨e', h1, h2⟩ | ⟨prev, hl, h1⟩ | ⟨hl, h1⟩ | ⟨ho, hc, h1⟩
  · rw [h1] at he; cases he; exact ⟨h1, h2⟩
  · rw [h1, rmChangeRef_ok v hl] at he; cases he
  · rw [h1] at he; cases he
  · rw [h1] at he; cases he

/-- `new_pandas` outside the triggers C18-cells-name and C18-double-spec keeps the invariant; a spec
that existed before disappears only if no reference is bound to its value afterwards -/
theorem newPandas_spec {kw : List String} {st : St} (h : RInv st) {o : Owner} {n path : String}
    {csv : Bool} {sheet : Option String} {data : Val}
    (hk1 : trigCellsName st (.newPandas o n path csv sheet data) = false)
    (hk2 : trigDoubleSpec st (.newPandas o n path csv sheet data) = false) :
    RInv (newPandas kw st o n path csv sheet data).1 ∧
    (∀ σ ∈ st.specs, σ ∉ (newPandas kw st o n path csv sheet data).1.specs →
        ∀ r ∈ (newPandas kw st o n path csv sheet data).1.refs,
          ¬ (r.owner.model = σ.group ∧ r.val = σ.val)) := by
  have hsid : SidOK (sp (newPandas kw st o n path csv sheet data).1) :=
    sidOK_strans (Q := fun _ _ => True) (strans_newPandas kw st o n path csv sheet data trivial) h.sid
  have hk2' : getSpecFromValue st o.model data = none := by
    simpa [trigDoubleSpec] using hk2
  unfold newPandas at hsid ⊢
  rcases newSpec_cases st o.model path csv sheet data with ⟨e, he⟩ | ⟨hp, hc, he⟩
  · simp only [he]
    exact ⟨h, fun σ hσ hgone => absurd hσ hgone⟩
  · simp only [he] at hsid ⊢
    have h1 := rinv_withSpec (csv := csv) h hk2' hp hc
    cases hres : (setAttr kw (withSpec st (mkSpec st o.model path csv sheet data)) o n data) with
    | mk st2 res =>
      cases res with
      | ok u =>
        cases u
        simp only [hres] at hsid ⊢
        have hok : (setAttr kw (withSpec st (mkSpec st o.model path csv sheet data)) o n data).2 = .ok () := by
          rw [hres]
        obtain ⟨a1, a2, a3, a4⟩ := setAttr_ok_spec h1 hok
        rw [hres] at a1 a2 a3 a4
        simp only at a1 a2 a3 a4
        refine ⟨rinv_of_pending a1 ?_, ?_⟩
        · intro _
          rcases a3 with ⟨ho, hcl, _⟩ | hmem
          · have : cellsLookup st.cells o n = some true := hcl
            simp [trigCellsName, ho, this] at hk1
          · exact ⟨_, hmem, rfl, rfl⟩
        · intro σ hσ hgone
          have hσ1 : σ ∈ (withSpec st (mkSpec st o.model path csv sheet data)).specs := by
            show σ ∈ insertSpec st.specs _
            rw [mem_insertSpec]; exact Or.inr hσ
          exact a4 σ hσ1 hgone
      | error e =>
        simp only [hres] at hsid ⊢
        have herr : (setAttr kw (withSpec st (mkSpec st o.model path csv sheet data)) o n data).2 = .error e := by
          rw [hres]
        obtain ⟨b1, b2⟩ := setAttr_error herr
        rw [hres] at b1
        have hst2 : st2 = withSpec st (mkSpec st o.model path csv sheet data) := by
          have := congrArg Prod.fst b1; simpa using this
        have hcond : (e = Rej.value ∨ e = Rej.key ∨ e = Rej.attribute) := b2
        simp only [hcond, if_true] at hsid ⊢
        subst hst2
        have hsub : ∀ τ ∈ (delSpec (withSpec st (mkSpec st o.model path csv sheet data))
            (mkSpec st o.model path csv sheet data)).specs, τ ∈ st.specs := by
          intro τ hτ
          rw [mem_delSpec] at hτ
          have h2 : τ ∈ insertSpec st.specs (mkSpec st o.model path csv sheet data) := hτ.1
          rw [mem_insertSpec] at h2
          rcases h2 with rfl | h2
          · exact absurd rfl hτ.2
          · exact h2
        refine ⟨rinv_frame h rfl rfl rfl hsub hsid, ?_⟩
        intro σ hσ hgone
        refine absurd (mem_delSpec.mpr ⟨?_, ?_⟩) hgone
        · show σ ∈ insertSpec st.specs _
          rw [mem_insertSpec]; exact Or.inr hσ
        · have := h.sid.sidLt σ hσ
          simp only [sp, mkSpec] at this ⊢
          omega

/-! ### deletion -/

theorem rinv_delSpace {st : St} (h : RInv st) {s : Owner}
    (hclean : ∀ r ∈ st.refs, r.owner = s → r.val.tracked = false) : RInv (delSpace st s) := by
  have hmem : ∀ r, r ∈ (delSpace st s).refs ↔ r ∈ st.refs ∧ r.owner ≠ s := by
    intro r; simp [delSpace]
  refine ⟨?_, ?_, ?_, h.keys, ?_, h.specVal, h.specPandas, h.sid⟩
  · intro r hr; exact h.ridLt r ((hmem r).mp hr).1
  · intro r hr r' hr'; exact h.refKey r ((hmem r).mp hr).1 r' ((hmem r').mp hr').1
  · intro m v
    have hold := h.entry m v
    show EntryOK (delSpace st s).refs m v (alookup st.v2r (m, v))
    cases he : alookup st.v2r (m, v) with
    | none =>
      rw [he] at hold
      intro r hr; exact hold r ((hmem r).mp hr).1
    | some l =>
      rw [he] at hold
      obtain ⟨h1, h2, h3, h4⟩ := hold
      refine ⟨h1, h2, h3, fun r => ?_⟩
      rw [h4 r, hmem r]
      constructor
      · rintro ⟨a, b, c⟩
        refine ⟨⟨a, fun ho => ?_⟩, b, c⟩
        have := hclean r a ho
        rw [c, h3] at this; cases this
      · rintro ⟨⟨a, _⟩, b, c⟩; exact ⟨a, b, c⟩
  · intro σ hσ _
    obtain ⟨r, hr, hm, hv⟩ := h.specRef σ hσ id
    refine ⟨r, (hmem r).mpr ⟨hr, fun ho => ?_⟩, hm, hv⟩
    have := hclean r hr ho
    rw [hv, tracked_of_isPandas (h.specPandas σ hσ)] at this; cases this

theorem spaceNamed_some {st : St} {m : Nat} {n : String} {s : Owner} (h : spaceNamed st m n = some s) :
    (s, n) ∈ st.spaces ∧ s.model = m := by
  unfold spaceNamed at h
  split at h
  · rename_i e he
    cases h
    have h1 := List.mem_of_find?_eq_some he
    have h2 := List.find?_some he
    simp only [decide_eq_true_eq] at h2
    obtain ⟨a, b⟩ := e
    simp only at h2 ⊢
    rw [← h2.2]; exact ⟨h1, h2.1⟩
  · cases h

/-- `del parent.name` outside the trigger C18-del-space keeps the invariant; a spec disappears only
if no reference of the model is bound to its value afterwards -/
theorem delAttr_spec {st : St} (h : RInv st) {o : Owner} {n : String}
    (hk5 : trigDirtyDelete st (.del o n) = false) :
    RInv (delAttr st o n).1 ∧
    (∀ σ ∈ st.specs, σ ∉ (delAttr st o n).1.specs →
        ∀ r ∈ (delAttr st o n).1.refs, ¬ (r.owner.model = σ.group ∧ r.val = σ.val)) := by
  have fromDel : ∀ prev, refLookup st.refs o n = some prev →
      RInv (rmDelRef st o n).1 ∧ (∀ σ ∈ st.specs, σ ∉ (rmDelRef st o n).1.specs →
        ∀ r ∈ (rmDelRef st o n).1.refs, ¬ (r.owner.model = σ.group ∧ r.val = σ.val)) := by
    intro prev hl
    obtain ⟨d1, d2, d3, d4, d5, d6⟩ := rmDelRef_spec h hl
    refine ⟨d2, ?_⟩
    intro σ hσ hgone r hr
    obtain ⟨g1, g2, _, g4⟩ := d6 σ hσ hgone
    rw [g1, g2]; exact g4 r hr
  unfold delAttr
  by_cases ho : o.space = 0
  · simp only [ho, if_true]
    cases hs : spaceNamed st o.model n with
    | some s =>
      simp only
      refine ⟨rinv_delSpace h ?_, fun σ hσ hgone => absurd hσ hgone⟩
      intro r hr hrs
      simp only [trigDirtyDelete, ho, beq_self_eq_true, hs, Bool.true_and, List.any_eq_false,
        Bool.decide_and, Bool.and_eq_true, decide_eq_true_eq, not_and, Bool.not_eq_true] at hk5
      exact hk5 r hr hrs
    | none =>
      simp only
      cases hl : refLookup st.refs o n with
      | some prev => exact fromDel prev hl
      | none => exact ⟨h, fun σ hσ hgone => absurd hσ hgone⟩
  · simp only [ho, if_false]
    cases hc : cellsLookup st.cells o n with
    | some b =>
      exact ⟨rinv_frame h rfl rfl rfl (fun τ hτ => hτ) h.sid, fun σ hσ hgone => absurd hσ hgone⟩
    | none =>
      simp only
      cases hl : refLookup st.refs o n with
      | some prev => exact fromDel prev hl
      | none =>
        simp only
        split <;> exact ⟨h, fun σ hσ hgone => absurd hσ hgone⟩

/-! ### sheet setter, `del_spec`, `close` -/

theorem rinv_setSheet {st : St} (h : RInv st) (m : Nat) (v : Val) (sh : Option String) :
    RInv (setSheet st m v sh).1 ∧ ∀ σ ∈ st.specs, ∃ τ ∈ (setSheet st m v sh).1.specs, τ.sid = σ.sid := by
  have hsid : SidOK (sp (setSheet st m v sh).1) :=
    sidOK_strans (Q := fun _ _ => True) (strans_setSheet st m v sh) h.sid
  unfold setSheet at hsid ⊢
  split
  · exact ⟨h, fun σ hσ => ⟨σ, hσ, rfl⟩⟩
  · rename_i σ0 hg
    simp only [hg] at hsid
    split
    · rename_i hf
      simp only [hf, if_true] at hsid
      refine ⟨⟨h.ridLt, h.refKey, h.entry, h.keys, ?_, ?_, ?_, hsid⟩, ?_⟩
      · intro σ hσ _
        simp only [List.mem_map] at hσ
        obtain ⟨τ, hτ, rfl⟩ := hσ
        simpa using h.specRef τ hτ id
      · intro σ hσ τ hτ hg' hv
        simp only [List.mem_map] at hσ hτ
        obtain ⟨σ1, h1, rfl⟩ := hσ
        obtain ⟨τ1, h2, rfl⟩ := hτ
        simp only [setSheetMap_group, setSheetMap_val] at hg' hv
        rw [h.specVal σ1 h1 τ1 h2 hg' hv]
      · intro σ hσ
        simp only [List.mem_map] at hσ
        obtain ⟨τ, hτ, rfl⟩ := hσ
        simpa using h.specPandas τ hτ
      · intro σ hσ
        exact ⟨setSheetMap σ0.sid sh σ, List.mem_map.mpr ⟨σ, hσ, rfl⟩, by simp⟩
    · exact ⟨h, fun σ hσ => ⟨σ, hσ, rfl⟩⟩

/-- the path setter moves specs, it neither creates nor removes one -/
theorem rinv_setPath {st : St} (h : RInv st) (m : Nat) (v : Val) (path : String) :
    RInv (setPath st m v path).1 ∧ ∀ σ ∈ st.specs, ∃ τ ∈ (setPath st m v path).1.specs, τ.sid = σ.sid := by
  have hsid : SidOK (sp (setPath st m v path).1) :=
    sidOK_strans (Q := fun _ _ => True) (strans_setPath st m v path (fun _ _ => trivial)) h.sid
  unfold setPath at hsid ⊢
  split
  · exact ⟨h, fun σ hσ => ⟨σ, hσ, rfl⟩⟩
  · rename_i σ0 hg
    simp only [hg] at hsid
    split
    · exact ⟨h, fun σ hσ => ⟨σ, hσ, rfl⟩⟩
    · rename_i hne
      simp only [hne, if_false] at hsid
      split
      · rename_i hfree
        simp only [hfree, if_true] at hsid
        have hmem : ∀ τ, τ ∈ (st.specs.filter (fun τ => ¬ (τ.group = σ0.group ∧ τ.path = σ0.path)) ++
            (ioSpecs st.specs σ0.group σ0.path).map (setPathMap σ0.group σ0.path path)) ↔
            τ ∈ movePath st.specs σ0.group σ0.path path := fun τ => Iff.rfl
        refine ⟨⟨h.ridLt, h.refKey, h.entry, h.keys, ?_, ?_, ?_, hsid⟩, ?_⟩
        · intro σ hσ _
          rcases mem_movePath.mp ((hmem σ).mp hσ) with ⟨h0, _⟩ | ⟨σ1, h1, _, _, rfl⟩
          · exact h.specRef σ h0 id
          · exact h.specRef σ1 h1 id
        · intro σ hσ τ hτ hg' hv
          rcases mem_movePath.mp ((hmem σ).mp hσ) with ⟨h0, n0⟩ | ⟨σ1, h1, g1, p1, rfl⟩ <;>
            rcases mem_movePath.mp ((hmem τ).mp hτ) with ⟨h2, n2⟩ | ⟨τ1, h3, g3, p3, rfl⟩
          · exact h.specVal σ h0 τ h2 hg' hv
          · have := h.specVal σ h0 τ1 h3 hg' hv
            subst this; exact absurd ⟨g3, p3⟩ n0
          · have := h.specVal σ1 h1 τ h2 hg' hv
            subst this; exact absurd ⟨g1, p1⟩ n2
          · have := h.specVal σ1 h1 τ1 h3 hg' hv
            subst this; rfl
        · intro σ hσ
          rcases mem_movePath.mp ((hmem σ).mp hσ) with ⟨h0, _⟩ | ⟨σ1, h1, _, _, rfl⟩
          · exact h.specPandas σ h0
          · exact h.specPandas σ1 h1
        · intro σ hσ
          by_cases hio : σ.group = σ0.group ∧ σ.path = σ0.path
          · exact ⟨{ σ with path := path }, (hmem _).mpr (mem_movePath.mpr (Or.inr ⟨σ, hσ, hio.1, hio.2, rfl⟩)), rfl⟩
          · exact ⟨σ, (hmem _).mpr (mem_movePath.mpr (Or.inl ⟨hσ, hio⟩)), rfl⟩
      · exact ⟨h, fun σ hσ => ⟨σ, hσ, rfl⟩⟩

theorem rinv_delSpecOf {st : St} (h : RInv st) (m : Nat) (v : Val) : RInv (delSpecOf st m v).1 := by
  have hsid : SidOK (sp (delSpecOf st m v).1) :=
    sidOK_strans (Q := fun _ _ => True) (strans_delSpecOf st m v) h.sid
  unfold delSpecOf at hsid ⊢
  cases hg : getSpecFromValue st m v with
  | none => exact h
  | some σ =>
    simp only [hg] at hsid ⊢
    exact rinv_frame h rfl rfl rfl (fun τ hτ => (mem_delSpec.mp hτ).1) hsid

theorem foldl_delSpec_fields (l : List Spec) : ∀ st : St,
    (l.foldl delSpec st).refs = st.refs ∧ (l.foldl delSpec st).v2r = st.v2r ∧
    (l.foldl delSpec st).nextRid = st.nextRid ∧ (l.foldl delSpec st).models = st.models ∧
    (l.foldl delSpec st).closed = st.closed ∧
    ∀ τ, τ ∈ (l.foldl delSpec st).specs ↔ τ ∈ st.specs ∧ ∀ σ ∈ l, τ.sid ≠ σ.sid := by
  induction l with
  | nil => intro st; simp
  | cons σ rest ih =>
    intro st
    obtain ⟨a, b, c, d, e, f⟩ := ih (delSpec st σ)
    refine ⟨a, b, c, d, e, fun τ => ?_⟩
    rw [List.foldl_cons, f τ, mem_delSpec]
    simp only [List.mem_cons, forall_eq_or_imp]
    constructor
    · rintro ⟨⟨x, y⟩, z⟩; exact ⟨x, y, z⟩
    · rintro ⟨x, y, z⟩; exact ⟨⟨x, y⟩, z⟩

theorem rinv_closeModel {st : St} (h : RInv st) (m : Nat) : RInv (closeModel st m).1 := by
  have hsid : SidOK (sp (closeModel st m).1) :=
    sidOK_strans (Q := fun _ _ => True) (strans_closeModel st m) h.sid
  unfold closeModel rmDelAllSpec at hsid ⊢
  cases hs : rmSpecs st m with
  | error e => simp only [hs]; exact h
  | ok specs =>
    simp only [hs] at hsid ⊢
    obtain ⟨a, b, c, _, _, f⟩ := foldl_delSpec_fields specs.reverse st
    exact rinv_frame h a b c (fun τ hτ => ((f τ).mp hτ).1) hsid

end MxModel.IOSpec
