import MxModel.Proofs.IOSpecInv
/-! `ReferenceManager.update_value`: the loop in closed form, and preservation of the invariant. -/
namespace MxModel.IOSpec

/-- the references the loop of `update_value` creates for the entry `todo` -/
def newRefs (rid : Nat) (new : Val) : List Ref → List Ref
  | [] => []
  | r :: rest => ⟨rid, r.owner, r.name, new⟩ :: newRefs (rid + 1) new rest

def updResult (st : St) (m : Nat) (old new : Val) (todo acc : List Ref) : St :=
  { st with refs := st.refs.filter (fun r => decide (r ∉ todo)) ++ newRefs st.nextRid new todo,
            nextRid := st.nextRid + todo.length,
            v2r := ainsert (aerase st.v2r (m, old)) (m, new) (acc ++ newRefs st.nextRid new todo) }

theorem mem_newRefs {new : Val} : ∀ {todo : List Ref} {rid : Nat} {x : Ref}, x ∈ newRefs rid new todo →
    x.val = new ∧ rid ≤ x.rid ∧ x.rid < rid + todo.length ∧
    ∃ r ∈ todo, x.owner = r.owner ∧ x.name = r.name := by
  intro todo
  induction todo with
  | nil => intro rid x hx; cases hx
  | cons r rest ih =>
    intro rid x hx
    simp only [newRefs, List.mem_cons] at hx
    rcases hx with rfl | hx
    · exact ⟨rfl, Nat.le_refl _, by simp, r, by simp, rfl, rfl⟩
    · obtain ⟨h1, h2, h3, r', hr', h4⟩ := ih hx
      exact ⟨h1, by omega, by simp only [List.length_cons]; omega, r', by simp [hr'], h4⟩

theorem newRefs_nodup {new : Val} : ∀ (todo : List Ref) (rid : Nat), (newRefs rid new todo).Nodup := by
  intro todo
  induction todo with
  | nil => intro rid; simp [newRefs]
  | cons r rest ih =>
    intro rid
    simp only [newRefs, List.nodup_cons]
    refine ⟨fun hx => ?_, ih _⟩
    have := (mem_newRefs hx).2.1
    simp only at this
    omega

theorem newRefs_cover {new : Val} : ∀ (todo : List Ref) (rid : Nat), ∀ r ∈ todo,
    ∃ x ∈ newRefs rid new todo, x.owner = r.owner ∧ x.name = r.name := by
  intro todo
  induction todo with
  | nil => intro rid r hr; cases hr
  | cons a rest ih =>
    intro rid r hr
    simp only [List.mem_cons] at hr
    rcases hr with rfl | hr
    · exact ⟨⟨rid, r.owner, r.name, new⟩, List.mem_cons_self, rfl, rfl⟩
    · obtain ⟨x, hx, h⟩ := ih (rid + 1) r hr
      exact ⟨x, List.mem_cons_of_mem _ hx, h⟩

theorem newRefs_eq_nil {new : Val} {todo : List Ref} {rid : Nat} : newRefs rid new todo = [] ↔ todo = [] := by
  cases todo <;> simp [newRefs]

theorem updLoop_closed (m : Nat) (old new : Val) : ∀ (todo : List Ref) (st : St) (acc : List Ref),
    (∀ r ∈ st.refs, r.rid < st.nextRid) →
    (∀ r ∈ st.refs, ∀ r' ∈ st.refs, r.owner = r'.owner → r.name = r'.name → r = r') →
    (∀ r ∈ todo, r ∈ st.refs) → todo.Nodup →
    updLoop st m old new todo acc = (updResult st m old new todo acc, .ok ()) := by
  intro todo
  induction todo with
  | nil =>
    intro st acc _ _ _ _
    have : List.filter (fun _ => true) st.refs = st.refs := List.filter_eq_self.mpr (fun _ _ => rfl)
    simp [updLoop, updResult, newRefs, this]
  | cons r rest ih =>
    intro st acc hlt hkey hsub hnd
    have hr : r ∈ st.refs := hsub r (by simp)
    obtain ⟨r0, hr0⟩ := refLookup_of_mem hr
    simp only [List.nodup_cons] at hnd
    have herase : ∀ a ∈ st.refs, (a.owner = r.owner ∧ a.name = r.name) ↔ a = r := by
      intro a ha
      constructor
      · rintro ⟨h1, h2⟩; exact hkey a ha r hr h1 h2
      · rintro rfl; exact ⟨rfl, rfl⟩
    unfold updLoop
    simp only [hr0]
    rw [ih]
    · -- the two closed forms agree
      have hx : (⟨st.nextRid, r.owner, r.name, new⟩ : Ref) ∉ rest := by
        intro hx
        have := hlt _ (hsub _ (List.mem_cons_of_mem _ hx))
        simp at this
      have hf1 : List.filter (fun a => decide (a ∉ rest)) (refErase st.refs r.owner r.name) =
          List.filter (fun a => decide (a ∉ r :: rest)) st.refs := by
        unfold refErase
        rw [List.filter_filter]
        apply List.filter_congr
        intro a ha
        have := herase a ha
        simp only [List.mem_cons, not_or, Bool.decide_and, Bool.and_eq_true, decide_eq_true_eq, Bool.decide_eq_true]
        by_cases hc : a = r
        · subst hc; simp
        · have : ¬ (a.owner = r.owner ∧ a.name = r.name) := fun hh => hc (this.mp hh)
          simp [hc, this]
      simp only [updResult, implChangeRef, implNewRef, implDelRef, mkRef, newRefs, List.filter_append,
        List.length_cons, hf1]
      have hf2 : List.filter (fun a => decide (a ∉ rest)) [(⟨st.nextRid, r.owner, r.name, new⟩ : Ref)] =
          [⟨st.nextRid, r.owner, r.name, new⟩] := by
        simp [hx]
      rw [hf2]
      simp only [List.append_assoc, List.singleton_append, Nat.add_assoc, Nat.add_comm 1]
    · intro a ha
      simp only [implChangeRef, implNewRef, implDelRef, List.mem_append, List.mem_singleton] at ha ⊢
      rcases ha with ha | rfl
      · have := hlt a (mem_refErase.mp ha).1; omega
      · simp [mkRef]
    · intro a ha b hb ho hn
      simp only [implChangeRef, implNewRef, implDelRef, List.mem_append, List.mem_singleton] at ha hb
      rcases ha with ha | rfl <;> rcases hb with hb | rfl
      · exact hkey a (mem_refErase.mp ha).1 b (mem_refErase.mp hb).1 ho hn
      · exact absurd ⟨ho, hn⟩ (mem_refErase.mp ha).2
      · exact absurd ⟨ho.symm, hn.symm⟩ (mem_refErase.mp hb).2
      · rfl
    · intro a ha
      simp only [implChangeRef, implNewRef, implDelRef, List.mem_append, List.mem_singleton]
      left
      have ha' := hsub a (by simp [ha])
      refine mem_refErase.mpr ⟨ha', fun hh => ?_⟩
      have := (herase a ha').mp hh
      subst this
      exact hnd.1 ha
    · exact hnd.2

theorem newRefs_key_inj {new : Val} : ∀ (todo : List Ref) (rid : Nat),
    (∀ a ∈ todo, ∀ b ∈ todo, a.owner = b.owner → a.name = b.name → a = b) → todo.Nodup →
    ∀ x ∈ newRefs rid new todo, ∀ y ∈ newRefs rid new todo, x.owner = y.owner → x.name = y.name → x = y := by
  intro todo
  induction todo with
  | nil => intro rid _ _ x hx; cases hx
  | cons r rest ih =>
    intro rid hkey hnd x hx y hy ho hn
    simp only [List.nodup_cons] at hnd
    simp only [newRefs, List.mem_cons] at hx hy
    have hrest : ∀ a ∈ rest, ∀ b ∈ rest, a.owner = b.owner → a.name = b.name → a = b :=
      fun a ha b hb => hkey a (List.mem_cons_of_mem _ ha) b (List.mem_cons_of_mem _ hb)
    rcases hx with rfl | hx <;> rcases hy with rfl | hy
    · rfl
    · obtain ⟨_, _, _, r', hr', h1, h2⟩ := mem_newRefs hy
      have := hkey r List.mem_cons_self r' (List.mem_cons_of_mem _ hr')
        (by simpa using ho.trans h1) (by simpa using hn.trans h2)
      subst this; exact absurd hr' hnd.1
    · obtain ⟨_, _, _, r', hr', h1, h2⟩ := mem_newRefs hx
      have := hkey r List.mem_cons_self r' (List.mem_cons_of_mem _ hr')
        (by simpa using ho.symm.trans h1) (by simpa using hn.symm.trans h2)
      subst this; exact absurd hr' hnd.1
    · exact ih (rid + 1) hrest hnd.2 x hx y hy ho hn

/-- the state after `update_value(old, new)` (loop in closed form), `specs'` being the specs after
`update_spec_value` -/
theorem rinv_after_update {st : St} (h : RInv st) {m : Nat} {old new : Val} {l : List Ref}
    (hl : alookup st.v2r (m, old) = some l)
    (hnew : new.tracked = true)
    (hk6 : old = new ∨ alookup st.v2r (m, new) = none)
    {s0 : St} (hs0r : s0.refs = st.refs) (hs0v : s0.v2r = st.v2r) (hs0n : s0.nextRid = st.nextRid)
    (hspecs : (getSpecFromValue st m old = none ∧ s0.specs = st.specs) ∨
              (∃ σ0, getSpecFromValue st m old = some σ0 ∧ new.isPandas = true ∧
                 s0.specs = st.specs.map (setValMap σ0.sid new)))
    (hsid : SidOK (sp (updResult s0 m old new l.reverse []))) :
    RInv (updResult s0 m old new l.reverse []) := by
  have hE := h.entry m old
  rw [hl] at hE
  obtain ⟨e1, e2, e3, e4⟩ := hE
  have hrefs : ∀ x, x ∈ (updResult s0 m old new l.reverse []).refs ↔
      (x ∈ st.refs ∧ x ∉ l) ∨ x ∈ newRefs st.nextRid new l.reverse := by
    intro x
    simp [updResult, hs0r, hs0n]
  have hN : ∀ x ∈ newRefs st.nextRid new l.reverse, x.val = new ∧ st.nextRid ≤ x.rid ∧
      x.rid < st.nextRid + l.length ∧ x.owner.model = m ∧
      ∃ r ∈ l, x.owner = r.owner ∧ x.name = r.name := by
    intro x hx
    obtain ⟨a, b, c, r, hr, d1, d2⟩ := mem_newRefs hx
    rw [List.mem_reverse] at hr
    refine ⟨a, b, by simpa using c, ?_, r, hr, d1, d2⟩
    rw [d1]; exact ((e4 r).mp hr).2.1
  have hNne : newRefs st.nextRid new l.reverse ≠ [] := by
    rw [Ne, newRefs_eq_nil]; simpa using e1
  have hv2r : (updResult s0 m old new l.reverse []).v2r =
      ainsert (aerase st.v2r (m, old)) (m, new) (newRefs st.nextRid new l.reverse) := by
    simp [updResult, hs0v, hs0n]
  have hlkeys : ∀ a ∈ l.reverse, ∀ b ∈ l.reverse, a.owner = b.owner → a.name = b.name → a = b := by
    intro a ha b hb
    rw [List.mem_reverse] at ha hb
    exact h.refKey a ((e4 a).mp ha).1 b ((e4 b).mp hb).1
  have hlnd : l.reverse.Nodup := by
    simpa [List.Nodup, List.pairwise_reverse, ne_comm] using e2
  -- no reference outside the entry is bound to `new` in this model
  have hnonew : ∀ x ∈ st.refs, x ∉ l → ¬ (x.owner.model = m ∧ x.val = new) := by
    intro x hx hxl ⟨hm, hv⟩
    rcases hk6 with rfl | hnone
    · exact hxl ((e4 x).mpr ⟨hx, hm, hv⟩)
    · have := h.entry m new
      rw [hnone] at this
      have := this x hx hm hv
      rw [hnew] at this; cases this
  refine ⟨?_, ?_, ?_, ?_, ?_, ?_, ?_, hsid⟩
  · intro x hx
    have : (updResult s0 m old new l.reverse []).nextRid = st.nextRid + l.length := by
      simp [updResult, hs0n]
    rw [this]
    rcases (hrefs x).mp hx with ⟨hx, _⟩ | hx
    · have := h.ridLt x hx; omega
    · exact (hN x hx).2.2.1
  · intro x hx y hy ho hn
    rcases (hrefs x).mp hx with ⟨hx, hxl⟩ | hx <;> rcases (hrefs y).mp hy with ⟨hy, hyl⟩ | hy
    · exact h.refKey x hx y hy ho hn
    · obtain ⟨_, _, _, _, r, hr, d1, d2⟩ := hN y hy
      have := h.refKey x hx r ((e4 r).mp hr).1 (ho.trans d1) (hn.trans d2)
      subst this; exact absurd hr hxl
    · obtain ⟨_, _, _, _, r, hr, d1, d2⟩ := hN x hx
      have := h.refKey y hy r ((e4 r).mp hr).1 (ho.symm.trans d1) (hn.symm.trans d2)
      subst this; exact absurd hr hyl
    · exact newRefs_key_inj _ _ hlkeys hlnd x hx y hy ho hn
  · intro m' v'
    rw [hv2r, alookup_ainsert]
    by_cases hk : (m, new) = (m', v')
    · obtain ⟨rfl, rfl⟩ := Prod.mk.inj hk
      simp only [if_true]
      refine ⟨hNne, newRefs_nodup _ _, hnew, ?_⟩
      intro x
      rw [hrefs x]
      constructor
      · intro hx; exact ⟨Or.inr hx, (hN x hx).2.2.2.1, (hN x hx).1⟩
      · rintro ⟨⟨hx, hxl⟩ | hx, hm, hv⟩
        · exact absurd ⟨hm, hv⟩ (hnonew x hx hxl)
        · exact hx
    · simp only [hk, if_false]
      rw [alookup_aerase]
      by_cases hk2 : (m, old) = (m', v')
      · obtain ⟨rfl, rfl⟩ := Prod.mk.inj hk2
        simp only [if_true]
        intro x hx hm hv
        rcases (hrefs x).mp hx with ⟨hx, hxl⟩ | hx
        · exact absurd ((e4 x).mpr ⟨hx, hm, hv⟩) hxl
        · exact absurd (by rw [← hv, (hN x hx).1]) hk
      · simp only [hk2, if_false]
        refine entryOK_congr ?_ (h.entry m' v')
        intro x
        rw [hrefs x]
        constructor
        · rintro ⟨⟨hx, _⟩ | hx, hm, hv⟩
          · exact ⟨hx, hm, hv⟩
          · exact absurd (by rw [← hm, ← hv, (hN x hx).1, (hN x hx).2.2.2.1]) hk
        · rintro ⟨hx, hm, hv⟩
          refine ⟨Or.inl ⟨hx, fun hxl => hk2 ?_⟩, hm, hv⟩
          have := (e4 x).mp hxl
          rw [← hm, ← hv, this.2.1, this.2.2]
  · rw [hv2r]; exact ainsert_keys_nodup (aerase_keys_nodup h.keys _) _ _
  · -- every spec's value is still bound
    obtain ⟨x0, hx0⟩ := List.exists_mem_of_ne_nil _ hNne
    have keep : ∀ τ ∈ st.specs, ¬ (τ.group = m ∧ τ.val = old) →
        ∃ r ∈ (updResult s0 m old new l.reverse []).refs, r.owner.model = τ.group ∧ r.val = τ.val := by
      intro τ hτ hne
      obtain ⟨r, hr, hm, hv⟩ := h.specRef τ hτ id
      refine ⟨r, (hrefs r).mpr (Or.inl ⟨hr, fun hrl => hne ?_⟩), hm, hv⟩
      have := (e4 r).mp hrl
      exact ⟨hm.symm.trans this.2.1, hv.symm.trans this.2.2⟩
    intro σ hσ _
    have hσ' : σ ∈ s0.specs := hσ
    rcases hspecs with ⟨hnone, hs⟩ | ⟨σ0, hsome, _, hs⟩
    · rw [hs] at hσ'
      exact keep σ hσ' (getSpec_none hnone σ hσ')
    · rw [hs, List.mem_map] at hσ'
      obtain ⟨τ, hτ, rfl⟩ := hσ'
      obtain ⟨g1, g2, g3⟩ := getSpec_some hsome
      by_cases hsd : τ.sid = σ0.sid
      · refine ⟨x0, (hrefs x0).mpr (Or.inr hx0), ?_, ?_⟩
        · have := h.sid.sidUnique τ hτ σ0 g1 hsd
          simp only [setValMap_group]; rw [this, g2]; exact (hN x0 hx0).2.2.2.1
        · rw [setValMap_val]; simp only [hsd, if_true]; exact (hN x0 hx0).1
      · have hne : ¬ (τ.group = m ∧ τ.val = old) := by
          rintro ⟨a, b⟩
          exact hsd (by rw [h.specVal τ hτ σ0 g1 (a.trans g2.symm) (b.trans g3.symm)])
        have : setValMap σ0.sid new τ = τ := by unfold setValMap; simp [hsd]
        rw [this]; exact keep τ hτ hne
  · -- one spec per value
    have hsp : (updResult s0 m old new l.reverse []).specs = s0.specs := rfl
    rw [hsp]
    rcases hspecs with ⟨_, hs⟩ | ⟨σ0, hsome, _, hs⟩
    · rw [hs]; exact h.specVal
    · obtain ⟨g1, g2, g3⟩ := getSpec_some hsome
      -- no other spec of the model has the value `new`
      have hother : ∀ τ ∈ st.specs, τ.sid ≠ σ0.sid → ¬ (τ.group = m ∧ τ.val = new) := by
        intro τ hτ hsd ⟨a, b⟩
        obtain ⟨r, hr, hm, hv⟩ := h.specRef τ hτ id
        by_cases hrl : r ∈ l
        · have := (e4 r).mp hrl
          exact hsd (by rw [h.specVal τ hτ σ0 g1 (a.trans g2.symm) ((hv.symm.trans this.2.2).trans g3.symm)])
        · exact hnonew r hr hrl ⟨hm.trans a, hv.trans b⟩
      rw [hs]
      intro σ hσ τ hτ hg hv
      rw [List.mem_map] at hσ hτ
      obtain ⟨σ1, hσ1, rfl⟩ := hσ
      obtain ⟨τ1, hτ1, rfl⟩ := hτ
      simp only [setValMap_group] at hg
      rw [setValMap_val, setValMap_val] at hv
      by_cases c1 : σ1.sid = σ0.sid <;> by_cases c2 : τ1.sid = σ0.sid
      · rw [h.sid.sidUnique σ1 hσ1 τ1 hτ1 (c1.trans c2.symm)]
      · simp only [c1, c2, if_true, if_false] at hv
        have e := h.sid.sidUnique σ1 hσ1 σ0 g1 c1
        exact absurd ⟨(hg.symm.trans (by rw [e])).trans g2, hv.symm⟩ (hother τ1 hτ1 c2)
      · simp only [c1, c2, if_true, if_false] at hv
        have e := h.sid.sidUnique τ1 hτ1 σ0 g1 c2
        exact absurd ⟨(hg.trans (by rw [e])).trans g2, hv⟩ (hother σ1 hσ1 c1)
      · simp only [c1, c2, if_false] at hv
        have := h.specVal σ1 hσ1 τ1 hτ1 hg hv
        rw [this]
  · have hsp : (updResult s0 m old new l.reverse []).specs = s0.specs := rfl
    rw [hsp]
    rcases hspecs with ⟨_, hs⟩ | ⟨σ0, _, hp, hs⟩
    · rw [hs]; exact h.specPandas
    · rw [hs]
      intro σ hσ
      rw [List.mem_map] at hσ
      obtain ⟨τ, hτ, rfl⟩ := hσ
      rw [setValMap_val]
      split
      · exact hp
      · exact h.specPandas τ hτ

end MxModel.IOSpec
