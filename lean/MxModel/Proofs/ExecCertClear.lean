import MxModel.Proofs.ExecCert
/-!
# What the clearing routines remove

Every clearing routine of `TraceManager` / `CellsImpl` (`clear_with_descs`, `clear_value_at`,
`clear_all_values`, `clear_obj`, `clear_attr_referrers`, the namespace notification, and the
reference / formula edits composed of them) takes the state `s` to `s` minus a set `R` of
graph nodes that is **closed under successors** in the trace graph of `s` (`Clr`): the values
and input marks of the element nodes of `R` go, edges touching `R` go, nothing else changes
except that the reference graph loses edges – only edges into removed elements and, for an
edit of reference `r`, the edges of `r` and of its recorded readers (`D`).
-/
namespace MxModel.Exec

def keepB (R : List GNode) (m : Node) : Bool := !R.contains (.elem m)

def Closed (ge : List (GNode × GNode)) (R : List GNode) : Prop :=
  ∀ a b, (a, b) ∈ ge → a ∈ R → b ∈ R

def EdgeOK (s : St) : Prop := ∀ x y, (x, y) ∈ s.ge → x ∈ s.gn ∧ y ∈ s.gn

structure Clr (s : St) (R : List GNode) (D : RefId × Node → Prop) (s' : St) : Prop where
  data : s'.data = s.data.filter (fun e => keepB R e.1)
  inputs : s'.inputs = s.inputs.filter (fun n => keepB R n)
  gn : s'.gn = s.gn.filter (fun x => !R.contains x)
  ge : s'.ge = s.ge.filter (fun e => !R.contains e.1 && !R.contains e.2)
  rgSub : ∀ e ∈ s'.rg, e ∈ s.rg
  rgKeep : ∀ e ∈ s.rg, GNode.elem e.2 ∉ R → ¬ D e → e ∈ s'.rg
  /-- the edges into removed elements are gone -/
  rgOut : ∀ e ∈ s'.rg, GNode.elem e.2 ∉ R
  stack : s'.stack = s.stack
  idx : s'.idx = s.idx
  refstack : s'.refstack = s.refstack
  closed : Closed s.ge R

theorem filter_all {α} (l : List α) : l = l.filter (fun _ => true) :=
  (List.filter_eq_self.mpr (fun _ _ => rfl)).symm

theorem Clr.refl (s : St) (D : RefId × Node → Prop) : Clr s [] D s := by
  refine ⟨?_, ?_, ?_, ?_, fun _ h => h, fun _ h _ _ => h, (fun _ _ h => nomatch h), rfl, rfl, rfl, ?_⟩
  · simp only [keepB, List.contains_nil, Bool.not_false]; exact filter_all _
  · simp only [keepB, List.contains_nil, Bool.not_false]; exact filter_all _
  · simp only [List.contains_nil, Bool.not_false]; exact filter_all _
  · simp only [List.contains_nil, Bool.not_false, Bool.and_self]; exact filter_all _
  · intro a b _ h; cases h

theorem Clr.weaken {s s' : St} {R : List GNode} {D D' : RefId × Node → Prop} (h : Clr s R D s')
    (hd : ∀ e, D e → D' e) : Clr s R D' s' :=
  { h with rgKeep := fun e he hr hnd => h.rgKeep e he hr (fun hde => hnd (hd e hde)) }

theorem Clr.edgeOK {s s' : St} {R : List GNode} {D : RefId × Node → Prop} (h : Clr s R D s')
    (he : EdgeOK s) : EdgeOK s' := by
  intro x y hxy
  rw [h.ge] at hxy
  simp only [List.mem_filter, Bool.and_eq_true, Bool.not_eq_true', List.contains_eq_mem,
    decide_eq_false_iff_not] at hxy
  rw [h.gn]
  simp only [List.mem_filter, Bool.not_eq_true', List.contains_eq_mem, decide_eq_false_iff_not]
  exact ⟨⟨(he x y hxy.1).1, hxy.2.1⟩, ⟨(he x y hxy.1).2, hxy.2.2⟩⟩

theorem Clr.trans {s s1 s2 : St} {R1 R2 : List GNode} {D : RefId × Node → Prop}
    (h1 : Clr s R1 D s1) (h2 : Clr s1 R2 D s2) : Clr s (R1 ++ R2) D s2 := by
  refine ⟨?_, ?_, ?_, ?_, ?_, ?_, ?_, h2.stack.trans h1.stack, h2.idx.trans h1.idx,
    h2.refstack.trans h1.refstack, ?_⟩
  · rw [h2.data, h1.data, List.filter_filter]
    congr 1; funext e; simp [keepB, Bool.and_comm]
  · rw [h2.inputs, h1.inputs, List.filter_filter]
    congr 1; funext e; simp [keepB, Bool.and_comm]
  · rw [h2.gn, h1.gn, List.filter_filter]
    congr 1; funext e; simp [Bool.and_comm]
  · rw [h2.ge, h1.ge, List.filter_filter]
    congr 1; funext e
    simp only [List.contains_eq_mem, List.mem_append, Bool.decide_or, Bool.not_or]
    cases decide (e.1 ∈ R1) <;> cases decide (e.1 ∈ R2) <;> cases decide (e.2 ∈ R1) <;>
      cases decide (e.2 ∈ R2) <;> rfl
  · intro e he; exact h1.rgSub e (h2.rgSub e he)
  · intro e he hr hd
    simp only [List.mem_append, not_or] at hr
    exact h2.rgKeep e (h1.rgKeep e he hr.1 hd) hr.2 hd
  · intro e he hr
    simp only [List.mem_append] at hr
    rcases hr with hr | hr
    · exact h1.rgOut e (h2.rgSub e he) hr
    · exact h2.rgOut e he hr
  · intro a b hab ha
    simp only [List.mem_append] at ha ⊢
    rcases ha with ha | ha
    · exact Or.inl (h1.closed a b hab ha)
    · by_cases hb1 : b ∈ R1
      · exact Or.inl hb1
      · by_cases ha1 : a ∈ R1
        · exact Or.inl (h1.closed a b hab ha1)
        · right
          refine h2.closed a b ?_ ha
          rw [h1.ge]
          simp only [List.mem_filter, Bool.and_eq_true, Bool.not_eq_true', List.contains_eq_mem,
            decide_eq_false_iff_not]
          exact ⟨hab, ha1, hb1⟩

/-! ### lookups after a clearing -/

theorem Clr.lookup {s s' : St} {R : List GNode} {D : RefId × Node → Prop} (h : Clr s R D s') (m : Node) :
    lookup s'.data m = if GNode.elem m ∈ R then none else lookup s.data m := by
  rw [h.data]
  have := lookup_dropValues s.data (elemsOf R) m
  have hf : (fun e : Node × Val => keepB R e.1) = (fun e => !(elemsOf R).contains e.1) := by
    funext e
    simp only [keepB, List.contains_eq_mem]
    congr 1
    simp only [decide_eq_decide]
    exact (mem_elemsOf R e.1).symm
  rw [hf, this]
  simp only [List.contains_eq_mem, decide_eq_true_eq, mem_elemsOf]

theorem Clr.mem_inputs {s s' : St} {R : List GNode} {D : RefId × Node → Prop} (h : Clr s R D s') (m : Node) :
    m ∈ s'.inputs ↔ m ∈ s.inputs ∧ GNode.elem m ∉ R := by
  rw [h.inputs]; simp [keepB]

theorem Clr.mem_gn {s s' : St} {R : List GNode} {D : RefId × Node → Prop} (h : Clr s R D s') (x : GNode) :
    x ∈ s'.gn ↔ x ∈ s.gn ∧ x ∉ R := by
  rw [h.gn]; simp

theorem Clr.mem_ge {s s' : St} {R : List GNode} {D : RefId × Node → Prop} (h : Clr s R D s')
    (e : GNode × GNode) : e ∈ s'.ge ↔ e ∈ s.ge ∧ e.1 ∉ R ∧ e.2 ∉ R := by
  rw [h.ge]; simp

/-! ### the primitive: remove a closed set -/

/-- `remove_nodes_from(R)`, `refgraph.remove_with_referred(R)`, `on_clear_trace` for each -/
def St.clearSet (s : St) (R : List GNode) : St :=
  ((s.removeNodes R).rgRemoveReferred (elemsOf R)).dropValues (elemsOf R)

theorem clr_clearSet (s : St) (R : List GNode) (D : RefId × Node → Prop) (hc : Closed s.ge R) :
    Clr s R D (s.clearSet R) := by
  have hf : ∀ m, (elemsOf R).contains m = R.contains (.elem m) := by
    intro m
    simp only [List.contains_eq_mem, decide_eq_decide]
    exact mem_elemsOf R m
  refine ⟨?_, ?_, rfl, rfl, ?_, ?_, ?_, rfl, rfl, rfl, hc⟩
  · simp only [St.clearSet, St.dropValues, St.rgRemoveReferred, St.removeNodes, keepB, hf]
  · simp only [St.clearSet, St.dropValues, St.rgRemoveReferred, St.removeNodes, keepB, hf]
  · intro e he
    simp only [St.clearSet, St.dropValues, St.rgRemoveReferred, St.removeNodes, List.mem_filter] at he
    exact he.1
  · intro e he hr _
    simp only [St.clearSet, St.dropValues, St.rgRemoveReferred, St.removeNodes, List.mem_filter, hf]
    refine ⟨he, ?_⟩
    simpa using hr
  · intro e he
    simp only [St.clearSet, St.dropValues, St.rgRemoveReferred, St.removeNodes, List.mem_filter, hf] at he
    simpa using he.2

theorem closed_descs (s : St) (he : EdgeOK s) (a : GNode) (ha : a ∈ s.gn) :
    Closed s.ge (s.descsWith a) := by
  intro x y hxy hx
  have hedge : ∀ x y, (x, y) ∈ s.ge → y ∈ s.gn := fun x y h => (he x y h).2
  rw [descs_iff s hedge a _ ha] at hx ⊢
  exact Reach.step hx hxy

theorem self_mem_descs (s : St) (a : GNode) : a ∈ s.descsWith a :=
  mem_reachFrom_seen _ _ _ _ _ (by simp)

/-! ### `clear_with_descs`, `clear_value_at`, `clear_all_values` -/

theorem clr_clearWithDescs (s : St) (D : RefId × Node → Prop) (he : EdgeOK s) (n : Node) :
    ∃ R, Clr s R D (s.clearWithDescs n) ∧ (GNode.elem n ∈ s.gn → GNode.elem n ∈ R) := by
  unfold St.clearWithDescs
  split
  · rename_i h
    have hn : GNode.elem n ∈ s.gn := by simpa using h
    exact ⟨s.descsWith (.elem n), clr_clearSet s _ D (closed_descs s he _ hn), fun _ => self_mem_descs s _⟩
  · rename_i h
    exact ⟨[], Clr.refl s D, fun hn => absurd (by simpa using hn) h⟩

theorem clr_clearValueAt (s : St) (D : RefId × Node → Prop) (he : EdgeOK s) (n : Node) (ci : Bool) :
    ∃ R, Clr s R D (s.clearValueAt n ci) ∧
      ((lookup s.data n).isSome → (ci = true ∨ n ∉ s.inputs) → GNode.elem n ∈ s.gn → GNode.elem n ∈ R) := by
  unfold St.clearValueAt
  split
  · split
    · obtain ⟨R, h1, h2⟩ := clr_clearWithDescs s D he n
      exact ⟨R, h1, fun _ _ hn => h2 hn⟩
    · rename_i _ h
      refine ⟨[], Clr.refl s D, fun _ hc _ => absurd ?_ h⟩
      rcases hc with hc | hc
      · simp [hc]
      · simp [hc]
  · rename_i h
    exact ⟨[], Clr.refl s D, fun hs => absurd hs h⟩

theorem mem_of_lookup (d : List (Node × Val)) (n : Node) (v : Val) (h : lookup d n = some v) :
    (n, v) ∈ d := by
  induction d with
  | nil => simp at h
  | cons e rest ih =>
    obtain ⟨k, w⟩ := e
    simp only [lookup_cons] at h
    split at h
    · rename_i hk; subst hk; cases h; simp
    · exact List.mem_cons_of_mem _ (ih h)

/-- a fold of clearing steps over a list of keys -/
theorem clr_fold (D : RefId × Node → Prop) (step : St → Node → St)
    (hstep : ∀ s n, EdgeOK s → ∃ R, Clr s R D (step s n)) :
    ∀ (keys : List Node) (s : St), EdgeOK s → ∃ R, Clr s R D (keys.foldl step s) := by
  intro keys
  induction keys with
  | nil => intro s _; exact ⟨[], Clr.refl s D⟩
  | cons k rest ih =>
    intro s he
    obtain ⟨R1, h1⟩ := hstep s k he
    obtain ⟨R2, h2⟩ := ih (step s k) (h1.edgeOK he)
    exact ⟨R1 ++ R2, h1.trans h2⟩

/-- …in which the step for key `n` removes `n` when `P n` still holds of it -/
theorem clr_fold_mem (D : RefId × Node → Prop) (step : St → Node → St) (P : St → Node → Prop)
    (hstep : ∀ s n, EdgeOK s → ∃ R, Clr s R D (step s n) ∧ (P s n → GNode.elem n ∈ R))
    (hP : ∀ s R s' n, Clr s R D s' → P s n → GNode.elem n ∉ R → P s' n) :
    ∀ (keys : List Node) (s : St), EdgeOK s →
      ∃ R, Clr s R D (keys.foldl step s) ∧ ∀ n ∈ keys, P s n → GNode.elem n ∈ R := by
  intro keys
  induction keys with
  | nil => intro s _; exact ⟨[], Clr.refl s D, by simp⟩
  | cons k rest ih =>
    intro s he
    obtain ⟨R1, h1, hk⟩ := hstep s k he
    obtain ⟨R2, h2, hrest⟩ := ih (step s k) (h1.edgeOK he)
    refine ⟨R1 ++ R2, h1.trans h2, ?_⟩
    intro n hn hp
    simp only [List.mem_cons] at hn
    simp only [List.mem_append]
    rcases hn with rfl | hn
    · exact Or.inl (hk hp)
    · by_cases hr : GNode.elem n ∈ R1
      · exact Or.inl hr
      · exact Or.inr (hrest n hn (hP s R1 _ n h1 hp hr))

/-- `clear_all_values(clear_input=False)` removes every computed element of the cells -/
theorem clr_clearAllValues (s : St) (D : RefId × Node → Prop) (he : EdgeOK s) (c : CellId) (ci : Bool) :
    ∃ R, Clr s R D (s.clearAllValues c ci) ∧
      ∀ n, n.1 = c → (lookup s.data n).isSome → (ci = true ∨ n ∉ s.inputs) → GNode.elem n ∈ s.gn →
        GNode.elem n ∈ R := by
  unfold St.clearAllValues
  obtain ⟨R, h1, h2⟩ := clr_fold_mem D (fun s n => s.clearValueAt n ci)
    (fun s n => (lookup s.data n).isSome ∧ (ci = true ∨ n ∉ s.inputs) ∧ GNode.elem n ∈ s.gn)
    (by
      intro s n he
      obtain ⟨R, h1, h2⟩ := clr_clearValueAt s D he n ci
      exact ⟨R, h1, fun hp => h2 hp.1 hp.2.1 hp.2.2⟩)
    (by
      intro s R s' n hc hp hr
      refine ⟨?_, ?_, ?_⟩
      · rw [hc.lookup, if_neg hr]; exact hp.1
      · rcases hp.2.1 with h | h
        · exact Or.inl h
        · exact Or.inr (fun hin => h ((hc.mem_inputs n).mp hin).1)
      · exact (hc.mem_gn _).mpr ⟨hp.2.2, hr⟩)
    ((s.data.filter (fun e => e.1.1 == c)).map (·.1)) s he
  refine ⟨R, h1, ?_⟩
  intro n hnc hl hci hgn
  refine h2 n ?_ ⟨hl, hci, hgn⟩
  simp only [List.mem_map, List.mem_filter, beq_iff_eq]
  cases hv : lookup s.data n with
  | none => rw [hv] at hl; cases hl
  | some v =>
    exact ⟨(n, v), ⟨mem_of_lookup _ _ _ hv, hnc⟩, rfl⟩

/-! ### `clear_obj` -/

theorem clr_clearObj (s : St) (D : RefId × Node → Prop) (he : EdgeOK s) (c : CellId) :
    ∃ R, Clr s R D (s.clearObj c) ∧
      (∀ n, n.1 = c → GNode.elem n ∈ s.gn → GNode.elem n ∈ R) ∧
      (GNode.obj c ∈ s.gn → GNode.obj c ∈ R) := by
  unfold St.clearObj
  generalize hown : s.gn.filter (fun x => match x with | .elem n => n.1 == c | .obj c' => c' == c) = own
  have hsub : ∀ a ∈ own, a ∈ s.gn := by
    intro a ha; rw [← hown] at ha; exact (List.mem_filter.mp ha).1
  have hmem : ∀ x, x ∈ (own.flatMap (fun a => s.descsWith a)).eraseDups ↔ ∃ a ∈ own, x ∈ s.descsWith a := by
    intro x; simp [mem_eraseDups, List.mem_flatMap]
  refine ⟨_, clr_clearSet s _ D ?_, ?_, ?_⟩
  · intro a b hab ha
    rw [hmem] at ha ⊢
    obtain ⟨o, ho, hao⟩ := ha
    exact ⟨o, ho, closed_descs s he o (hsub o ho) a b hab hao⟩
  · intro n hnc hn
    rw [hmem]
    refine ⟨.elem n, ?_, self_mem_descs s _⟩
    rw [← hown]; simp [hn, hnc]
  · intro hn
    rw [hmem]
    refine ⟨.obj c, ?_, self_mem_descs s _⟩
    rw [← hown]; simp [hn]

/-! ### `clear_attr_referrers` -/

/-- the edges the edit of reference `r` may drop from the reference graph besides those into
removed elements: the edges of `r` itself and the edges of its recorded readers -/
def dropOf (s : St) (r : RefId) : RefId × Node → Prop := fun e => e.1 = r ∨ (r, e.2) ∈ s.rg

theorem clr_clearAttrReferrers (s : St) (he : EdgeOK s) (r : RefId) :
    ∃ R, Clr s R (dropOf s r) (s.clearAttrReferrers r) ∧
      ∀ n, (r, n) ∈ s.rg → GNode.elem n ∈ s.gn → GNode.elem n ∈ R := by
  unfold St.clearAttrReferrers
  generalize hreaders : (s.rg.filter (fun e => e.1 == r)).map (·.2) = readers
  have hrd : ∀ n, n ∈ readers ↔ (r, n) ∈ s.rg := by
    intro n
    rw [← hreaders]
    simp only [List.mem_map, List.mem_filter, beq_iff_eq]
    constructor
    · rintro ⟨e, ⟨he, h1⟩, h2⟩; obtain ⟨a, b⟩ := e; simp only [] at h1 h2; subst h1; subst h2; exact he
    · intro h; exact ⟨(r, n), ⟨h, rfl⟩, rfl⟩
  -- dropping the edges first
  have h0 : Clr s [] (dropOf s r) { s with rg := s.rg.filter (fun e => e.1 != r && !readers.contains e.2) } := by
    refine ⟨(Clr.refl s (dropOf s r)).data, (Clr.refl s (dropOf s r)).inputs, (Clr.refl s (dropOf s r)).gn,
      (Clr.refl s (dropOf s r)).ge, ?_, ?_, (fun _ _ h => nomatch h), rfl, rfl, rfl, ?_⟩
    · intro e h; exact (List.mem_filter.mp h).1
    · intro e h _ hd
      simp only [dropOf, not_or] at hd
      simp only [List.mem_filter, Bool.and_eq_true, bne_iff_ne, ne_eq, Bool.not_eq_true',
        List.contains_eq_mem, decide_eq_false_iff_not, hrd]
      exact ⟨h, hd.1, hd.2⟩
    · intro a b _ h; cases h
  have he0 : EdgeOK { s with rg := s.rg.filter (fun e => e.1 != r && !readers.contains e.2) } := he
  obtain ⟨R, h1, h2⟩ := clr_fold_mem (dropOf s r)
    (fun s n => if s.gn.contains (.elem n) then
        ((s.removeNodes (s.descsWith (.elem n))).rgRemoveReferred (elemsOf (s.descsWith (.elem n)))).dropValues
          (elemsOf (s.descsWith (.elem n)))
      else s)
    (fun s n => GNode.elem n ∈ s.gn)
    (by
      intro s' n he'
      split
      · rename_i h
        have hn : GNode.elem n ∈ s'.gn := by simpa using h
        exact ⟨_, clr_clearSet s' _ _ (closed_descs s' he' _ hn), fun _ => self_mem_descs s' _⟩
      · rename_i h
        exact ⟨[], Clr.refl s' _, fun hn => absurd (by simpa using hn) h⟩)
    (by intro s1 R s2 n hc hp hr; exact (hc.mem_gn _).mpr ⟨hp, hr⟩)
    readers _ he0
  refine ⟨[] ++ R, h0.trans h1, ?_⟩
  intro n hrn hgn
  simp only [List.nil_append]
  exact h2 n ((hrd n).mpr hrn) hgn

end MxModel.Exec
