import MxModel.Kernels.C3
import MxModel.Struct.Derive
/-! Properties of the C3 merge as modelx computes it, and of derivation from scratch. -/
namespace MxModel.C3

variable {α : Type} [DecidableEq α]

theorem pick_mem (all : List (List α)) : ∀ (seqs : List (List α)) (c : α),
    pick all seqs = some c → ∃ s ∈ seqs, s.head? = some c ∧ all.any (inTail c) = false := by
  intro seqs
  induction seqs with
  | nil => intro c h; simp [pick] at h
  | cons s rest ih =>
    intro c h
    cases s with
    | nil =>
      simp only [pick] at h
      obtain ⟨s', hs', h1, h2⟩ := ih c h
      exact ⟨s', List.mem_cons_of_mem _ hs', h1, h2⟩
    | cons x xs =>
      simp only [pick] at h
      split at h
      · obtain ⟨s', hs', h1, h2⟩ := ih c h
        exact ⟨s', List.mem_cons_of_mem _ hs', h1, h2⟩
      · rename_i hany
        simp only [Option.some.injEq] at h
        subst h
        exact ⟨x :: xs, by simp, rfl, by simpa using hany⟩

/-- **local precedence and monotonicity**: every merged sequence is a subsequence of the result -/
theorem merge_sublist : ∀ (fuel : Nat) (seqs : List (List α)) (res : List α),
    merge fuel seqs = some res → ∀ s ∈ seqs, s.Sublist res := by
  intro fuel
  induction fuel with
  | zero =>
    intro seqs res h s hs
    simp only [merge] at h
    split at h
    · rename_i he
      cases h
      have : s = [] := by
        by_cases hs' : s = []
        · exact hs'
        · have : s ∈ seqs.filter (· ≠ []) := by simp [hs, hs']
          rw [List.isEmpty_iff.mp he] at this; cases this
      subst this; exact List.Sublist.refl _
    · cases h
  | succ f ih =>
    intro seqs res h s hs
    simp only [merge] at h
    split at h
    · rename_i he
      cases h
      have : s = [] := by
        by_cases hs' : s = []
        · exact hs'
        · have : s ∈ seqs.filter (· ≠ []) := by simp [hs, hs']
          rw [List.isEmpty_iff.mp he] at this; cases this
      subst this; exact List.Sublist.refl _
    · split at h
      · cases h
      · rename_i c hc
        cases hm : merge f (dropHead c (seqs.filter (· ≠ []))) with
        | none => rw [hm] at h; cases h
        | some r =>
          rw [hm] at h
          simp only [Option.map_some, Option.some.injEq] at h
          subst h
          cases s with
          | nil => exact List.nil_sublist _
          | cons x xs =>
            have hmem : (x :: xs) ∈ seqs.filter (· ≠ []) := by simp [hs]
            have himg : (if x = c then xs else x :: xs) ∈ dropHead c (seqs.filter (· ≠ [])) := by
              unfold dropHead
              exact List.mem_map.mpr ⟨x :: xs, hmem, rfl⟩
            have := ih _ r hm _ himg
            by_cases hx : x = c
            · subst hx
              simp only [if_true] at this
              exact List.Sublist.cons_cons _ this
            · simp only [hx, if_false] at this
              exact List.Sublist.cons _ this

/-- every element of the result comes from one of the merged sequences -/
theorem merge_mem : ∀ (fuel : Nat) (seqs : List (List α)) (res : List α),
    merge fuel seqs = some res → ∀ x ∈ res, ∃ s ∈ seqs, x ∈ s := by
  intro fuel
  induction fuel with
  | zero =>
    intro seqs res h x hx
    simp only [merge] at h
    split at h
    · cases h; cases hx
    · cases h
  | succ f ih =>
    intro seqs res h x hx
    simp only [merge] at h
    split at h
    · cases h; cases hx
    · split at h
      · cases h
      · rename_i c hc
        cases hm : merge f (dropHead c (seqs.filter (· ≠ []))) with
        | none => rw [hm] at h; cases h
        | some r =>
          rw [hm] at h
          simp only [Option.map_some, Option.some.injEq] at h
          subst h
          simp only [List.mem_cons] at hx
          rcases hx with rfl | hx
          · obtain ⟨s, hs, hh, _⟩ := pick_mem _ _ _ hc
            refine ⟨s, (List.mem_filter.mp hs).1, ?_⟩
            cases s with
            | nil => cases hh
            | cons y ys => simp at hh; subst hh; simp
          · obtain ⟨s', hs', hxs'⟩ := ih _ r hm x hx
            unfold dropHead at hs'
            obtain ⟨s, hs, rfl⟩ := List.mem_map.mp hs'
            refine ⟨s, (List.mem_filter.mp hs).1, ?_⟩
            cases s with
            | nil => cases hxs'
            | cons y ys =>
              simp only [] at hxs'
              split at hxs'
              · exact List.mem_cons_of_mem _ hxs'
              · exact hxs'

theorem mro_head (bases : α → List α) : ∀ (d : Nat) (s : α) (l : List α),
    mro bases d s = some l → ∃ r, l = s :: r := by
  intro d s l h
  cases d with
  | zero => simp [mro] at h
  | succ d =>
    simp only [mro] at h
    split at h
    · cases h
    · rename_i ms _
      cases hm : merge (totalLen (ms ++ [bases s])) (ms ++ [bases s]) with
      | none => rw [hm] at h; cases h
      | some r => rw [hm] at h; simp at h; exact ⟨r, h.symm⟩

/-- the order of the direct bases is kept, and the linearisation of every direct base is a
subsequence of the linearisation of the space -/
theorem mro_sublist (bases : α → List α) (d : Nat) (s : α) (r : List α)
    (h : mro bases (d + 1) s = some (s :: r)) :
    (bases s).Sublist r ∧ ∀ b ∈ bases s, ∃ lb, mro bases d b = some lb ∧ lb.Sublist r := by
  simp only [mro] at h
  cases hmm : (bases s).mapM (mro bases d) with
  | none => rw [hmm] at h; cases h
  | some ms =>
    rw [hmm] at h
    simp only [] at h
    cases hm : merge (totalLen (ms ++ [bases s])) (ms ++ [bases s]) with
    | none => rw [hm] at h; cases h
    | some r' =>
      rw [hm] at h
      simp only [Option.map_some, Option.some.injEq, List.cons.injEq, true_and] at h
      subst h
      have hsub := merge_sublist (α := α) _ _ _ hm
      refine ⟨hsub _ (by simp), ?_⟩
      intro b hb
      -- the linearisation of b is one of the merged sequences
      have : ∀ (l : List α) (ms : List (List α)), l.mapM (mro bases d) = some ms →
          ∀ b ∈ l, ∃ lb, mro bases d b = some lb ∧ lb ∈ ms := by
        intro l
        induction l with
        | nil => intro ms _ b hb; cases hb
        | cons a l ih =>
          intro ms hms b hb
          simp only [List.mapM_cons, Option.bind_eq_bind, Option.pure_def] at hms
          cases ha : mro bases d a with
          | none => rw [ha] at hms; cases hms
          | some la =>
            rw [ha] at hms
            simp only [Option.bind_some] at hms
            cases hl : l.mapM (mro bases d) with
            | none => rw [hl] at hms; cases hms
            | some ml =>
              rw [hl] at hms
              simp only [Option.bind_some, Option.some.injEq] at hms
              subst hms
              simp only [List.mem_cons] at hb
              rcases hb with rfl | hb
              · exact ⟨la, ha, by simp⟩
              · obtain ⟨lb, h1, h2⟩ := ih ml hl b hb
                exact ⟨lb, h1, by simp [h2]⟩
      obtain ⟨lb, h1, h2⟩ := this _ _ hmm b hb
      exact ⟨lb, h1, hsub lb (by simp [h2])⟩

end MxModel.C3

namespace MxModel.Struct
variable {α : Type}

theorem mem_derivedNames (tail : List α) (defs : α → List String) (own : List String) (x : String) :
    x ∈ derivedNames tail defs own ↔ x ∉ own ∧ ∃ b ∈ tail, x ∈ defs b := by
  unfold derivedNames
  simp only [List.mem_filter, List.mem_eraseDups, List.mem_flatMap, Bool.not_eq_true',
    List.contains_eq_mem, decide_eq_false_iff_not]
  constructor
  · rintro ⟨⟨b, hb, hx⟩, ho⟩; exact ⟨ho, b, hb, hx⟩
  · rintro ⟨ho, b, hb, hx⟩; exact ⟨⟨b, hb, hx⟩, ho⟩

theorem firstDefiner_some (tail : List α) (defs : α → List String) (x : String)
    (h : ∃ b ∈ tail, x ∈ defs b) : ∃ b, firstDefiner tail defs x = some b := by
  unfold firstDefiner
  cases hf : tail.find? (fun b => (defs b).contains x) with
  | some b => exact ⟨b, rfl⟩
  | none =>
    obtain ⟨b, hb, hx⟩ := h
    have := List.find?_eq_none.mp hf b hb
    simp [hx] at this


theorem nodup_eraseDups (l : List String) : l.eraseDups.Nodup := by
  suffices ∀ n (l : List String), l.length ≤ n → l.eraseDups.Nodup from this _ l (Nat.le_refl _)
  intro n
  induction n with
  | zero => intro l hl; cases l with
    | nil => simp
    | cons a as => simp at hl
  | succ n ih =>
    intro l hl
    cases l with
    | nil => simp
    | cons a as =>
      rw [List.eraseDups_cons]
      refine List.nodup_cons.mpr ⟨?_, ih _ ?_⟩
      · simp [List.mem_eraseDups]
      · have := List.length_filter_le (fun b => !b == a) as
        simp only [List.length_cons] at hl
        omega

end MxModel.Struct
