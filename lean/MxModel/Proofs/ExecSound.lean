import MxModel.Proofs.ExecBasic
/-!
# Memoised evaluation refines the specification

`runN_ok`: from a state whose held values are all the spec's (`Good`), an evaluation that
never hits the depth limit returns the spec's result and ends in a `Good` state – for every
environment, i.e. for arbitrary formula behaviours including ones that catch failures.
`runN_complete`: conversely, when the spec evaluation stays within the depth the mechanism is
given, the mechanism returns exactly that result and never hits the limit, whatever is cached.
-/
namespace MxModel.Exec

variable (env : Env) (inp : Node → Option Val)

/-! ### the spec is monotone in the depth and deterministic -/

theorem calleeAt_alive {env : Env} (f : Node → Res × Bool) {n : Node} (h : env.alive n.1 = true) :
    calleeAt env f n = f n := by simp [calleeAt, h]

theorem calleeAt_dead {env : Env} (f : Node → Res × Bool) {n : Node} (h : env.alive n.1 = false) :
    calleeAt env f n = (.err errDead, false) := by simp [calleeAt, h]

theorem calleeAt_mono (f g : Node → Res × Bool)
    (hfg : ∀ n r, f n = (r, false) → g n = (r, false)) (n : Node) (r : Res)
    (h : calleeAt env f n = (r, false)) : calleeAt env g n = (r, false) := by
  unfold calleeAt at h ⊢
  split
  · rename_i ha; rw [if_pos ha] at h; exact hfg n r h
  · rename_i ha; rw [if_neg ha] at h; exact h

theorem denoteBody_mono (f g : Node → Res × Bool)
    (hfg : ∀ n r, f n = (r, false) → g n = (r, false)) :
    ∀ (p : Prog) (r : Res), denoteBody env f p = (r, false) → denoteBody env g p = (r, false) := by
  intro p
  induction p with
  | ret v => intro r h; simpa [denoteBody] using h
  | raise e => intro r h; simpa [denoteBody] using h
  | reraise e => intro r h; simpa [denoteBody] using h
  | read a x k ih => intro r h; simp only [denoteBody] at h ⊢; exact ih _ r h
  | call n k ih =>
    intro r h
    simp only [denoteBody, Prod.mk.injEq, Bool.or_eq_false_iff] at h
    obtain ⟨h1, h2, h3⟩ := h
    have hf : calleeAt env f n = ((calleeAt env f n).1, false) := by rw [← h2]
    have hg := calleeAt_mono env f g hfg n _ hf
    have hk : denoteBody env f (k (calleeAt env f n).1) = (r, false) := by rw [← h1, ← h3]
    have := ih (calleeAt env f n).1 r hk
    simp only [denoteBody, hg, this, Bool.or_false]

theorem denoteN_mono : ∀ (d : Nat) (n : Node) (r : Res),
    denoteN env inp d n = (r, false) → denoteN env inp (d + 1) n = (r, false) := by
  intro d
  induction d with
  | zero => intro n r h; simp [denoteN] at h
  | succ d ih =>
    intro n r h
    rw [denoteN] at h ⊢
    split
    · rename_i v hv; rw [hv] at h; exact h
    · rename_i hv
      rw [hv] at h
      simp only [Prod.mk.injEq] at h ⊢
      obtain ⟨h1, h2⟩ := h
      have hb : denoteBody env (denoteN env inp d) (env.formula n) =
          ((denoteBody env (denoteN env inp d) (env.formula n)).1, false) := by rw [← h2]
      have := denoteBody_mono env _ _ (fun m r' hm => ih m r' hm) _ _ hb
      rw [this]
      exact ⟨h1, rfl⟩

theorem denoteN_mono_le {d d' : Nat} (hle : d ≤ d') (n : Node) (r : Res)
    (h : denoteN env inp d n = (r, false)) : denoteN env inp d' n = (r, false) := by
  induction hle with
  | refl => exact h
  | step _ ih => exact denoteN_mono env inp _ n r ih

/-- `Den` is deterministic: there is one uncached value per element -/
theorem Den_det (n : Node) (r r' : Res) (h : Den env inp n r) (h' : Den env inp n r') : r = r' := by
  obtain ⟨d, hd⟩ := h; obtain ⟨d', hd'⟩ := h'
  have a := denoteN_mono_le env inp (Nat.le_max_left d d') n r hd
  have b := denoteN_mono_le env inp (Nat.le_max_right d d') n r' hd'
  rw [a] at b; exact (Prod.mk.inj b).1

/-- body-level spec relation -/
def DenBody (p : Prog) (r : Res) : Prop :=
  ∃ d, denoteBody env (denoteN env inp d) p = (r, false)

/-- what a formula that calls `n` is answered: the denotation of `n` when the cells exists, the
error of an unbound name when it does not -/
def DenC (n : Node) (r : Res) : Prop :=
  if env.alive n.1 then Den env inp n r else r = .err errDead

theorem DenC_det (n : Node) (r r' : Res) (h : DenC env inp n r) (h' : DenC env inp n r') : r = r' := by
  unfold DenC at h h'
  by_cases ha : env.alive n.1 = true
  · rw [if_pos ha] at h h'; exact Den_det env inp n r r' h h'
  · rw [if_neg ha] at h h'; rw [h, h']

theorem DenBody_call (n : Node) (k : Res → Prog) (rn r : Res)
    (hn : DenC env inp n rn) (hk : DenBody env inp (k rn) r) : DenBody env inp (.call n k) r := by
  obtain ⟨d2, h2⟩ := hk
  unfold DenC at hn
  split at hn
  · rename_i ha
    obtain ⟨d1, h1⟩ := hn
    refine ⟨max d1 d2, ?_⟩
    have a := denoteN_mono_le env inp (Nat.le_max_left d1 d2) n rn h1
    have b := denoteBody_mono env (denoteN env inp d2) (denoteN env inp (max d1 d2))
      (fun m r' hm => denoteN_mono_le env inp (Nat.le_max_right d1 d2) m r' hm) _ r h2
    simp [denoteBody, calleeAt_alive _ ha, a, b]
  · rename_i ha
    have ha' : env.alive n.1 = false := by simpa using ha
    subst hn
    exact ⟨d2, by simp [denoteBody, calleeAt_dead _ ha', h2]⟩

/-! ### the invariant -/

/-- every value held by a cached cells is the spec's value; user inputs are held -/
structure Good (s : St) : Prop where
  sound : ∀ n v, env.cached n.1 = true → lookup s.data n = some v → Den env inp n (.ok v)
  inputsHeld : ∀ n v, env.cached n.1 = true → inp n = some v → lookup s.data n = some v

theorem Good.of_sameCache {s s' : St} (h : SameCache s s') (g : Good env inp s) : Good env inp s' :=
  ⟨fun n v hc hl => g.sound n v hc (h.data ▸ hl), fun n v hc hi => h.data ▸ g.inputsHeld n v hc hi⟩

/-- contract of an evaluator for callees, relative to "the limit was never hit" -/
def CalleeOK (f : Node → St → Res × St) : Prop :=
  ∀ n s, (s.hit = false → Good env inp s) →
    (s.hit = true → (f n s).2.hit = true) ∧
    ((f n s).2.hit = false → Good env inp (f n s).2 ∧ DenC env inp n (f n s).1)

theorem hit_false_of {a b : Bool} (h : a = true → b = true) (hb : b = false) : a = false := by
  cases a <;> simp_all

theorem runBody_ok (f : Node → St → Res × St) (hf : CalleeOK env inp f) :
    ∀ (p : Prog) (s : St), (s.hit = false → Good env inp s) →
      (s.hit = true → (runBody env f p s).2.hit = true) ∧
      ((runBody env f p s).2.hit = false →
        Good env inp (runBody env f p s).2 ∧ DenBody env inp p (runBody env f p s).1) := by
  intro p
  induction p with
  | ret v =>
    intro s hs
    exact ⟨id, fun h => ⟨hs h, ⟨0, by simp [runBody, denoteBody]⟩⟩⟩
  | raise e =>
    intro s hs
    simp only [runBody]
    exact ⟨id, fun h => ⟨Good.of_sameCache env inp (sameCache_newExc s) (hs h), ⟨0, by simp [denoteBody]⟩⟩⟩
  | reraise e =>
    intro s hs
    exact ⟨id, fun h => ⟨hs h, ⟨0, by simp [runBody, denoteBody]⟩⟩⟩
  | read a x k ih =>
    intro s hs
    have hsc := sameCache_noteRead s (a && (env.refs x).isSome) x
    have := ih (env.refs x) (s.noteRead (a && (env.refs x).isSome) x)
      (fun h => Good.of_sameCache env inp hsc (hs (hsc.hit ▸ h)))
    simp only [runBody]
    refine ⟨fun h => this.1 (hsc.hit ▸ h), fun h => ?_⟩
    obtain ⟨hg, d, hd⟩ := this.2 h
    exact ⟨hg, d, by simpa [denoteBody] using hd⟩
  | call n k ih =>
    intro s hs
    simp only [runBody]
    have hfn := hf n s hs
    have := ih (f n s).1 (f n s).2 (fun h => (hfn.2 h).1)
    refine ⟨fun h => this.1 (hfn.1 h), fun h => ?_⟩
    have hmid : (f n s).2.hit = false := hit_false_of this.1 h
    obtain ⟨hg, hden⟩ := this.2 h
    exact ⟨hg, DenBody_call env inp n k _ _ (hfn.2 hmid).2 hden⟩

/-- `eval_node` around an evaluator satisfying the contract for *unheld* elements -/
def EvalOK (ef : Node → St → Res × St) : Prop :=
  ∀ n s, (s.hit = false → Good env inp s) → (s.hit = false → env.cached n.1 = true → inp n = none) →
    (s.hit = true → (ef n s).2.hit = true) ∧
    ((ef n s).2.hit = false → Good env inp (ef n s).2 ∧ Den env inp n (ef n s).1)

theorem keepExc_okc (s0 : St) (p : Res × St) (A : Prop) (n : Node)
    (h : (A → p.2.hit = true) ∧ (p.2.hit = false → Good env inp p.2 ∧ Den env inp n p.1)) :
    (A → (keepExc s0 p).2.hit = true) ∧
    ((keepExc s0 p).2.hit = false → Good env inp (keepExc s0 p).2 ∧ Den env inp n (keepExc s0 p).1) := by
  have ho := keepExc_excOnly s0 p
  rw [keepExc_fst, ho.hit]
  exact ⟨h.1, fun hh => ⟨Good.of_sameCache env inp ho.sameCache (h.2 hh).1, (h.2 hh).2⟩⟩

theorem evalNode_ok (ef : Node → St → Res × St) (hef : EvalOK env inp ef) :
    CalleeOK env inp (evalNode env ef) := by
  intro n s hs
  unfold evalNode
  by_cases ha : env.alive n.1 = true
  · have hden : ∀ r, Den env inp n r → DenC env inp n r := fun r h => by unfold DenC; rw [if_pos ha]; exact h
    simp only [ha, if_true]
    by_cases hc : env.cached n.1 = true
    · simp only [hc, if_true]
      cases hl : lookup s.data n with
      | some v =>
        simp only []
        have hsc := sameCache_hitEdge s n
        refine ⟨fun h => hsc.hit ▸ h, fun h => ?_⟩
        have h0 : s.hit = false := hsc.hit ▸ h
        exact ⟨Good.of_sameCache env inp hsc (hs h0), hden _ ((hs h0).sound n v hc hl)⟩
      | none =>
        simp only []
        have := keepExc_okc env inp s _ _ n (hef n s hs (fun h0 _ => ?_))
        · exact ⟨this.1, fun h => ⟨(this.2 h).1, hden _ (this.2 h).2⟩⟩
        -- an input would be held
        cases hi : inp n with
        | none => rfl
        | some v =>
          have := (hs h0).inputsHeld n v hc hi
          rw [hl] at this; cases this
    · have hc' : env.cached n.1 = false := by simpa using hc
      simp only [hc', Bool.false_eq_true, if_false]
      have := keepExc_okc env inp s _ _ n (hef n s hs (fun _ h => by simp [hc'] at h))
      exact ⟨this.1, fun h => ⟨(this.2 h).1, hden _ (this.2 h).2⟩⟩
  · have ha' : env.alive n.1 = false := by simpa using ha
    simp only [ha', Bool.false_eq_true, if_false]
    refine ⟨fun h => h, fun h => ⟨Good.of_sameCache env inp (sameCache_newExc s) (hs h), ?_⟩⟩
    unfold DenC; rw [if_neg ha]


theorem den_of_body (n : Node) (r : Res) (hb : DenBody env inp (env.formula n) r)
    (hin : env.cached n.1 = true → inp n = none) : Den env inp n (checkNone env n.1 r) := by
  obtain ⟨d, hd⟩ := hb
  refine ⟨d + 1, ?_⟩
  rw [denoteN]
  have : (if env.cached n.1 = true then inp n else none) = none := by
    split
    · rename_i hc; exact hin hc
    · rfl
  rw [this]
  simp only [hd]

theorem good_store {s : St} (g : Good env inp s) (n : Node) (v : Val)
    (hden : Den env inp n (.ok v)) (hin : env.cached n.1 = true → inp n = none) :
    Good env inp { s with data := insert s.data n v } := by
  constructor
  · intro m w hc hl
    simp only [lookup_insert] at hl
    split at hl
    · rename_i h; subst h; cases hl; exact hden
    · exact g.sound m w hc hl
  · intro m w hc hi
    simp only [lookup_insert]
    split
    · rename_i h; subst h; rw [hin hc] at hi; cases hi
    · exact g.inputsHeld m w hc hi

theorem runN_ok : ∀ d, EvalOK env inp (runN env d) := by
  intro d
  induction d with
  | zero =>
    intro n s hs hin
    simp [runN, St.newExc]
  | succ d ih =>
    intro n s hs hin
    have hpush := sameCache_push env s n
    have hb := runBody_ok env inp _ (evalNode_ok env inp _ ih) (env.formula n) (s.push env n)
      (fun h => Good.of_sameCache env inp hpush (hs (hpush.hit ▸ h)))
    simp only [runN]
    generalize hp : runBody env (evalNode env (runN env d)) (env.formula n) (s.push env n) = p at hb
    obtain ⟨r, s1⟩ := p
    simp only [] at hb ⊢
    have hsticky : s.hit = true → s1.hit = true := fun h => hb.1 (hpush.hit ▸ h)
    cases r with
    | err e =>
      simp only []
      have hrb := sameCache_rollback s1 n
      refine ⟨fun h => hrb.hit ▸ hsticky h, fun h => ?_⟩
      have h1 : s1.hit = false := hrb.hit ▸ h
      have h0 : s.hit = false := hit_false_of hsticky h1
      obtain ⟨hg, hden⟩ := hb.2 h1
      refine ⟨Good.of_sameCache env inp hrb hg, ?_⟩
      simpa [checkNone] using den_of_body env inp n _ hden (hin h0)
    | ok v =>
      simp only []
      by_cases hc : env.cached n.1 = true
      · simp only [hc, if_true]
        by_cases hnone : (v = Val.none && !env.allowNone n.1) = true
        · simp only [hnone, if_true]
          have hrb := (sameCache_newExc s1).trans (sameCache_rollback s1.newExc n)
          refine ⟨fun h => hrb.hit ▸ hsticky h, fun h => ?_⟩
          have h1 : s1.hit = false := hrb.hit ▸ h
          have h0 : s.hit = false := hit_false_of hsticky h1
          obtain ⟨hg, hden⟩ := hb.2 h1
          refine ⟨Good.of_sameCache env inp hrb hg, ?_⟩
          have := den_of_body env inp n _ hden (hin h0)
          simp only [Bool.and_eq_true, decide_eq_true_eq, Bool.not_eq_true'] at hnone
          obtain ⟨hv, ha⟩ := hnone
          subst hv
          simpa [checkNone, hc, ha] using this
        · simp only [hnone, Bool.false_eq_true, if_false]
          have hpop := sameCache_pop env { s1 with data := insert s1.data n v } n
          refine ⟨fun h => by rw [hpop.hit]; exact hsticky h, fun h => ?_⟩
          have h1 : s1.hit = false := by rw [hpop.hit] at h; exact h
          have h0 : s.hit = false := hit_false_of hsticky h1
          obtain ⟨hg, hden⟩ := hb.2 h1
          have hd := den_of_body env inp n _ hden (hin h0)
          have hd' : Den env inp n (.ok v) := by
            cases v with
            | int i => simpa [checkNone] using hd
            | none =>
              have ha : env.allowNone n.1 = true := by
                cases hh : env.allowNone n.1 <;> simp_all
              simpa [checkNone, hc, ha] using hd
          exact ⟨Good.of_sameCache env inp hpop (good_store env inp hg n v hd' (hin h0)), hd'⟩
      · have hc' : env.cached n.1 = false := by simpa using hc
        simp only [hc', Bool.false_eq_true, if_false]
        have hpop := sameCache_pop env s1 n
        refine ⟨fun h => hpop.hit ▸ hsticky h, fun h => ?_⟩
        have h1 : s1.hit = false := hpop.hit ▸ h
        have h0 : s.hit = false := hit_false_of hsticky h1
        obtain ⟨hg, hden⟩ := hb.2 h1
        refine ⟨Good.of_sameCache env inp hpop hg, ?_⟩
        have hd := den_of_body env inp n _ hden (hin h0)
        cases v <;> simpa [checkNone, hc'] using hd


/-! ### completeness: within the depth the spec needs, the mechanism never hits the limit -/

/-- a callee evaluator returns the spec's result whenever the spec stays within depth `d` -/
def CompOK (d : Nat) (f : Node → St → Res × St) : Prop :=
  ∀ n s r, Good env inp s → s.hit = false → calleeAt env (denoteN env inp d) n = (r, false) →
    (f n s).1 = r ∧ (f n s).2.hit = false

theorem runBody_complete (d : Nat) (f : Node → St → Res × St) (hf : CalleeOK env inp f)
    (hc : CompOK env inp d f) :
    ∀ (p : Prog) (s : St) (r : Res), Good env inp s → s.hit = false →
      denoteBody env (denoteN env inp d) p = (r, false) →
      (runBody env f p s).1 = r ∧ (runBody env f p s).2.hit = false := by
  intro p
  induction p with
  | ret v => intro s r _ h0 h; simp [runBody, denoteBody] at h ⊢; exact ⟨h, h0⟩
  | raise e =>
    intro s r _ h0 h
    simp only [runBody, denoteBody, Prod.mk.injEq] at h ⊢
    exact ⟨h.1, by simpa [St.newExc] using h0⟩
  | reraise e => intro s r _ h0 h; simp [runBody, denoteBody] at h ⊢; exact ⟨h, h0⟩
  | read a x k ih =>
    intro s r hg h0 h
    simp only [runBody, denoteBody] at h ⊢
    have hsc := sameCache_noteRead s (a && (env.refs x).isSome) x
    exact ih _ _ r (Good.of_sameCache env inp hsc hg) (hsc.hit ▸ h0) h
  | call n k ih =>
    intro s r hg h0 h
    simp only [denoteBody, Prod.mk.injEq, Bool.or_eq_false_iff] at h
    obtain ⟨h1, h2, h3⟩ := h
    have hcal : calleeAt env (denoteN env inp d) n = ((calleeAt env (denoteN env inp d) n).1, false) := by
      rw [← h2]
    obtain ⟨hr, hh⟩ := hc n s _ hg h0 hcal
    have hg' := ((hf n s (fun _ => hg)).2 hh).1
    simp only [runBody]
    rw [hr]
    exact ih _ _ r hg' hh (by rw [← h1, ← h3])

theorem evalNode_complete (d : Nat) (ef : Node → St → Res × St)
    (hef : ∀ n s r, Good env inp s → s.hit = false → (env.cached n.1 = true → inp n = none) →
      denoteN env inp d n = (r, false) → (ef n s).1 = r ∧ (ef n s).2.hit = false) :
    CompOK env inp d (evalNode env ef) := by
  intro n s r hg h0 hd
  unfold evalNode
  by_cases ha : env.alive n.1 = true
  · rw [calleeAt_alive _ ha] at hd
    simp only [ha, if_true]
    by_cases hc : env.cached n.1 = true
    · simp only [hc, if_true]
      cases hl : lookup s.data n with
      | some v =>
        simp only []
        have hsc := sameCache_hitEdge s n
        refine ⟨?_, hsc.hit ▸ h0⟩
        exact Den_det env inp n _ _ (hg.sound n v hc hl) ⟨d, hd⟩
      | none =>
        simp only []
        rw [keepExc_fst, (keepExc_excOnly s _).hit]
        refine hef n s r hg h0 (fun _ => ?_) hd
        cases hi : inp n with
        | none => rfl
        | some v => have := hg.inputsHeld n v hc hi; rw [hl] at this; cases this
    · have hc' : env.cached n.1 = false := by simpa using hc
      simp only [hc', Bool.false_eq_true, if_false]
      rw [keepExc_fst, (keepExc_excOnly s _).hit]
      exact hef n s r hg h0 (fun h => by simp [hc'] at h) hd
  · have ha' : env.alive n.1 = false := by simpa using ha
    rw [calleeAt_dead _ ha'] at hd
    simp only [ha', Bool.false_eq_true, if_false]
    exact ⟨(Prod.mk.inj hd).1, by simpa [St.newExc] using h0⟩

theorem runN_complete : ∀ (d : Nat) (n : Node) (s : St) (r : Res),
    Good env inp s → s.hit = false → (env.cached n.1 = true → inp n = none) →
    denoteN env inp d n = (r, false) → (runN env d n s).1 = r ∧ (runN env d n s).2.hit = false := by
  intro d
  induction d with
  | zero => intro n s r _ _ _ h; simp [denoteN] at h
  | succ d ih =>
    intro n s r hg h0 hin hd
    rw [denoteN] at hd
    have hnone : (if env.cached n.1 = true then inp n else none) = none := by
      split
      · rename_i hc; exact hin hc
      · rfl
    rw [hnone] at hd
    simp only [Prod.mk.injEq] at hd
    obtain ⟨hd1, hd2⟩ := hd
    have hpush := sameCache_push env s n
    have hbody := runBody_complete env inp d _ (evalNode_ok env inp _ (runN_ok env inp d))
      (evalNode_complete env inp d _ ih) (env.formula n) (s.push env n) _
      (Good.of_sameCache env inp hpush hg) (hpush.hit ▸ h0)
      (show denoteBody env (denoteN env inp d) (env.formula n) =
        ((denoteBody env (denoteN env inp d) (env.formula n)).1, false) by rw [← hd2])
    simp only [runN]
    generalize runBody env (evalNode env (runN env d)) (env.formula n) (s.push env n) = p at hbody
    obtain ⟨rb, s1⟩ := p
    simp only [] at hbody ⊢
    obtain ⟨hrb, hh⟩ := hbody
    rw [← hrb] at hd1
    cases rb with
    | err e =>
      simp only []
      exact ⟨by simpa [checkNone] using hd1, by rw [(sameCache_rollback s1 n).hit]; exact hh⟩
    | ok v =>
      simp only []
      by_cases hc : env.cached n.1 = true
      · simp only [hc, if_true]
        by_cases hn : (v = Val.none && !env.allowNone n.1) = true
        · simp only [hn, if_true]
          simp only [Bool.and_eq_true, decide_eq_true_eq, Bool.not_eq_true'] at hn
          obtain ⟨hv, ha⟩ := hn
          subst hv
          refine ⟨by simpa [checkNone, hc, ha] using hd1, ?_⟩
          rw [((sameCache_newExc s1).trans (sameCache_rollback s1.newExc n)).hit]; exact hh
        · simp only [hn, Bool.false_eq_true, if_false]
          refine ⟨?_, by rw [(sameCache_pop env _ n).hit]; exact hh⟩
          cases v with
          | int i => simpa [checkNone] using hd1
          | none =>
            have ha : env.allowNone n.1 = true := by
              cases hh' : env.allowNone n.1 <;> simp_all
            simpa [checkNone, hc, ha] using hd1
      · have hc' : env.cached n.1 = false := by simpa using hc
        simp only [hc', Bool.false_eq_true, if_false]
        refine ⟨?_, by rw [(sameCache_pop env s1 n).hit]; exact hh⟩
        cases v <;> simpa [checkNone, hc'] using hd1

end MxModel.Exec
