import MxModel.Proofs.StructMechOps5
/-!
# The API calls that are compositions of the mechanism's operations

`new_space(..., refs=...)` (= `newSpace` then one `setRef` per constructor reference, all or nothing),
`new_cells` with the naming rule of `CellsImpl.__init__` (the name given / the formula's / the next
automatic one, = `newCells` under the resolved name plus the counter of the space's auto-namer), and
`delSpace` forgetting the counters of the deleted spaces.  The counters (`St.namers`) are read by
nothing but `autoCells`, so the invariant does not see them.
-/
namespace MxModel.SM

/-- the invariant does not look at the auto-namer counters -/
theorem inv_namers {st : St} (h : Inv st) (x : List (Path × Nat)) : Inv { st with namers := x } :=
  inv_of_spaces_eq h rfl h.disj.glob

theorem inv_setNamer {st : St} (h : Inv st) (p : Path) (k : Nat) : Inv (st.setNamer p k) :=
  inv_namers h _

theorem inv_setRefs (kw : List String) (p : Path) (refs : List (String × Nat)) :
    ∀ (st st' : St), Inv st → st.setRefs kw p refs = some st' → Inv st' := by
  induction refs with
  | nil =>
    intro st st' h hop
    simp only [St.setRefs, Option.some.injEq] at hop
    subst hop; exact h
  | cons e rest ih =>
    intro st st' h hop
    simp only [St.setRefs] at hop
    cases hs : st.setRef kw p e.1 e.2 with
    | none => rw [hs] at hop; cases hop
    | some s =>
      rw [hs] at hop
      exact ih s st' (inv_setRef kw st s h p e.1 e.2 hs) hop

theorem inv_newSpaceRefs (kw : List String) (st st' : St) (h : Inv st) (parent : Path) (name : String)
    (bases : List Path) (refs : List (String × Nat))
    (hop : st.newSpaceRefs kw parent name bases refs = some st') : Inv st' := by
  unfold St.newSpaceRefs at hop
  cases hs : st.newSpace kw parent name bases with
  | none => rw [hs] at hop; cases hop
  | some st1 =>
    rw [hs] at hop
    exact inv_setRefs kw _ refs st1 st' (inv_newSpace kw st st1 h parent name bases hs) hop

theorem inv_newCellsNamed (kw : List String) (st st' : St) (h : Inv st) (p : Path) (name fname : String)
    (v : Nat) (hop : st.newCellsNamed kw p name fname v = some st') : Inv st' := by
  unfold St.newCellsNamed at hop
  split at hop
  · exact inv_newCells kw st st' h p name v hop
  · split at hop
    · exact inv_newCells kw st st' h p fname v hop
    · simp only at hop
      cases hs : st.newCells kw p (Names.cand "" "Cells" (st.autoCells p)) v with
      | none => rw [hs] at hop; cases hop
      | some s =>
        rw [hs] at hop
        simp only [Option.map_some, Option.some.injEq] at hop
        subst hop
        exact inv_setNamer (inv_newCells kw st s h p _ v hs) p _

theorem inv_delSpaceOp (st st' : St) (h : Inv st) (p : Path) (hop : st.delSpaceOp p = some st') : Inv st' := by
  unfold St.delSpaceOp at hop
  cases hs : st.delSpace p with
  | none => rw [hs] at hop; cases hop
  | some s =>
    rw [hs] at hop
    simp only [Option.map_some, Option.some.injEq] at hop
    subst hop
    exact inv_namers (inv_delSpace st s h p hs) _

end MxModel.SM
