import MxModel.Proofs.EditMachineStep
import MxModel.Proofs.StructMechEffect
/-!
# The clearing of the member edits covers what they change

For `new_cells`, `set_cells_property`, `space.name = value` (new and changed reference), `del_cells`
and `del_ref`, from every state satisfying the structural invariant `SM.Inv`: the clearing the code
performs (`Edit.clearing`) reaches every cells whose entry or namespace changes and every reference
whose entry changes – in the space of the edit AND in every sub space (`Covers`).  This is the
premise `hL` of `C02.no_stale_in_sub_spaces_after_member_edit`, derived instead of assumed.

The structural side is semantic: both states equal derivation from scratch (`Inv.mem_eq_derivation`),
the edit changes one definition (`Defines` / `Undefines`, `SM.apply_spec`) and nothing else
(`Shape`); so an entry `(q, n)` can only differ if `n` is the edited name and `q` is the space of the
edit or a sub space that does not define the name itself (`defines_changes`, `undefines_changes`).
-/
namespace MxModel.Edit
open MxModel.Exec MxModel.C02 MxModel.SM

/-! ## membership in clearing lists -/

theorem touchedBy_of_ns {cl : List Clear} {L : List CellId} {c : CellId} (h : Clear.ns L ∈ cl) (hc : c ∈ L) :
    touchedBy cl c = true := by
  unfold touchedBy
  rw [List.any_eq_true]
  exact ⟨_, h, by simpa using hc⟩

theorem touchedBy_of_obj {cl : List Clear} {c : CellId} (h : Clear.obj c ∈ cl) : touchedBy cl c = true := by
  unfold touchedBy
  rw [List.any_eq_true]
  exact ⟨_, h, by simp⟩

theorem clearedBy_of_obj {cl : List Clear} {c : CellId} (h : Clear.obj c ∈ cl) : clearedBy cl c = true := by
  unfold clearedBy
  rw [List.any_eq_true]
  exact ⟨_, h, by simp⟩

theorem clearedBy_of_del {cl : List Clear} {c : CellId} (h : Clear.del c ∈ cl) : clearedBy cl c = true := by
  unfold clearedBy
  rw [List.any_eq_true]
  exact ⟨_, h, by simp⟩

theorem touchedBy_of_cleared {cl : List Clear} {c : CellId} (h : clearedBy cl c = true) : touchedBy cl c = true := by
  unfold clearedBy at h
  unfold touchedBy
  rw [List.any_eq_true] at h ⊢
  obtain ⟨k, hk, hc⟩ := h
  refine ⟨k, hk, ?_⟩
  cases k <;> simp_all

/-! ## the member tables as derivation -/

theorem mem_isSome_iff {st : SM.St} (h : Inv st) (a : Attr) (q : Path) (n : String) :
    (st.mem a q n).isSome = true ↔
      (st.defd a q n).isSome = true ∨ (st.firstDef a (st.tail q) n).isSome = true := by
  rw [h.mem_eq_derivation]
  cases st.defd a q n with
  | some v => simp
  | none => cases st.firstDef a (st.tail q) n <;> simp

theorem derived_of_defd_none {st : SM.St} {a : Attr} {q : Path} {n : String} {m : Member}
    (hm : st.mem a q n = some m) (hd : st.defd a q n = none) : m.derived = true := by
  unfold St.defd at hd
  rw [hm] at hd
  cases hdm : m.derived with
  | true => rfl
  | false => simp [hdm] at hd

theorem mem_derivedNames {st : SM.St} {a : Attr} {q : Path} {n : String} {m : Member}
    (hm : st.mem a q n = some m) (hd : m.derived = true) : n ∈ derivedNames (conts st a q) := by
  rw [mem_conts] at hm
  have := mget_mem _ n m hm
  simp only [derivedNames, List.mem_filterMap]
  exact ⟨(n, m), this, by simp [hd]⟩

/-- a name whose entry appears or vanishes makes the key sets differ -/
theorem sameKeys_isSome {xs ys : Members} (h : sameKeys xs ys = true) (n : String) :
    (mget ys n).isSome = (mget xs n).isSome := by
  unfold sameKeys at h
  simp only [Bool.and_eq_true, List.all_eq_true] at h
  cases hx : (mget xs n).isSome with
  | true =>
    have hk := (mget_isSome_iff xs n).mp hx
    simp only [keys, List.mem_map] at hk
    obtain ⟨e, he, hn⟩ := hk
    have := h.1 e he
    rw [hn] at this; exact this
  | false =>
    cases hy : (mget ys n).isSome with
    | false => rfl
    | true =>
      have hk := (mget_isSome_iff ys n).mp hy
      simp only [keys, List.mem_map] at hk
      obtain ⟨e, he, hn⟩ := hk
      have := h.2 e he
      rw [hn, hx] at this; cases this

/-- the namespace of `q` only looks at WHICH names `q` has -/
theorem nsAt_congr (t : Tabs) {st st' : SM.St} (q : Path)
    (hm : ∀ a x, (st'.mem a q x).isSome = (st.mem a q x).isSome)
    (hch : st'.childNames q = st.childNames q) (hg : st'.globals = st.globals) : nsAt t st' q = nsAt t st q := by
  funext x
  unfold nsAt nsPlain
  rw [hm .cells x, hm .refs x, hch, hg]

/-- …so a namespace that differs has a name whose entry appeared or vanished -/
theorem nsAt_changed (t : Tabs) {st st' : SM.St} (q : Path) (hch : st'.childNames q = st.childNames q)
    (hg : st'.globals = st.globals)
    (hne : nsAt t st' q ≠ nsAt t st q) : ∃ a x, (st'.mem a q x).isSome ≠ (st.mem a q x).isSome := by
  apply Classical.byContradiction
  intro hc
  apply hne
  apply nsAt_congr t q _ hch hg
  intro a x
  apply Classical.byContradiction
  intro h
  exact hc ⟨a, x, h⟩

/-! ## one definition changes -/

section defines
variable {st st' : SM.St} {a : Attr} {p : Path} {name : String} {v : Nat}

/-- only entries of the edited kind and name can differ -/
theorem defines_changes_name (hi : Inv st) (hi' : Inv st') (hs : Shape st st') (hd : Defines st st' a p name v)
    (a' : Attr) (q : Path) (n : String) (hne : st'.mem a' q n ≠ st.mem a' q n) : a' = a ∧ n = name := by
  apply Classical.byContradiction
  intro hc
  have hdef : ∀ b, st'.defd a' b n = st.defd a' b n := by
    intro b
    rw [hd a' b n, if_neg]
    intro h
    exact hc ⟨h.2.1, h.2.2⟩
  apply hne
  rw [hi'.mem_eq_derivation, hi.mem_eq_derivation, hs.tail q, hdef q,
    firstDef_congr st st' a' _ n (fun b _ => hdef b)]

/-- an entry of the edited name differs only in the space of the edit, or in a sub space that does not
define the name and now derives it from `p` -/
theorem defines_changes (hi : Inv st) (hi' : Inv st') (hs : Shape st st') (hd : Defines st st' a p name v)
    (q : Path) (hne : st'.mem a q name ≠ st.mem a q name) :
    q = p ∨ (q ∈ st.subs p ∧ st.defd a q name = none ∧ st'.firstDef a (st'.tail q) name = some (p, v)) := by
  by_cases hqp : q = p
  · exact Or.inl hqp
  · right
    rw [hi'.mem_eq_derivation, hi.mem_eq_derivation] at hne
    rw [hs.tail q] at hne ⊢
    have hdq : st'.defd a q name = st.defd a q name := by rw [hd a q name, if_neg (fun h => hqp h.1)]
    rw [hdq] at hne
    cases hdd : st.defd a q name with
    | some w => rw [hdd] at hne; exact absurd rfl hne
    | none =>
      rw [hdd] at hne
      simp only at hne
      have hother : ∀ b, b ≠ p → st'.defd a b name = st.defd a b name :=
        fun b hb => by rw [hd a b name, if_neg (fun h => hb h.1)]
      have hp : p ∈ st.tail q := by
        apply Classical.byContradiction
        intro hp
        apply hne
        rw [firstDef_congr st st' a _ name (fun b hb => hother b (fun e => hp (e ▸ hb)))]
      have hq : q ∈ st.ids := by
        apply Classical.byContradiction
        intro hq
        rw [St.tail_of_not_mem st q hq] at hp; cases hp
      have hpdef : st'.defd a p name = some v := by rw [hd a p name]; simp
      refine ⟨(mem_subs p q).mpr ⟨hq, hqp, hp⟩, rfl, ?_⟩
      cases hf' : st'.firstDef a (st.tail q) name with
      | none =>
        exfalso
        have := (firstDef_eq_none st' a _ name).mp hf' p hp
        rw [hpdef] at this; cases this
      | some d =>
        obtain ⟨b, w⟩ := d
        by_cases hb : b = p
        · subst hb
          have := (firstDef_some st' a _ name b w hf').2
          rw [hpdef] at this
          cases this; rfl
        · exfalso
          have := firstDef_other st st' a p name hother (by rw [hpdef]; rfl) _ b w hf' hb
          apply hne
          rw [hf', this]

/-- after the edit the space of the edit and the sub spaces that derive from it have the name -/
theorem defines_isSome_after (hi' : Inv st') (hd : Defines st st' a p name v) (q : Path)
    (h : q = p ∨ st'.firstDef a (st'.tail q) name = some (p, v)) : (st'.mem a q name).isSome = true := by
  rw [mem_isSome_iff hi']
  rcases h with rfl | h
  · left; rw [hd a q name]; simp
  · right; rw [h]; rfl

/-- a space that has `p` in its linearisation has every name `p` has -/
theorem isSome_of_base (hi : Inv st) (q : Path) (hp : p ∈ st.tail q) (hd : st.defd a q name = none)
    (hex : (st.mem a p name).isSome = true) : (st.mem a q name).isSome = true := by
  rw [mem_isSome_iff hi] at hex ⊢
  right
  rcases hex with hex | hex
  · obtain ⟨d, hd'⟩ := firstDef_isSome_of st a _ name p hp hex
    rw [hd']; rfl
  · cases hf : st.firstDef a (st.tail p) name with
    | none => rw [hf] at hex; cases hex
    | some d =>
      obtain ⟨b, w⟩ := d
      obtain ⟨hb, hbd⟩ := firstDef_some st a _ name b w hf
      obtain ⟨d', hd'⟩ := firstDef_isSome_of st a _ name b (hi.wf.tail_subset q p hp b hb) (by rw [hbd]; rfl)
      rw [hd']; rfl

/-- the edit of an EXISTING member makes no name appear or vanish -/
theorem defines_isSome_same (hi : Inv st) (hi' : Inv st') (hs : Shape st st') (hd : Defines st st' a p name v)
    (hex : (st.mem a p name).isSome = true) (a' : Attr) (q : Path) (n : String) :
    (st'.mem a' q n).isSome = (st.mem a' q n).isSome := by
  by_cases hne : st'.mem a' q n = st.mem a' q n
  · rw [hne]
  · obtain ⟨rfl, rfl⟩ := defines_changes_name hi hi' hs hd a' q n hne
    rcases defines_changes hi hi' hs hd q hne with rfl | ⟨hq, hdn, hf⟩
    · rw [defines_isSome_after hi' hd q (Or.inl rfl), hex]
    · rw [defines_isSome_after hi' hd q (Or.inr hf),
        isSome_of_base hi q ((mem_subs p q).mp hq).2.2 hdn hex]

end defines

section undefines
variable {st st' : SM.St} {a : Attr} {p : Path} {name : String}

theorem undefines_changes_name (hi : Inv st) (hi' : Inv st') (hs : Shape st st') (hd : Undefines st st' a p name)
    (a' : Attr) (q : Path) (n : String) (hne : st'.mem a' q n ≠ st.mem a' q n) : a' = a ∧ n = name := by
  apply Classical.byContradiction
  intro hc
  have hdef : ∀ b, st'.defd a' b n = st.defd a' b n := by
    intro b
    rw [hd a' b n, if_neg]
    intro h
    exact hc ⟨h.2.1, h.2.2⟩
  apply hne
  rw [hi'.mem_eq_derivation, hi.mem_eq_derivation, hs.tail q, hdef q,
    firstDef_congr st st' a' _ n (fun b _ => hdef b)]

/-- an entry of the deleted name differs only in the space of the edit, or in a sub space that had a
DERIVED entry -/
theorem undefines_changes (hi : Inv st) (hi' : Inv st') (hs : Shape st st') (hd : Undefines st st' a p name)
    (q : Path) (hne : st'.mem a q name ≠ st.mem a q name) :
    q = p ∨ (q ∈ st.subs p ∧ ∃ m, st.mem a q name = some m ∧ m.derived = true) := by
  by_cases hqp : q = p
  · exact Or.inl hqp
  · right
    have hne0 := hne
    rw [hi'.mem_eq_derivation, hi.mem_eq_derivation, hs.tail q] at hne
    have hdq : st'.defd a q name = st.defd a q name := by rw [hd a q name, if_neg (fun h => hqp h.1)]
    rw [hdq] at hne
    cases hdd : st.defd a q name with
    | some w => rw [hdd] at hne; exact absurd rfl hne
    | none =>
      rw [hdd] at hne
      simp only at hne
      have hother : ∀ b, b ≠ p → st'.defd a b name = st.defd a b name :=
        fun b hb => by rw [hd a b name, if_neg (fun h => hb h.1)]
      have hp : p ∈ st.tail q := by
        apply Classical.byContradiction
        intro hp
        apply hne
        rw [firstDef_congr st st' a _ name (fun b hb => hother b (fun e => hp (e ▸ hb)))]
      have hq : q ∈ st.ids := by
        apply Classical.byContradiction
        intro hq
        rw [St.tail_of_not_mem st q hq] at hp; cases hp
      refine ⟨(mem_subs p q).mpr ⟨hq, hqp, hp⟩, ?_⟩
      cases hm : st.mem a q name with
      | some m => exact ⟨m, rfl, derived_of_defd_none hm hdd⟩
      | none =>
        exfalso
        -- nothing before, and the deletion adds no definition: nothing afterwards
        have hnone : st.firstDef a (st.tail q) name = none := by
          have := hi.mem_eq_derivation a q name
          rw [hm, hdd] at this
          simp only at this
          cases hf : st.firstDef a (st.tail q) name with
          | none => rfl
          | some d => rw [hf] at this; cases this
        have hnone' : st'.firstDef a (st.tail q) name = none := by
          rw [firstDef_eq_none] at hnone ⊢
          intro b hb
          rw [hd a b name]
          split
          · rfl
          · exact hnone b hb
        apply hne
        rw [hnone, hnone']

end undefines

/-! ## coverage, operation by operation -/

variable (kw : List String) (t : Tabs)

theorem keysOK_of_inv {st : SM.St} (h : Inv st) : KeysOK st := h.wf.keys

/-- **`set_cells_property`** -/
theorem covers_setFormula {st st' : SM.St} (hi : Inv st) (hi' : Inv st') (p : Path) (name : String) (v : Nat)
    (hop : st.setFormula p name v = some st') :
    Covers t st st' (clearing kw t st st' (.setFormula p name v)) := by
  obtain ⟨hs, hd⟩ := setFormula_spec st st' p name v hop
  have hex : (st.mem .cells p name).isSome = true := by
    rw [← setFormula_isSome st p name v, hop]; rfl
  have hsame := defines_isSome_same hi hi' hs hd hex
  have hns : ∀ q, nsAt t st' q = nsAt t st q := fun q => nsAt_congr t q (fun a x => hsame a q x) (hs.childNames q) hs.globals
  refine ⟨fun q x _ hne => absurd (hns q) hne, ?_, ?_, ?_⟩
  · intro q x hm hne
    obtain ⟨_, rfl⟩ := defines_changes_name hi hi' hs hd .cells q x hne
    apply clearedBy_of_obj
    simp only [clearing, List.mem_cons, List.mem_flatMap]
    rcases defines_changes hi hi' hs hd q hne with rfl | ⟨hq, hdn, hf⟩
    · exact Or.inl rfl
    · right
      refine ⟨q, hq, ?_⟩
      cases hmm : st.mem .cells q x with
      | none => rw [hmm] at hm; cases hm
      | some m =>
        have hder := derived_of_defd_none hmm hdn
        simp [hder, firstIs, hf]
  · intro q x hne
    exact absurd (defines_changes_name hi hi' hs hd .refs q x hne).1 (by simp)
  · intro q x hne
    exact absurd (defines_changes_name hi hi' hs hd .refs q x hne).1 (by simp)

/-- the clearing of a NEW member of kind `a` (cells: `new_cells`; references: `new_ref`): the space of
the edit is notified; a sub space is notified when it gets a derived member, and its derived member is
re-inherited when `p` is its first definer now -/
theorem defines_new_ns {st st' : SM.St} (hi : Inv st) (hi' : Inv st') (hs : Shape st st') {a : Attr} {p : Path}
    {name : String} {v : Nat} (hd : Defines st st' a p name v) (q : Path)
    (hne : nsAt t st' q ≠ nsAt t st q) :
    q = p ∨ (q ∈ st.subs p ∧ st.mem a q name = none) := by
  obtain ⟨a', x, hdiff⟩ := nsAt_changed t q (hs.childNames q) hs.globals hne
  have hne' : st'.mem a' q x ≠ st.mem a' q x := fun h => hdiff (by rw [h])
  obtain ⟨rfl, rfl⟩ := defines_changes_name hi hi' hs hd a' q x hne'
  rcases defines_changes hi hi' hs hd q hne' with rfl | ⟨hq, _, hf⟩
  · exact Or.inl rfl
  · right
    refine ⟨hq, ?_⟩
    cases hm : st.mem a' q x with
    | none => rfl
    | some m =>
      exfalso
      apply hdiff
      rw [defines_isSome_after hi' hd q (Or.inr hf), hm]; rfl

/-- **`new_cells`** -/
theorem covers_newCells {st st' : SM.St} (hi : Inv st) (hi' : Inv st') (p : Path) (name fname : String) (v : Nat)
    (hop : st.newCellsNamed kw p name fname v = some st') :
    Covers t st st' (clearing kw t st st' (.newCells p name fname v)) := by
  obtain ⟨hs, hd⟩ := newCellsNamed_spec kw st st' p name fname v hop
  have hnm : actualName kw st p name fname = st.cellsName kw p name fname := rfl
  -- the cells is new in `p`
  have hacc : st.acceptsNewCells kw p (st.cellsName kw p name fname) = true := by
    rw [← newCellsNamed_isSome kw st p name fname v, hop]; rfl
  have hnew : st.mem .cells p (st.cellsName kw p name fname) = none := by
    unfold St.acceptsNewCells at hacc
    simp only [Bool.and_eq_true] at hacc
    obtain ⟨⟨hhas, _⟩, hcan⟩ := hacc
    have hp : p ∈ st.ids := (has_iff_mem_ids st p).mp hhas
    have hpne : p ≠ [] := (hi.wf.tree p hp).1
    unfold St.canAdd at hcan
    have : (p == []) = false := by simpa using hpne
    simp only [this, Bool.false_eq_true, if_false] at hcan
    cases hk : st.kindOf p (st.cellsName kw p name fname) with
    | some k => simp [hk] at hcan
    | none => exact (kindOf_none st p _ hk).1
  generalize st.cellsName kw p name fname = nm at hd hnm hnew
  refine ⟨?_, ?_, ?_, ?_⟩
  · intro q x hm hne
    simp only [clearing, hnm]
    rcases defines_new_ns t hi hi' hs hd q hne with rfl | ⟨hq, hnone⟩
    · exact touchedBy_of_ns (List.mem_cons_self ..) (mem_cellsOf t st q x hm)
    · refine touchedBy_of_ns (L := cellsOf t st q) ?_ (mem_cellsOf t st q x hm)
      simp only [List.mem_cons, List.mem_flatMap]
      right
      exact ⟨q, hq, by simp [hnone]⟩
  · intro q x hm hne
    obtain ⟨_, rfl⟩ := defines_changes_name hi hi' hs hd .cells q x hne
    apply clearedBy_of_obj
    simp only [clearing, hnm, List.mem_cons, List.mem_flatMap]
    rcases defines_changes hi hi' hs hd q hne with rfl | ⟨hq, hdn, hf⟩
    · rw [hnew] at hm; cases hm
    · right
      refine ⟨q, hq, ?_⟩
      cases hmm : st.mem .cells q x with
      | none => rw [hmm] at hm; cases hm
      | some m =>
        have hder := derived_of_defd_none hmm hdn
        simp [hder, firstIs, hf]
  · intro q x hne
    exact absurd (defines_changes_name hi hi' hs hd .refs q x hne).1 (by simp)
  · intro q x hne
    exact absurd (defines_changes_name hi hi' hs hd .refs q x hne).1 (by simp)

/-- **`space.name = value`** (`new_ref` / `change_ref`) -/
theorem covers_setRef {st st' : SM.St} (hi : Inv st) (hi' : Inv st') (p : Path) (name : String) (v : Nat)
    (hop : st.setRef kw p name v = some st') :
    Covers t st st' (clearing kw t st st' (.setRef p name v)) := by
  obtain ⟨hs, hd⟩ := setRef_spec kw st st' p name v hop
  by_cases hex : (st.mem .refs p name).isSome = true
  · -- an existing reference gets a new value
    have hsame := defines_isSome_same hi hi' hs hd hex
    have hns : ∀ q, nsAt t st' q = nsAt t st q := fun q => nsAt_congr t q (fun a x => hsame a q x) (hs.childNames q) hs.globals
    have hmemcl : ∀ q, st'.mem .refs q name ≠ st.mem .refs q name →
        ∀ k ∈ changeRefClears t st q name, k ∈ clearing kw t st st' (.setRef p name v) := by
      intro q hne k hk
      simp only [clearing, hex, if_true, List.mem_append, List.mem_flatMap]
      rcases defines_changes hi hi' hs hd q hne with rfl | ⟨hq, hdn, hf⟩
      · exact Or.inl hk
      · right
        refine ⟨q, hq, ?_⟩
        have hq' : (st.mem .refs q name).isSome = true := by rw [← hsame]; exact defines_isSome_after hi' hd q (Or.inr hf)
        cases hmm : st.mem .refs q name with
        | none => rw [hmm] at hq'; cases hq'
        | some m =>
          have hder := derived_of_defd_none hmm hdn
          simpa [hder, firstIs, hf] using hk
    refine ⟨fun q x _ hne => absurd (hns q) hne, ?_, ?_, ?_⟩
    · intro q x _ hne
      exact absurd (defines_changes_name hi hi' hs hd .cells q x hne).1 (by simp)
    · intro q x hne c hc
      obtain ⟨_, rfl⟩ := defines_changes_name hi hi' hs hd .refs q x hne
      exact touchedBy_of_ns (hmemcl q hne _ (by simp [changeRefClears])) hc
    · intro q x hne _
      obtain ⟨_, rfl⟩ := defines_changes_name hi hi' hs hd .refs q x hne
      exact hmemcl q hne _ (by simp [changeRefClears])
  · -- a new reference
    have hex' : (st.mem .refs p name).isSome = false := by simpa using hex
    have hnew : st.mem .refs p name = none := by
      cases hm : st.mem .refs p name with
      | none => rfl
      | some m => rw [hm] at hex'; cases hex'
    refine ⟨?_, ?_, ?_, ?_⟩
    · intro q x hm hne
      simp only [clearing, hex', Bool.false_eq_true, if_false]
      rcases defines_new_ns t hi hi' hs hd q hne with rfl | ⟨hq, hnone⟩
      · exact touchedBy_of_ns (List.mem_cons_self ..) (mem_cellsOf t st q x hm)
      · refine touchedBy_of_ns (L := cellsOf t st q) ?_ (mem_cellsOf t st q x hm)
        simp only [List.mem_cons, List.mem_flatMap]
        right
        exact ⟨q, hq, by simp [hnone]⟩
    · intro q x _ hne
      exact absurd (defines_changes_name hi hi' hs hd .cells q x hne).1 (by simp)
    · intro q x hne c hc
      obtain ⟨_, rfl⟩ := defines_changes_name hi hi' hs hd .refs q x hne
      refine touchedBy_of_ns (L := cellsOf t st q) ?_ hc
      simp only [clearing, hex', Bool.false_eq_true, if_false, List.mem_cons, List.mem_flatMap]
      rcases defines_changes hi hi' hs hd q hne with rfl | ⟨hq, hdn, hf⟩
      · exact Or.inl rfl
      · right
        refine ⟨q, hq, ?_⟩
        cases hmm : st.mem .refs q x with
        | none => simp
        | some m =>
          have hder := derived_of_defd_none hmm hdn
          simp [hder, firstIs, hf]
    · intro q x hne hsome
      obtain ⟨_, rfl⟩ := defines_changes_name hi hi' hs hd .refs q x hne
      simp only [clearing, hex', Bool.false_eq_true, if_false, List.mem_cons, List.mem_flatMap]
      rcases defines_changes hi hi' hs hd q hne with rfl | ⟨hq, hdn, hf⟩
      · rw [hnew] at hsome; cases hsome
      · right
        refine ⟨q, hq, ?_⟩
        cases hmm : st.mem .refs q x with
        | none => rw [hmm] at hsome; cases hsome
        | some m =>
          have hder := derived_of_defd_none hmm hdn
          simp [hder, firstIs, hf]

/-! ### deletions: `update_subs` re-derives the space and every sub space -/

theorem mem_updateClears_obj {st st' : SM.St} {ds : List Path} {q : Path} {n : String} {m : Member}
    (hq : q ∈ ds) (hm : st.mem .cells q n = some m) (hd : m.derived = true) :
    Clear.obj (t.cid q n) ∈ updateClears t st st' ds := by
  simp only [updateClears, List.mem_append, List.mem_flatMap]
  left
  refine ⟨q, hq, ?_⟩
  simp only [inheritCells, List.mem_append, List.mem_map]
  left
  exact ⟨n, mem_derivedNames hm hd, rfl⟩

theorem mem_updateClears_attr {st st' : SM.St} {ds : List Path} {q : Path} {n : String} {m : Member}
    (hq : q ∈ ds) (hm : st.mem .refs q n = some m) (hd : m.derived = true) :
    Clear.attr (t.rid q n) ∈ updateClears t st st' ds := by
  simp only [updateClears, List.mem_append, List.mem_flatMap]
  right
  refine ⟨q, hq, ?_⟩
  simp only [inheritRefs, List.mem_append, List.mem_map]
  left
  exact ⟨n, mem_derivedNames hm hd, rfl⟩

/-- a walked space whose set of cells names changes is notified -/
theorem mem_updateClears_ns_cells {st st' : SM.St} {ds : List Path} {q : Path} {n : String}
    (hq : q ∈ ds) (hdiff : (st'.mem .cells q n).isSome ≠ (st.mem .cells q n).isSome) :
    Clear.ns (cellsOf t st q) ∈ updateClears t st st' ds := by
  simp only [updateClears, List.mem_append, List.mem_flatMap]
  left
  refine ⟨q, hq, ?_⟩
  simp only [inheritCells, List.mem_append]
  right
  have : sameKeys (conts st .cells q) (conts st' .cells q) = false := by
    cases hk : sameKeys (conts st .cells q) (conts st' .cells q) with
    | false => rfl
    | true =>
      exfalso
      apply hdiff
      rw [mem_conts, mem_conts]
      exact sameKeys_isSome hk n
  simp [this]

/-- a walked space with a derived reference, or whose set of reference names changes, is notified -/
theorem mem_updateClears_ns_refs {st st' : SM.St} {ds : List Path} {q : Path} {n : String}
    (hq : q ∈ ds)
    (h : (∃ m, st.mem .refs q n = some m ∧ m.derived = true) ∨
      (st'.mem .refs q n).isSome ≠ (st.mem .refs q n).isSome) :
    Clear.ns (cellsOf t st q) ∈ updateClears t st st' ds := by
  simp only [updateClears, List.mem_append, List.mem_flatMap]
  right
  refine ⟨q, hq, ?_⟩
  simp only [inheritRefs, List.mem_append]
  right
  have : ((derivedNames (conts st .refs q)).isEmpty && sameKeys (conts st .refs q) (conts st' .refs q)) = false := by
    rcases h with ⟨m, hm, hd⟩ | hdiff
    · have := mem_derivedNames hm hd
      cases hl : derivedNames (conts st .refs q) with
      | nil => rw [hl] at this; cases this
      | cons _ _ => simp
    · cases hk : sameKeys (conts st .refs q) (conts st' .refs q) with
      | false => simp
      | true =>
        exfalso
        apply hdiff
        rw [mem_conts, mem_conts]
        exact sameKeys_isSome hk n
  simp [this]

/-- **`del_cells`** -/
theorem covers_delCells {st st' : SM.St} (hi : Inv st) (hi' : Inv st') (p : Path) (name : String)
    (hop : st.delMember .cells p name = some st') :
    Covers t st st' (clearing kw t st st' (.delCells p name)) := by
  obtain ⟨hs, hd⟩ := delMember_spec st st' (keysOK_of_inv hi) .cells p name hop
  refine ⟨?_, ?_, ?_, ?_⟩
  · intro q x hm hne
    obtain ⟨a', y, hdiff⟩ := nsAt_changed t q (hs.childNames q) hs.globals hne
    have hne' : st'.mem a' q y ≠ st.mem a' q y := fun h => hdiff (by rw [h])
    obtain ⟨rfl, rfl⟩ := undefines_changes_name hi hi' hs hd a' q y hne'
    simp only [clearing]
    rcases undefines_changes hi hi' hs hd q hne' with rfl | ⟨hq, _⟩
    · exact touchedBy_of_ns (L := cellsOf t st q) (by simp) (mem_cellsOf t st q x hm)
    · refine touchedBy_of_ns (L := cellsOf t st q) ?_ (mem_cellsOf t st q x hm)
      simp only [List.mem_cons]
      right; right
      exact mem_updateClears_ns_cells t (List.mem_cons_of_mem _ hq) hdiff
  · intro q x _ hne
    obtain ⟨_, rfl⟩ := undefines_changes_name hi hi' hs hd .cells q x hne
    apply clearedBy_of_obj
    simp only [clearing, List.mem_cons]
    rcases undefines_changes hi hi' hs hd q hne with rfl | ⟨hq, m, hm, hder⟩
    · exact Or.inl rfl
    · right; right
      exact mem_updateClears_obj t (List.mem_cons_of_mem _ hq) hm hder
  · intro q x hne
    exact absurd (undefines_changes_name hi hi' hs hd .refs q x hne).1 (by simp)
  · intro q x hne
    exact absurd (undefines_changes_name hi hi' hs hd .refs q x hne).1 (by simp)

/-- **`del_ref`** -/
theorem covers_delRef {st st' : SM.St} (hi : Inv st) (hi' : Inv st') (p : Path) (name : String)
    (hop : st.delMember .refs p name = some st') :
    Covers t st st' (clearing kw t st st' (.delRef p name)) := by
  obtain ⟨hs, hd⟩ := delMember_spec st st' (keysOK_of_inv hi) .refs p name hop
  refine ⟨?_, ?_, ?_, ?_⟩
  · intro q x hm hne
    obtain ⟨a', y, hdiff⟩ := nsAt_changed t q (hs.childNames q) hs.globals hne
    have hne' : st'.mem a' q y ≠ st.mem a' q y := fun h => hdiff (by rw [h])
    obtain ⟨rfl, rfl⟩ := undefines_changes_name hi hi' hs hd a' q y hne'
    simp only [clearing]
    rcases undefines_changes hi hi' hs hd q hne' with rfl | ⟨hq, _⟩
    · exact touchedBy_of_ns (L := cellsOf t st q) (by simp) (mem_cellsOf t st q x hm)
    · refine touchedBy_of_ns (L := cellsOf t st q) ?_ (mem_cellsOf t st q x hm)
      simp only [List.mem_cons]
      right; right; right
      exact mem_updateClears_ns_refs t (List.mem_cons_of_mem _ hq) (Or.inr hdiff)
  · intro q x _ hne
    exact absurd (undefines_changes_name hi hi' hs hd .cells q x hne).1 (by simp)
  · intro q x hne c hc
    obtain ⟨_, rfl⟩ := undefines_changes_name hi hi' hs hd .refs q x hne
    simp only [clearing]
    rcases undefines_changes hi hi' hs hd q hne with rfl | ⟨hq, m, hm, hder⟩
    · exact touchedBy_of_ns (L := cellsOf t st q) (by simp) hc
    · refine touchedBy_of_ns (L := cellsOf t st q) ?_ hc
      simp only [List.mem_cons]
      right; right; right
      exact mem_updateClears_ns_refs t (List.mem_cons_of_mem _ hq) (Or.inl ⟨m, hm, hder⟩)
  · intro q x hne _
    obtain ⟨_, rfl⟩ := undefines_changes_name hi hi' hs hd .refs q x hne
    simp only [clearing, List.mem_cons]
    rcases undefines_changes hi hi' hs hd q hne with rfl | ⟨hq, m, hm, hder⟩
    · exact Or.inl rfl
    · right; right; right
      exact mem_updateClears_attr t (List.mem_cons_of_mem _ hq) hm hder

end MxModel.Edit
