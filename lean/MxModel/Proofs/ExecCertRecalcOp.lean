import MxModel.Proofs.ExecCertRunOps
import MxModel.Proofs.ExecRecalc
/-!
# The fourteen-operation language: the edit language of the value layer plus the recalculating assignment

`OpR` extends `C02.Op` (thirteen operations) by `setValueRecalc n v` – `set_value_from_key` with
`System._recalc_dependents = True` (`St.setValueRecalc`, `Exec/Mech.lean`).  It is built as an EXTENSION
with a SIMULATION, not as a constructor added to `Op`:

* `stepR` / `runR` / `AdmissibleR` – the operational reading (same guard as the lazy assignment);
* `stepR_ci`, `runR_ci` – the certificate invariant `CI` is kept (returned, failed, refused);
* `expandOp` / `expand` – the history of the thirteen-operation language that a history with recalculating
  assignments stands for: each recalculating assignment is replaced by the lazy assignment followed by the
  evaluations of the former leaf dependents (`evaluatedTargets`: the prefix of `St.startNodesFrom` of the
  state BEFORE the assignment up to and including the first one whose evaluation fails);
* `stepR_eq_run`, `runR_eq_run` – the two histories reach the SAME pair (definitions, mechanism state),
  and the expanded one is admissible.  Hence every theorem about the reachable states of `Op` is a
  theorem about the reachable states of `OpR`.
-/
namespace MxModel.C02
open MxModel.Exec

-- whole mechanism states can be compared (used by the `decide` examples of the two-run statements)
deriving instance DecidableEq for MxModel.Exec.St

/-- the fourteen operations: the thirteen of `Op` and the assignment with the recalculation option on -/
inductive OpR
  | base (op : Op)
  /-- `cells[key] = v` / `cells.set_value(...)` after `mx.set_recalc(True)` -/
  | setValueRecalc (n : Node) (v : Val)

/-- one operation; the recalculating assignment has the guard of the lazy one (`step`: an assignment
through the handle of a missing cells is refused; an uncached cells stores nothing) -/
def stepR : Env × St → OpR → Env × St
  | st, .base op => step st op
  | (env, s), .setValueRecalc n v =>
    (env, if env.cached n.1 && env.alive n.1 then (s.setValueRecalc env n v).1 else s)

def runR (st : Env × St) (ops : List OpR) : Env × St := ops.foldl stepR st

def AdmissibleR (lt : Node → Node → Prop) : Env × St → List OpR → Prop
  | _, [] => True
  | st, op :: ops => WF (stepR st op).1 lt ∧ AdmissibleR lt (stepR st op) ops

/-! ### the invariant -/

/-- the recalculating assignment keeps the certificates: accepted and every recomputation returned,
accepted and a recomputation failed, refused -/
theorem setValueRecalc_ci {env : Env} {lt : Node → Node → Prop} (ho : StrictOrder lt) (hw : WF env lt)
    {s : St} (h : CI env lt s) (n : Node) (v : Val) (hc : env.cached n.1 = true) (hn : env.alive n.1 = true) :
    CI env lt (s.setValueRecalc env n v).1 := by
  have h1 := setValue_ci h n v hc hn
  by_cases hv : v = .none ∧ env.allowNone n.1 = false
  · rw [setValueRecalc_refused s n v hv]; exact h
  · rw [setValueRecalc_eq s n v hv]
    exact (recalcTargets_ci ho hw.ranked hw.noCatch (s.startNodesFrom n) _
      (fun t ht => (startNodes_alive h n t ht).1) h1).1

theorem stepR_ci (lt : Node → Node → Prop) (ho : StrictOrder lt) (st : Env × St) (op : OpR)
    (hw : WF st.1 lt) (h : CI st.1 lt st.2) : CI (stepR st op).1 lt (stepR st op).2 := by
  cases op with
  | base op => exact step_ci lt ho st op hw h
  | setValueRecalc n v =>
    obtain ⟨env, s⟩ := st
    simp only [stepR]
    split
    · rename_i hc
      simp only [Bool.and_eq_true] at hc
      exact setValueRecalc_ci ho hw h n v hc.1 hc.2
    · exact h

theorem runR_ci (lt : Node → Node → Prop) (ho : StrictOrder lt) : ∀ (ops : List OpR) (st : Env × St),
    WF st.1 lt → CI st.1 lt st.2 → AdmissibleR lt st ops →
    CI (runR st ops).1 lt (runR st ops).2 ∧ WF (runR st ops).1 lt := by
  intro ops
  induction ops with
  | nil => intro st hw h _; exact ⟨h, hw⟩
  | cons op rest ih =>
    intro st hw h hadm
    exact ih (stepR st op) hadm.1 (stepR_ci lt ho st op hw h) hadm.2

/-! ### the simulation -/

/-- the targets the loop `St.recalcTargets` really evaluates: all of them when no evaluation fails, else
those up to and including the first whose top-level evaluation fails -/
def evaluatedTargets (env : Env) : List Node → St → List Node
  | [], _ => []
  | t :: ts, s =>
    match (evalTop env t s).1 with
    | .ok _ => t :: evaluatedTargets env ts (evalTop env t s).2
    | .formulaError _ _ => [t]

/-- the history of the thirteen-operation language one operation stands for, in the state it is applied to -/
def expandOp : Env × St → OpR → List Op
  | _, .base op => [op]
  | (env, s), .setValueRecalc n v =>
    if env.cached n.1 && env.alive n.1 then
      match (s.setValue env n v).2 with
      | some _ => [.setValue n v]
      | none => .setValue n v ::
          (evaluatedTargets env (s.startNodesFrom n) (s.setValue env n v).1).map Op.eval
    else [.setValue n v]

/-- … and a history stands for, along its run -/
def expand : Env × St → List OpR → List Op
  | _, [] => []
  | st, op :: ops => expandOp st op ++ expand (stepR st op) ops

theorem run_append (st : Env × St) (a b : List Op) : run st (a ++ b) = run (run st a) b := by
  simp [run, List.foldl_append]

theorem admissible_append (lt : Node → Node → Prop) : ∀ (a b : List Op) (st : Env × St),
    Admissible lt st a → Admissible lt (run st a) b → Admissible lt st (a ++ b)
  | [], _, _, _, hb => hb
  | op :: a, b, st, ha, hb => ⟨ha.1, admissible_append lt a b (step st op) ha.2 hb⟩

theorem evaluatedTargets_sub (env : Env) : ∀ (ts : List Node) (s : St), ∀ t ∈ evaluatedTargets env ts s, t ∈ ts
  | [], _, t, ht => by cases ht
  | t0 :: ts, s, t, ht => by
    simp only [evaluatedTargets] at ht
    split at ht
    · rcases List.mem_cons.mp ht with rfl | h
      · simp
      · exact List.mem_cons_of_mem _ (evaluatedTargets_sub env ts _ t h)
    · simp only [List.mem_singleton] at ht; subst ht; simp

/-- when no recomputation fails, every target is evaluated -/
theorem evaluatedTargets_ok (env : Env) : ∀ (ts : List Node) (s : St),
    (St.recalcTargets env ts s).1 = .ok → evaluatedTargets env ts s = ts
  | [], _, _ => rfl
  | t :: ts, s, hok => by
    simp only [St.recalcTargets, evaluatedTargets] at hok ⊢
    cases hr : (evalTop env t s).1 with
    | ok w =>
      simp only [hr] at hok ⊢
      rw [evaluatedTargets_ok env ts _ hok]
    | formulaError e tb => simp [hr] at hok

/-- when the recomputation of `t` fails, the evaluated targets are those before `t` (in the model's
order) and `t` -/
theorem evaluatedTargets_failed (env : Env) : ∀ (ts : List Node) (s : St) (t : Node) (e : Err) (tb : List Node),
    (St.recalcTargets env ts s).1 = .failed t e tb →
      ∃ pre post, ts = pre ++ t :: post ∧ evaluatedTargets env ts s = pre ++ [t]
  | [], s, t, e, tb, h => by simp [St.recalcTargets] at h
  | t0 :: ts, s, t, e, tb, h => by
    simp only [St.recalcTargets, evaluatedTargets] at h ⊢
    cases hr : (evalTop env t0 s).1 with
    | formulaError e' tb' =>
      simp only [hr, RecalcRes.failed.injEq] at h ⊢
      obtain ⟨rfl, _, _⟩ := h
      exact ⟨[], ts, rfl, rfl⟩
    | ok w =>
      simp only [hr] at h ⊢
      obtain ⟨pre, post, h1, h2⟩ := evaluatedTargets_failed env ts _ t e tb h
      exact ⟨t0 :: pre, post, by rw [h1]; rfl, by rw [h2]; rfl⟩

/-- the loop over the targets IS the run of their evaluations (the targets exist: `step` refuses the
evaluation through the handle of a missing cells, the loop does not ask) -/
theorem recalcTargets_eq_run (env : Env) : ∀ (ts : List Node) (s : St), (∀ t ∈ ts, env.alive t.1 = true) →
    (env, (St.recalcTargets env ts s).2) = run (env, s) ((evaluatedTargets env ts s).map Op.eval)
  | [], _, _ => rfl
  | t :: ts, s, hal => by
    have ht : env.alive t.1 = true := hal t (by simp)
    simp only [St.recalcTargets, evaluatedTargets]
    cases hr : (evalTop env t s).1 with
    | ok w =>
      simp only [List.map_cons, run, List.foldl_cons, step, ht, if_true]
      exact recalcTargets_eq_run env ts _ (fun u hu => hal u (by simp [hu]))
    | formulaError e tb =>
      simp only [List.map_cons, List.map_nil, run, List.foldl_cons, List.foldl_nil, step, ht, if_true]

/-- evaluations change no definition, so any list of them is admissible -/
theorem admissible_evals {env : Env} {lt : Node → Node → Prop} (hw : WF env lt) :
    ∀ (ts : List Node) (s : St), Admissible lt (env, s) (ts.map Op.eval)
  | [], _ => trivial
  | _ :: ts, _ => ⟨hw, admissible_evals hw ts _⟩

/-- **one operation of the fourteen = the run of its expansion** -/
theorem stepR_eq_run {lt : Node → Node → Prop} (st : Env × St) (op : OpR) (h : CI st.1 lt st.2) :
    stepR st op = run st (expandOp st op) := by
  cases op with
  | base op => rfl
  | setValueRecalc n v =>
    obtain ⟨env, s⟩ := st
    simp only [stepR, expandOp]
    by_cases hg : (env.cached n.1 && env.alive n.1) = true
    · simp only [hg, if_true]
      unfold St.setValueRecalc
      cases hs : (s.setValue env n v).2 with
      | some e => simp only [run, List.foldl_cons, List.foldl_nil, step, hg, if_true]
      | none =>
        simp only [run, List.foldl_cons, step, hg, if_true]
        exact recalcTargets_eq_run env _ _ (fun t ht => (startNodes_alive h n t ht).1)
    · simp only [hg, Bool.false_eq_true, if_false, run, List.foldl_cons, List.foldl_nil, step]

/-- the expansion of one operation is admissible when the operation is -/
theorem expandOp_admissible {lt : Node → Node → Prop} (st : Env × St) (op : OpR) (hw : WF st.1 lt)
    (hw' : WF (stepR st op).1 lt) : Admissible lt st (expandOp st op) := by
  cases op with
  | base op => exact ⟨hw', trivial⟩
  | setValueRecalc n v =>
    obtain ⟨env, s⟩ := st
    simp only [expandOp]
    split
    · split
      · exact ⟨hw, trivial⟩
      · exact ⟨hw, admissible_evals hw _ _⟩
    · exact ⟨hw, trivial⟩

/-- **THE SIMULATION**: a history of the fourteen-operation language reaches the pair (definitions,
mechanism state) that its expansion – a history of the thirteen-operation language – reaches, and the
expansion is admissible -/
theorem runR_eq_run (lt : Node → Node → Prop) (ho : StrictOrder lt) : ∀ (ops : List OpR) (st : Env × St),
    WF st.1 lt → CI st.1 lt st.2 → AdmissibleR lt st ops →
    runR st ops = run st (expand st ops) ∧ Admissible lt st (expand st ops) := by
  intro ops
  induction ops with
  | nil => intro st _ _ _; exact ⟨rfl, trivial⟩
  | cons op rest ih =>
    intro st hw h hadm
    obtain ⟨e1, a1⟩ := ih (stepR st op) hadm.1 (stepR_ci lt ho st op hw h) hadm.2
    have e0 := stepR_eq_run (lt := lt) st op h
    refine ⟨?_, ?_⟩
    · show runR (stepR st op) rest = run st (expandOp st op ++ expand (stepR st op) rest)
      rw [run_append, ← e0]; exact e1
    · show Admissible lt st (expandOp st op ++ expand (stepR st op) rest)
      refine admissible_append lt _ _ st (expandOp_admissible st op hw hadm.1) ?_
      rw [← e0]; exact a1

/-! ### histories that change no definition -/

/-- operations that leave the definitions alone (evaluations, value edits, administrative calls) -/
def OpR.valueOnly : OpR → Bool
  | .base (.eval _) => true
  | .base (.setValue _ _) => true
  | .base (.clearAt _) => true
  | .base (.clear _) => true
  | .base (.clearAll _) => true
  | .base (.admin _) => true
  | .setValueRecalc _ _ => true
  | _ => false

theorem stepR_valueOnly (st : Env × St) (op : OpR) (h : op.valueOnly = true) : (stepR st op).1 = st.1 := by
  obtain ⟨env, s⟩ := st
  cases op with
  | setValueRecalc n v => rfl
  | base op => cases op <;> first | rfl | cases h

/-- a history of evaluations and value edits (recalculating or not) is admissible -/
theorem admissibleR_valueOnly {lt : Node → Node → Prop} : ∀ (ops : List OpR) (st : Env × St), WF st.1 lt →
    ops.all OpR.valueOnly = true → AdmissibleR lt st ops
  | [], _, _, _ => trivial
  | op :: ops, st, hw, hall => by
    simp only [List.all_cons, Bool.and_eq_true] at hall
    have hw' : WF (stepR st op).1 lt := by rw [stepR_valueOnly st op hall.1]; exact hw
    exact ⟨hw', admissibleR_valueOnly ops _ hw' hall.2⟩

end MxModel.C02
