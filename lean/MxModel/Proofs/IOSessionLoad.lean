import MxModel.Proofs.IOSessionInv
/-! A failed load leaves the io state of the session exactly as it was (`Kernels/IOSession.lean`, `load … false`). -/
namespace MxModel.IOSession

/-- what a file object was before the load: registered before (`iid < i`), with the specs it had (`sid < n`) -/
def old (n i : Nat) (io : Io) : Option Io :=
  if io.iid < i then
    (if (io.specs.filter (fun s => decide (s.sid < n))).isEmpty then none
     else some { io with specs := io.specs.filter (fun s => decide (s.sid < n)) })
  else none

def restr (n i : Nat) (l : List Io) : List Io := l.filterMap (old n i)

theorem old_self {n i : Nat} {io : Io} (h1 : io.iid < i) (h2 : io.specs ≠ []) (h3 : ∀ s ∈ io.specs, s.sid < n) :
    old n i io = some io := by
  have hf : io.specs.filter (fun s => decide (s.sid < n)) = io.specs :=
    List.filter_eq_self.2 (fun s hs => by simpa using h3 s hs)
  unfold old
  rw [hf]
  have : io.specs.isEmpty = false := by
    cases hh : io.specs with
    | nil => exact absurd hh h2
    | cons a r => rfl
  simp [h1, this]

theorem restr_self {n i : Nat} {l : List Io}
    (h : ∀ io ∈ l, io.iid < i ∧ io.specs ≠ [] ∧ ∀ s ∈ io.specs, s.sid < n) : restr n i l = l := by
  induction l with
  | nil => rfl
  | cons io rest ih =>
    obtain ⟨h1, h2, h3⟩ := h io List.mem_cons_self
    simp only [restr, List.filterMap_cons, old_self h1 h2 h3]
    have := ih (fun x hx => h x (List.mem_cons_of_mem _ hx))
    simp only [restr] at this
    rw [this]

theorem old_congr {n i : Nat} {a b : Io} (h1 : a.iid = b.iid) (h2 : a.group = b.group) (h3 : a.path = b.path)
    (h4 : a.multi = b.multi)
    (h5 : a.specs.filter (fun s => decide (s.sid < n)) = b.specs.filter (fun s => decide (s.sid < n))) :
    old n i a = old n i b := by
  unfold old
  rw [h1, h5]
  cases a; cases b
  simp_all

theorem restr_congr_map {n i : Nat} (f : Io → Io) (l : List Io) (h : ∀ x ∈ l, old n i (f x) = old n i x) :
    restr n i (l.map f) = restr n i l := by
  induction l with
  | nil => rfl
  | cons a rest ih =>
    simp only [restr, List.map_cons, List.filterMap_cons, h a List.mem_cons_self]
    have := ih (fun x hx => h x (List.mem_cons_of_mem _ hx))
    simp only [restr] at this
    rw [this]

theorem restr_addSpec {n i : Nat} {st st' : St} {m : Nat} {p : Path} {multi : Bool} {sheet : Option String} {v : Nat}
    (ha : addSpec st m p multi sheet v = some st') (hn : n ≤ st.nextSid) (hi : i ≤ st.nextIid) :
    restr n i st'.ios = restr n i st.ios := by
  unfold addSpec at ha
  split at ha
  · split at ha
    · simp only [Option.some.injEq] at ha
      subst ha
      apply restr_congr_map
      intro x _
      split
      · refine old_congr ?_ ?_ ?_ ?_ ?_
        · rfl
        · rfl
        · rfl
        · rfl
        · simp only [List.filter_append, List.filter_cons, List.filter_nil]
          have : decide (st.nextSid < n) = false := by simpa using hn
          simp [this]
      · rfl
    · simp at ha
  · simp only [Option.some.injEq] at ha
    subst ha
    simp only [restr, List.filterMap_append, List.filterMap_cons, List.filterMap_nil]
    have : old n i ⟨st.nextIid, keyGroup m p, p, multi, [⟨st.nextSid, v, sheet⟩]⟩ = none := by
      unfold old
      have : ¬ st.nextIid < i := Nat.not_lt.2 hi
      simp [this]
    rw [this]
    simp

theorem restr_dropSids {n i : Nat} {d : List Nat} (hd : ∀ x ∈ d, n ≤ x) (l : List Io) :
    restr n i (l.filterMap (Io.dropSids d)) = restr n i l := by
  have hkeep : ∀ (s : Spec), s.sid < n → d.contains s.sid = false := by
    intro s hs
    cases hc : d.contains s.sid with
    | false => rfl
    | true =>
      have := hd s.sid (by simpa using hc)
      exact absurd hs (Nat.not_lt.2 this)
  induction l with
  | nil => rfl
  | cons io rest ih =>
    simp only [restr] at ih
    cases hdr : Io.dropSids d io with
    | none =>
      have he := dropSids_none hdr
      have : old n i io = none := by
        unfold old
        have : io.specs.filter (fun s => decide (s.sid < n)) = [] := by
          rw [List.filter_eq_nil_iff]
          intro s hs hlt
          have hlt' : s.sid < n := by simpa using hlt
          have : s ∈ io.specs.filter (fun s => !d.contains s.sid) :=
            List.mem_filter.2 ⟨hs, by rw [hkeep s hlt']; rfl⟩
          rw [he] at this
          simp at this
        simp [this]
      simp only [restr, List.filterMap_cons, hdr, this]
      exact ih
    | some io' =>
      have heq := (dropSids_eq_some hdr).1
      have : old n i io' = old n i io := by
        rw [heq]
        refine old_congr ?_ ?_ ?_ ?_ ?_
        · rfl
        · rfl
        · rfl
        · rfl
        · simp only [List.filter_filter]
          apply List.filter_congr
          intro s _
          cases hlt : decide (s.sid < n) with
          | false => simp
          | true => rw [hkeep s (by simpa using hlt)]; rfl
      simp only [restr, List.filterMap_cons, hdr, this]
      rw [ih]

theorem restr_filter {n i : Nat} (p : Io → Bool) (l : List Io)
    (h : ∀ io ∈ l, ∀ io', old n i io = some io' → p io = true) :
    restr n i (l.filter p) = restr n i l := by
  induction l with
  | nil => rfl
  | cons io rest ih =>
    have ih' := ih (fun x hx => h x (List.mem_cons_of_mem _ hx))
    simp only [restr] at ih'
    by_cases hp : p io = true
    · simp only [restr, List.filter_cons, hp, ↓reduceIte, List.filterMap_cons]
      rw [ih']
    · have : old n i io = none := by
        cases ho : old n i io with
        | none => rfl
        | some io' => exact absurd (h io List.mem_cons_self io' ho) hp
      simp only [restr, List.filter_cons, hp, Bool.false_eq_true, ↓reduceIte, List.filterMap_cons, this]
      exact ih'

theorem old_some {n i : Nat} {io io' : Io} (h : old n i io = some io') : io'.iid = io.iid := by
  unfold old at h
  split at h
  · split at h
    · simp at h
    · simp only [Option.some.injEq] at h
      rw [← h]
  · simp at h

/-! ## the load, phase by phase -/

/-- what holds of the state while a load of model `m` with the new values `V` is under way, relative to the state
`st0` before it -/
structure Phase (st0 : St) (V : List Nat) (m : Nat) (st : St) : Prop where
  inv : Inv st
  sidGe : st0.nextSid ≤ st.nextSid
  iidGe : st0.nextIid ≤ st.nextIid
  restr : restr st0.nextSid st0.nextIid st.ios = st0.ios
  newVals : ∀ io ∈ st.ios, ∀ s ∈ io.specs, V.contains s.val = true → st0.nextSid ≤ s.sid
  mRefs : ∀ r ∈ st.refs, r.model = m → V.contains r.val = true
  others : ∀ m', m' ≠ m →
    st.refs.filter (fun r => r.model == m') = st0.refs.filter (fun r => r.model == m')
  mLt : m < st.nextModel

theorem phase_addSpec {st0 : St} {V : List Nat} {m : Nat} {st st' : St} (h : Phase st0 V m st)
    {p : Path} {multi : Bool} {sheet : Option String} {v : Nat}
    (ha : addSpec st m p multi sheet v = some st') : Phase st0 V m st' := by
  obtain ⟨hr, hnm, _, hsid, hiid, hspecs, _⟩ := addSpec_specs ha
  refine ⟨inv_addSpec h.inv ha, ?_, Nat.le_trans h.iidGe hiid, ?_, ?_, ?_, ?_, ?_⟩
  · rw [hsid]; exact Nat.le_succ_of_le h.sidGe
  · rw [restr_addSpec ha h.sidGe h.iidGe]; exact h.restr
  · intro io' hio' s hs hv
    rcases hspecs io' hio' s hs with ⟨e, _⟩ | ⟨io, hio, hsm, _⟩
    · rw [e]; exact h.sidGe
    · exact h.newVals io hio s hsm hv
  · rw [hr]; exact h.mRefs
  · rw [hr]; exact h.others
  · rw [hnm]; exact h.mLt

theorem phase_delSids {st0 : St} {V : List Nat} {m : Nat} {st : St} (h : Phase st0 V m st)
    {d : List Nat} (hd : ∀ x ∈ d, st0.nextSid ≤ x) : Phase st0 V m (delSids st d) := by
  refine ⟨inv_delSids h.inv d, h.sidGe, h.iidGe, ?_, ?_, h.mRefs, h.others, h.mLt⟩
  · show IOSession.restr _ _ (st.ios.filterMap (Io.dropSids d)) = _
    rw [restr_dropSids hd]; exact h.restr
  · intro io' hio' s hs hv
    rcases shrinks_dropSids d st.ios io' hio' with ⟨io, hio, _, _, _, hsub, _⟩
    exact h.newVals io hio s (hsub s hs) hv

theorem phase_release {st0 : St} {V : List Nat} {m : Nat} {st : St} (h : Phase st0 V m st)
    {v : Nat} (hv : V.contains v = true) : Phase st0 V m (release st m v) := by
  unfold release
  split
  · exact h
  · split
    · rename_i f hf
      apply phase_delSids h
      intro x hx
      simp only [List.mem_singleton] at hx
      rcases findVal_some hf with ⟨io, hio, hs, hval, _, _⟩
      rw [hx]
      exact h.newVals io (mem_view.1 hio).1 f.spec hs (by rw [hval]; exact hv)
    · exact h

theorem filter_model_map {m m' : Nat} (hne : m' ≠ m) (n : String) (v : Nat) (l : List Ref) :
    (l.map (fun r => if isRef m n r then (⟨m, n, v⟩ : Ref) else r)).filter (fun r => r.model == m')
      = l.filter (fun r => r.model == m') := by
  induction l with
  | nil => rfl
  | cons r rest ih =>
    simp only [List.map_cons, List.filter_cons]
    rw [ih]
    by_cases hr : isRef m n r = true
    · have h1 : (r.model == m') = false := by
        simp only [isRef, Bool.and_eq_true, beq_iff_eq] at hr
        rw [hr.1]
        simpa using fun h => hne h.symm
      have h2 : (m == m') = false := by simpa using fun h => hne h.symm
      simp [hr, h1, h2]
    · simp [hr]

theorem phase_bind {st0 : St} {V : List Nat} {m : Nat} {st : St} (h : Phase st0 V m st)
    (n : String) {v : Nat} (hv : V.contains v = true) : Phase st0 V m (bind st m n v) := by
  unfold bind
  split
  · refine ⟨?_, h.sidGe, h.iidGe, h.restr, h.newVals, ?_, ?_, h.mLt⟩
    · apply inv_setRefs h.inv
      intro r hr
      rcases List.mem_append.1 hr with hr | hr
      · exact h.inv.refLt r hr
      · simp only [List.mem_singleton] at hr
        rw [hr]; exact h.mLt
    · intro r hr hm
      rcases List.mem_append.1 hr with hr | hr
      · exact h.mRefs r hr hm
      · simp only [List.mem_singleton] at hr
        rw [hr]; exact hv
    · intro m' hne
      have h2 : (m == m') = false := by simpa using fun e => hne e.symm
      simp only [List.filter_append, List.filter_cons, List.filter_nil, h2]
      simpa using h.others m' hne
  · rename_i oldr hfind
    have hold : V.contains oldr.val = true := by
      have hm := List.mem_of_find?_eq_some hfind
      have hp := List.find?_some hfind
      simp only [isRef, Bool.and_eq_true, beq_iff_eq] at hp
      exact h.mRefs oldr hm hp.1
    apply phase_release _ hold
    refine ⟨?_, h.sidGe, h.iidGe, h.restr, h.newVals, ?_, ?_, h.mLt⟩
    · apply inv_setRefs h.inv
      intro r hr
      rcases List.mem_map.1 hr with ⟨r0, hr0, e⟩
      split at e
      · rw [← e]; exact h.mLt
      · rw [← e]; exact h.inv.refLt r0 hr0
    · intro r hr hm
      rcases List.mem_map.1 hr with ⟨r0, hr0, e⟩
      split at e
      · rw [← e]; exact hv
      · rw [← e] at hm ⊢; exact h.mRefs r0 hr0 hm
    · intro m' hne
      show (st.refs.map _).filter _ = _
      rw [filter_model_map hne]
      exact h.others m' hne

theorem phase_bindItems {st0 : St} {V : List Nat} {m : Nat} : ∀ (items : List Item) (st : St),
    Phase st0 V m st → (∀ it ∈ items, V.contains it.val = true) → Phase st0 V m (bindItems st m items)
  | [], _, h, _ => h
  | it :: rest, st, h, hv => by
    unfold bindItems
    split
    · exact phase_bindItems rest _ (phase_bind h it.name (hv it List.mem_cons_self))
        (fun x hx => hv x (List.mem_cons_of_mem _ hx))
    · exact phase_bindItems rest _ h (fun x hx => hv x (List.mem_cons_of_mem _ hx))

theorem phase_readSpecs {st0 : St} {V : List Nat} {m : Nat} : ∀ (items : List Item) (st : St) (acc : List Nat),
    Phase st0 V m st → (∀ k ∈ acc, st0.nextSid ≤ k) → (∀ k, st0.nextSid ≤ k → k < st.nextSid → k ∈ acc) →
    Phase st0 V m (readSpecs st m items acc).1 ∧
    (∀ k ∈ (readSpecs st m items acc).2.1, st0.nextSid ≤ k) ∧
    (∀ k, st0.nextSid ≤ k → k < (readSpecs st m items acc).1.nextSid → k ∈ (readSpecs st m items acc).2.1)
  | [], _, _, h, h1, h2 => ⟨h, h1, h2⟩
  | it :: rest, st, acc, h, h1, h2 => by
    unfold readSpecs
    split
    · exact ⟨h, h1, h2⟩
    · rename_i st' ha
      apply phase_readSpecs rest st' (acc ++ [st.nextSid]) (phase_addSpec h ha)
      · intro k hk
        rcases List.mem_append.1 hk with hk | hk
        · exact h1 k hk
        · simp only [List.mem_singleton] at hk
          rw [hk]; exact h.sidGe
      · intro k hk hlt
        rw [(addSpec_specs ha).2.2.2.1] at hlt
        rcases Nat.lt_succ_iff_lt_or_eq.1 hlt with hlt | heq
        · exact List.mem_append_left _ (h2 k hk hlt)
        · exact List.mem_append_right _ (by simp [heq])

theorem specsOf_congr_filter {a b : St} (m : Nat)
    (hr : a.refs.filter (fun r => r.model == m) = b.refs.filter (fun r => r.model == m)) (hi : a.ios = b.ios) :
    specsOf a m = specsOf b m := by
  have hl : lookup a m = lookup b m := by funext v; simp [lookup, hi]
  simp [specsOf, valuesOf, hr, hl]

/-- the clean-up at the end of a load under way gives back the registry of file objects of before -/
theorem phase_cleanup {st0 : St} {V : List Nat} {m : Nat} {st : St} (h0 : Inv st0) (h : Phase st0 V m st)
    {read : List Nat} (h1 : ∀ k ∈ read, st0.nextSid ≤ k)
    (h2 : ∀ k, st0.nextSid ≤ k → k < st.nextSid → k ∈ read) :
    (cleanup st m (st0.ios.map (·.iid)) read).ios = st0.ios ∧ (cleanup st m (st0.ios.map (·.iid)) read).refs = st.refs := by
  have hD : ∀ x ∈ (specsOf st m).map (·.spec.sid), st0.nextSid ≤ x := by
    intro x hx
    rcases List.mem_map.1 hx with ⟨f, hf, e⟩
    rcases mem_specsOf hf with ⟨io, hio, _, hs, _, _, hb⟩
    simp only [boundIn, List.any_eq_true, Bool.and_eq_true, beq_iff_eq] at hb
    rcases hb with ⟨r, hr, hm, hv⟩
    rw [← e]
    exact h.newVals io hio f.spec hs (by rw [← hv]; exact h.mRefs r hr hm)
  have hrefs : (cleanup st m (st0.ios.map (·.iid)) read).refs = st.refs := by
    unfold cleanup closeModel
    split <;> rfl
  refine ⟨?_, hrefs⟩
  -- the restriction of the result is the registry of before
  have hR : restr st0.nextSid st0.nextIid (cleanup st m (st0.ios.map (·.iid)) read).ios = st0.ios := by
    have hc : restr st0.nextSid st0.nextIid (closeModel st m).ios = st0.ios := by
      unfold closeModel
      split
      · show restr _ _ (st.ios.filterMap (Io.dropSids _)) = _
        rw [restr_dropSids hD]; exact h.restr
      · exact h.restr
    have hc2 : restr st0.nextSid st0.nextIid (delSids (closeModel st m) read).ios = st0.ios := by
      show restr _ _ ((closeModel st m).ios.filterMap (Io.dropSids read)) = _
      rw [restr_dropSids h1]; exact hc
    show restr _ _ ((delSids (closeModel st m) read).ios.filter _) = _
    rw [restr_filter]
    · exact hc2
    · intro io hio io' ho
      have hmem : io' ∈ restr st0.nextSid st0.nextIid (delSids (closeModel st m) read).ios :=
        List.mem_filterMap.2 ⟨io, hio, ho⟩
      rw [hc2] at hmem
      simp only [List.contains_eq_mem, List.mem_map, decide_eq_true_eq]
      exact ⟨io', hmem, old_some ho⟩
  refine Eq.trans (Eq.symm (restr_self (n := st0.nextSid) (i := st0.nextIid) ?_)) hR
  intro io hio
  have hinv := inv_cleanup h.inv m (st0.ios.map (·.iid)) read
  obtain ⟨hsnap, hnr⟩ := cleanup_removes st m (st0.ios.map (·.iid)) read io hio
  refine ⟨?_, hinv.nonempty io hio, ?_⟩
  · simp only [List.contains_eq_mem, List.mem_map, decide_eq_true_eq] at hsnap
    rcases hsnap with ⟨io0, h00, e⟩
    rw [← e]; exact h0.iidLt io0 h00
  · intro s hs
    have hlt : s.sid < st.nextSid := by
      have := hinv.sidLt io hio s hs
      have hn : (cleanup st m (st0.ios.map (·.iid)) read).nextSid = st.nextSid := by
        unfold cleanup closeModel
        split <;> rfl
      rw [hn] at this; exact this
    cases Nat.lt_or_ge s.sid st0.nextSid with
    | inl hl => exact hl
    | inr hge =>
      have := h2 s.sid hge hlt
      have hc := hnr s hs
      simp only [List.contains_eq_mem, decide_eq_false_iff_not] at hc
      exact absurd this hc

theorem freshVals_not_mentioned {st : St} : ∀ {items : List Item}, freshVals st items = true →
    ∀ it ∈ items, mentions st it.val = false
  | [], _, _, h => by simp at h
  | a :: rest, hf, it, h => by
    simp only [freshVals, Bool.and_eq_true, Bool.not_eq_true'] at hf
    rcases List.mem_cons.1 h with e | e
    · rw [e]; exact hf.1.1
    · exact freshVals_not_mentioned hf.2 it e

/-- **A failed load leaves the io state of the session exactly as it was**: the registry of file objects (identities,
keys, specs, order) and, for every model other than the half-read one, the references and `iospecs`. -/
theorem failed_load_restores {st : St} (h : Inv st) (items : List Item) :
    (load st items false).1.ios = st.ios ∧
    ∀ m', m' ≠ st.nextModel →
      (load st items false).1.refs.filter (fun r => r.model == m') = st.refs.filter (fun r => r.model == m') ∧
      specsOf (load st items false).1 m' = specsOf st m' := by
  unfold load
  split
  · exact ⟨rfl, fun _ _ => ⟨rfl, rfl⟩⟩
  · rename_i hfresh
    have hfresh : freshVals st items = true := by simpa using hfresh
    have hp0 : Phase st (items.map (·.val)) st.nextModel
        { st with opened := st.opened ++ [st.nextModel], nextModel := st.nextModel + 1 } := by
      refine ⟨inv_shrink h (shrinks_refl _) rfl rfl (fun r hr => Nat.lt_succ_of_lt (h.refLt r hr)),
        Nat.le_refl _, Nat.le_refl _, ?_, ?_, ?_, fun _ _ => rfl, Nat.lt_succ_self _⟩
      · exact restr_self (fun io hio => ⟨h.iidLt io hio, h.nonempty io hio, h.sidLt io hio⟩)
      · intro io hio s hs hv
        exfalso
        simp only [List.contains_eq_mem, List.mem_map, decide_eq_true_eq] at hv
        rcases hv with ⟨it, hit, e⟩
        have := freshVals_not_mentioned hfresh it hit
        simp only [mentions, Bool.or_eq_false_iff, List.any_eq_false] at this
        have h3 := this.2 io hio
        simp only [List.any_eq_true, not_exists, not_and] at h3
        exact h3 s hs (by simp [e])
      · intro r hr hm
        exact absurd (h.refLt r hr) (by rw [hm]; exact Nat.lt_irrefl _)
    dsimp only
    simp only [Bool.and_false, Bool.false_eq_true, ↓reduceIte]
    generalize hst1 : ({ st with opened := st.opened ++ [st.nextModel], nextModel := st.nextModel + 1 } : St) = st1 at hp0 ⊢
    have hns : st1.nextSid = st.nextSid := by rw [← hst1]
    obtain ⟨p1, r1, r2⟩ := phase_readSpecs items st1 [] hp0 (by simp)
      (fun k hk hlt => absurd hlt (by rw [hns]; exact Nat.not_lt.2 hk))
    generalize readSpecs st1 st.nextModel items [] = rs at p1 r1 r2 ⊢
    obtain ⟨st2, read, all⟩ := rs
    dsimp only at p1 r1 r2 ⊢
    have hv : ∀ it ∈ (if all = true then items else []), (items.map (·.val)).contains it.val = true := by
      intro it hit
      split at hit
      · simp only [List.contains_eq_mem, List.mem_map, decide_eq_true_eq]; exact ⟨it, hit, rfl⟩
      · simp at hit
    have p2 := phase_bindItems _ _ p1 hv
    have hnext := bindItems_nextSid st.nextModel (if all = true then items else []) st2
    obtain ⟨c1, c2⟩ := phase_cleanup h p2 r1 (fun k hk hlt => r2 k hk (by rw [← hnext]; exact hlt))
    refine ⟨c1, fun m' hne => ?_⟩
    have hf := p2.others m' hne
    rw [← c2] at hf
    exact ⟨hf, specsOf_congr_filter m' hf c1⟩

end MxModel.IOSession
