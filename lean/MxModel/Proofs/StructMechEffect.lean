import MxModel.Proofs.StructMechCor
/-!
# What an accepted operation does (functional correctness of the mechanism model)

`Inv` says that every reachable state is a fixed point of derivation; it does not say WHICH members are
defined.  A mechanism that refuses everything, or accepts and does nothing, satisfies it.  This file
states, operation by operation,

* when the operation is accepted: `…_isSome : (st.op …).isSome = st.accepts…` with an explicit Boolean
  criterion, and
* what an accepted operation does to the *definitions* (`St.defd`), the spaces (`St.ids`), the direct
  bases (`St.basesOf`) and the model-level references - exactly that, and nothing else.

Together with `Inv.mem_eq_derivation` (the member table is a function of the definitions and the bases)
this determines the whole state after every accepted operation.  None of the effect lemmas needs the
invariant, except where re-derivation (`updateAll`) is involved, which needs unique member names
(`KeysOK`, part of `WF`).
-/
namespace MxModel.SM
open MxModel.C3

/-! ## walks over sub spaces that only touch derived entries -/

theorem fold_shape_defs (f : St → Path → St)
    (hstep : ∀ s q, q ∈ s.ids → Shape s (f s q) ∧ SameDefs s (f s q)) :
    ∀ (L : List Path) (s : St), (∀ q ∈ L, q ∈ s.ids) → Shape s (L.foldl f s) ∧ SameDefs s (L.foldl f s) := by
  intro L
  induction L with
  | nil => intro s _; exact ⟨Shape.refl s, fun _ _ _ => rfl⟩
  | cons x L ih =>
    intro s hL
    simp only [List.foldl_cons]
    obtain ⟨h1, h2⟩ := hstep s x (hL x (by simp))
    obtain ⟨h3, h4⟩ := ih (f s x) (fun q hq => by rw [h1.ids]; exact hL q (List.mem_cons_of_mem _ hq))
    exact ⟨h1.trans h3, fun a q n => (h4 a q n).trans (h2 a q n)⟩

theorem defd_none_of_mem_derived (s : St) (a : Attr) (q : Path) (n : String) (m : Member)
    (hm : s.mem a q n = some m) (hd : m.derived = true) : s.defd a q n = none := by
  unfold St.defd; rw [hm]; simp [hd]

theorem defd_none_of_mem_none (s : St) (a : Attr) (q : Path) (n : String)
    (hm : s.mem a q n = none) : s.defd a q n = none := by
  unfold St.defd; rw [hm]

theorem step_newMemberSub (a : Attr) (p : Path) (name : String) (v : Nat) (s : St) (q : Path) (hq : q ∈ s.ids) :
    Shape s (s.newMemberSub a p name v q) ∧ SameDefs s (s.newMemberSub a p name v q) := by
  unfold St.newMemberSub
  cases hm : s.mem a q name with
  | none =>
    exact ⟨shape_setMem _ _ _ _ _, sameDefs_setMem_derived s a q name v hq (defd_none_of_mem_none s a q name hm)⟩
  | some m =>
    simp only
    cases hd : m.derived with
    | false => exact ⟨Shape.refl s, fun _ _ _ => rfl⟩
    | true =>
      simp only [if_true]
      cases hf : s.firstDef a (s.tail q) name with
      | none => exact ⟨Shape.refl s, fun _ _ _ => rfl⟩
      | some d =>
        obtain ⟨b, w⟩ := d
        simp only
        split
        · exact ⟨shape_setMem _ _ _ _ _,
            sameDefs_setMem_derived s a q name w hq (defd_none_of_mem_derived s a q name m hm hd)⟩
        · exact ⟨Shape.refl s, fun _ _ _ => rfl⟩

theorem step_changeMemberSub (a : Attr) (p : Path) (name : String) (v : Nat) (s : St) (q : Path) (hq : q ∈ s.ids) :
    Shape s (s.changeMemberSub a p name v q) ∧ SameDefs s (s.changeMemberSub a p name v q) := by
  unfold St.changeMemberSub
  cases hm : s.mem a q name with
  | none => exact ⟨Shape.refl s, fun _ _ _ => rfl⟩
  | some m =>
    simp only
    cases hd : m.derived with
    | false => exact ⟨Shape.refl s, fun _ _ _ => rfl⟩
    | true =>
      simp only [Bool.not_true, Bool.false_eq_true, if_false]
      cases hf : s.firstDef a (s.tail q) name with
      | none => exact ⟨Shape.refl s, fun _ _ _ => rfl⟩
      | some d =>
        obtain ⟨b, w⟩ := d
        simp only
        split
        · exact ⟨shape_setMem _ _ _ _ _,
            sameDefs_setMem_derived s a q name v hq (defd_none_of_mem_derived s a q name m hm hd)⟩
        · exact ⟨Shape.refl s, fun _ _ _ => rfl⟩

theorem subs_subset_ids (s : St) (p : Path) : ∀ q ∈ s.subs p, q ∈ s.ids :=
  fun q hq => ((mem_subs p q).mp hq).1

/-- the definition of `name` in `p` becomes `v`; every other definition stays -/
def Defines (st st' : St) (a : Attr) (p : Path) (name : String) (v : Nat) : Prop :=
  ∀ a' q n', st'.defd a' q n' = if q = p ∧ a' = a ∧ n' = name then some v else st.defd a' q n'

/-- the definition of `name` in `p` is gone; every other definition stays -/
def Undefines (st st' : St) (a : Attr) (p : Path) (name : String) : Prop :=
  ∀ a' q n', st'.defd a' q n' = if q = p ∧ a' = a ∧ n' = name then none else st.defd a' q n'

theorem effect_newMember (st : St) (a : Attr) (p : Path) (name : String) (v : Nat) (hp : p ∈ st.ids) :
    let st1 := st.setMem a p name { derived := false, payload := v }
    let st' := (st1.subs p).foldl (fun s q => s.newMemberSub a p name v q) st1
    Shape st st' ∧ Defines st st' a p name v := by
  intro st1 st'
  have hs1 : Shape st st1 := shape_setMem st a p name _
  obtain ⟨h1, h2⟩ := fold_shape_defs (fun s q => s.newMemberSub a p name v q)
    (fun s q hq => step_newMemberSub a p name v s q hq) (st1.subs p) st1 (subs_subset_ids st1 p)
  refine ⟨hs1.trans h1, ?_⟩
  intro a' q n'
  show st'.defd a' q n' = _
  rw [show st'.defd a' q n' = st1.defd a' q n' from h2 a' q n', defd_setMem st a p name _ hp]
  simp

theorem effect_changeMember (st : St) (a : Attr) (p : Path) (name : String) (v : Nat) (hp : p ∈ st.ids) :
    Shape st (st.changeMember a p name v) ∧ Defines st (st.changeMember a p name v) a p name v := by
  unfold St.changeMember
  simp only
  generalize hst1 : st.setMem a p name { derived := false, payload := v } = st1
  have hs1 : Shape st st1 := by rw [← hst1]; exact shape_setMem st a p name _
  obtain ⟨h1, h2⟩ := fold_shape_defs (fun s q => s.changeMemberSub a p name v q)
    (fun s q hq => step_changeMemberSub a p name v s q hq) (st1.subs p) st1 (subs_subset_ids st1 p)
  refine ⟨hs1.trans h1, ?_⟩
  intro a' q n'
  rw [h2 a' q n', ← hst1, defd_setMem st a p name _ hp]
  simp

/-! ## `newCells` -/

def St.acceptsNewCells (kw : List String) (st : St) (p : Path) (name : String) : Bool :=
  st.has p && Names.isValidName kw name && st.canAdd p name .cells

theorem newCells_isSome (kw : List String) (st : St) (p : Path) (name : String) (v : Nat) :
    (st.newCells kw p name v).isSome = st.acceptsNewCells kw p name := by
  unfold St.newCells St.acceptsNewCells
  cases st.has p <;> cases Names.isValidName kw name <;> cases st.canAdd p name .cells <;> rfl

/-- **an accepted `newCells p name v`**: `p` defines `name` as `v` now, every other definition, the
spaces, their direct bases and the model-level references are what they were -/
theorem newCells_spec (kw : List String) (st st' : St) (p : Path) (name : String) (v : Nat)
    (hop : st.newCells kw p name v = some st') :
    Shape st st' ∧ Defines st st' .cells p name v := by
  unfold St.newCells at hop
  split at hop
  · cases hop
  · rename_i hhas
    split at hop
    · cases hop
    · split at hop
      · cases hop
      · simp only [Option.some.injEq] at hop
        subst hop
        have hp : p ∈ st.ids := by rw [← has_iff_mem_ids]; simpa using hhas
        exact effect_newMember st .cells p name v hp

/-! ## `setFormula` -/

theorem setFormula_isSome (st : St) (p : Path) (name : String) (v : Nat) :
    (st.setFormula p name v).isSome = (st.mem .cells p name).isSome := by
  unfold St.setFormula
  cases st.mem .cells p name <;> rfl

/-- **an accepted `setFormula p name v`** (also on a derived cells, which it defines) -/
theorem setFormula_spec (st st' : St) (p : Path) (name : String) (v : Nat)
    (hop : st.setFormula p name v = some st') :
    Shape st st' ∧ Defines st st' .cells p name v := by
  unfold St.setFormula at hop
  cases hm : st.mem .cells p name with
  | none => rw [hm] at hop; cases hop
  | some m =>
    rw [hm] at hop
    simp only [Option.some.injEq] at hop
    subst hop
    exact effect_changeMember st .cells p name v (mem_ids_of_mem_isSome st .cells p name (by rw [hm]; rfl))

/-! ## `delCells` / `delRef` -/

theorem delMember_isSome (st : St) (a : Attr) (p : Path) (name : String) :
    (st.delMember a p name).isSome = (st.defd a p name).isSome := by
  unfold St.delMember St.defd
  cases st.mem a p name with
  | none => rfl
  | some m => cases hd : m.derived <;> simp [hd]

/-- **an accepted `delCells` / `delRef`**: only defined members can be deleted; that definition is gone,
every other definition, the spaces and the bases are what they were -/
theorem delMember_spec (st st' : St) (hk : KeysOK st) (a : Attr) (p : Path) (name : String)
    (hop : st.delMember a p name = some st') :
    Shape st st' ∧ Undefines st st' a p name := by
  unfold St.delMember at hop
  cases hm : st.mem a p name with
  | none => rw [hm] at hop; cases hop
  | some m =>
    rw [hm] at hop
    simp only at hop
    split at hop
    · cases hop
    · simp only [Option.some.injEq] at hop
      subst hop
      have R := rederived_updateAll (st.delMem a p name) (keysOK_delMem st hk a p name)
        (p :: (st.delMem a p name).subs p)
      refine ⟨(shape_delMem st a p name).trans R.shape, ?_⟩
      intro a' q n'
      rw [R.defs]
      unfold St.defd
      rw [mem_delMem]
      by_cases hc : q = p ∧ a' = a ∧ n' = name
      · simp [hc]
      · simp [hc]

/-! ## `setRef` -/

theorem isSome_ite_not {α : Type} (b : Bool) (x : Option α) :
    (if (!b) = true then none else x).isSome = (b && x.isSome) := by
  cases b <;> simp

theorem isSome_ite_not_or {α : Type} (b c : Bool) (x : Option α) :
    (if (!b || !c) = true then none else x).isSome = (b && c && x.isSome) := by
  cases b <;> cases c <;> simp

theorem newRef_isSome (st : St) (p : Path) (name : String) (v : Nat) :
    (st.newRef p name v).isSome = st.newRefOk p name := by
  unfold St.newRef
  rw [isSome_ite_not]
  simp

/-- `space.name = value`: the space exists, the name is valid, and either the space has a reference of
the name already (own or derived: it becomes / stays an own one), or the name is neither a cells nor
a child space of it and `new_ref`'s test of the space and its sub spaces (`St.newRefOk`) passes -/
def St.acceptsSetRef (kw : List String) (st : St) (p : Path) (name : String) : Bool :=
  st.has p && Names.isValidName kw name &&
    ((st.mem .refs p name).isSome ||
      (st.kindOf p name != some .cells && st.kindOf p name != some .space && st.newRefOk p name))

theorem setRef_isSome (kw : List String) (st : St) (p : Path) (name : String) (v : Nat) :
    (st.setRef kw p name v).isSome = st.acceptsSetRef kw p name := by
  unfold St.setRef St.acceptsSetRef
  cases st.has p with
  | false => rfl
  | true =>
    cases Names.isValidName kw name with
    | false => rfl
    | true =>
      simp only [Bool.not_true, Bool.false_eq_true, if_false, Bool.true_and]
      cases hm : st.mem .refs p name with
      | some m => rfl
      | none =>
        simp only [Option.isSome_none, Bool.false_or]
        cases hk : st.kindOf p name with
        | none => simp [newRef_isSome]
        | some k => cases k <;> simp [newRef_isSome]

/-- **an accepted `setRef p name v`**: `p` defines the reference `name` as `v` now; nothing else changes -/
theorem setRef_spec (kw : List String) (st st' : St) (p : Path) (name : String) (v : Nat)
    (hop : st.setRef kw p name v = some st') :
    Shape st st' ∧ Defines st st' .refs p name v := by
  unfold St.setRef at hop
  split at hop
  · cases hop
  · rename_i hhas
    have hp : p ∈ st.ids := by rw [← has_iff_mem_ids]; simpa using hhas
    split at hop
    · cases hop
    · cases hm : st.mem .refs p name with
      | some m =>
        rw [hm] at hop
        simp only [Option.some.injEq] at hop
        subst hop
        exact effect_changeMember st .refs p name v hp
      | none =>
        rw [hm] at hop
        simp only at hop
        have hnew : ∀ s', st.newRef p name v = some s' → Shape st s' ∧ Defines st s' .refs p name v := by
          intro s' hs'
          unfold St.newRef at hs'
          split at hs'
          · cases hs'
          · simp only [Option.some.injEq] at hs'
            subst hs'
            exact effect_newMember st .refs p name v hp
        split at hop
        · cases hop
        · cases hop
        · exact hnew st' hop

/-! ## model-level references -/

/-- no validity test: `ModelImpl.set_attr` refuses the name of a top-level space and nothing else -/
def St.acceptsSetGlobal (st : St) (name : String) : Bool :=
  !(st.childNames []).contains name

theorem setGlobal_isSome (st : St) (name : String) :
    (st.setGlobal name).isSome = st.acceptsSetGlobal name := by
  unfold St.setGlobal St.acceptsSetGlobal
  cases (st.childNames []).contains name <;> rfl

/-- **an accepted `setGlobal name`**: the spaces are untouched, the name is a model-level reference now -/
theorem setGlobal_spec (st st' : St) (name : String) (hop : st.setGlobal name = some st') :
    st'.spaces = st.spaces ∧ ∀ n, n ∈ st'.globals ↔ n ∈ st.globals ∨ n = name := by
  unfold St.setGlobal at hop
  split at hop
  · cases hop
  · simp only [Option.some.injEq] at hop
    subst hop
    refine ⟨rfl, ?_⟩
    intro n
    simp only
    split
    · rename_i hc
      constructor
      · exact Or.inl
      · rintro (h | rfl)
        · exact h
        · simpa using hc
    · simp

theorem delGlobal_isSome (st : St) (name : String) : (st.delGlobal name).isSome = st.globals.contains name := by
  unfold St.delGlobal
  cases st.globals.contains name <;> rfl

theorem delGlobal_spec (st st' : St) (name : String) (hop : st.delGlobal name = some st') :
    st'.spaces = st.spaces ∧ ∀ n, n ∈ st'.globals ↔ n ∈ st.globals ∧ n ≠ name := by
  unfold St.delGlobal at hop
  split at hop
  · simp only [Option.some.injEq] at hop
    subst hop
    refine ⟨rfl, ?_⟩
    intro n
    simp
  · cases hop

/-! ## base edits -/

/-- the state in which the direct bases of `p` are `g` of what they were -/
def St.rebase (st : St) (p : Path) (g : List Path → List Path) : St :=
  st.upd p (fun s => { s with bases := g s.bases })

theorem keysOK_rebase (st : St) (hk : KeysOK st) (p : Path) (g : List Path → List Path) : KeysOK (st.rebase p g) := by
  intro a q
  unfold St.rebase
  rw [cont_upd_bases]; exact hk a q

theorem sameDefs_rebase (st : St) (p : Path) (g : List Path → List Path) : SameDefs st (st.rebase p g) := by
  intro a q n
  unfold St.defd St.rebase
  rw [St.mem_eq, St.mem_eq, cont_upd_bases]

/-- what a base edit of `p` leaves: the same spaces, definitions and model-level references; the
direct bases of `p` are `g` of what they were, those of every other space are unchanged -/
structure Rebased (st st' : St) (p : Path) (g : List Path → List Path) : Prop where
  ids : st'.ids = st.ids
  globals : st'.globals = st.globals
  defs : SameDefs st st'
  basesOf : ∀ q, st'.basesOf q = if q = p then g (st.basesOf p) else st.basesOf q

theorem rebased_updateAll (st : St) (hk : KeysOK st) (p : Path) (hp : p ∈ st.ids) (g : List Path → List Path)
    (ds : List Path) : Rebased st ((st.rebase p g).updateAll ds) p g := by
  have R := rederived_updateAll (st.rebase p g) (keysOK_rebase st hk p g) ds
  refine ⟨?_, ?_, ?_, ?_⟩
  · rw [R.shape.ids]; exact ids_upd st p _ (fun _ => rfl)
  · rw [R.shape.globals]; rfl
  · intro a q n
    rw [R.defs a q n, sameDefs_rebase st p g a q n]
  · intro q
    rw [R.shape.basesOf]
    unfold St.rebase
    rw [basesOf_upd_bases]
    by_cases hq : q = p
    · simp [hq, hp]
    · simp [hq]

def St.acceptsAddBases (st : St) (p : Path) (bs : List Path) : Bool :=
  st.has p && bs.all st.has &&
    (let st1 := st.rebase p (fun l => l.filter (fun b => !(dedupLast bs).contains b) ++ dedupLast bs)
     st1.ids.all (fun q => (st1.mro q).isSome) &&
       (p :: st1.subs p).all (fun d => match st1.mro d with
         | some l => st1.noConflict l (st1.childNames d)
         | none => false))

theorem addBases_isSome (st : St) (p : Path) (bs : List Path) :
    (st.addBases p bs).isSome = st.acceptsAddBases p bs := by
  unfold St.addBases St.acceptsAddBases St.rebase
  simp only [isSome_ite_not_or, isSome_ite_not, Option.isSome_some, Bool.and_true, Bool.and_assoc]
  rfl

/-- **an accepted `addBases p bs`**: the direct bases of `p` are the old ones without `bs`, followed by
`bs` (a base named again moves to the end; one named twice counts once, at its last place) -/
theorem addBases_spec (st st' : St) (hk : KeysOK st) (p : Path) (bs : List Path)
    (hop : st.addBases p bs = some st') :
    Rebased st st' p (fun l => l.filter (fun b => !(dedupLast bs).contains b) ++ dedupLast bs) := by
  unfold St.addBases at hop
  split at hop
  · cases hop
  · rename_i hhas
    simp only at hop
    split at hop
    · cases hop
    · split at hop
      · cases hop
      · simp only [Option.some.injEq] at hop
        subst hop
        have hp : p ∈ st.ids := by
          rw [← has_iff_mem_ids]
          cases hx : st.has p with
          | true => rfl
          | false => rw [hx] at hhas; simp at hhas
        have hsubs : ∀ (s1 : St), s1 = st.rebase p
            (fun l => l.filter (fun b => !(dedupLast bs).contains b) ++ dedupLast bs) →
            Rebased st (s1.updateAll (p :: s1.subs p)) p
              (fun l => l.filter (fun b => !(dedupLast bs).contains b) ++ dedupLast bs) := by
          intro s1 hs1
          subst hs1
          exact rebased_updateAll st hk p hp _ _
        exact hsubs _ rfl

def St.acceptsRemoveBases (st : St) (p : Path) (bs : List Path) : Bool :=
  st.has p && bs.all st.has && bs.all (fun b => (st.basesOf p).contains b) && (bs.eraseDups.length == bs.length) &&
    (let st1 := st.rebase p (fun l => l.filter (fun b => !bs.contains b))
     st1.ids.all (fun q => (st1.mro q).isSome))

theorem isSome_ite_not_or_ne {α : Type} (b : Bool) (m n : Nat) (x : Option α) :
    (if (!b || m != n) = true then none else x).isSome = (b && (m == n) && x.isSome) := by
  cases b <;> cases h : (m == n) <;> simp [bne, h]

theorem removeBases_isSome (st : St) (p : Path) (bs : List Path) :
    (st.removeBases p bs).isSome = st.acceptsRemoveBases p bs := by
  unfold St.removeBases St.acceptsRemoveBases St.rebase
  simp only [isSome_ite_not_or, isSome_ite_not_or_ne, isSome_ite_not, Option.isSome_some, Bool.and_true,
    Bool.and_assoc]

/-- **an accepted `removeBases p bs`**: the direct bases of `p` are the old ones without `bs` -/
theorem removeBases_spec (st st' : St) (hk : KeysOK st) (p : Path) (bs : List Path)
    (hop : st.removeBases p bs = some st') :
    Rebased st st' p (fun l => l.filter (fun b => !bs.contains b)) := by
  unfold St.removeBases at hop
  split at hop
  · cases hop
  · rename_i hhas
    split at hop
    · cases hop
    · simp only at hop
      split at hop
      · cases hop
      · simp only [Option.some.injEq] at hop
        subst hop
        have hp : p ∈ st.ids := by
          rw [← has_iff_mem_ids]
          cases hx : st.has p with
          | true => rfl
          | false => rw [hx] at hhas; simp at hhas
        exact rebased_updateAll st hk p hp _ _

/-! ## `newSpace` -/

/-- the space `newSpace` appends before anything is derived into it -/
def freshSpace (parent : Path) (name : String) (bases : List Path) : Space :=
  { id := parent ++ [name], bases := dedupLast bases, cells := [], refs := [] }

def St.acceptsNewSpace (kw : List String) (st : St) (parent : Path) (name : String) (bases : List Path) : Bool :=
  (parent == [] || st.has parent) && bases.all st.has && st.canAdd parent name .space &&
    Names.isValidName kw name &&
    (match (st.push (freshSpace parent name bases)).mro (parent ++ [name]) with
     | some l => (st.push (freshSpace parent name bases)).noConflict l []
     | none => false)

theorem newSpace_isSome (kw : List String) (st : St) (parent : Path) (name : String) (bases : List Path) :
    (st.newSpace kw parent name bases).isSome = st.acceptsNewSpace kw parent name bases := by
  unfold St.newSpace St.acceptsNewSpace St.push freshSpace
  simp only [isSome_ite_not_or, isSome_ite_not, Bool.and_assoc]
  generalize St.mro _ _ = m
  cases m with
  | none => simp
  | some l =>
    simp only
    generalize St.noConflict _ l [] = b
    cases b <;> simp

/-- a name that can be added to `parent` is not the name of one of its child spaces -/
theorem not_mem_ids_of_canAdd (st : St) (parent : Path) (name : String) (k : Kind)
    (h : st.canAdd parent name k = true) : parent ++ [name] ∉ st.ids := by
  rw [← mem_childNames]
  unfold St.canAdd at h
  by_cases hp0 : parent = []
  · subst hp0
    simp only [beq_self_eq_true, if_true, Bool.not_eq_true', Bool.or_eq_false_iff,
      List.contains_eq_mem, decide_eq_false_iff_not] at h
    exact h.1
  · have hpb : (parent == []) = false := by simpa using hp0
    simp only [hpb, Bool.false_eq_true, if_false] at h
    split at h
    · cases h
    · rename_i hk0
      have hkp : st.kindOf parent name = none := by
        cases hk : st.kindOf parent name with
        | none => rfl
        | some _ => rw [hk] at hk0; simp at hk0
      exact (kindOf_none st parent name hkp).2.1

/-- what an accepted `newSpace` leaves: one more space, with the bases named (a base named twice counts
once, at its last place); no definition anywhere has changed and the new space defines nothing -/
structure Created (st st' : St) (id : Path) (bs : List Path) : Prop where
  fresh : id ∉ st.ids
  ids : st'.ids = st.ids ++ [id]
  globals : st'.globals = st.globals
  basesOf : ∀ q, st'.basesOf q = if q = id then bs else st.basesOf q
  defs : SameDefs st st'

theorem created_push (st : St) (hk : KeysOK st) (ns : Space) (hid : ns.id ∉ st.ids)
    (hc : ns.cells = []) (hr : ns.refs = []) (ds : List Path) :
    Created st ((st.push ns).updateAll ds) ns.id ns.bases := by
  have hcont : ∀ a q, (st.push ns).cont a q = st.cont a q := by
    intro a q
    rw [cont_push st ns hid]
    by_cases hq : q = ns.id
    · subst hq
      rw [St.cont_of_not_mem st a _ hid]
      cases a <;> simp [Space.get, hc, hr]
    · simp [hq]
  have hk1 : KeysOK (st.push ns) := fun a q => by rw [hcont]; exact hk a q
  have R := rederived_updateAll (st.push ns) hk1 ds
  refine ⟨hid, by rw [R.shape.ids, ids_push], by rw [R.shape.globals]; rfl, ?_, ?_⟩
  · intro q
    rw [R.shape.basesOf, basesOf_push st ns hid]
  · intro a q n
    rw [R.defs a q n]
    unfold St.defd
    rw [St.mem_eq, St.mem_eq, hcont]

/-- **an accepted `newSpace parent name bases`** -/
theorem newSpace_spec (kw : List String) (st st' : St) (hk : KeysOK st) (parent : Path) (name : String)
    (bases : List Path) (hop : st.newSpace kw parent name bases = some st') :
    Created st st' (parent ++ [name]) (dedupLast bases) := by
  unfold St.newSpace at hop
  split at hop
  · cases hop
  · split at hop
    · cases hop
    · rename_i hg2
      split at hop
      · cases hop
      · simp only at hop
        split at hop
        · cases hop
        · split at hop
          · cases hop
          · simp only [Option.some.injEq] at hop
            subst hop
            have hid := not_mem_ids_of_canAdd st parent name .space (of_not_not_true hg2)
            exact created_push st hk (freshSpace parent name bases) hid rfl rfl [parent ++ [name]]

/-! ## `delSpace` -/

/-- the spaces `delSpace p` removes: `p` and everything below it in the tree -/
def St.removedBy (st : St) (p : Path) : List Path := st.ids.filter (isPrefix p)

theorem mem_removedBy (st : St) (p q : Path) : q ∈ st.removedBy p ↔ q ∈ st.ids ∧ isPrefix p q = true := by
  unfold St.removedBy; simp

def St.acceptsDelSpace (st : St) (p : Path) : Bool :=
  st.has p &&
    (((st.removedBy p).flatMap st.subs).eraseDups.filter (fun q => !(st.removedBy p).contains q)).all
      (fun q => ((st.without (st.removedBy p)).mro q).isSome)

theorem delSpace_isSome (st : St) (p : Path) : (st.delSpace p).isSome = st.acceptsDelSpace p := by
  unfold St.delSpace St.acceptsDelSpace St.removedBy St.without stripBases
  simp only [isSome_ite_not, Option.isSome_some, Bool.and_true]

/-- what an accepted `delSpace p` leaves: the spaces not at or below `p`, with their definitions; their
direct bases without the removed spaces -/
structure Deleted (st st' : St) (p : Path) : Prop where
  ids : ∀ q, q ∈ st'.ids ↔ q ∈ st.ids ∧ isPrefix p q = false
  globals : st'.globals = st.globals
  basesOf : ∀ q, st'.basesOf q =
    if isPrefix p q = true then [] else (st.basesOf q).filter (fun b => !(st.removedBy p).contains b)
  defs : ∀ a q n, st'.defd a q n = if isPrefix p q = true then none else st.defd a q n

theorem deleted_without (st : St) (hk : KeysOK st) (p : Path) (ds : List Path) :
    Deleted st ((st.without (st.removedBy p)).updateAll ds) p := by
  have hcont : ∀ a q, (st.without (st.removedBy p)).cont a q = if isPrefix p q = true then [] else st.cont a q := by
    intro a q
    rw [cont_without]
    by_cases hq : q ∈ st.removedBy p
    · simp [hq, ((mem_removedBy st p q).mp hq).2]
    · simp only [hq, if_false]
      by_cases hpq : isPrefix p q = true
      · have hqi : q ∉ st.ids := fun hi => hq ((mem_removedBy st p q).mpr ⟨hi, hpq⟩)
        simp [hpq, St.cont_of_not_mem st a q hqi]
      · simp [hpq]
  have hk1 : KeysOK (st.without (st.removedBy p)) := by
    intro a q
    rw [hcont]
    split
    · simp [keys]
    · exact hk a q
  have R := rederived_updateAll (st.without (st.removedBy p)) hk1 ds
  refine ⟨?_, by rw [R.shape.globals]; rfl, ?_, ?_⟩
  · intro q
    rw [R.shape.ids, mem_ids_without, mem_removedBy]
    constructor
    · rintro ⟨h1, h2⟩
      refine ⟨h1, ?_⟩
      cases hx : isPrefix p q with
      | false => rfl
      | true => exact absurd ⟨h1, hx⟩ h2
    · rintro ⟨h1, h2⟩
      exact ⟨h1, fun h' => by rw [h2] at h'; cases h'.2⟩
  · intro q
    rw [R.shape.basesOf, basesOf_without]
    by_cases hq : q ∈ st.removedBy p
    · simp [hq, ((mem_removedBy st p q).mp hq).2]
    · simp only [hq, if_false]
      by_cases hpq : isPrefix p q = true
      · have hqi : q ∉ st.ids := fun hi => hq ((mem_removedBy st p q).mpr ⟨hi, hpq⟩)
        simp [hpq, St.basesOf_of_not_mem st q hqi]
      · simp [hpq]
  · intro a q n
    rw [R.defs a q n]
    unfold St.defd
    rw [St.mem_eq, hcont]
    by_cases hpq : isPrefix p q = true
    · simp [hpq, mget]
    · have hpq' : isPrefix p q = false := by simpa using hpq
      simp only [hpq', Bool.false_eq_true, if_false]
      rw [← St.mem_eq]

/-- **an accepted `delSpace p`** -/
theorem delSpace_spec (st st' : St) (hk : KeysOK st) (p : Path) (hop : st.delSpace p = some st') :
    Deleted st st' p := by
  unfold St.delSpace at hop
  split at hop
  · cases hop
  · simp only at hop
    split at hop
    · cases hop
    · simp only [Option.some.injEq] at hop
      subst hop
      exact deleted_without st hk p _

/-! ## `renameCells` -/

def St.acceptsRename (kw : List String) (st : St) (p : Path) (old new : String) : Bool :=
  (st.mem .cells p old).isSome && Names.isValidName kw new && st.canAdd p new .cells &&
    !(st.tail p).any (fun b => (st.mem .cells b old).isSome)

theorem renameCells_isSome (kw : List String) (st : St) (p : Path) (old new : String) :
    (st.renameCells kw p old new).isSome = st.acceptsRename kw p old new := by
  unfold St.renameCells St.acceptsRename
  cases st.mem .cells p old with
  | none => rfl
  | some m =>
    simp only [isSome_ite_not, Option.isSome_some, Bool.true_and, Bool.and_assoc]
    cases Names.isValidName kw new <;> cases st.canAdd p new .cells <;>
      cases (st.tail p).any (fun b => (st.mem .cells b old).isSome) <;> simp

theorem defd_renameIn_frame (s : St) (p : Path) (old new : String) (q : Path) (a' : Attr) (q' : Path) (n : String)
    (h : a' = .refs ∨ (n ≠ old ∧ n ≠ new)) : (s.renameIn p old new q).defd a' q' n = s.defd a' q' n := by
  have hne : ∀ x : String, ¬ (q' = q ∧ a' = Attr.cells ∧ n = x) ∨ (x ≠ old ∧ x ≠ new) := by
    intro x
    rcases h with h | h
    · left; rintro ⟨_, h2, _⟩; rw [h] at h2; cases h2
    · by_cases hx : n = x
      · subst hx; exact Or.inr h
      · exact Or.inl (fun h' => hx h'.2.2)
  unfold St.renameIn
  cases hm : s.mem .cells q old with
  | none => rfl
  | some m =>
    have hq : q ∈ s.ids := mem_ids_of_mem_isSome s .cells q old (by rw [hm]; rfl)
    have hold : ¬ (q' = q ∧ a' = Attr.cells ∧ n = old) := by
      rcases hne old with h1 | h1
      · exact h1
      · exact absurd rfl h1.1
    have hnew : ¬ (q' = q ∧ a' = Attr.cells ∧ n = new) := by
      rcases hne new with h1 | h1
      · exact h1
      · exact absurd rfl h1.2
    simp only
    split
    · unfold St.defd
      rw [mem_delMem]; simp [hold]
    · have hq' : q ∈ (s.delMem .cells q old).ids := by rw [(shape_delMem s .cells q old).ids]; exact hq
      unfold St.defd
      rw [mem_setMem _ _ _ _ _ hq', mem_delMem]; simp [hold, hnew]

theorem defd_renameFold_frame (p : Path) (old new : String) (a' : Attr) (q' : Path) (n : String)
    (h : a' = .refs ∨ (n ≠ old ∧ n ≠ new)) : ∀ (T : List Path) (s : St),
    (T.foldl (fun s q => s.renameIn p old new q) s).defd a' q' n = s.defd a' q' n := by
  intro T
  induction T with
  | nil => intro s; rfl
  | cons t T ih =>
    intro s
    simp only [List.foldl_cons]
    rw [ih, defd_renameIn_frame s p old new t a' q' n h]

/-- **an accepted `renameCells p old new`**: the spaces, the bases and every definition that is not a
cells named `old` or `new` are what they were.  (Which cells named `old` become `new` - the one of `p`,
the copies derived from it, and overriding cells of sub spaces - is in `St.renameCells`; `Inv` after the
operation (`inv_renameCells`) fixes the derived part.) -/
theorem renameCells_spec (kw : List String) (st st' : St) (hk : KeysOK st) (p : Path) (old new : String)
    (hop : st.renameCells kw p old new = some st') :
    Shape st st' ∧ ∀ a q n, (a = .refs ∨ (n ≠ old ∧ n ≠ new)) → st'.defd a q n = st.defd a q n := by
  unfold St.renameCells at hop
  cases hm : st.mem .cells p old with
  | none => rw [hm] at hop; cases hop
  | some m =>
    rw [hm] at hop
    simp only at hop
    split at hop
    · cases hop
    · split at hop
      · cases hop
      · split at hop
        · cases hop
        · simp only [Option.some.injEq] at hop
          subst hop
          generalize hT : (p :: st.subs p).filter _ = T
          have RN := renamed_foldl p old new T st hk
          generalize hs1 : T.foldl (fun s q => s.renameIn p old new q) st = s1 at RN
          have R := rederived_updateAll s1 RN.keys (s1.subs p)
          refine ⟨RN.shape.trans R.shape, ?_⟩
          intro a q n hc
          rw [R.defs a q n, ← hs1]
          exact defd_renameFold_frame p old new a q n hc T st

/-! ## the API-level operations -/

/-- the counters of the auto-namers are seen by nothing the effect statements speak about -/
theorem shape_namers (st : St) (x : List (Path × Nat)) : Shape st { st with namers := x } := ⟨rfl, rfl, rfl⟩

theorem sameDefs_namers (st : St) (x : List (Path × Nat)) : SameDefs st { st with namers := x } :=
  fun _ _ _ => rfl

/-- the name a new cells gets (`CellsImpl.__init__`): the one given if valid, else the formula's if
valid, else the next automatic name that can be added -/
def St.cellsName (kw : List String) (st : St) (p : Path) (name fname : String) : String :=
  if Names.isValidName kw name then name
  else if Names.isValidName kw fname then fname
  else Names.cand "" "Cells" (st.autoCells p)

theorem newCellsNamed_isSome (kw : List String) (st : St) (p : Path) (name fname : String) (v : Nat) :
    (st.newCellsNamed kw p name fname v).isSome = st.acceptsNewCells kw p (st.cellsName kw p name fname) := by
  unfold St.newCellsNamed St.cellsName
  split
  · exact newCells_isSome kw st p name v
  · split
    · exact newCells_isSome kw st p fname v
    · simp only [Option.isSome_map]
      exact newCells_isSome kw st p _ v

/-- **an accepted `newCells p name fname v`** defines the cells under the resolved name -/
theorem newCellsNamed_spec (kw : List String) (st st' : St) (p : Path) (name fname : String) (v : Nat)
    (hop : st.newCellsNamed kw p name fname v = some st') :
    Shape st st' ∧ Defines st st' .cells p (st.cellsName kw p name fname) v := by
  unfold St.newCellsNamed at hop
  unfold St.cellsName
  split at hop
  · rename_i h1
    simp only [h1, if_true]
    exact newCells_spec kw st st' p name v hop
  · rename_i h1
    split at hop
    · rename_i h2
      simp only [h1, h2, if_true, if_false]
      exact newCells_spec kw st st' p fname v hop
    · rename_i h2
      simp only [h1, h2, if_false]
      simp only at hop
      cases hs : st.newCells kw p (Names.cand "" "Cells" (st.autoCells p)) v with
      | none => rw [hs] at hop; cases hop
      | some s =>
        rw [hs] at hop
        simp only [Option.map_some, Option.some.injEq] at hop
        subst hop
        obtain ⟨h3, h4⟩ := newCells_spec kw st s p _ v hs
        exact ⟨h3.trans (shape_namers s _), fun a q n => (sameDefs_namers s _ a q n).trans (h4 a q n)⟩

/-- the value the constructor references give to `n`, on top of `d` (a later entry wins) -/
def refsDef (d : Option Nat) (refs : List (String × Nat)) (n : String) : Option Nat :=
  refs.foldl (fun acc e => if e.1 = n then some e.2 else acc) d

theorem setRefs_spec (kw : List String) (p : Path) (refs : List (String × Nat)) :
    ∀ (st st' : St), st.setRefs kw p refs = some st' →
      Shape st st' ∧ ∀ a q n, st'.defd a q n =
        if q = p ∧ a = .refs then refsDef (st.defd .refs p n) refs n else st.defd a q n := by
  induction refs with
  | nil =>
    intro st st' hop
    simp only [St.setRefs, Option.some.injEq] at hop
    subst hop
    refine ⟨Shape.refl _, ?_⟩
    intro a q n
    by_cases hc : q = p ∧ a = .refs
    · obtain ⟨rfl, rfl⟩ := hc; simp [refsDef]
    · simp [hc]
  | cons e rest ih =>
    intro st st' hop
    simp only [St.setRefs] at hop
    cases hs : st.setRef kw p e.1 e.2 with
    | none => rw [hs] at hop; cases hop
    | some s =>
      rw [hs] at hop
      obtain ⟨h1, h2⟩ := setRef_spec kw st s p e.1 e.2 hs
      obtain ⟨h3, h4⟩ := ih s st' hop
      refine ⟨h1.trans h3, ?_⟩
      intro a q n
      rw [h4 a q n]
      by_cases hc : q = p ∧ a = .refs
      · obtain ⟨rfl, rfl⟩ := hc
        simp only [and_self, if_true, refsDef, List.foldl_cons]
        rw [h2 .refs q n]
        by_cases hn : e.1 = n
        · simp [hn]
        · have : ¬ n = e.1 := fun h' => hn h'.symm
          simp [hn, this]
      · simp only [hc, if_false]
        rw [h2 a q n]
        have : ¬ (q = p ∧ a = Attr.refs ∧ n = e.1) := fun h' => hc ⟨h'.1, h'.2.1⟩
        simp [this]

/-- **an accepted `newSpace parent name bases refs`**: one more space with these bases; it defines the
references handed to it and nothing else; every other definition is what it was -/
theorem newSpaceRefs_spec (kw : List String) (st st' : St) (hk : KeysOK st) (parent : Path) (name : String)
    (bases : List Path) (refs : List (String × Nat))
    (hop : st.newSpaceRefs kw parent name bases refs = some st') :
    (parent ++ [name]) ∉ st.ids ∧ st'.ids = st.ids ++ [parent ++ [name]] ∧ st'.globals = st.globals ∧
    (∀ q, st'.basesOf q = if q = parent ++ [name] then dedupLast bases else st.basesOf q) ∧
    (∀ a q n, st'.defd a q n =
      if q = parent ++ [name] ∧ a = .refs then refsDef none refs n else st.defd a q n) := by
  unfold St.newSpaceRefs at hop
  cases hs : st.newSpace kw parent name bases with
  | none => rw [hs] at hop; cases hop
  | some st1 =>
    rw [hs] at hop
    have C := newSpace_spec kw st st1 hk parent name bases hs
    obtain ⟨h1, h2⟩ := setRefs_spec kw _ refs st1 st' hop
    refine ⟨C.fresh, by rw [h1.ids, C.ids], by rw [h1.globals, C.globals], ?_, ?_⟩
    · intro q; rw [h1.basesOf, C.basesOf]
    · intro a q n
      rw [h2 a q n, C.defs .refs (parent ++ [name]) n, St.defd_of_not_mem st .refs _ n C.fresh, C.defs a q n]

theorem delSpaceOp_isSome (st : St) (p : Path) : (st.delSpaceOp p).isSome = st.acceptsDelSpace p := by
  unfold St.delSpaceOp
  rw [Option.isSome_map]; exact delSpace_isSome st p

theorem delSpaceOp_spec (st st' : St) (hk : KeysOK st) (p : Path) (hop : st.delSpaceOp p = some st') :
    Deleted st st' p := by
  unfold St.delSpaceOp at hop
  cases hs : st.delSpace p with
  | none => rw [hs] at hop; cases hop
  | some s =>
    rw [hs] at hop
    simp only [Option.map_some, Option.some.injEq] at hop
    subst hop
    have D := delSpace_spec st s hk p hs
    exact ⟨D.ids, D.globals, D.basesOf, D.defs⟩

/-! ## all twelve operations -/

/-- **when an operation is accepted** (explicit criterion, operation by operation) -/
def St.accepts (kw : List String) (st : St) : Op → Bool
  | .newSpace parent name bases refs =>
    st.acceptsNewSpace kw parent name bases &&
      (match st.newSpace kw parent name bases with
       | some st1 => (st1.setRefs kw (parent ++ [name]) refs).isSome   -- each reference as if set afterwards
       | none => false)
  | .delSpace p => st.acceptsDelSpace p
  | .newCells p name fname _ => st.acceptsNewCells kw p (st.cellsName kw p name fname)
  | .setFormula p name _ => (st.mem .cells p name).isSome
  | .delCells p name => (st.defd .cells p name).isSome
  | .renameCells p old new => st.acceptsRename kw p old new
  | .addBases p bs => st.acceptsAddBases p bs
  | .removeBases p bs => st.acceptsRemoveBases p bs
  | .setRef p name _ => st.acceptsSetRef kw p name
  | .delRef p name => (st.defd .refs p name).isSome
  | .setGlobal name => st.acceptsSetGlobal name
  | .delGlobal name => st.globals.contains name

theorem apply_isSome (kw : List String) (st : St) (op : Op) : (st.apply kw op).isSome = st.accepts kw op := by
  cases op with
  | newSpace parent name bases refs =>
    simp only [St.apply, St.accepts, St.newSpaceRefs]
    rw [← newSpace_isSome]
    cases st.newSpace kw parent name bases <;> simp
  | delSpace p => exact delSpaceOp_isSome st p
  | newCells p name fname v => exact newCellsNamed_isSome kw st p name fname v
  | setFormula p name v => exact setFormula_isSome st p name v
  | delCells p name => exact delMember_isSome st .cells p name
  | renameCells p old new => exact renameCells_isSome kw st p old new
  | addBases p bs => exact addBases_isSome st p bs
  | removeBases p bs => exact removeBases_isSome st p bs
  | setRef p name v => exact setRef_isSome kw st p name v
  | delRef p name => exact delMember_isSome st .refs p name
  | setGlobal name => exact setGlobal_isSome st name
  | delGlobal name => exact delGlobal_isSome st name

/-- **what an accepted operation does**, operation by operation -/
def Effect (kw : List String) (st st' : St) : Op → Prop
  | .newSpace parent name bases refs =>
    (parent ++ [name]) ∉ st.ids ∧ st'.ids = st.ids ++ [parent ++ [name]] ∧ st'.globals = st.globals ∧
    (∀ q, st'.basesOf q = if q = parent ++ [name] then dedupLast bases else st.basesOf q) ∧
    (∀ a q n, st'.defd a q n =
      if q = parent ++ [name] ∧ a = .refs then refsDef none refs n else st.defd a q n)
  | .delSpace p => Deleted st st' p
  | .newCells p name fname v => Shape st st' ∧ Defines st st' .cells p (st.cellsName kw p name fname) v
  | .setFormula p name v => Shape st st' ∧ Defines st st' .cells p name v
  | .delCells p name => Shape st st' ∧ Undefines st st' .cells p name
  | .renameCells _ old new =>
    Shape st st' ∧ ∀ a q n, (a = .refs ∨ (n ≠ old ∧ n ≠ new)) → st'.defd a q n = st.defd a q n
  | .addBases p bs => Rebased st st' p (fun l => l.filter (fun b => !(dedupLast bs).contains b) ++ dedupLast bs)
  | .removeBases p bs => Rebased st st' p (fun l => l.filter (fun b => !bs.contains b))
  | .setRef p name v => Shape st st' ∧ Defines st st' .refs p name v
  | .delRef p name => Shape st st' ∧ Undefines st st' .refs p name
  | .setGlobal name => st'.spaces = st.spaces ∧ ∀ n, n ∈ st'.globals ↔ n ∈ st.globals ∨ n = name
  | .delGlobal name => st'.spaces = st.spaces ∧ ∀ n, n ∈ st'.globals ↔ n ∈ st.globals ∧ n ≠ name

theorem apply_spec (kw : List String) (st st' : St) (hk : KeysOK st) (op : Op)
    (hop : st.apply kw op = some st') : Effect kw st st' op := by
  cases op with
  | newSpace parent name bases refs => exact newSpaceRefs_spec kw st st' hk parent name bases refs hop
  | delSpace p => exact delSpaceOp_spec st st' hk p hop
  | newCells p name fname v => exact newCellsNamed_spec kw st st' p name fname v hop
  | setFormula p name v => exact setFormula_spec st st' p name v hop
  | delCells p name => exact delMember_spec st st' hk .cells p name hop
  | renameCells p old new => exact renameCells_spec kw st st' hk p old new hop
  | addBases p bs => exact addBases_spec st st' hk p bs hop
  | removeBases p bs => exact removeBases_spec st st' hk p bs hop
  | setRef p name v => exact setRef_spec kw st st' p name v hop
  | delRef p name => exact delMember_spec st st' hk .refs p name hop
  | setGlobal name => exact setGlobal_spec st st' name hop
  | delGlobal name => exact delGlobal_spec st st' name hop

end MxModel.SM
