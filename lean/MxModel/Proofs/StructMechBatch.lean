import MxModel.Struct.MechBatch
import MxModel.Proofs.StructMechLive
import MxModel.Proofs.StructMechFrame
/-!
# A call that creates several cells: the loop of the code and the atomic call accept the same calls

`St.newCellsSeq` (the loop of single `new_cells` calls the code runs) and `St.newCellsBatch` (all checks
first, in the state the call was given) are the same function on every state without a space of empty id
- in particular on every reachable state.  The point of the proof: putting a cells `n` into `p` changes
the answer of `_can_add` in `p` for the name `n` only (to "no"), so checking the later names in the
original state, plus pairwise distinctness, is checking them where the loop checks them.
-/
namespace MxModel.SM
open MxModel.C3

/-! ## `newCells` is its checks followed by `putCells` -/

theorem cellsOk_eq_accepts (kw : List String) (st : St) (p : Path) (name : String) :
    st.cellsOk kw p name = st.acceptsNewCells kw p name := rfl

theorem newCells_eq_put (kw : List String) (st : St) (p : Path) (name : String) (v : Nat) :
    st.newCells kw p name v = if st.acceptsNewCells kw p name then some (st.putCells p name v) else none := by
  unfold St.newCells St.acceptsNewCells St.putCells
  cases st.has p <;> cases Names.isValidName kw name <;> cases st.canAdd p name .cells <;> rfl

/-! ## what `putCells` touches: entries under the one name, nothing of the shape -/

theorem shape_putCells (st : St) (p : Path) (n : String) (v : Nat) : Shape st (st.putCells p n v) :=
  (shape_setMem st .cells p n _).trans (shape_foldl _ (fun s q' => shape_newMemberSub s .cells p n v q') _ _)

theorem mem_setMem_ne (st : St) (a : Attr) (p : Path) (n : String) (m : Member) (a' : Attr) (q : Path)
    (n' : String) (h : n' ≠ n) : (st.setMem a p n m).mem a' q n' = st.mem a' q n' := by
  rw [St.mem_eq, cont_setMem, St.mem_eq]
  split
  · rename_i hc
    obtain ⟨rfl, rfl, _⟩ := hc
    rw [mget_mset]; simp [h]
  · rfl

theorem mem_newMemberSub_ne (st : St) (a : Attr) (p : Path) (n : String) (v : Nat) (q' : Path) (a' : Attr)
    (q : Path) (n' : String) (h : n' ≠ n) : (st.newMemberSub a p n v q').mem a' q n' = st.mem a' q n' := by
  unfold St.newMemberSub
  repeat' split
  all_goals first | rfl | exact mem_setMem_ne _ _ _ _ _ _ _ _ h

theorem mem_foldl_frame (f : St → Path → St) (a' : Attr) (q : Path) (n' : String)
    (hf : ∀ s q', (f s q').mem a' q n' = s.mem a' q n') :
    ∀ (L : List Path) (s : St), (L.foldl f s).mem a' q n' = s.mem a' q n' := by
  intro L
  induction L with
  | nil => intro s; rfl
  | cons x L ih => intro s; simp only [List.foldl_cons]; rw [ih (f s x), hf s x]

/-- entries under other names are untouched (cells and references, every space) -/
theorem mem_putCells_ne (st : St) (p : Path) (n : String) (v : Nat) (a' : Attr) (q : Path) (n' : String)
    (h : n' ≠ n) : (st.putCells p n v).mem a' q n' = st.mem a' q n' := by
  unfold St.putCells
  simp only
  rw [mem_foldl_frame _ a' q n' (fun s q' => mem_newMemberSub_ne s .cells p n v q' a' q n' h)]
  exact mem_setMem_ne _ _ _ _ _ _ _ _ h

/-- the name is a cells of `p` afterwards -/
theorem mem_putCells_self (st : St) (p : Path) (n : String) (v : Nat) (hp : p ∈ st.ids) :
    (st.putCells p n v).mem .cells p n = some { derived := false, payload := v } := by
  unfold St.putCells
  simp only
  rw [St.mem_eq, cont_foldl_other _
    (fun s q' a' q hne => cont_newMemberSub_other s .cells p n v q' a' q hne) _ _ .cells p
    (fun hm => ((mem_subs p p).mp hm).2.1 rfl), ← St.mem_eq, mem_setMem st .cells p n _ hp]
  simp

theorem kindOf_putCells_ne (st : St) (p : Path) (n : String) (v : Nat) (q : Path) (n' : String) (h : n' ≠ n) :
    (st.putCells p n v).kindOf q n' = st.kindOf q n' := by
  unfold St.kindOf
  rw [mem_putCells_ne st p n v .cells q n' h, mem_putCells_ne st p n v .refs q n' h,
    (shape_putCells st p n v).globals, (shape_putCells st p n v).childNames]

/-- `_can_add` answers for every other name what it answered before -/
theorem canAdd_putCells_ne (st : St) (p : Path) (n : String) (v : Nat) (p' : Path) (n' : String) (k : Kind)
    (h : n' ≠ n) : (st.putCells p n v).canAdd p' n' k = st.canAdd p' n' k := by
  unfold St.canAdd
  rw [(shape_putCells st p n v).globals, (shape_putCells st p n v).childNames,
    (shape_putCells st p n v).subs, kindOf_putCells_ne st p n v p' n' h]
  simp only [kindOf_putCells_ne st p n v _ n' h]

/-- ... and refuses the name that has just been given -/
theorem canAdd_putCells_self (st : St) (p : Path) (n : String) (v : Nat) (k : Kind) (hp : p ∈ st.ids)
    (hne : p ≠ []) : (st.putCells p n v).canAdd p n k = false := by
  unfold St.canAdd St.kindOf
  rw [mem_putCells_self st p n v hp]
  simp [hne]

theorem has_putCells (st : St) (p : Path) (n : String) (v : Nat) (q : Path) :
    (st.putCells p n v).has q = st.has q := (shape_putCells st p n v).has q

/-- the checks of a single creation after another name was created: the same answer, except that the name
just created is refused -/
theorem cellsOk_putCells (kw : List String) (st : St) (p : Path) (n : String) (v : Nat) (n' : String)
    (hroot : st.has [] = false) (hp : st.has p = true) :
    (st.putCells p n v).cellsOk kw p n' = (n' != n && st.cellsOk kw p n') := by
  have hpi : p ∈ st.ids := (has_iff_mem_ids st p).mp hp
  have hne : p ≠ [] := by intro h; rw [h, hroot] at hp; cases hp
  unfold St.cellsOk
  rw [has_putCells]
  by_cases h : n' = n
  · subst h
    rw [canAdd_putCells_self st p n' v .cells hpi hne]
    simp
  · rw [canAdd_putCells_ne st p n v p n' .cells h]
    simp [h]

/-! ## the loop and the atomic call -/

theorem newCellsSeq_cons (kw : List String) (st : St) (p : Path) (e : String × Nat) (es : List (String × Nat)) :
    st.newCellsSeq kw p (e :: es) =
      if st.cellsOk kw p e.1 then (st.putCells p e.1 e.2).newCellsSeq kw p es else none := by
  rw [St.newCellsSeq, newCells_eq_put, cellsOk_eq_accepts]
  cases st.acceptsNewCells kw p e.1 <;> rfl

theorem newCellsLoop_cons (kw : List String) (st : St) (p : Path) (e : String × Nat) (es : List (String × Nat)) :
    st.newCellsLoop kw p (e :: es) =
      if st.cellsOk kw p e.1 then (st.putCells p e.1 e.2).newCellsLoop kw p es else (st, false) := by
  rw [St.newCellsLoop, newCells_eq_put, cellsOk_eq_accepts]
  cases st.acceptsNewCells kw p e.1 <;> rfl

theorem all_and_split {α : Type} (f g : α → Bool) (l : List α) :
    (l.all fun x => f x && g x) = (l.all f && l.all g) := by
  induction l with
  | nil => rfl
  | cons x l ih =>
    simp only [List.all_cons, ih]
    cases f x <;> cases g x <;> cases l.all f <;> cases l.all g <;> rfl

theorem batchOk_cons (kw : List String) (st : St) (p : Path) (e : String × Nat) (es : List (String × Nat))
    (hroot : st.has [] = false) (hok : st.cellsOk kw p e.1 = true) :
    st.batchOk kw p (e :: es) = (st.putCells p e.1 e.2).batchOk kw p es := by
  have hp : st.has p = true := by
    unfold St.cellsOk at hok
    simp only [Bool.and_eq_true] at hok
    exact hok.1.1
  unfold St.batchOk
  simp only [nodupNames, List.all_cons, hok, Bool.true_and, cellsOk_putCells kw st p e.1 e.2 _ hroot hp]
  rw [show (es.all fun e' => e'.1 != e.1 && st.cellsOk kw p e'.1) = _ from
    all_and_split (fun e' : String × Nat => e'.1 != e.1) (fun e' => st.cellsOk kw p e'.1) es]
  cases (es.all fun e' => e'.1 != e.1) <;> cases nodupNames es <;>
    cases (es.all fun e' => st.cellsOk kw p e'.1) <;> rfl

/-- **the loop and the atomic call are the same function** on a state without a space of empty id -/
theorem newCellsBatch_eq_seq (kw : List String) (p : Path) :
    ∀ (es : List (String × Nat)) (st : St), st.has [] = false →
      st.newCellsBatch kw p es = st.newCellsSeq kw p es := by
  intro es
  induction es with
  | nil => intro st _; rfl
  | cons e es ih =>
    intro st hroot
    rw [newCellsSeq_cons]
    cases hok : st.cellsOk kw p e.1 with
    | false =>
      unfold St.newCellsBatch St.batchOk
      simp [hok]
    | true =>
      simp only [if_true]
      rw [← ih (st.putCells p e.1 e.2) (by rw [has_putCells]; exact hroot)]
      unfold St.newCellsBatch
      rw [batchOk_cons kw st p e es hroot hok]
      rfl

/-- the Boolean of the loop says whether the sequence went through, and then the state is the same -/
theorem newCellsSeq_eq_loop (kw : List String) (p : Path) :
    ∀ (es : List (String × Nat)) (st : St),
      st.newCellsSeq kw p es =
        if (st.newCellsLoop kw p es).2 then some (st.newCellsLoop kw p es).1 else none := by
  intro es
  induction es with
  | nil => intro st; rfl
  | cons e es ih =>
    intro st
    rw [newCellsSeq_cons, newCellsLoop_cons]
    cases st.cellsOk kw p e.1 with
    | false => rfl
    | true => simp only [if_true]; exact ih _

/-- an accepted sequence: every single creation is accepted in the state the earlier ones left, and the
result is all the creations applied -/
theorem newCellsSeq_some (kw : List String) (p : Path) :
    ∀ (es : List (String × Nat)) (st st' : St), st.newCellsSeq kw p es = some st' →
      st' = st.putCellsAll p es ∧
      ∀ (k : Nat) (hk : k < es.length), (st.putCellsAll p (es.take k)).acceptsNewCells kw p es[k].1 = true := by
  intro es
  induction es with
  | nil =>
    intro st st' h
    simp only [St.newCellsSeq, Option.some.injEq] at h
    exact ⟨h.symm, fun k hk => absurd hk (Nat.not_lt_zero k)⟩
  | cons e es ih =>
    intro st st' h
    rw [newCellsSeq_cons] at h
    cases hok : st.cellsOk kw p e.1 with
    | false => rw [hok] at h; cases h
    | true =>
      rw [hok] at h
      simp only [if_true] at h
      obtain ⟨h1, h2⟩ := ih _ _ h
      refine ⟨h1, ?_⟩
      intro k hk
      cases k with
      | zero => exact hok
      | succ k => exact h2 k (Nat.lt_of_succ_lt_succ hk)

/-! ## what the loop leaves behind when it stops half-way -/

theorem mem_cells_none_of_canAdd (st : St) (p : Path) (n : String) (k : Kind) (hne : p ≠ [])
    (h : st.canAdd p n k = true) : st.mem .cells p n = none := by
  cases hm : st.mem .cells p n with
  | none => rfl
  | some m =>
    unfold St.canAdd St.kindOf at h
    rw [hm] at h
    simp [hne] at h

/-- a cells of `p` stays one through the rest of the loop, wherever the loop stops -/
theorem mem_loop_keeps (kw : List String) (p : Path) (n : String) :
    ∀ (es : List (String × Nat)) (s : St), (s.mem .cells p n).isSome = true →
      ((s.newCellsLoop kw p es).1.mem .cells p n).isSome = true := by
  intro es
  induction es with
  | nil => intro s h; exact h
  | cons e es ih =>
    intro s h
    rw [newCellsLoop_cons]
    cases hok : s.cellsOk kw p e.1 with
    | false => exact h
    | true =>
      simp only [if_true]
      apply ih
      by_cases hn : n = e.1
      · have hp : s.has p = true := by
          unfold St.cellsOk at hok
          simp only [Bool.and_eq_true] at hok
          exact hok.1.1
        rw [hn, mem_putCells_self s p e.1 e.2 ((has_iff_mem_ids s p).mp hp)]
        rfl
      · rw [mem_putCells_ne s p e.1 e.2 .cells p n hn]
        exact h

/-- **the defect of the loop**: when the first creation is accepted and a later one refused, the state the
loop leaves is not the state the call was given (the first cells is there) -/
theorem loop_refused_differs (kw : List String) (st : St) (p : Path) (e : String × Nat)
    (es : List (String × Nat)) (hroot : st.has [] = false) (hok : st.cellsOk kw p e.1 = true) :
    ((st.newCellsLoop kw p (e :: es)).1.mem .cells p e.1).isSome = true ∧ st.mem .cells p e.1 = none ∧
    (st.newCellsLoop kw p (e :: es)).1 ≠ st := by
  have hp : st.has p = true ∧ st.canAdd p e.1 .cells = true := by
    unfold St.cellsOk at hok
    simp only [Bool.and_eq_true] at hok
    exact ⟨hok.1.1, hok.2⟩
  have hne : p ≠ [] := by intro h; rw [h, hroot] at hp; cases hp.1
  have h1 : ((st.newCellsLoop kw p (e :: es)).1.mem .cells p e.1).isSome = true := by
    rw [newCellsLoop_cons, hok]
    simp only [if_true]
    apply mem_loop_keeps
    rw [mem_putCells_self st p e.1 e.2 ((has_iff_mem_ids st p).mp hp.1)]
    rfl
  have h2 := mem_cells_none_of_canAdd st p e.1 .cells hne hp.2
  refine ⟨h1, h2, ?_⟩
  intro heq
  rw [heq, h2] at h1
  cases h1

/-- no reachable state has a space of empty id -/
theorem run_no_root (kw : List String) (ops : List Op) : (St.run kw {} ops).has [] = false := by
  cases h : (St.run kw {} ops).has [] with
  | false => rfl
  | true => exact absurd rfl ((run_inv kw ops).wf.tree [] ((has_iff_mem_ids _ _).mp h)).1

end MxModel.SM
