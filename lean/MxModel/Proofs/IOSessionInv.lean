import MxModel.Proofs.IOSession
/-! The session invariant of `Kernels/IOSession.lean`: `Inv init`, preservation by every operation, `reachable_inv`. -/
namespace MxModel.IOSession

/-- what holds in every state the session reaches -/
structure Inv (st : St) : Prop where
  /-- spec identities are handed out by the counter -/
  sidLt : ∀ io ∈ st.ios, ∀ s ∈ io.specs, s.sid < st.nextSid
  iidLt : ∀ io ∈ st.ios, io.iid < st.nextIid
  /-- one identity, one value, one group -/
  det : SidDet st
  /-- a file object is registered exactly while it has a spec -/
  nonempty : NoEmptyIo st
  /-- references belong to models that were created -/
  refLt : ∀ r ∈ st.refs, r.model < st.nextModel
  /-- `_get_io_key`: the session-wide group holds the absolute paths and nothing else -/
  wellKeyed : ∀ io ∈ st.ios, io.group.isNone = io.path.abs

theorem inv_init : Inv {} :=
  ⟨by simp, by simp, by simp [SidDet], by simp [NoEmptyIo], by simp, by simp⟩

/-- `l'` is `l` with specs / file objects taken away -/
def Shrinks (l' l : List Io) : Prop :=
  ∀ io' ∈ l', ∃ io ∈ l, io'.iid = io.iid ∧ io'.group = io.group ∧ io'.path = io.path ∧
    (∀ s ∈ io'.specs, s ∈ io.specs) ∧ (io.specs ≠ [] → io'.specs ≠ [])

theorem shrinks_refl (l : List Io) : Shrinks l l :=
  fun io h => ⟨io, h, rfl, rfl, rfl, fun _ hs => hs, fun h => h⟩

theorem shrinks_trans {a b c : List Io} (h1 : Shrinks a b) (h2 : Shrinks b c) : Shrinks a c := by
  intro x hx
  rcases h1 x hx with ⟨y, hy, e1, e2, e3, e4, e5⟩
  rcases h2 y hy with ⟨z, hz, f1, f2, f3, f4, f5⟩
  exact ⟨z, hz, e1.trans f1, e2.trans f2, e3.trans f3, fun s hs => f4 s (e4 s hs), fun h => e5 (f5 h)⟩

theorem shrinks_filter (p : Io → Bool) (l : List Io) : Shrinks (l.filter p) l :=
  fun io h => ⟨io, (List.mem_filter.1 h).1, rfl, rfl, rfl, fun _ hs => hs, fun h => h⟩

theorem shrinks_dropSids (d : List Nat) (l : List Io) : Shrinks (l.filterMap (Io.dropSids d)) l := by
  intro io' h
  rcases List.mem_filterMap.1 h with ⟨io, hio, hd⟩
  obtain ⟨heq, hne⟩ := dropSids_eq_some hd
  refine ⟨io, hio, by rw [heq], by rw [heq], by rw [heq], ?_, hne⟩
  intro s hs
  rw [heq] at hs
  exact (List.mem_filter.1 hs).1

theorem inv_shrink {st st' : St} (h : Inv st) (hs : Shrinks st'.ios st.ios)
    (h1 : st'.nextSid = st.nextSid) (h2 : st'.nextIid = st.nextIid)
    (h3 : ∀ r ∈ st'.refs, r.model < st'.nextModel) : Inv st' := by
  refine ⟨?_, ?_, ?_, ?_, h3, ?_⟩
  · intro io' hio' s hsm
    rcases hs io' hio' with ⟨io, hio, _, _, _, hsub, _⟩
    rw [h1]; exact h.sidLt io hio s (hsub s hsm)
  · intro io' hio'
    rcases hs io' hio' with ⟨io, hio, e, _⟩
    rw [h2, e]; exact h.iidLt io hio
  · intro io1 m1 s hs1 io2 m2 s' hs2 e
    rcases hs io1 m1 with ⟨a, ha, _, hga, _, hsa, _⟩
    rcases hs io2 m2 with ⟨b, hb, _, hgb, _, hsb, _⟩
    have := h.det a ha s (hsa s hs1) b hb s' (hsb s' hs2) e
    exact ⟨this.1, by rw [hga, hgb]; exact this.2⟩
  · intro io' hio'
    rcases hs io' hio' with ⟨io, hio, _, _, _, _, hne⟩
    exact hne (h.nonempty io hio)
  · intro io' hio'
    rcases hs io' hio' with ⟨io, hio, _, eg, ep, _⟩
    rw [eg, ep]; exact h.wellKeyed io hio

theorem inv_delSids {st : St} (h : Inv st) (d : List Nat) : Inv (delSids st d) :=
  inv_shrink h (shrinks_dropSids d st.ios) rfl rfl h.refLt

theorem inv_release {st : St} (h : Inv st) (m v : Nat) : Inv (release st m v) := by
  unfold release
  split
  · exact h
  · split
    · exact inv_delSids h _
    · exact h

theorem inv_closeModel {st : St} (h : Inv st) (m : Nat) : Inv (closeModel st m) := by
  unfold closeModel
  split
  · exact inv_shrink h (shrinks_dropSids _ st.ios) rfl rfl h.refLt
  · exact h

theorem inv_setRefs {st : St} (h : Inv st) (r' : List Ref) (hr : ∀ r ∈ r', r.model < st.nextModel) :
    Inv { st with refs := r' } :=
  inv_shrink h (shrinks_refl _) rfl rfl hr

theorem inv_bind {st : St} (h : Inv st) {m : Nat} (hm : m < st.nextModel) (n : String) (v : Nat) :
    Inv (bind st m n v) := by
  unfold bind
  split
  · apply inv_setRefs h
    intro r hr
    rcases List.mem_append.1 hr with hr | hr
    · exact h.refLt r hr
    · simp only [List.mem_singleton] at hr
      rw [hr]; exact hm
  · apply inv_release
    apply inv_setRefs h
    intro r hr
    rcases List.mem_map.1 hr with ⟨r0, hr0, e⟩
    split at e
    · rw [← e]; exact hm
    · rw [← e]; exact h.refLt r0 hr0

theorem inv_unbind {st : St} (h : Inv st) (m : Nat) (n : String) : Inv (unbind st m n).1 := by
  unfold unbind
  split
  · exact h
  · apply inv_release
    apply inv_setRefs h
    intro r hr
    exact h.refLt r (List.mem_filter.1 hr).1

/-- `new_spec`: where the specs of the new state come from -/
theorem addSpec_specs {st st' : St} {m : Nat} {p : Path} {multi : Bool} {sheet : Option String} {v : Nat}
    (ha : addSpec st m p multi sheet v = some st') :
    st'.refs = st.refs ∧ st'.nextModel = st.nextModel ∧ st'.opened = st.opened ∧
    st'.nextSid = st.nextSid + 1 ∧ st.nextIid ≤ st'.nextIid ∧
    (∀ io' ∈ st'.ios, ∀ s ∈ io'.specs,
      (s = ⟨st.nextSid, v, sheet⟩ ∧ io'.group = keyGroup m p) ∨
      (∃ io ∈ st.ios, s ∈ io.specs ∧ io.group = io'.group)) ∧
    (∀ io' ∈ st'.ios,
      ((∃ io ∈ st.ios, io'.iid = io.iid ∧ io'.group = io.group ∧ io'.path = io.path ∧
          (io.specs ≠ [] → io'.specs ≠ [])) ∨
       (io'.iid = st.nextIid ∧ st'.nextIid = st.nextIid + 1 ∧ io'.group = keyGroup m p ∧ io'.path = p ∧
          io'.specs ≠ []))) := by
  unfold addSpec at ha
  split at ha
  · rename_i io0 hfind
    split at ha
    · simp only [Option.some.injEq] at ha
      subst ha
      refine ⟨rfl, rfl, rfl, rfl, Nat.le_refl _, ?_, ?_⟩
      · intro io' hio' s hs
        rcases List.mem_map.1 hio' with ⟨x, hx, e⟩
        split at e
        · rename_i hk
          subst e
          simp only [List.mem_append, List.mem_singleton] at hs
          rcases hs with hs | hs
          · exact Or.inr ⟨x, hx, hs, rfl⟩
          · refine Or.inl ⟨hs, ?_⟩
            simp only [hasKey, Bool.and_eq_true, beq_iff_eq] at hk
            exact hk.1
        · subst e
          exact Or.inr ⟨x, hx, hs, rfl⟩
      · intro io' hio'
        rcases List.mem_map.1 hio' with ⟨x, hx, e⟩
        split at e
        · subst e
          exact Or.inl ⟨x, hx, rfl, rfl, rfl, fun _ => by simp⟩
        · subst e
          exact Or.inl ⟨x, hx, rfl, rfl, rfl, fun h => h⟩
    · simp at ha
  · simp only [Option.some.injEq] at ha
    subst ha
    refine ⟨rfl, rfl, rfl, rfl, Nat.le_succ _, ?_, ?_⟩
    · intro io' hio' s hs
      rcases List.mem_append.1 hio' with h | h
      · exact Or.inr ⟨io', h, hs, rfl⟩
      · simp only [List.mem_singleton] at h
        subst h
        simp only [List.mem_singleton] at hs
        exact Or.inl ⟨hs, rfl⟩
    · intro io' hio'
      rcases List.mem_append.1 hio' with h | h
      · exact Or.inl ⟨io', h, rfl, rfl, rfl, fun h => h⟩
      · simp only [List.mem_singleton] at h
        subst h
        exact Or.inr ⟨rfl, rfl, rfl, rfl, by simp⟩

theorem keyGroup_wellKeyed (m : Nat) (p : Path) : (keyGroup m p).isNone = p.abs := by
  unfold keyGroup; cases p.abs <;> simp

theorem inv_addSpec {st st' : St} (h : Inv st) {m : Nat} {p : Path} {multi : Bool} {sheet : Option String} {v : Nat}
    (ha : addSpec st m p multi sheet v = some st') : Inv st' := by
  obtain ⟨hr, hnm, _, hsid, hiid, hspecs, hios⟩ := addSpec_specs ha
  refine ⟨?_, ?_, ?_, ?_, ?_, ?_⟩
  · intro io' hio' s hs
    rw [hsid]
    rcases hspecs io' hio' s hs with ⟨e, _⟩ | ⟨io, hio, hsm, _⟩
    · rw [e]; exact Nat.lt_succ_self _
    · exact Nat.lt_succ_of_lt (h.sidLt io hio s hsm)
  · intro io' hio'
    rcases hios io' hio' with ⟨io, hio, e, _⟩ | ⟨e, e2, _⟩
    · rw [e]; exact Nat.lt_of_lt_of_le (h.iidLt io hio) hiid
    · rw [e, e2]; exact Nat.lt_succ_self _
  · intro io1 m1 s hs1 io2 m2 s' hs2 e
    rcases hspecs io1 m1 s hs1 with ⟨e1, g1⟩ | ⟨a, ha', hsa, ga⟩
    · rcases hspecs io2 m2 s' hs2 with ⟨e2, g2⟩ | ⟨b, hb, hsb, gb⟩
      · exact ⟨by rw [e1, e2], by rw [g1, g2]⟩
      · have := h.sidLt b hb s' hsb
        rw [← e, e1] at this
        exact absurd this (Nat.lt_irrefl _)
    · rcases hspecs io2 m2 s' hs2 with ⟨e2, g2⟩ | ⟨b, hb, hsb, gb⟩
      · have := h.sidLt a ha' s hsa
        rw [e, e2] at this
        exact absurd this (Nat.lt_irrefl _)
      · have := h.det a ha' s hsa b hb s' hsb e
        exact ⟨this.1, by rw [← ga, ← gb]; exact this.2⟩
  · intro io' hio'
    rcases hios io' hio' with ⟨io, hio, _, _, _, hne⟩ | ⟨_, _, _, _, hne⟩
    · exact hne (h.nonempty io hio)
    · exact hne
  · intro r hr'
    rw [hr] at hr'; rw [hnm]; exact h.refLt r hr'
  · intro io' hio'
    rcases hios io' hio' with ⟨io, hio, _, eg, ep, _⟩ | ⟨_, _, eg, ep, _⟩
    · rw [eg, ep]; exact h.wellKeyed io hio
    · rw [eg, ep]; exact keyGroup_wellKeyed m p

theorem inv_newSpec {st : St} (h : Inv st) {m : Nat} (hm : m < st.nextModel) (n : String) (p : Path)
    (multi : Bool) (sheet : Option String) (v : Nat) : Inv (newSpec st m n p multi sheet v).1 := by
  unfold newSpec
  split
  · exact h
  · split
    · exact h
    · rename_i st' ha
      exact inv_bind (inv_addSpec h ha) (by rw [(addSpec_specs ha).2.1]; exact hm) n v

theorem readSpecs_frame (m : Nat) : ∀ (items : List Item) (st : St) (acc : List Nat), Inv st →
    Inv (readSpecs st m items acc).1 ∧ (readSpecs st m items acc).1.nextModel = st.nextModel ∧
    (readSpecs st m items acc).1.refs = st.refs
  | [], st, acc, h => ⟨h, rfl, rfl⟩
  | it :: rest, st, acc, h => by
    unfold readSpecs
    split
    · exact ⟨h, rfl, rfl⟩
    · rename_i st' ha
      obtain ⟨i1, i2, i3⟩ := readSpecs_frame m rest st' (acc ++ [st.nextSid]) (inv_addSpec h ha)
      exact ⟨i1, i2.trans (addSpec_specs ha).2.1, i3.trans (addSpec_specs ha).1⟩

theorem bind_nextModel (st : St) (m : Nat) (n : String) (v : Nat) : (bind st m n v).nextModel = st.nextModel := by
  unfold bind
  split
  · rfl
  · unfold release
    split
    · rfl
    · split <;> rfl

theorem bindItems_frame (m : Nat) : ∀ (items : List Item) (st : St), Inv st → m < st.nextModel →
    Inv (bindItems st m items) ∧ (bindItems st m items).nextModel = st.nextModel
  | [], st, h, _ => ⟨h, rfl⟩
  | it :: rest, st, h, hm => by
    unfold bindItems
    split
    · obtain ⟨i1, i2⟩ := bindItems_frame m rest (bind st m it.name it.val) (inv_bind h hm _ _)
        (by rw [bind_nextModel]; exact hm)
      exact ⟨i1, i2.trans (bind_nextModel _ _ _ _)⟩
    · exact bindItems_frame m rest st h hm

theorem inv_cleanup {st : St} (h : Inv st) (m : Nat) (snapshot read : List Nat) :
    Inv (cleanup st m snapshot read) :=
  inv_shrink (inv_delSids (inv_closeModel h m) read) (shrinks_filter _ _) rfl rfl
    (inv_delSids (inv_closeModel h m) read).refLt

theorem inv_load {st : St} (h : Inv st) (items : List Item) (ok : Bool) : Inv (load st items ok).1 := by
  unfold load
  split
  · exact h
  · have h1 : Inv { st with opened := st.opened ++ [st.nextModel], nextModel := st.nextModel + 1 } :=
      inv_shrink h (shrinks_refl _) rfl rfl (fun r hr => Nat.lt_succ_of_lt (h.refLt r hr))
    obtain ⟨i1, i2, _⟩ := readSpecs_frame st.nextModel items _ [] h1
    have hm := Nat.lt_of_lt_of_eq (Nat.lt_succ_self st.nextModel) i2.symm
    dsimp only
    split
    · exact (bindItems_frame st.nextModel _ _ i1 hm).1
    · exact inv_cleanup (bindItems_frame st.nextModel _ _ i1 hm).1 _ _ _

theorem inv_step {st : St} (h : Inv st) (op : Op) : Inv (step st op) := by
  unfold step stepR
  cases op with
  | newModel => exact inv_shrink h (shrinks_refl _) rfl rfl (fun r hr => Nat.lt_succ_of_lt (h.refLt r hr))
  | close m => simp only; split; exact inv_closeModel h m; exact h
  | newSpec m n p multi sheet v => simp only; split; exact inv_newSpec h (by assumption) _ _ _ _ _; exact h
  | bind m n v => simp only; split; exact inv_bind h (by assumption) _ _; exact h
  | unbind m n => simp only; split; exact inv_unbind h m n; exact h
  | load items ok => exact inv_load h items ok

/-- **every state the session reaches satisfies the invariant** -/
theorem reachable_inv (ops : List Op) : Inv (run {} ops) := by
  suffices ∀ st, Inv st → Inv (run st ops) from this _ inv_init
  induction ops with
  | nil => intro st h; exact h
  | cons op rest ih => intro st h; exact ih _ (inv_step h op)

theorem release_nextSid (st : St) (m v : Nat) : (release st m v).nextSid = st.nextSid := by
  unfold release
  split
  · rfl
  · split <;> rfl

theorem bind_nextSid (st : St) (m : Nat) (n : String) (v : Nat) : (bind st m n v).nextSid = st.nextSid := by
  unfold bind
  split
  · rfl
  · rw [release_nextSid]

theorem bindItems_nextSid (m : Nat) : ∀ (items : List Item) (st : St), (bindItems st m items).nextSid = st.nextSid
  | [], _ => rfl
  | it :: rest, st => by
    unfold bindItems
    split
    · rw [bindItems_nextSid m rest, bind_nextSid]
    · exact bindItems_nextSid m rest st

/-- `AbsPrivate` for every pair of models of the session - a decidable predicate on the state -/
def AbsPrivateAll (st : St) : Prop :=
  ∀ m, m < st.nextModel → ∀ m', m' < st.nextModel → m ≠ m' → AbsPrivate st m m'

instance (st : St) : Decidable (AbsPrivateAll st) := by unfold AbsPrivateAll; infer_instance

theorem boundIn_lt {st : St} (h : Inv st) {m v : Nat} (hb : boundIn st.refs m v = true) : m < st.nextModel := by
  simp only [boundIn, List.any_eq_true, Bool.and_eq_true, beq_iff_eq] at hb
  rcases hb with ⟨r, hr, hm, _⟩
  rw [← hm]; exact h.refLt r hr

theorem absPrivate_of_all {st : St} (h : Inv st) (hall : AbsPrivateAll st) (m m' : Nat) (hne : m ≠ m') :
    AbsPrivate st m m' := by
  intro io hio hg s hs s' hs' hb hb'
  exact hall m (boundIn_lt h hb) m' (boundIn_lt h hb') hne io hio hg s hs s' hs' hb hb'

end MxModel.IOSession
