import MxModel.Proofs.EditMachineOps
/-!
# Coverage for the edits that re-derive whole spaces: `remove_bases`, `add_bases`, `new_space`

`update_subs` / `_update_derived_space` re-inherit EVERY derived member of every walked space
(`UserSpaceImpl.on_inherit`), so inside the walked spaces the clearing covers whatever changes;
what has to be shown is the frame: a space that is not walked keeps its member tables – its
linearisation runs through spaces whose direct bases did not change (`tail_eq_of_mro_transfer`) and
no definition changed – and the defined members of the walked spaces stay as they are.
-/
namespace MxModel.Edit
open MxModel.Exec MxModel.C02 MxModel.SM

variable (kw : List String) (t : Tabs)

/-- a defined member stays when no definition of its space changes -/
theorem own_same {st st' : SM.St} (hi' : Inv st') {a : Attr} {q : Path} {n : String} {m : Member}
    (hm : st.mem a q n = some m) (hd : m.derived = false) (hdef : st'.defd a q n = st.defd a q n) :
    st'.mem a q n = some m := by
  have h1 : st.defd a q n = some m.payload := by
    unfold St.defd; rw [hm]; simp [hd]
  rw [hi'.mem_eq_derivation, hdef, h1]
  obtain ⟨d, pl⟩ := m
  simp only at hd
  subst hd
  rfl

theorem mem_ids_of_mem_cellsOf {st : SM.St} {q : Path} {c : CellId} (h : c ∈ cellsOf t st q) : q ∈ st.ids := by
  unfold cellsOf conts at h
  cases hf : st.find q with
  | none => rw [hf] at h; simp at h
  | some s => exact (find_isSome_iff st q).mp (by rw [hf]; rfl)

/-- same linearisation and same definitions along it: same member table -/
theorem mem_eq_of_tail {st st' : SM.St} (hi : Inv st) (hi' : Inv st') (q : Path) (htail : st'.tail q = st.tail q)
    (hdef : ∀ a b n, b ∈ q :: st.tail q → st'.defd a b n = st.defd a b n) (a : Attr) (n : String) :
    st'.mem a q n = st.mem a q n := by
  rw [hi'.mem_eq_derivation, hi.mem_eq_derivation, htail, hdef a q n (by simp),
    firstDef_congr st st' a _ n (fun b hb => hdef a b n (List.mem_cons_of_mem _ hb))]

/-- **the clearing of a re-derivation of the spaces `ds` covers every change, given the frame** -/
theorem covers_update {st st' : SM.St} (hi : Inv st) (hi' : Inv st') (ds : List Path) (cl : List Clear)
    (hsub : ∀ k ∈ updateClears t st st' ds, k ∈ cl)
    (hF : ∀ q, q ∈ st.ids → q ∉ ds → ∀ a n, st'.mem a q n = st.mem a q n)
    (hD : ∀ a q n, q ∈ ds → st'.defd a q n = st.defd a q n)
    (hC : ∀ q, st'.childNames q ≠ st.childNames q → Clear.ns (cellsOf t st q) ∈ cl)
    (hG : st'.globals = st.globals) :
    Covers t st st' cl := by
  have walked : ∀ a q n, q ∈ st.ids → st'.mem a q n ≠ st.mem a q n → q ∈ ds := by
    intro a q n hq hne
    apply Classical.byContradiction
    intro hqd
    exact hne (hF q hq hqd a n)
  have derived : ∀ a q n m, q ∈ ds → st.mem a q n = some m → st'.mem a q n ≠ some m → m.derived = true := by
    intro a q n m hq hm hne
    cases hd : m.derived with
    | true => rfl
    | false => exact absurd (own_same hi' hm hd (hD a q n hq)) hne
  refine ⟨?_, ?_, ?_, ?_⟩
  · intro q x hm hne
    have hq : q ∈ st.ids := mem_ids_of_isSome st .cells q x hm
    by_cases hch : st'.childNames q = st.childNames q
    · obtain ⟨a', y, hdiff⟩ := nsAt_changed t q hch hG hne
      have hqd : q ∈ ds := walked a' q y hq (fun h => hdiff (by rw [h]))
      refine touchedBy_of_ns (L := cellsOf t st q) (hsub _ ?_) (mem_cellsOf t st q x hm)
      cases a' with
      | cells => exact mem_updateClears_ns_cells t hqd hdiff
      | refs => exact mem_updateClears_ns_refs t hqd (Or.inr hdiff)
    · exact touchedBy_of_ns (hC q hch) (mem_cellsOf t st q x hm)
  · intro q x hm hne
    have hq : q ∈ st.ids := mem_ids_of_isSome st .cells q x hm
    have hqd := walked .cells q x hq hne
    cases hmm : st.mem .cells q x with
    | none => rw [hmm] at hm; cases hm
    | some m =>
      have hder := derived .cells q x m hqd hmm (by rw [← hmm]; exact hne)
      exact clearedBy_of_obj (hsub _ (mem_updateClears_obj t hqd hmm hder))
  · intro q x hne c hc
    have hq : q ∈ st.ids := mem_ids_of_mem_cellsOf t hc
    have hqd := walked .refs q x hq hne
    refine touchedBy_of_ns (L := cellsOf t st q) (hsub _ ?_) hc
    cases hmm : st.mem .refs q x with
    | none =>
      refine mem_updateClears_ns_refs t (n := x) hqd (Or.inr ?_)
      rw [hmm]
      cases hm' : st'.mem .refs q x with
      | none => rw [hmm, hm'] at hne; exact absurd rfl hne
      | some m' => simp
    | some m =>
      have hder := derived .refs q x m hqd hmm (by rw [← hmm]; exact hne)
      exact mem_updateClears_ns_refs t hqd (Or.inl ⟨m, hmm, hder⟩)
  · intro q x hne hs
    have hq : q ∈ st.ids := mem_ids_of_isSome st .refs q x hs
    have hqd := walked .refs q x hq hne
    cases hmm : st.mem .refs q x with
    | none => rw [hmm] at hs; cases hs
    | some m =>
      have hder := derived .refs q x m hqd hmm (by rw [← hmm]; exact hne)
      exact hsub _ (mem_updateClears_attr t hqd hmm hder)

theorem length_of_ids_eq {st st' : SM.St} (h : st'.ids = st.ids) : st.spaces.length = st'.spaces.length := by
  have := congrArg List.length h
  simp only [St.ids, List.length_map] at this
  exact this.symm

theorem childNames_of_ids_eq {st st' : SM.St} (h : st'.ids = st.ids) (q : Path) :
    st'.childNames q = st.childNames q := by
  rw [childNames_eq, childNames_eq, h]

/-- **`remove_bases`** -/
theorem covers_removeBases {st st' : SM.St} (hi : Inv st) (hi' : Inv st') (p : Path) (bs : List Path)
    (hop : st.removeBases p bs = some st') :
    Covers t st st' (clearing kw t st st' (.removeBases p bs)) := by
  have R := removeBases_spec st st' (keysOK_of_inv hi) p bs hop
  refine covers_update t hi hi' (p :: st.subs p) _ (fun k hk => hk) ?_ (fun a q n _ => R.defs a q n)
    (fun q hch => absurd (childNames_of_ids_eq R.ids q) hch) R.globals
  intro q hq hqd a n
  refine mem_eq_of_tail hi hi' q ?_ (fun a b n _ => R.defs a b n) a n
  refine tail_eq_of_mro_transfer st st' q (hi.wf.mro_all q) ?_ (Nat.le_of_eq (length_of_ids_eq R.ids))
  intro x hx
  have hxp : x ≠ p := by
    simp only [List.mem_cons] at hx
    rcases hx with rfl | hx
    · exact fun e => hqd (by simp [e])
    · exact fun e => hi.wf.tail_avoids p q x hqd hx (by simp [e])
  rw [R.basesOf x, if_neg hxp]

/-- **`add_bases`** -/
theorem covers_addBases {st st' : SM.St} (hi : Inv st) (hi' : Inv st') (p : Path) (bs : List Path)
    (hop : st.addBases p bs = some st') :
    Covers t st st' (clearing kw t st st' (.addBases p bs)) := by
  have R := addBases_spec st st' (keysOK_of_inv hi) p bs hop
  refine covers_update t hi hi' (p :: st'.subs p) _ (fun k hk => hk) ?_ (fun a q n _ => R.defs a q n)
    (fun q hch => absurd (childNames_of_ids_eq R.ids q) hch) R.globals
  intro q hq hqd a n
  have htail : st.tail q = st'.tail q := by
    refine tail_eq_of_mro_transfer st' st q (hi'.wf.mro_all q) ?_ (Nat.le_of_eq (length_of_ids_eq R.ids).symm)
    intro x hx
    have hxp : x ≠ p := by
      simp only [List.mem_cons] at hx
      rcases hx with rfl | hx
      · exact fun e => hqd (by simp [e])
      · exact fun e => hi'.wf.tail_avoids p q x hqd hx (by simp [e])
    rw [R.basesOf x, if_neg hxp]
  exact mem_eq_of_tail hi hi' q htail.symm (fun a b n _ => R.defs a b n) a n

/-- **`new_space`** (with bases and constructor references): no cells that exists is affected; the
namespace of the parent notifies -/
theorem covers_newSpace {st st' : SM.St} (hi : Inv st) (hi' : Inv st') (parent : Path) (name : String)
    (bases : List Path) (refs : List (String × Nat))
    (hop : st.newSpaceRefs kw parent name bases refs = some st') :
    Covers t st st' (clearing kw t st st' (.newSpace parent name bases refs)) := by
  obtain ⟨hfresh, hids, hglob, hbases, hdefs⟩ :=
    newSpaceRefs_spec kw st st' (keysOK_of_inv hi) parent name bases refs hop
  have hold : ∀ x, x ∈ st.ids → x ≠ parent ++ [name] := fun x hx e => hfresh (e ▸ hx)
  refine covers_update t hi hi' [] _ (fun k hk => by simp [updateClears] at hk) ?_
    (fun a q n hq => nomatch hq) ?_ hglob
  · intro q hq _ a n
    have hlen : st.spaces.length ≤ st'.spaces.length := by
      have := congrArg List.length hids
      simp only [St.ids, List.length_map, List.length_append, List.length_singleton] at this
      omega
    have hmem : ∀ x ∈ q :: st.tail q, x ∈ st.ids := by
      intro x hx
      simp only [List.mem_cons] at hx
      rcases hx with rfl | hx
      · exact hq
      · exact hi.wf.tail_mem_ids q x hx
    refine mem_eq_of_tail hi hi' q ?_ ?_ a n
    · refine tail_eq_of_mro_transfer st st' q (hi.wf.mro_all q) ?_ hlen
      intro x hx
      rw [hbases x, if_neg (hold x (hmem x hx))]
    · intro a b n hb
      rw [hdefs a b n, if_neg (fun h => hold b (hmem b hb) h.1)]
  · intro q hch
    have hq : q = parent := by
      apply Classical.byContradiction
      intro hne
      apply hch
      rw [childNames_eq, childNames_eq, hids, List.filterMap_append]
      have : (parent ++ [name]).dropLast = parent := by simp
      simp [this, Ne.symm hne]
    subst hq
    simp [clearing]

end MxModel.Edit
