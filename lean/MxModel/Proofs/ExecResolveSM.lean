import MxModel.Proofs.ExecResolve
import MxModel.Proofs.StructMechFrame
/-!
# Inheritance: the structural mechanism model as a source of namespaces

`nsOf ids st q`: the namespace of space `q` in the structural state `st` (`Struct/Mech.lean`) – its
cells (own and derived), then its references (own and derived), then the model-level references;
the name of a child space is not a value of the value layer (unbound here).  Members get
identities per space (`Ids`): a derived cells of a sub space is a cells of its own.

For `new_cells`, `set_cells_property` and `del_cells` / `del_ref` the namespace of every space
outside `St.touched st p` (the space of the edit and the walked sub spaces) is unchanged
(`nsOf_frame`, from `Proofs/StructMechFrame.lean`).  Hence (`mech_edit_ci`): if the clearing
notifies every cells living in a touched space – in `p` AND in every sub space – no stale value
survives, in sub spaces either.
-/
namespace MxModel.SM
open MxModel.Exec

/-- identities of members, per space -/
structure Ids where
  cid : Path → String → CellId
  rid : Path → String → RefId
  gid : String → RefId

def nsOf (ids : Ids) (st : St) (q : Path) : Ns := fun x =>
  if (st.mem .cells q x).isSome then some (.cell (ids.cid q x))
  else if (st.childNames q).contains x then none
  else if (st.mem .refs q x).isSome then some (.ref (ids.rid q x))
  else if st.globals.contains x then some (.ref (ids.gid x))
  else none

theorem nsOf_frame (ids : Ids) {st st' : St} {p : Path} (h : Frame st st' p) (q : Path)
    (hq : q ∉ st.touched p) : nsOf ids st' q = nsOf ids st q := by
  funext x
  unfold nsOf
  rw [St.mem_eq, St.mem_eq, h.cont .cells q hq, h.cont .refs q hq, h.shape.childNames, h.shape.globals,
    ← St.mem_eq, ← St.mem_eq]

/-- **a space whose namespace differs after the edit is `p` or a walked sub space** -/
theorem nsOf_changed_in_touched (ids : Ids) {st st' : St} {p : Path} (h : Frame st st' p) (q : Path)
    (hne : nsOf ids st' q ≠ nsOf ids st q) : q ∈ st.touched p := by
  apply Classical.byContradiction
  intro hq
  exact hne (nsOf_frame ids h q hq)

variable {lt : Node → Node → Prop}

/-- the source-level definitions whose namespaces are those of the structural state `st`
(`pathOf`: the numbering of the spaces) -/
def withStruct (se : SEnv) (ids : Ids) (pathOf : Nat → Path) (st : St) : SEnv :=
  se.withNss (fun sp => nsOf ids st (pathOf sp))

/-- **C02 / C13 for inheritance.**  A structural edit `st ↦ st'` with the frame property for `p`
(`newCells_frame`, `setFormula_frame`, `delMember_frame`); the clearing notifies the cells in `L`;
every cells living in a touched space – `p` or a sub space, derived cells included – is notified or
has no node; a cells of a touched space that holds an input still exists.  Then the certificate
invariant holds for the definitions resolved in the NEW namespaces. -/
theorem mech_edit_ci (se : SEnv) (ids : Ids) (pathOf : Nat → Path) (st st' : St) (p : Path)
    (hf : Frame st st' p) (L : List CellId) {s : Exec.St}
    (h : CI (withStruct se ids pathOf st).toEnv lt s)
    (hL : ∀ c, pathOf (se.home c) ∈ st.touched p → c ∈ L ∨ ∀ x ∈ s.gn, x.cell ≠ c)
    (hinp : ∀ n ∈ s.inputs, pathOf (se.home n.1) ∈ st.touched p →
      (withStruct se ids pathOf st').toEnv.alive n.1 = true) :
    CI (withStruct se ids pathOf st').toEnv lt (s.notifyAll (withStruct se ids pathOf st).toEnv L) := by
  have := nsEdit_ci (withStruct se ids pathOf st) (fun sp => nsOf ids st' (pathOf sp))
    (fun sp => pathOf sp ∈ st.touched p) L h
    (fun sp hsp => nsOf_frame ids hf (pathOf sp) hsp) hL hinp
  exact this

/-- the same with the `clear_obj` of the cells that go (the deleted cells and its derived copies in
the sub spaces, `CL`) made explicit: every cells of a touched space is notified or was cleared;
those that were not cleared and hold an input still exist. -/
theorem mech_edit_cleared_ci (se : SEnv) (ids : Ids) (pathOf : Nat → Path) (st st' : St) (p : Path)
    (hf : Frame st st' p) (CL L : List CellId) {s : Exec.St}
    (h : CI (withStruct se ids pathOf st).toEnv lt s)
    (hL : ∀ c, pathOf (se.home c) ∈ st.touched p → c ∈ L ∨ c ∈ CL)
    (hinp : ∀ n ∈ s.inputs, pathOf (se.home n.1) ∈ st.touched p → n.1 ∉ CL →
      (withStruct se ids pathOf st').toEnv.alive n.1 = true) :
    CI (withStruct se ids pathOf st').toEnv lt
      ((CL.foldl Exec.St.clearObj s).notifyAll (withStruct se ids pathOf st).toEnv L) := by
  obtain ⟨h1, h2, h3⟩ := clearObjs_ci h CL
  refine mech_edit_ci se ids pathOf st st' p hf L h1 ?_ ?_
  · intro c hc
    rcases hL c hc with hl | hl
    · exact Or.inl hl
    · exact Or.inr (h3 c hl)
  · intro n hn hN
    have hheld := h1.gi.inputsHeld n hn
    have hgn := (h1.gi.heldNodes n hheld).1
    have hnot : n.1 ∉ CL := fun hc => h3 n.1 hc _ hgn rfl
    refine hinp n ?_ hN hnot
    -- inputs only shrink under `clear_obj`
    have hsub : ∀ (CL : List CellId) (s : Exec.St), ∀ m ∈ (CL.foldl Exec.St.clearObj s).inputs, m ∈ s.inputs := by
      intro CL
      induction CL with
      | nil => intro s m hm; exact hm
      | cons c0 CL ih =>
        intro s m hm
        simp only [List.foldl_cons] at hm
        have := ih _ m hm
        simp only [Exec.St.clearObj, Exec.St.dropValues, Exec.St.rgRemoveReferred, Exec.St.removeNodes,
          List.mem_filter] at this
        exact this.1
    exact hsub CL s n hn

theorem mech_newCells_ci (kw : List String) (se : SEnv) (ids : Ids) (pathOf : Nat → Path) (st st' : St)
    (p : Path) (name : String) (v : Nat) (hop : st.newCells kw p name v = some st') (L : List CellId)
    {s : Exec.St} (h : CI (withStruct se ids pathOf st).toEnv lt s)
    (hL : ∀ c, pathOf (se.home c) ∈ st.touched p → c ∈ L ∨ ∀ x ∈ s.gn, x.cell ≠ c)
    (hinp : ∀ n ∈ s.inputs, pathOf (se.home n.1) ∈ st.touched p →
      (withStruct se ids pathOf st').toEnv.alive n.1 = true) :
    CI (withStruct se ids pathOf st').toEnv lt (s.notifyAll (withStruct se ids pathOf st).toEnv L) :=
  mech_edit_ci se ids pathOf st st' p (newCells_frame kw st st' p name v hop) L h hL hinp

theorem mech_delCells_ci (se : SEnv) (ids : Ids) (pathOf : Nat → Path) (st st' : St)
    (p : Path) (name : String) (hop : st.delMember .cells p name = some st') (L : List CellId)
    {s : Exec.St} (h : CI (withStruct se ids pathOf st).toEnv lt s)
    (hL : ∀ c, pathOf (se.home c) ∈ st.touched p → c ∈ L ∨ ∀ x ∈ s.gn, x.cell ≠ c)
    (hinp : ∀ n ∈ s.inputs, pathOf (se.home n.1) ∈ st.touched p →
      (withStruct se ids pathOf st').toEnv.alive n.1 = true) :
    CI (withStruct se ids pathOf st').toEnv lt (s.notifyAll (withStruct se ids pathOf st).toEnv L) :=
  mech_edit_ci se ids pathOf st st' p (delMember_frame st st' .cells p name hop) L h hL hinp

end MxModel.SM
