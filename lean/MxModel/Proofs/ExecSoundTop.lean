import MxModel.Proofs.ExecSound
import MxModel.Proofs.ExecGhost
/-!
# Top-level calls: soundness and completeness relative to "the limit is not hit in THIS call"

`evalTop_sound_flag` / `evalTop_complete_flag` are the statements relative to the sticky ghost flag
(flag down before, flag down after).  Because the flag is a ghost (`ExecGhost`), they transfer to
the hypothesis that speaks about the evaluation at hand only: `LimitNotCaughtInThisCall` – the same
evaluation, started with the flag lowered, ends with the flag down – whatever earlier evaluations
did to the flag.
-/
namespace MxModel.Exec

variable (env : Env) (inp : Node → Option Val)

/-- **the recursion limit is not hit during THIS top-level evaluation** (not even inside a `try`):
the evaluation from the same state with the ghost flag lowered ends with the flag down.  No
condition on earlier evaluations. -/
def LimitNotCaughtInThisCall (env : Env) (n : Node) (s : St) : Prop :=
  (evalTop env n s.clearHit).2.hit = false

/-- the hypothesis used before (flag down at the start and at the end) implies it -/
theorem LimitNotCaughtInThisCall.of_flag {env : Env} {n : Node} {s : St} (h0 : s.hit = false)
    (hend : (evalTop env n s).2.hit = false) : LimitNotCaughtInThisCall env n s := by
  unfold LimitNotCaughtInThisCall; rw [s.clearHit_of_hit_false h0]; exact hend

/-- …and conversely it determines the flag after the call -/
theorem LimitNotCaughtInThisCall.hit_after {env : Env} {n : Node} {s : St}
    (h : LimitNotCaughtInThisCall env n s) : (evalTop env n s).2.hit = s.hit := by
  rw [evalTop_hit, h, Bool.or_false]

theorem Good.clearHit {s : St} (g : Good env inp s) : Good env inp s.clearHit := ⟨g.sound, g.inputsHeld⟩

theorem Good.of_data {s s' : St} (g : Good env inp s) (hd : s'.data = s.data) : Good env inp s' :=
  ⟨fun n v hc hl => g.sound n v hc (hd ▸ hl), fun n v hc hi => hd ▸ g.inputsHeld n v hc hi⟩

theorem evalTop_sound_flag (n : Node) (s : St)
    (hg : Good env inp s) (h0 : s.hit = false)
    (hend : (evalTop env n s).2.hit = false) :
    (∀ v, (evalTop env n s).1 = .ok v → Den env inp n (.ok v)) ∧
    (∀ e tb, (evalTop env n s).1 = .formulaError e tb → Den env inp n (.err e)) ∧
    Good env inp (evalTop env n s).2 := by
  unfold evalTop at hend ⊢
  cases hl : (if env.cached n.1 = true then lookup s.data n else none) with
  | some v =>
    simp only [hl] at hend ⊢
    refine ⟨?_, ?_, hg⟩
    · intro w hw
      cases hw
      split at hl
      · rename_i hc; exact hg.sound n v hc hl
      · cases hl
    · intro e tb h; cases h
  | none =>
    simp only [hl] at hend ⊢
    have hin : s.hit = false → env.cached n.1 = true → inp n = none := by
      intro _ hc
      simp only [hc, if_true] at hl
      cases hi : inp n with
      | none => rfl
      | some v => have := hg.inputsHeld n v hc hi; rw [hl] at this; cases this
    have hok := runN_ok env inp (env.maxdepth + 1) n s (fun _ => hg) hin
    generalize runN env (env.maxdepth + 1) n s = p at hok hend
    obtain ⟨r, s1⟩ := p
    cases r with
    | ok v =>
      simp only [] at hend ⊢
      have := hok.2 hend
      refine ⟨?_, ?_, ⟨this.1.sound, this.1.inputsHeld⟩⟩
      · intro w hw; cases hw; exact this.2
      · intro e tb h; cases h
    | err e =>
      simp only [] at hend ⊢
      have := hok.2 hend
      refine ⟨?_, ?_, ⟨this.1.sound, this.1.inputsHeld⟩⟩
      · intro w hw; cases hw
      · intro e' tb h; cases h; exact this.2

theorem evalTop_complete_flag (n : Node) (s : St) (r : Res)
    (hg : Good env inp s) (h0 : s.hit = false)
    (hd : denoteN env inp (env.maxdepth + 1) n = (r, false)) :
    (evalTop env n s).2.hit = false ∧
    (∀ v, r = .ok v → (evalTop env n s).1 = .ok v) ∧
    (∀ e, r = .err e → ∃ tb, (evalTop env n s).1 = .formulaError e tb) := by
  unfold evalTop
  cases hl : (if env.cached n.1 = true then lookup s.data n else none) with
  | some v =>
    simp only []
    have hden : Den env inp n (.ok v) := by
      split at hl
      · rename_i hc; exact hg.sound n v hc hl
      · cases hl
    have := Den_det env inp n _ _ hden ⟨_, hd⟩
    subst this
    refine ⟨h0, ?_, ?_⟩
    · intro w hw; cases hw; rfl
    · intro e he; cases he
  | none =>
    simp only []
    have hin : env.cached n.1 = true → inp n = none := by
      intro hc
      simp only [hc, if_true] at hl
      cases hi : inp n with
      | none => rfl
      | some v => have := hg.inputsHeld n v hc hi; rw [hl] at this; cases this
    obtain ⟨hr, hh⟩ := runN_complete env inp (env.maxdepth + 1) n s r hg h0 hin hd
    generalize runN env (env.maxdepth + 1) n s = p at hr hh
    obtain ⟨r1, s1⟩ := p
    simp only [] at hr hh
    subst hr
    cases r1 with
    | ok v =>
      refine ⟨hh, ?_, ?_⟩
      · intro w hw; cases hw; rfl
      · intro e he; cases he
    | err e =>
      refine ⟨hh, ?_, ?_⟩
      · intro w hw; cases hw
      · intro e' he; cases he; exact ⟨_, rfl⟩

/-- soundness of a top-level call, relative to this call only -/
theorem evalTop_sound (n : Node) (s : St) (hg : Good env inp s)
    (hlim : LimitNotCaughtInThisCall env n s) :
    (∀ v, (evalTop env n s).1 = .ok v → Den env inp n (.ok v)) ∧
    (∀ e tb, (evalTop env n s).1 = .formulaError e tb → Den env inp n (.err e)) ∧
    Good env inp (evalTop env n s).2 := by
  obtain ⟨h1, h2, h3⟩ := evalTop_sound_flag env inp n s.clearHit (hg.clearHit env inp) rfl hlim
  rw [evalTop_fst_clearHit] at h1 h2
  exact ⟨h1, h2, h3.of_data env inp (evalTop_data_clearHit env n s).1.symm⟩

/-- completeness of a top-level call: within the limit, this call does not hit it -/
theorem evalTop_complete (n : Node) (s : St) (r : Res) (hg : Good env inp s)
    (hd : denoteN env inp (env.maxdepth + 1) n = (r, false)) :
    LimitNotCaughtInThisCall env n s ∧
    (∀ v, r = .ok v → (evalTop env n s).1 = .ok v) ∧
    (∀ e, r = .err e → ∃ tb, (evalTop env n s).1 = .formulaError e tb) := by
  obtain ⟨h1, h2, h3⟩ := evalTop_complete_flag env inp n s.clearHit r (hg.clearHit env inp) rfl hd
  rw [evalTop_fst_clearHit] at h2 h3
  exact ⟨h1, h2, h3⟩

end MxModel.Exec
