import MxModel.Proofs.StructMechOps2
/-!
# Preservation of `Inv` by `removeBases` and `addBases`

Common part (`good_rebase`): the base relation changed, every space whose linearisation may have
changed is re-derived; the other spaces keep their members, their linearisation and the definitions
along it.
-/
namespace MxModel.SM
open MxModel.C3

/-- after an edit of the base relation followed by re-derivation of `ds` -/
theorem good_rebase (st st1 : St) (h : Inv st) (hwf1 : WF st1)
    (hcont : ∀ a q, q ∈ st1.ids → st1.cont a q = st.cont a q) (ds : List Path)
    (htail : ∀ q ∈ st1.ids, q ∉ ds → st1.tail q = st.tail q) :
    ∀ a q n, Good1 (st1.updateAll ds) a q n := by
  apply good_updateAll_all st1 hwf1.keys
  intro a q n hq
  by_cases hqi : q ∈ st1.ids
  · have ht := htail q hqi hq
    refine (h.good a q n).congr ?_ ht ?_
    · rw [St.mem_eq, St.mem_eq, hcont a q hqi]
    · intro b hb
      have hbi : b ∈ st1.ids := hwf1.tail_mem_ids q b (by rw [ht]; exact hb)
      unfold St.defd
      rw [St.mem_eq, St.mem_eq, hcont a b hbi]
  · exact Good1.of_not_mem st1 a q n hqi

/-! ## a state that differs from `st` in the direct bases of `p` only -/

theorem cont_upd_bases (st : St) (p : Path) (g : List Path → List Path) (a : Attr) (q : Path) :
    (st.upd p (fun s => { s with bases := g s.bases })).cont a q = st.cont a q := by
  unfold St.cont
  rw [find_upd st p (fun s => { s with bases := g s.bases }) (fun _ => rfl)]
  by_cases hqp : q = p
  · subst hqp
    simp only [if_true]
    cases st.find q with
    | none => rfl
    | some s => cases a <;> rfl
  · simp [hqp]

theorem basesOf_upd_bases (st : St) (p : Path) (g : List Path → List Path) (q : Path) :
    (st.upd p (fun s => { s with bases := g s.bases })).basesOf q =
      if q = p ∧ p ∈ st.ids then g (st.basesOf p) else st.basesOf q := by
  unfold St.basesOf
  rw [find_upd st p (fun s => { s with bases := g s.bases }) (fun _ => rfl)]
  by_cases hqp : q = p
  · subst hqp
    simp only [if_true, true_and]
    cases hf : st.find q with
    | none =>
      have := (find_none_iff st q).mp hf
      simp [this]
    | some s =>
      have : q ∈ st.ids := (find_isSome_iff st q).mp (by rw [hf]; rfl)
      simp [this]
  · simp [hqp]

/-- where both states have the same linearisations -/
theorem tail_eq_of_mro_transfer (st st' : St) (q : Path) (hm : st.mro q = some (q :: st.tail q))
    (hb : ∀ x ∈ q :: st.tail q, st'.basesOf x = st.basesOf x) (hl : st.spaces.length ≤ st'.spaces.length) :
    st'.tail q = st.tail q := by
  have : st'.mro q = some (q :: st.tail q) := by
    unfold St.mro at hm ⊢
    exact mro_transfer_le st.basesOf st'.basesOf _ _ q _ hm hb (by omega)
  unfold St.tail
  rw [this]
  rfl

theorem all_mro_isSome (st : St) (h : (!st.ids.all (fun q => (st.mro q).isSome)) ≠ true) :
    ∀ q ∈ st.ids, (st.mro q).isSome = true := by
  intro q hq
  cases h' : st.ids.all (fun q => (st.mro q).isSome) with
  | true => exact List.all_eq_true.mp h' q hq
  | false => rw [h'] at h; exact absurd rfl h

/-! ## `removeBases` -/

theorem inv_removeBases (st st' : St) (h : Inv st) (p : Path) (bs : List Path)
    (hop : st.removeBases p bs = some st') : Inv st' := by
  unfold St.removeBases at hop
  split at hop
  · cases hop
  · split at hop
    · cases hop
    · simp only at hop
      split at hop
      · cases hop
      · rename_i hmro
        simp only [Option.some.injEq] at hop
        subst hop
        generalize hst1 : st.upd p (fun s => { s with bases := s.bases.filter (fun b => !bs.contains b) }) = st1
          at hmro
        have hids : st1.ids = st.ids := by rw [← hst1]; exact ids_upd st p _ (fun _ => rfl)
        have hlen : st1.spaces.length = st.spaces.length := by rw [← hst1]; exact length_upd st p _
        have hcont : ∀ a q, st1.cont a q = st.cont a q := by
          intro a q; rw [← hst1]; exact cont_upd_bases st p _ a q
        have hbases : ∀ q, st1.basesOf q =
            if q = p ∧ p ∈ st.ids then (st.basesOf p).filter (fun b => !bs.contains b) else st.basesOf q := by
          intro q; rw [← hst1]; exact basesOf_upd_bases st p _ q
        have hbsub : ∀ q, st1.basesOf q ⊆ st.basesOf q := by
          intro q b hb
          rw [hbases] at hb
          split at hb
          · rename_i hc; rw [hc.1]; exact (List.mem_filter.mp hb).1
          · exact hb
        have hwf1 : WF st1 := by
          refine ⟨by rw [hids]; exact h.wf.nodup, ?_, all_mro_isSome st1 hmro, fun a q => by
            rw [hcont]; exact h.wf.keys a q, by rw [hids]; exact h.wf.tree⟩
          intro q b hb
          rw [hids]
          exact h.wf.bases q b (hbsub q hb)
        have htail : ∀ q ∈ st1.ids, q ∉ p :: st.subs p → st1.tail q = st.tail q := by
          intro q hqi hq
          rw [hids] at hqi
          simp only [List.mem_cons, not_or] at hq
          have hpt : p ∉ st.tail q := not_mem_tail_of_not_sub p q hqi hq.1 hq.2
          apply tail_eq_of_mro_transfer st st1 q (h.wf.mro_all q) _ (by omega)
          intro x hx
          rw [hbases]
          have : x ≠ p := by
            intro e; subst e
            simp only [List.mem_cons] at hx
            rcases hx with hx | hx
            · exact hq.1 hx.symm
            · exact hpt hx
          simp [this]
        have R := rederived_updateAll st1 hwf1.keys (p :: st.subs p)
        refine ⟨hwf1.of_shape R.shape R.keys,
          good_rebase st st1 h hwf1 (fun a q _ => hcont a q) _ htail, ?_⟩
        -- names only disappear
        have hchild : ∀ q, (st1.updateAll (p :: st.subs p)).childNames q = st.childNames q := by
          intro q; rw [R.shape.childNames, childNames_eq, childNames_eq, hids]
        have hglob : (st1.updateAll (p :: st.subs p)).globals = st.globals := by
          rw [R.shape.globals, ← hst1]; rfl
        refine h.disj.mono ?_ (fun q n hn => by rw [hchild] at hn; exact hn)
          (fun n hn => by rw [hglob] at hn; exact hn)
        intro a q n hh
        have hmem1 : ∀ a q n, st1.mem a q n = st.mem a q n := by
          intro a q n; rw [St.mem_eq, St.mem_eq, hcont]
        by_cases hq : q ∈ p :: st.subs p
        · by_cases hqi : q ∈ st1.ids
          · rw [R.names a q n hq hqi] at hh
            rcases hh with hh | hh
            · unfold St.defd at hh
              rw [hmem1] at hh
              cases hmm : st.mem a q n with
              | none => rw [hmm] at hh; cases hh
              | some _ => rfl
            · cases hf : st1.firstDef a (st1.tail q) n with
              | none => rw [hf] at hh; cases hh
              | some d =>
                obtain ⟨h1, h2⟩ := firstDef_some st1 a _ n d.1 d.2 hf
                have hsub := mro_subset_of_bases_subset st.basesOf st1.basesOf hbsub _ _ q _ _
                  (h.wf.mro_all q) (hwf1.mro_all q)
                  (fun x _ => ⟨_, h.wf.mro_all x⟩)
                have hd1 : d.1 ∈ q :: st.tail q := hsub (List.mem_cons_of_mem _ h1)
                have hne : d.1 ≠ q := fun e => hwf1.not_mem_tail_self q (e ▸ h1)
                simp only [List.mem_cons, hne, false_or] at hd1
                apply h.mem_isSome_of_base a d.1 q n hd1
                unfold St.defd at h2
                rw [hmem1] at h2
                cases hmm : st.mem a d.1 n with
                | none => rw [hmm] at h2; cases h2
                | some _ => rfl
          · rw [St.mem_of_not_mem _ a q n (by rw [R.shape.ids]; exact hqi)] at hh; cases hh
        · rw [St.mem_eq, R.other a q hq, hcont, ← St.mem_eq] at hh
          exact hh

/-! ## the name-conflict check of `add_bases` / `new_space` -/

theorem mem_allNames (st : St) (a : Attr) (l : List Path) (n : String) :
    n ∈ st.allNames a l ↔ ∃ b ∈ l, (st.mem a b n).isSome = true := by
  unfold St.allNames
  simp only [List.mem_flatMap]
  constructor
  · rintro ⟨b, hb, hn⟩
    refine ⟨b, hb, ?_⟩
    rw [St.mem_eq, mget_isSome_iff]
    unfold St.cont
    cases hf : st.find b with
    | none => rw [hf] at hn; cases hn
    | some s => rw [hf] at hn; exact hn
  · rintro ⟨b, hb, hn⟩
    refine ⟨b, hb, ?_⟩
    rw [St.mem_eq, mget_isSome_iff] at hn
    unfold St.cont at hn
    cases hf : st.find b with
    | none => rw [hf] at hn; cases hn
    | some s => rw [hf] at hn; exact hn

theorem disjoint_iff (xs ys : List String) : disjoint xs ys = true ↔ ∀ x ∈ xs, x ∉ ys := by
  unfold disjoint
  simp only [List.all_eq_true, Bool.not_eq_true', List.contains_eq_mem, decide_eq_false_iff_not]

/-- the names a re-derived space has are names of its linearisation before the re-derivation -/
theorem names_in_allNames {st1 s2 : St} {ds : List Path} (R : Rederived st1 s2 ds) (d : Path)
    (hd : d ∈ ds) (hdi : d ∈ st1.ids) (a : Attr) (n : String) (h : (s2.mem a d n).isSome = true) :
    n ∈ st1.allNames a (d :: st1.tail d) := by
  rw [mem_allNames]
  rw [R.names a d n hd hdi] at h
  rcases h with h | h
  · refine ⟨d, by simp, ?_⟩
    unfold St.defd at h
    cases hmm : st1.mem a d n with
    | none => rw [hmm] at h; cases h
    | some _ => rfl
  · cases hf : st1.firstDef a (st1.tail d) n with
    | none => rw [hf] at h; cases h
    | some e =>
      obtain ⟨h1, h2⟩ := firstDef_some st1 a _ n e.1 e.2 hf
      refine ⟨e.1, List.mem_cons_of_mem _ h1, ?_⟩
      unfold St.defd at h2
      cases hmm : st1.mem a e.1 n with
      | none => rw [hmm] at h2; cases h2
      | some _ => rfl

/-- what `noConflict` gives for a re-derived space -/
theorem disj_of_noConflict {st1 s2 : St} {ds : List Path} (R : Rederived st1 s2 ds) (d : Path)
    (hd : d ∈ ds) (hdi : d ∈ st1.ids) (childs : List String)
    (hnc : st1.noConflict (d :: st1.tail d) childs = true) :
    (∀ n, (s2.mem .cells d n).isSome = true → s2.mem .refs d n = none) ∧
    (∀ n ∈ childs, s2.mem .cells d n = none ∧ s2.mem .refs d n = none) := by
  unfold St.noConflict at hnc
  simp only [Bool.and_eq_true, disjoint_iff] at hnc
  obtain ⟨⟨h1, h2⟩, h3⟩ := hnc
  constructor
  · intro n hc
    cases hr : s2.mem .refs d n with
    | none => rfl
    | some _ =>
      exfalso
      exact h1 n (names_in_allNames R d hd hdi .cells n hc)
        (names_in_allNames R d hd hdi .refs n (by rw [hr]; rfl))
  · intro n hn
    constructor
    · cases hr : s2.mem .cells d n with
      | none => rfl
      | some _ => exact absurd hn (h2 n (names_in_allNames R d hd hdi .cells n (by rw [hr]; rfl)))
    · cases hr : s2.mem .refs d n with
      | none => rfl
      | some _ => exact absurd hn (h3 n (names_in_allNames R d hd hdi .refs n (by rw [hr]; rfl)))

theorem mem_dedupLast (l : List Path) (x : Path) : x ∈ dedupLast l ↔ x ∈ l := by
  unfold dedupLast
  simp [List.mem_eraseDups]

/-! ## `addBases` -/

theorem of_not_not_true {b : Bool} (h : ¬ (!b) = true) : b = true := by
  cases b <;> simp_all

theorem inv_addBases (st st' : St) (h : Inv st) (p : Path) (bs : List Path)
    (hop : st.addBases p bs = some st') : Inv st' := by
  unfold St.addBases at hop
  split at hop
  · cases hop
  · rename_i hhas
    simp only at hop
    split at hop
    · cases hop
    · rename_i hmro
      split at hop
      · cases hop
      · rename_i hconf
        simp only [Option.some.injEq] at hop
        subst hop
        generalize hst1 : st.upd p (fun s =>
          { s with bases := List.filter (fun b => !(dedupLast bs).contains b) s.bases ++ dedupLast bs }) = st1
          at hmro hconf
        have hbsall : ∀ b ∈ bs, b ∈ st.ids := by
          intro b hb
          have : bs.all st.has = true := by
            cases hx : bs.all st.has with
            | true => rfl
            | false => rw [hx] at hhas; simp at hhas
          rw [← has_iff_mem_ids]
          exact List.all_eq_true.mp this b hb
        have hids : st1.ids = st.ids := by rw [← hst1]; exact ids_upd st p _ (fun _ => rfl)
        have hlen : st1.spaces.length = st.spaces.length := by rw [← hst1]; exact length_upd st p _
        have hcont : ∀ a q, st1.cont a q = st.cont a q := by
          intro a q; rw [← hst1]
          exact cont_upd_bases st p (fun l => l.filter (fun b => !(dedupLast bs).contains b) ++ dedupLast bs) a q
        have hbases : ∀ q, st1.basesOf q =
            if q = p ∧ p ∈ st.ids then
              (st.basesOf p).filter (fun b => !(dedupLast bs).contains b) ++ dedupLast bs
            else st.basesOf q := by
          intro q; rw [← hst1]
          exact basesOf_upd_bases st p (fun l => l.filter (fun b => !(dedupLast bs).contains b) ++ dedupLast bs) q
        have hwf1 : WF st1 := by
          refine ⟨by rw [hids]; exact h.wf.nodup, ?_, all_mro_isSome st1 hmro, fun a q => by
            rw [hcont]; exact h.wf.keys a q, by rw [hids]; exact h.wf.tree⟩
          intro q b hb
          rw [hids]
          rw [hbases] at hb
          split at hb
          · simp only [List.mem_append, List.mem_filter] at hb
            rcases hb with hb | hb
            · exact h.wf.bases p b hb.1
            · exact hbsall b ((mem_dedupLast bs b).mp hb)
          · exact h.wf.bases q b hb
        have htail : ∀ q ∈ st1.ids, q ∉ p :: st1.subs p → st1.tail q = st.tail q := by
          intro q hqi hq
          simp only [List.mem_cons, not_or] at hq
          have hpt : p ∉ st1.tail q := not_mem_tail_of_not_sub p q hqi hq.1 hq.2
          symm
          apply tail_eq_of_mro_transfer st1 st q (hwf1.mro_all q) _ (by omega)
          intro x hx
          rw [hbases]
          have : x ≠ p := by
            intro e; subst e
            simp only [List.mem_cons] at hx
            rcases hx with hx | hx
            · exact hq.1 hx.symm
            · exact hpt hx
          simp [this]
        have R := rederived_updateAll st1 hwf1.keys (p :: st1.subs p)
        refine ⟨hwf1.of_shape R.shape R.keys,
          good_rebase st st1 h hwf1 (fun a q _ => hcont a q) _ htail, ?_⟩
        have hchild : ∀ q, (st1.updateAll (p :: st1.subs p)).childNames q = st.childNames q := by
          intro q; rw [R.shape.childNames, childNames_eq, childNames_eq, hids]
        have hglob : (st1.updateAll (p :: st1.subs p)).globals = st.globals := by
          rw [R.shape.globals, ← hst1]; rfl
        have hconf' : ∀ d ∈ p :: st1.subs p, d ∈ st1.ids →
            st1.noConflict (d :: st1.tail d) (st1.childNames d) = true := by
          intro d hd _
          have hc := of_not_not_true hconf
          have := List.all_eq_true.mp hc d hd
          rw [hwf1.mro_all d] at this
          exact this
        have hold : ∀ a q n, q ∉ p :: st1.subs p →
            (st1.updateAll (p :: st1.subs p)).mem a q n = st.mem a q n := by
          intro a q n hq
          rw [St.mem_eq, R.other a q hq, hcont, ← St.mem_eq]
        have hch1 : ∀ q, st1.childNames q = st.childNames q := by
          intro q; rw [childNames_eq, childNames_eq, hids]
        refine ⟨?_, ?_, ?_⟩
        · intro q n hc
          by_cases hq : q ∈ p :: st1.subs p
          · by_cases hqi : q ∈ st1.ids
            · exact (disj_of_noConflict R q hq hqi _ (hconf' q hq hqi)).1 n hc
            · exact St.mem_of_not_mem _ .refs q n (by rw [R.shape.ids]; exact hqi)
          · rw [hold .cells q n hq] at hc
            rw [hold .refs q n hq]
            exact h.disj.cr q n hc
        · intro q n hn
          rw [hchild] at hn
          by_cases hq : q ∈ p :: st1.subs p
          · by_cases hqi : q ∈ st1.ids
            · exact (disj_of_noConflict R q hq hqi _ (hconf' q hq hqi)).2 n (by rw [hch1]; exact hn)
            · exact ⟨St.mem_of_not_mem _ .cells q n (by rw [R.shape.ids]; exact hqi),
                St.mem_of_not_mem _ .refs q n (by rw [R.shape.ids]; exact hqi)⟩
          · rw [hold .cells q n hq, hold .refs q n hq]
            exact h.disj.child q n hn
        · intro n hn
          rw [hglob] at hn
          rw [hchild]
          exact h.disj.glob n hn

end MxModel.SM
