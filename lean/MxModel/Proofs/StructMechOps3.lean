import MxModel.Proofs.StructMechOps2
/-!
# Preservation of `Inv` by `removeBases` and `addBases`

Common part (`good_rebase`): the base relation changed, every space whose linearisation may have
changed is re-derived; the other spaces keep their members, their linearisation and the definitions
along it.
-/
namespace MxModel.SM
open MxModel.C3

/-- after an edit of the base relation followed by re-derivation of `ds` -/
theorem good_rebase (st st1 : St) (h : Inv st) (hwf1 : WF st1)
    (hcont : ∀ a q, q ∈ st1.ids → st1.cont a q = st.cont a q) (ds : List Path)
    (htail : ∀ q ∈ st1.ids, q ∉ ds → st1.tail q = st.tail q) :
    ∀ a q n, Good1 (st1.updateAll ds) a q n := by
  apply good_updateAll_all st1 hwf1.keys
  intro a q n hq
  by_cases hqi : q ∈ st1.ids
  · have ht := htail q hqi hq
    refine (h.good a q n).congr ?_ ht ?_
    · rw [St.mem_eq, St.mem_eq, hcont a q hqi]
    · intro b hb
      have hbi : b ∈ st1.ids := hwf1.tail_mem_ids q b (by rw [ht]; exact hb)
      unfold St.defd
      rw [St.mem_eq, St.mem_eq, hcont a b hbi]
  · exact Good1.of_not_mem st1 a q n hqi

/-! ## a state that differs from `st` in the direct bases of `p` only -/

theorem cont_upd_bases (st : St) (p : Path) (g : List Path → List Path) (a : Attr) (q : Path) :
    (st.upd p (fun s => { s with bases := g s.bases })).cont a q = st.cont a q := by
  unfold St.cont
  rw [find_upd st p (fun s => { s with bases := g s.bases }) (fun _ => rfl)]
  by_cases hqp : q = p
  · subst hqp
    simp only [if_true]
    cases st.find q with
    | none => rfl
    | some s => cases a <;> rfl
  · simp [hqp]

theorem basesOf_upd_bases (st : St) (p : Path) (g : List Path → List Path) (q : Path) :
    (st.upd p (fun s => { s with bases := g s.bases })).basesOf q =
      if q = p ∧ p ∈ st.ids then g (st.basesOf p) else st.basesOf q := by
  unfold St.basesOf
  rw [find_upd st p (fun s => { s with bases := g s.bases }) (fun _ => rfl)]
  by_cases hqp : q = p
  · subst hqp
    simp only [if_true, true_and]
    cases hf : st.find q with
    | none =>
      have := (find_none_iff st q).mp hf
      simp [this]
    | some s =>
      have : q ∈ st.ids := (find_isSome_iff st q).mp (by rw [hf]; rfl)
      simp [this]
  · simp [hqp]

/-- where both states have the same linearisations -/
theorem tail_eq_of_mro_transfer (st st' : St) (q : Path) (hm : st.mro q = some (q :: st.tail q))
    (hb : ∀ x ∈ q :: st.tail q, st'.basesOf x = st.basesOf x) (hl : st.spaces.length ≤ st'.spaces.length) :
    st'.tail q = st.tail q := by
  have : st'.mro q = some (q :: st.tail q) := by
    unfold St.mro at hm ⊢
    exact mro_transfer_le st.basesOf st'.basesOf _ _ q _ hm hb (by omega)
  unfold St.tail
  rw [this]
  rfl

theorem all_mro_isSome (st : St) (h : (!st.ids.all (fun q => (st.mro q).isSome)) ≠ true) :
    ∀ q ∈ st.ids, (st.mro q).isSome = true := by
  intro q hq
  cases h' : st.ids.all (fun q => (st.mro q).isSome) with
  | true => exact List.all_eq_true.mp h' q hq
  | false => rw [h'] at h; exact absurd rfl h

/-! ## `removeBases` -/

theorem inv_removeBases (st st' : St) (h : Inv st) (p : Path) (bs : List Path)
    (hop : st.removeBases p bs = some st') : Inv st' := by
  unfold St.removeBases at hop
  split at hop
  · cases hop
  · split at hop
    · cases hop
    · simp only at hop
      split at hop
      · cases hop
      · rename_i hmro
        simp only [Option.some.injEq] at hop
        subst hop
        generalize hst1 : st.upd p (fun s => { s with bases := s.bases.filter (fun b => !bs.contains b) }) = st1
          at hmro
        have hids : st1.ids = st.ids := by rw [← hst1]; exact ids_upd st p _ (fun _ => rfl)
        have hlen : st1.spaces.length = st.spaces.length := by rw [← hst1]; exact length_upd st p _
        have hcont : ∀ a q, st1.cont a q = st.cont a q := by
          intro a q; rw [← hst1]; exact cont_upd_bases st p _ a q
        have hbases : ∀ q, st1.basesOf q =
            if q = p ∧ p ∈ st.ids then (st.basesOf p).filter (fun b => !bs.contains b) else st.basesOf q := by
          intro q; rw [← hst1]; exact basesOf_upd_bases st p _ q
        have hbsub : ∀ q, st1.basesOf q ⊆ st.basesOf q := by
          intro q b hb
          rw [hbases] at hb
          split at hb
          · rename_i hc; rw [hc.1]; exact (List.mem_filter.mp hb).1
          · exact hb
        have hwf1 : WF st1 := by
          refine ⟨by rw [hids]; exact h.wf.nodup, ?_, all_mro_isSome st1 hmro, fun a q => by
            rw [hcont]; exact h.wf.keys a q, by rw [hids]; exact h.wf.tree⟩
          intro q b hb
          rw [hids]
          exact h.wf.bases q b (hbsub q hb)
        have htail : ∀ q ∈ st1.ids, q ∉ p :: st.subs p → st1.tail q = st.tail q := by
          intro q hqi hq
          rw [hids] at hqi
          simp only [List.mem_cons, not_or] at hq
          have hpt : p ∉ st.tail q := not_mem_tail_of_not_sub p q hqi hq.1 hq.2
          apply tail_eq_of_mro_transfer st st1 q (h.wf.mro_all q) _ (by omega)
          intro x hx
          rw [hbases]
          have : x ≠ p := by
            intro e; subst e
            simp only [List.mem_cons] at hx
            rcases hx with hx | hx
            · exact hq.1 hx.symm
            · exact hpt hx
          simp [this]
        have R := rederived_updateAll st1 hwf1.keys (p :: st.subs p)
        refine ⟨hwf1.of_shape R.shape R.keys,
          good_rebase st st1 h hwf1 (fun a q _ => hcont a q) _ htail, ?_⟩
        -- names only disappear
        have hchild : ∀ q, (st1.updateAll (p :: st.subs p)).childNames q = st.childNames q := by
          intro q; rw [R.shape.childNames, childNames_eq, childNames_eq, hids]
        have hglob : (st1.updateAll (p :: st.subs p)).globals = st.globals := by
          rw [R.shape.globals, ← hst1]; rfl
        refine h.disj.mono ?_ (fun q n hn => by rw [hchild] at hn; exact hn)
          (fun n hn => by rw [hglob] at hn; exact hn)
        intro a q n hh
        have hmem1 : ∀ a q n, st1.mem a q n = st.mem a q n := by
          intro a q n; rw [St.mem_eq, St.mem_eq, hcont]
        by_cases hq : q ∈ p :: st.subs p
        · by_cases hqi : q ∈ st1.ids
          · rw [R.names a q n hq hqi] at hh
            rcases hh with hh | hh
            · unfold St.defd at hh
              rw [hmem1] at hh
              cases hmm : st.mem a q n with
              | none => rw [hmm] at hh; cases hh
              | some _ => rfl
            · cases hf : st1.firstDef a (st1.tail q) n with
              | none => rw [hf] at hh; cases hh
              | some d =>
                obtain ⟨h1, h2⟩ := firstDef_some st1 a _ n d.1 d.2 hf
                have hsub := mro_subset_of_bases_subset st.basesOf st1.basesOf hbsub _ _ q _ _
                  (h.wf.mro_all q) (hwf1.mro_all q)
                  (fun x _ => ⟨_, h.wf.mro_all x⟩)
                have hd1 : d.1 ∈ q :: st.tail q := hsub (List.mem_cons_of_mem _ h1)
                have hne : d.1 ≠ q := fun e => hwf1.not_mem_tail_self q (e ▸ h1)
                simp only [List.mem_cons, hne, false_or] at hd1
                apply h.mem_isSome_of_base a d.1 q n hd1
                unfold St.defd at h2
                rw [hmem1] at h2
                cases hmm : st.mem a d.1 n with
                | none => rw [hmm] at h2; cases h2
                | some _ => rfl
          · rw [St.mem_of_not_mem _ a q n (by rw [R.shape.ids]; exact hqi)] at hh; cases hh
        · rw [St.mem_eq, R.other a q hq, hcont, ← St.mem_eq] at hh
          exact hh

end MxModel.SM
